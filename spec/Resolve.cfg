CONSTANT AllowOverlap = FALSE
INIT Init
NEXT Next
INVARIANTS AlgoIsMeaning OverlapIsTheOnlyDeviation ForReceiver TraitFormsAgree InherentFormsAgree AmbiguousRefused Emit
CHECK_DEADLOCK FALSE
