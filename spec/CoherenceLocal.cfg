INIT Init
NEXT Next
INVARIANTS CleanIsClean Emit
CHECK_DEADLOCK FALSE
