----------------------------- MODULE SemCommon -----------------------------
(***************************************************************************)
(* Value-level definitions shared by the two executable semantics          *)
(* (GomlSem: source meaning, GoSem: meaning of the emitted Go): fixed-width *)
(* integer types over IntN, exact dyadic floats, decimal rendering.         *)
(***************************************************************************)
EXTENDS Integers, Sequences, IntN

VFloat(t, num, den) == [k |-> "float", t |-> t, num |-> num, den |-> den]
VBad(why) == [k |-> "bad", why |-> why]        \* outside the modelled subset

SIntTypes == {"int8", "int16", "int32", "int64", "int"}
UIntTypes == {"uint8", "uint16", "uint32", "uint64", "uint", "byte"}
IntTypes == SIntTypes \cup UIntTypes
FloatTypes == {"float32", "float64"}
Bits(t) == CASE t \in {"int8", "uint8", "byte"} -> 8 [] t \in {"int16", "uint16"} -> 16
             [] t \in {"int32", "uint32"} -> 32 [] OTHER -> 64
Signed(t) == t \in SIntTypes
WrapT(t, n) == IF t = "untyped" THEN n ELSE Wrap(Bits(t), Signed(t), n)


\* ---------------------------------------------------------------- floats: exact dyadic rationals
RECURSIVE Gcd(_, _)
Gcd(a, b) == IF b = 0 THEN a ELSE Gcd(b, a % b)
IsPow2(n) == n \in {2 ^ i : i \in 0..24}
FNorm(t, num, den) ==       \* den > 0
  IF NAbs(num) >= 1073741824 \/ den >= 1073741824 THEN VBad("float out of the modelled range")
  ELSE LET g == Gcd(NAbs(num), den) n == IF g = 0 THEN 0 ELSE num \div g d == IF g = 0 THEN 1 ELSE den \div g IN
       IF IsPow2(d) /\ NAbs(n) < 16777216 THEN VFloat(t, n, d)       \* exactly representable in float32 and float64
       ELSE VBad("float result not exactly representable (rounding not modelled)")
FloatOfLit(e, t) == IF e.exact THEN FNorm(t, e.num, e.den) ELSE VBad("float literal")


\* %v of a float with a finite short decimal expansion (dyadic, small exponent)
RECURSIVE FracDigits(_, _, _)
FracDigits(r, den, n) == IF r = 0 \/ n = 0 THEN <<>> ELSE <<48 + ((r * 10) \div den)>> \o FracDigits((r * 10) % den, den, n - 1)
FloatV(v) ==
  LET a == NAbs(v.num) ip == a \div v.den fr == a % v.den IN
  IF v.den > 65536 \/ ip >= 2097152 THEN <<63>>          \* exponent form not modelled ('?' marks it; callers check FloatOK)
  ELSE (IF v.num < 0 THEN <<45>> ELSE <<>>) \o SmallDigits(ip) \o (IF fr = 0 THEN <<>> ELSE <<46>> \o FracDigits(fr, v.den, 20))
FloatOK(v) == v.den <= 65536 /\ (NAbs(v.num) \div v.den) < 2097152 /\ (v.num = 0 \/ NAbs(v.num) * 10000 >= v.den)


BoolBytes(b) == IF b THEN <<116, 114, 117, 101>> ELSE <<102, 97, 108, 115, 101>>
=============================================================================
