-------------------------------- MODULE Names --------------------------------
(***************************************************************************)
(* Name spaces of the emitted Go (C19).                                      *)
(*                                                                           *)
(* Part 1 (generator): the universe of entities whose Go names are compared: *)
(*   internal names over an alphabet with the separators the compiler uses   *)
(*   (`::` `#` `[` `]` `,` `_`), hostile identifiers (Go keywords,           *)
(*   predeclared identifiers, runtime helpers, temporaries), and types up to *)
(*   nesting depth 2.  Emitted as requests for the real naming functions.    *)
(* Part 2 (acceptor): the recorded table of (function, input, output) must   *)
(*   satisfy: every naming function is injective on its name space, every    *)
(*   output is a legal Go identifier and not a keyword, and no *user-legal*   *)
(*   identifier is mapped into the reserved set.                              *)
(***************************************************************************)
EXTENDS Integers, Sequences, FiniteSets, TLC, Json, IOUtils

\* ---------------------------------------------------------------- Part 1
Chars == {"a", "B", "_", "1", "::", "#", "[", "]", ","}
RECURSIVE Strs(_)
Strs(n) == IF n = 0 THEN {""} ELSE LET S == Strs(n - 1) IN S \cup {s \o c : s \in S, c \in Chars}

GoKeywords == {"break", "default", "func", "interface", "select", "case", "defer", "go", "map", "struct", "chan", "else", "goto",
               "package", "switch", "const", "fallthrough", "if", "range", "type", "continue", "for", "import", "return", "var"}
Predeclared == {"len", "append", "cap", "copy", "new", "make", "panic", "print", "println", "string", "int", "int8", "int16", "int32", "int64",
                "uint8", "uint16", "uint32", "uint64", "float32", "float64", "bool", "byte", "rune", "error", "any", "nil", "true", "false", "iota"}
RuntimeNames == {"fmt", "main", "main0", "init", "missing", "int32_to_string", "bool_to_string", "unit_to_string", "string_println", "string_print",
                 "string_len", "string_get", "json_escape_string", "bool_to_json", "int8_to_string", "uint64_to_string", "float64_to_string"}
TempLike == {"t0", "t5", "t12", "ret3", "mtmp0", "x1", "env3", "cond1", "jp2"}
Hostile == GoKeywords \cup Predeclared \cup RuntimeNames \cup TempLike
           \cup {"Tuple2_int32_bool", "Array2_int32", "Vec_int32", "Ptr_ref_int32_x", "closure_env_f_0", "dyn__Tr", "dyn__Tr_vtable", "ref__Ref_int32",
                 "array_get__Array_2_int32", "_goml_x", "a__1", "x__0"}
\* names the emitted Go relies on and that a goml user is able to write (goml's own type names string, int32, bool, .. are keywords there)
ReliedUpon == {"len", "append", "panic", "println", "any", "nil", "true", "false", "fmt", "main0", "init", "missing"}
Reserved == GoKeywords \cup ReliedUpon

\* types (the replay driver converts them to the compiler's serde form)
P(n) == [k |-> "prim", n |-> n]
St(n) == [k |-> "struct", n |-> n]
En(n) == [k |-> "enum", n |-> n]
Prim == {P("TInt32"), P("TBool"), P("TString"), P("TUnit"), P("TInt8")}
Nom == {St("S"), St("A::S"), En("E"), St("S_int32")}
T0 == Prim \cup Nom
Tup2(S) == {[k |-> "tuple", typs |-> <<a, b>>] : a \in S, b \in S}
Tup3(S) == {[k |-> "tuple", typs |-> <<a, b, c>>] : a \in S, b \in S, c \in S}
Wrap(S) == {[k |-> "vec", elem |-> a] : a \in S} \cup {[k |-> "ref", elem |-> a] : a \in S}
           \cup {[k |-> "array", len |-> n, elem |-> a] : n \in {2, 12}, a \in S}
           \cup {[k |-> "func", params |-> <<a>>, ret |-> b] : a \in S, b \in S}
           \cup {[k |-> "func", params |-> <<>>, ret |-> b] : b \in S}
           \cup {[k |-> "func", params |-> <<a, b>>, ret |-> P("TUnit")] : a \in S, b \in S}
App(S) == {[k |-> "app", base |-> St("Box"), args |-> <<a>>] : a \in S}
          \cup {[k |-> "app", base |-> En("Pair"), args |-> <<a, b>>] : a \in S, b \in S}
Small == {P("TInt32"), P("TBool"), St("S")}
T1 == T0 \cup Tup2(Small) \cup Wrap(Small)
MonoTypes == T1 \cup Tup2(Small \cup Tup2(Small)) \cup Tup3(Small) \cup Wrap(Tup2(Small) \cup Wrap(Small))
AllTypes == MonoTypes \cup App(Small) \cup App(Tup2(Small) \cup App(Small))

\* ---------------------------------------------------------------- Part 2 (over the recorded table)
Table == IF "TABLE" \in DOMAIN IOEnv THEN ndJsonDeserialize(IOEnv.TABLE) ELSE <<>>
Rows(f) == {i \in DOMAIN Table : Table[i].f = f}
Injective(f) == \A i, j \in Rows(f) : Table[i].out = Table[j].out => Table[i].inp = Table[j].inp
IsLetter(b) == (b >= 65 /\ b <= 90) \/ (b >= 97 /\ b <= 122) \/ b = 95
IsDigit(b) == b >= 48 /\ b <= 57
LegalGoIdent(bs) == bs # <<>> /\ IsLetter(bs[1]) /\ \A k \in DOMAIN bs : IsLetter(bs[k]) \/ IsDigit(bs[k])
Legal(f) == \A i \in Rows(f) : LegalGoIdent(Table[i].outb) /\ Table[i].out \notin GoKeywords
\* a name the user may write (letters, digits, underscore, starting with a letter) must not land on a reserved Go name
UserLegal(bs) == bs # <<>> /\ ((bs[1] >= 65 /\ bs[1] <= 90) \/ (bs[1] >= 97 /\ bs[1] <= 122)) /\ \A k \in DOMAIN bs : IsLetter(bs[k]) \/ IsDigit(bs[k])
Capturing == {i \in Rows("go_ident") : UserLegal(Table[i].inb) /\ Table[i].out \in Reserved}
Collisions(f) == {<<i, j>> \in Rows(f) \X Rows(f) : i < j /\ Table[i].out = Table[j].out /\ Table[i].inp # Table[j].inp}
=============================================================================
