------------------------------- MODULE NameUse -------------------------------
(***************************************************************************)
(* C16, naming: "a package can name only its own items, builtins and items  *)
(* of packages it imports" -- in every syntactic position where an item can *)
(* be named.                                                                *)
(*                                                                          *)
(* The project: package B declares a struct T, an enum E with a variant V,  *)
(* a trait Tr (implemented for T and for int32) and a function f; package A *)
(* imports B and hands B's values on (make() -> B::T, mke() -> B::E); the   *)
(* root package imports A and -- this is the configuration -- B or not.     *)
(* One item of B is named in one position of the root package, possibly     *)
(* inside a type constructor.  Values of B's types are obtained through A,  *)
(* so that the position under test is the only place where B is named.      *)
(*                                                                          *)
(* Rule: the program is accepted iff B is imported.  The control position   *)
(* "none" names nothing of B (its values flow through unannotated lets):    *)
(* accepted either way.                                                     *)
(***************************************************************************)
EXTENDS Integers, Sequences, FiniteSets, TLC, Json

\* positions of a type name
TypePositions == {"let-annotation", "fn-parameter", "fn-result", "closure-parameter", "struct-field", "enum-payload",
                  "impl-target", "trait-method-signature", "extern-signature"}
\* how the type is wrapped there
Wraps == {"bare", "tuple", "vec", "fn-type", "array", "ref"}
\* positions of other names
OtherPositions == {"struct-literal", "constructor-expression", "constructor-pattern", "struct-pattern", "function-call", "function-value",
                   "trait-method-call", "trait-bound", "dyn-type", "impl-trait", "assoc-function"}

VARIABLES pos, wrap, imported
vars == <<pos, wrap, imported>>
Init == /\ imported \in BOOLEAN
        /\ \/ pos \in TypePositions /\ wrap \in Wraps
           \/ pos \in OtherPositions /\ wrap = "bare"
           \/ pos = "none" /\ wrap = "bare"
Next == UNCHANGED vars

NamesB == pos # "none"
Legal == NamesB => imported
\* sanity: the control never depends on the import, every other position does
ControlIsFree == pos = "none" => Legal
Emit == PrintT(<<"NAMEUSE", ToJson([pos |-> pos, wrap |-> wrap, imported |-> imported, legal |-> Legal])>>)
=============================================================================
