SPECIFICATION SimSpec
CONSTANTS
  Pkgs <- Fan3
  Deps <- Fan3Deps
  MaxI = 3
  MaxB = 3
  MaxCorrupt = 2
  Depth = 16
  IfaceKinds <- IKinds
  BodyKinds <- BKinds
INVARIANTS Emit LinkSafe
CONSTRAINT Bound
CHECK_DEADLOCK FALSE
