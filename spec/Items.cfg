INIT Init
NEXT Next
INVARIANTS RoundTrip Emit
CHECK_DEADLOCK FALSE
