SPECIFICATION Spec
CONSTANTS
  GridRows = 2
  MaxRows = 2
  Scrutinees <- Small
  PatDepth = 1
  MinRows = 1
INVARIANTS FirstMatchIsFirst WildcardLastIsTotal
CHECK_DEADLOCK FALSE
