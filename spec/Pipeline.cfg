SPECIFICATION Spec
CONSTANT MaxDiags = 2
INVARIANTS TypeOK ErrHasDiagnostics OkHasNoErrors
PROPERTIES StopsAtFirstError Terminates
CHECK_DEADLOCK FALSE
