SPECIFICATION Spec
CONSTANTS
  MaxRows = 4
  Scrutinees <- AllScrut
  PatDepth = 2
  MinRows = 2
INVARIANTS FirstMatchIsFirst WildcardLastIsTotal Emit
CHECK_DEADLOCK FALSE
