SPECIFICATION Spec
CONSTANTS
  Fns <- F2
  MaxDepth = 4
  Dedup = TRUE
  NameFn <- GoodName
INVARIANTS Once Complete Injective NoDivergeIfFinite RefusedOnlyIfInfinite
PROPERTIES Terminates AlwaysEnds
CHECK_DEADLOCK FALSE
