SPECIFICATION Spec
CONSTANTS
  Fns <- F2
  MaxDepth = 4
  Dedup = TRUE
  NameFn <- GoodName
INVARIANTS Once Complete Injective NoDivergeIfFinite
PROPERTY Terminates
CHECK_DEADLOCK FALSE
