SPECIFICATION Spec
CONSTANTS
  Fns <- F2
  MaxDepth = 4
  Dedup = TRUE
  NameFn <- GoodName
INVARIANTS Once OnceEquiv Complete Injective DoneIffFinite Bookkeeping
PROPERTIES AlwaysEnds
CHECK_DEADLOCK FALSE
