------------------------------ MODULE Layouts ------------------------------
(***************************************************************************)
(* Generator of package directory layouts for C04: the entry file of a      *)
(* project and the state of the directories its imports resolve to.         *)
(* Every combination is one state; the driver materialises it on disk and   *)
(* runs the real entry points on it.                                        *)
(***************************************************************************)
EXTENDS Integers, Sequences, FiniteSets, TLC, Json

\* what the entry file main.gom imports
Imports == {"none", "A", "A-twice", "self", "missing", "A-and-B", "nested"}
\* state of a package directory
DirStates == {"absent", "empty-dir", "valid", "two-files", "other-package-name", "no-package-line", "garbage", "empty-file", "not-utf8",
              "imports-main", "imports-itself", "file-instead-of-dir", "duplicate-definition"}
\* what else lies next to main.gom
Siblings == {"none", "second-file-same-package", "second-file-other-package", "garbage-file", "long-file-with-late-error", "non-gom-file"}

VARIABLES imp, dirA, dirB, sib
vars == <<imp, dirA, dirB, sib>>
Init == imp \in Imports /\ dirA \in DirStates /\ dirB \in DirStates /\ sib \in Siblings
        \* dirB matters only when something can reach it
        /\ (imp \notin {"A-and-B", "nested"} => dirB = "absent")
Next == UNCHANGED vars
Emit == PrintT(<<"LAYOUT", ToJson([imp |-> imp, dirA |-> dirA, dirB |-> dirB, sib |-> sib])>>)
=============================================================================
