SPECIFICATION SweepSpec
CONSTANTS
  Pkgs <- Tri3
  Deps <- Tri3Deps
  MaxI = 3
  MaxB = 3
  MaxCorrupt = 0
  Depth = 5
  IfaceKinds <- IKinds
  BodyKinds <- BKinds
INVARIANTS Emit LinkSafe
CONSTRAINT Bound
CHECK_DEADLOCK FALSE
