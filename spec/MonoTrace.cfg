INIT TInit
NEXT TNext
CONSTANTS
  Fns <- NoFns
  MaxDepth = 0
  Dedup = TRUE
  NameFn <- NoNames
INVARIANTS TraceInv Finished
CHECK_DEADLOCK FALSE
