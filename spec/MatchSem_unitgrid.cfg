INIT UnitGridInit
NEXT UnitGridNext
CONSTANTS
  GridRows = 2
  MaxRows = 4
  Scrutinees <- AllScrut
  PatDepth = 1
  MinRows = 2
INVARIANT Emit
CHECK_DEADLOCK FALSE
