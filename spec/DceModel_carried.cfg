SPECIFICATION Spec
CONSTANTS
  Vars = {"x"}
  MaxLen = 2
  InnerLen = 2
  LoopCarried = TRUE
  SelfAssign = FALSE
  FailIsEffect = TRUE
INVARIANTS SameEffects ValidGo Idempotent
CHECK_DEADLOCK FALSE
