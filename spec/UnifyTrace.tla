------------------------------ MODULE UnifyTrace ------------------------------
(***************************************************************************)
(* Trace validation of the real unifier against Unify.tla.  The hook in      *)
(* Typer::solve (--cfg goml_verif) reports every TypeEqual constraint it     *)
(* hands to Typer::unify: both sides normalised against the unifier's store  *)
(* before the call, whether the call succeeded, both sides normalised after  *)
(* it.  Normalised sides mention only unbound variables, so a recorded call  *)
(* is a call of the model on the empty store.  A call is accepted when       *)
(*   - the verdict is the model's (U on the empty store),                    *)
(*   - the sides after the call are the sides before it with variables       *)
(*     instantiated, nothing else changed (the store only grows),            *)
(*   - after success the two sides are the same type up to the wildcard      *)
(*     array length, and they are the model's result up to the choice of     *)
(*     representative variables (most general: nothing was instantiated      *)
(*     that did not have to be).                                             *)
(* "field_ok" is the second call site (a field access resolved): only the    *)
(* state after a success is reported.  IOEnv.UNIFY holds many programs       *)
(* ("reset" starts one).                                                     *)
(***************************************************************************)
EXTENDS Unify, Json, IOUtils

Rec == ndJsonDeserialize(IOEnv.UNIFY)
VARIABLES l, bad, ncalls
all == <<l, bad, ncalls>>
Ev == Rec[l]

Pair(x, y) == Tup(<<x, y>>)
RECURSIVE Match(_, _, _), MatchList(_, _, _, _)
Match(m, p, t) ==
  IF ~m.ok THEN m
  ELSE IF p.k = "var" THEN (IF m.m[p.v].k = "none" THEN [m EXCEPT !.m[p.v] = t]
                            ELSE IF m.m[p.v] = t THEN m ELSE [m EXCEPT !.ok = FALSE])
  ELSE IF p.k # t.k \/ p.n # t.n \/ p.v # t.v \/ Len(p.a) # Len(t.a) THEN [m EXCEPT !.ok = FALSE]
  ELSE MatchList(m, p.a, t.a, 1)
MatchList(m, pa, ta, i) == IF i > Len(pa) \/ ~m.ok THEN m ELSE MatchList(Match(m, pa[i], ta[i]), pa, ta, i + 1)
Inst(p, t) == Match([ok |-> TRUE, m |-> [v \in Vars(p) |-> None]], p, t).ok
Variant(p, t) == Inst(p, t) /\ Inst(t, p)

Model(e) == U([v \in Vars(e.l) \cup Vars(e.r) |-> None], e.l, e.r)
VerdictOk(e) == Model(e).ok = e.ok
GrowsOk(e) == Inst(Pair(e.l, e.r), Pair(e.l2, e.r2))
UnifiedOk(e) == e.ok => Compat(e.l2, e.r2)
GeneralOk(e) == e.ok => LET m == Model(e) IN m.ok => Variant(Pair(Norm(m.st, e.l), Norm(m.st, e.r)), Pair(e.l2, e.r2))
CallOk(e) == VerdictOk(e) /\ GrowsOk(e) /\ UnifiedOk(e) /\ GeneralOk(e)

TInit == l = 1 /\ bad = 0 /\ ncalls = 0 /\ st = <<>> /\ prev = <<>> /\ last = 0 /\ calls = 0
Step == /\ l <= Len(Rec) /\ UNCHANGED vars
        /\ l' = l + 1
        /\ IF Ev.ev = "reset" THEN UNCHANGED <<bad, ncalls>>
           ELSE IF Ev.ev = "field_ok" THEN
                  /\ ncalls' = ncalls + 1
                  /\ IF Compat(Ev.l, Ev.r) THEN UNCHANGED bad
                     ELSE /\ PrintT(<<"UNIFYREJECT", ToJson([at |-> l, verdict |-> TRUE, grows |-> TRUE, unified |-> FALSE, general |-> TRUE])>>)
                          /\ bad' = bad + 1
           ELSE /\ ncalls' = ncalls + 1
                /\ IF CallOk(Ev) THEN UNCHANGED bad
                   ELSE /\ PrintT(<<"UNIFYREJECT", ToJson([at |-> l, verdict |-> VerdictOk(Ev), grows |-> GrowsOk(Ev), unified |-> UnifiedOk(Ev), general |-> GeneralOk(Ev)])>>)
                        /\ bad' = bad + 1
TNext == Step
Finished == l = Len(Rec) + 1 => PrintT(<<"UNIFYDONE", ToJson([events |-> Len(Rec), rejected |-> bad, calls |-> ncalls])>>)
=============================================================================
