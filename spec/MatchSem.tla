------------------------------ MODULE MatchSem ------------------------------
(***************************************************************************)
(* First-match semantics of goml patterns over a small type universe, and  *)
(* a generator of pattern matrices (C06).                                   *)
(*                                                                          *)
(*   Matches(p, v)      p matches v                                         *)
(*   Binds(p, v)        the values bound by p's variables, left to right    *)
(*   FirstMatch(rows,v) index of the first matching row (0 = none) and its  *)
(*                      bindings                                            *)
(* The machine builds a matrix row by row (AddRow) for a scrutinee type     *)
(* chosen in Init; every finished matrix is emitted with the expected       *)
(* outcome for *every* value of the type.  Decision-tree compilation        *)
(* (compile_match.rs) must agree with FirstMatch on all of them; the        *)
(* comparison is by behaviour, so a different but correct column heuristic  *)
(* raises no alarm.                                                         *)
(***************************************************************************)
EXTENDS Integers, Sequences, FiniteSets, TLC, Json, SequencesExt

CONSTANTS MaxRows,      \* rows per matrix
          Scrutinees,   \* set of type names to generate matrices for
          PatDepth,     \* nesting depth of constructor / tuple patterns
          MinRows       \* a matrix is finished only with at least this many rows

VARIABLES ty, rows, done
vars == <<ty, rows, done>>

\* ---------------------------------------------------------------- type universe
TBool == [k |-> "bool"]
TInt == [k |-> "int"]
TStr == [k |-> "str"]
TUnit == [k |-> "unit"]
TTup(ts) == [k |-> "tuple", ts |-> ts]
TEnum(n) == [k |-> "enum", n |-> n]
TStruct(n) == [k |-> "struct", n |-> n]

\* enum E2 { P, Q(bool) }   enum E3 { A, B(bool), C(bool, E2) }   enum M[T] { None, Some(T) } at bool and E2
Variants(n) ==
  CASE n = "E2" -> << [v |-> "P", ts |-> <<>>], [v |-> "Q", ts |-> <<TBool>>] >>
    [] n = "E3" -> << [v |-> "A", ts |-> <<>>], [v |-> "B", ts |-> <<TBool>>], [v |-> "C", ts |-> <<TBool, TEnum("E2")>>] >>
    [] n = "M_bool" -> << [v |-> "None", ts |-> <<>>], [v |-> "Some", ts |-> <<TBool>>] >>
    [] n = "M_E2" -> << [v |-> "None", ts |-> <<>>], [v |-> "Some", ts |-> <<TEnum("E2")>>] >>
    [] n = "M_unit" -> << [v |-> "None", ts |-> <<>>], [v |-> "Some", ts |-> <<TUnit>>] >>
\* struct S { x: bool, y: E2 }
\* struct S2 { p: bool, q: bool }  (same-typed fields: a swapped binding is not a type error)
Fields(n) == IF n = "S2" THEN << [f |-> "p", t |-> TBool], [f |-> "q", t |-> TBool] >>
             ELSE << [f |-> "x", t |-> TBool], [f |-> "y", t |-> TEnum("E2")] >>

TypeOfName(n) ==
  CASE n = "bb" -> TTup(<<TBool, TBool>>)
    [] n = "e3" -> TEnum("E3")
    [] n = "e2b" -> TTup(<<TEnum("E2"), TBool>>)
    [] n = "i" -> TInt
    [] n = "ib" -> TTup(<<TInt, TBool>>)
    [] n = "s" -> TStr
    [] n = "sb" -> TTup(<<TStr, TBool>>)
    [] n = "st" -> TStruct("S")
    [] n = "st2" -> TStruct("S2")
    [] n = "st2b" -> TTup(<<TStruct("S2"), TBool>>)
    [] n = "mb" -> TEnum("M_bool")
    [] n = "me" -> TEnum("M_E2")
    [] n = "bbb" -> TTup(<<TTup(<<TBool, TBool>>), TBool>>)
    [] n = "e3e2" -> TTup(<<TEnum("E3"), TEnum("E2")>>)
    [] n = "ub" -> TTup(<<TUnit, TBool>>)
    [] n = "mu" -> TEnum("M_unit")
    [] n = "mub" -> TTup(<<TEnum("M_unit"), TBool>>)

IntLits == {0, 1}
StrLits == {"a", "b"}
IntVals == {0, 1, 2}
StrVals == {"a", "b", "c"}

\* ---------------------------------------------------------------- values
RECURSIVE Vals(_)
RECURSIVE TupVals(_, _)
TupVals(ts, i) == IF i > Len(ts) THEN {<<>>} ELSE {<<h>> \o t : h \in Vals(ts[i]), t \in TupVals(ts, i + 1)}
Vals(t) ==
  CASE t.k = "bool" -> {[k |-> "bool", v |-> TRUE], [k |-> "bool", v |-> FALSE]}
    [] t.k = "int" -> {[k |-> "int", v |-> i] : i \in IntVals}
    [] t.k = "str" -> {[k |-> "str", v |-> s] : s \in StrVals}
    [] t.k = "unit" -> {[k |-> "unit", v |-> 0]}
    [] t.k = "tuple" -> {[k |-> "tuple", es |-> es] : es \in TupVals(t.ts, 1)}
    [] t.k = "enum" -> UNION {{[k |-> "variant", n |-> t.n, v |-> Variants(t.n)[i].v, as |-> as] : as \in TupVals(Variants(t.n)[i].ts, 1)} : i \in DOMAIN Variants(t.n)}
    [] t.k = "struct" -> {[k |-> "struct", n |-> t.n, fs |-> fs] : fs \in TupVals([i \in DOMAIN Fields(t.n) |-> Fields(t.n)[i].t], 1)}

\* ---------------------------------------------------------------- patterns
PW == [k |-> "w"]
PV == [k |-> "v"]
RECURSIVE Pats(_, _)
RECURSIVE TupPats(_, _, _)
TupPats(ts, i, d) == IF i > Len(ts) THEN {<<>>} ELSE {<<h>> \o t : h \in Pats(ts[i], d), t \in TupPats(ts, i + 1, d)}
Perms2 == {<<1, 2>>, <<2, 1>>}
Pats(t, d) ==
  {PW, PV} \cup
  (CASE t.k = "bool" -> {[k |-> "b", v |-> TRUE], [k |-> "b", v |-> FALSE]}
     [] t.k = "int" -> {[k |-> "i", v |-> i] : i \in IntLits}
     [] t.k = "str" -> {[k |-> "s", v |-> s] : s \in StrLits}
     [] t.k = "unit" -> {[k |-> "u"]}             \* the pattern `()`: matches the only value of the type
     [] t.k = "tuple" -> IF d = 0 THEN {} ELSE {[k |-> "t", ps |-> ps] : ps \in TupPats(t.ts, 1, d - 1)}
     [] t.k = "enum" -> IF d = 0 THEN {} ELSE
          UNION {{[k |-> "c", v |-> Variants(t.n)[i].v, ps |-> ps] : ps \in TupPats(Variants(t.n)[i].ts, 1, d - 1)} : i \in DOMAIN Variants(t.n)}
     [] t.k = "struct" -> IF d = 0 THEN {} ELSE
          \* field patterns in declaration order and in the permuted order (written order is part of the pattern)
          {[k |-> "st", n |-> t.n, order |-> o, ps |-> ps] : o \in Perms2, ps \in TupPats([i \in DOMAIN Fields(t.n) |-> Fields(t.n)[i].t], 1, d - 1)})

\* ---------------------------------------------------------------- meaning
RECURSIVE Matches(_, _)
AllMatch(ps, vs) == \A i \in DOMAIN ps : Matches(ps[i], vs[i])
Matches(p, v) ==
  CASE p.k \in {"w", "v", "u"} -> TRUE
    [] p.k \in {"b", "i", "s"} -> v.v = p.v
    [] p.k = "t" -> AllMatch(p.ps, v.es)
    [] p.k = "c" -> v.v = p.v /\ AllMatch(p.ps, v.as)
    [] p.k = "st" -> AllMatch(p.ps, v.fs)

\* values bound by the variables of p, in the order the variables are *written*
RECURSIVE Binds(_, _)
RECURSIVE BindsSeq(_, _, _)
BindsSeq(ps, vs, idx) == IF idx = <<>> THEN <<>> ELSE Binds(ps[Head(idx)], vs[Head(idx)]) \o BindsSeq(ps, vs, Tail(idx))
Ident(n) == [i \in 1..n |-> i]
Binds(p, v) ==
  CASE p.k = "v" -> <<v>>
    [] p.k \in {"w", "b", "i", "s", "u"} -> <<>>
    [] p.k = "t" -> BindsSeq(p.ps, v.es, Ident(Len(p.ps)))
    [] p.k = "c" -> BindsSeq(p.ps, v.as, Ident(Len(p.ps)))
    [] p.k = "st" -> BindsSeq(p.ps, v.fs, p.order)

FirstMatch(rs, v) ==
  LET S == {i \in DOMAIN rs : Matches(rs[i], v)} IN
  IF S = {} THEN [arm |-> 0, binds |-> <<>>]
  ELSE LET i == CHOOSE j \in S : \A h \in S : j <= h IN [arm |-> i, binds |-> Binds(rs[i], v)]

Exhaustive(rs, t) == \A v \in Vals(t) : FirstMatch(rs, v).arm # 0
RECURSIVE Irrefutable(_)
Irrefutable(p) == p.k \in {"w", "v", "u"} \/ (p.k \in {"t", "st"} /\ \A i \in DOMAIN p.ps : Irrefutable(p.ps[i]))
\* a row no value can reach (shadowed by earlier rows)
Redundant(rs, i, t) == \A v \in Vals(t) : FirstMatch(rs, v).arm # i

\* ---------------------------------------------------------------- the generator machine
Init == ty \in Scrutinees /\ rows = <<>> /\ done = FALSE
AddRow == /\ ~done /\ Len(rows) < MaxRows
          /\ \E p \in Pats(TypeOfName(ty), PatDepth) : rows' = Append(rows, p)
          /\ UNCHANGED <<ty, done>>
Finish == /\ ~done /\ Len(rows) >= MinRows /\ done' = TRUE /\ UNCHANGED <<ty, rows>>
Next == AddRow \/ Finish
Spec == Init /\ [][Next]_vars

\* properties of the semantics itself
FirstMatchIsFirst ==
  done => \A v \in Vals(TypeOfName(ty)) :
             LET r == FirstMatch(rows, v) IN
             /\ (r.arm # 0 => Matches(rows[r.arm], v) /\ \A j \in 1..(r.arm - 1) : ~Matches(rows[j], v))
             /\ (r.arm = 0 => \A j \in DOMAIN rows : ~Matches(rows[j], v))
\* reordering two rows that cannot match the same value does not change any outcome's bindings
WildcardLastIsTotal == done => (Irrefutable(rows[Len(rows)]) => Exhaustive(rows, TypeOfName(ty)))

Emit == done => LET vs == SetToSeq(Vals(TypeOfName(ty))) IN
               PrintT(<<"MATRIX", ToJson([ty |-> ty, rows |-> rows,
                        cases |-> [i \in DOMAIN vs |-> [val |-> vs[i], res |-> FirstMatch(rows, vs[i])]]])>>)
=============================================================================
