------------------------------ MODULE Resolve ------------------------------
(***************************************************************************)
(* Method resolution of goml (C17): which implementation a call form runs, *)
(* or why it is refused.                                                    *)
(*                                                                          *)
(* A configuration is one receiver type r and everything that can be said   *)
(* about a method named m around it:                                        *)
(*   decl  - the traits (of A, B) that declare m (the other declares k);    *)
(*   impl  - the traits implemented for r (an implementation for another    *)
(*           type, Other, always exists, so a wrong dispatch is visible);   *)
(*   inh   - the inherent impl blocks that define m: `impl S`, and for the  *)
(*           generic struct G the blocks `impl G[int32]`, `impl G[bool]`    *)
(*           (the other instance) and `impl[T] G[T]`.                       *)
(* A form is one way of writing the call.  Two definitions are given:       *)
(*                                                                          *)
(*   Meaning - declarative: the candidates a form may refer to are          *)
(*             collected; exactly one -> it runs, none / several -> refused *)
(*   Algo    - shaped like the type checker (check.rs: the EField arm of    *)
(*             infer_call_expr, infer_static_member_call_expr; unify.rs:    *)
(*             the Overloaded constraint; env.rs: lookup_inherent_method    *)
(*             with its exact-key-first order)                              *)
(*                                                                          *)
(* (The typer decides acceptance and records the receiver type a call was   *)
(* resolved with - the full type for x.m(), the bare constructor for        *)
(* T::m(x); which Go function runs follows from that recorded type in mono  *)
(* and names.rs.  Algo states the observable outcome of both together: a    *)
(* scratch mutation that swaps the two lookups of lookup_inherent_method    *)
(* alone changes no outcome, one that takes the first of several bound      *)
(* candidates is rejected by the binding - DESIGN 11.9.)                    *)
(* and TLC checks on every (configuration, form):                           *)
(*   AlgoIsMeaning  the lookup order of the code never decides anything the *)
(*                  declarative reading does not (outside the named         *)
(*                  deviation Overlap);                                     *)
(*   ForReceiver    what runs is an implementation for the receiver's type; *)
(*   TraitFormsAgree all accepted spellings that name the same trait run    *)
(*                  the same implementation, whatever the static view of    *)
(*                  the receiver (concrete, bounded parameter, dyn);        *)
(*   InherentFormsAgree  x.m() and T::m(x) run the same code when both are  *)
(*                  accepted - FAILS by design under Overlap (the open      *)
(*                  finding C17-overlapping-inherent-impls), checked        *)
(*                  without it in Resolve.cfg and with it in                *)
(*                  Resolve_overlap.cfg (must fail);                        *)
(*   AmbiguousRefused a dotted call under two bounds that both declare m is *)
(*                  refused.                                                *)
(* Every (configuration, form, answer of Algo) is printed; lib/resolve.py   *)
(* renders the programs and the real compiler must refuse exactly the       *)
(* refused ones and its Go, run by GoSem.tla, must print the tag of the     *)
(* implementation Algo names.                                               *)
(*                                                                          *)
(* Language rules that writing this made explicit (named, not findings):    *)
(*   DotNeedsBoundOrInherent  `x.m()` on a concrete or dyn receiver finds   *)
(*       inherent methods only; trait methods are reached by `Tr::m(x)` or  *)
(*       through a bound.                                                   *)
(*   TypePathSeesHeadOnly  in `G::m(x)` the path names the constructor, so  *)
(*       only `impl[T] G[T]` is found; a method of `impl G[int32]` is       *)
(*       reachable by `x.m()` alone (the other spelling is refused, never   *)
(*       resolved differently - except under Overlap).                      *)
(*   CrossTraitDynRefused  `B::m(d)` with d: dyn A needs `impl B for dyn A`.*)
(***************************************************************************)
EXTENDS Integers, Sequences, FiniteSets, TLC, Json

CONSTANT AllowOverlap       \* TRUE: configurations with `impl[T] G[T]` and `impl G[int32]` both defining m are included

Traits == {"A", "B"}
Recv == {"i", "str", "S", "E", "Gi"}       \* int32, string, a struct, an enum, an instance of a generic struct
Plain == {"S", "E"}                       \* nominal, not generic: one inherent key `impl S` / `impl E`
ExactOf(x) == "exact@" \o x
InhKeys(x) == IF x \in {"i", "str"} THEN {} ELSE IF x \in Plain THEN {ExactOf(x)} ELSE {"exact@Gi", "exact@Gb", "constr@G"}
Nominal(x) == x \notin {"i", "str"}
NoBs == {}
Bounds == (SUBSET Traits) \ {{}}

Forms ==
       [f : {"dot", "tyq"}, t : {"-"}, d : {"-"}, bs : {NoBs}]
  \cup [f : {"trq"}, t : Traits, d : {"-"}, bs : {NoBs}]
  \cup [f : {"bdot"}, t : {"-"}, d : {"-"}, bs : Bounds]
  \cup [f : {"btrq"}, t : Traits, d : {"-"}, bs : Bounds]
  \cup [f : {"dyntrq"}, t : Traits, d : Traits, bs : {NoBs}]
  \cup [f : {"dyndot"}, t : {"-"}, d : Traits, bs : {NoBs}]

VARIABLES r, decl, impl, inh, form
vars == <<r, decl, impl, inh, form>>

Overlap == r = "Gi" /\ {"exact@Gi", "constr@G"} \subseteq inh

\* a form can be written for this configuration: a type path needs a nominal type; a bounded function is only called at a
\* type that satisfies its bounds (what happens otherwise is C03's open finding, not resolution)
Applicable == /\ (form.f = "tyq" => Nominal(r))
              /\ (form.f \in {"bdot", "btrq"} => form.bs \subseteq impl)

Init == /\ r \in Recv /\ decl \in SUBSET Traits /\ impl \in SUBSET Traits /\ inh \in SUBSET InhKeys(r)
        /\ form \in Forms
        /\ Applicable
        /\ (AllowOverlap \/ ~Overlap)
Next == UNCHANGED vars

Run(x) == [k |-> "run", v |-> x]
Rej(w) == [k |-> "reject", v |-> w]
TImpl(t) == t \o "@" \o r

-----------------------------------------------------------------------------
(* Meaning: candidates, then exactly-one *)

\* inherent blocks whose type is the receiver's type (x.m()) / whose head is the path's name (T::m(x))
InhFor == IF r \in Plain THEN inh \cap {ExactOf(r)} ELSE IF r = "Gi" THEN inh \cap {"exact@Gi", "constr@G"} ELSE {}
InhForPath == IF r \in Plain THEN inh \cap {ExactOf(r)} ELSE IF r = "Gi" THEN inh \cap {"constr@G"} ELSE {}

One(S, none, many) == IF S = {} THEN Rej(none) ELSE IF Cardinality(S) = 1 THEN Run(CHOOSE x \in S : TRUE) ELSE Rej(many)

Meaning ==
  CASE form.f = "dot"    -> One(InhFor, "not-found", "ambiguous")
    [] form.f = "tyq"    -> One(InhForPath, "not-found", "ambiguous")
    [] form.f = "trq"    -> IF form.t \notin decl THEN Rej("no-such-member")
                            ELSE IF form.t \in impl THEN Run(TImpl(form.t)) ELSE Rej("no-instance")
    [] form.f = "bdot"   -> One({TImpl(t) : t \in form.bs \cap decl}, "not-available", "ambiguous")
    [] form.f = "btrq"   -> IF form.t \notin decl THEN Rej("no-such-member")
                            ELSE IF form.t \in form.bs THEN Run(TImpl(form.t)) ELSE Rej("not-constrained")
    [] form.f = "dyntrq" -> IF form.d \notin impl THEN Rej("no-coercion")
                            ELSE IF form.t \notin decl THEN Rej("no-such-member")
                            ELSE IF form.t = form.d THEN Run(TImpl(form.d)) ELSE Rej("no-instance")
    [] form.f = "dyndot" -> IF form.d \notin impl THEN Rej("no-coercion") ELSE Rej("not-found")

-----------------------------------------------------------------------------
(* Algo: the order of the lookups in the code *)

\* env.rs lookup_inherent_method(receiver_ty, m): InherentImplKey::Exact(receiver_ty) first, then ::Constr(head of receiver_ty)
LookupInherent(exactKey, constrKey) ==
  IF exactKey \in inh THEN exactKey ELSE IF constrKey \in inh THEN constrKey ELSE "none"

AlgoDot ==      \* EField arm: receiver's full type
  LET h == IF r \in Plain THEN LookupInherent(ExactOf(r), "-") ELSE IF r = "Gi" THEN LookupInherent("exact@Gi", "constr@G") ELSE "none"
  IN IF h # "none" THEN Run(h) ELSE Rej("not-found")      \* a concrete receiver is no TParam: "Method m not found"

AlgoTyq ==      \* static member, the path is no trait: receiver_ty = TStruct{name}: no arguments, so only `impl S` is an exact key
  LET h == IF r \in Plain THEN LookupInherent(ExactOf(r), "-") ELSE LookupInherent("-", "constr@G")
  IN IF h # "none" THEN Run(h) ELSE Rej("not-found")

\* static member whose path is a trait t, receiver of static type `view` ("concrete", "param", "dyn")
AlgoTrq(t, view, bs, d) ==
  IF t \notin decl THEN Rej("no-such-member")                       \* lookup_trait_method fails; the path is no type either
  ELSE IF view = "dyn" /\ d = t THEN Run(TImpl(d))                  \* EDynTraitMethod: the vtable of the coerced value
  ELSE IF view = "param" THEN (IF t \in bs THEN Run(TImpl(t)) ELSE Rej("not-constrained"))   \* resolved by mono at r
  ELSE \* Constraint::Overloaded on the receiver's type (for a dyn receiver: the type `dyn d`, which has no impls here)
       IF view = "concrete" /\ t \in impl THEN Run(TImpl(t)) ELSE Rej("no-instance")

AlgoBdot(bs) ==   \* lookup_inherent_method_for_ty(TParam) is None; then lookup_bound_trait_methods in the order of the bounds
  LET cands == {t \in bs : t \in decl}
  IN IF Cardinality(cands) = 1 THEN Run(TImpl(CHOOSE t \in cands : TRUE))
     ELSE IF cands = {} THEN Rej("not-available") ELSE Rej("ambiguous")

Algo ==
  CASE form.f = "dot"    -> AlgoDot
    [] form.f = "tyq"    -> AlgoTyq
    [] form.f = "trq"    -> AlgoTrq(form.t, "concrete", NoBs, "-")
    [] form.f = "bdot"   -> AlgoBdot(form.bs)
    [] form.f = "btrq"   -> AlgoTrq(form.t, "param", form.bs, "-")
    [] form.f = "dyntrq" -> IF form.d \notin impl THEN Rej("no-coercion")       \* coerce_to_expected_dyn: has_visible_trait_impl
                            ELSE AlgoTrq(form.t, "dyn", NoBs, form.d)
    [] form.f = "dyndot" -> IF form.d \notin impl THEN Rej("no-coercion") ELSE Rej("not-found")   \* TDyn is no TParam, has no inherent key

-----------------------------------------------------------------------------
(* what TLC checks *)

AlgoIsMeaning == Overlap \/ Algo = Meaning
\* under Overlap the declarative reading refuses the dotted form (two candidates) and the code picks the exact key
OverlapIsTheOnlyDeviation == (Algo # Meaning) => (Overlap /\ form.f = "dot" /\ Algo = Run("exact@Gi") /\ Meaning = Rej("ambiguous"))

ImplsFor == {TImpl(t) : t \in impl} \cup InhFor
ForReceiver == Algo.k = "run" => Algo.v \in ImplsFor

\* the answer of another form in the same configuration (forms are a variable, so quantify over Forms with a LET-free copy)
AnswerOf(g) ==
  CASE g.f = "dot"    -> AlgoDot
    [] g.f = "tyq"    -> AlgoTyq
    [] g.f = "trq"    -> AlgoTrq(g.t, "concrete", NoBs, "-")
    [] g.f = "bdot"   -> AlgoBdot(g.bs)
    [] g.f = "btrq"   -> AlgoTrq(g.t, "param", g.bs, "-")
    [] g.f = "dyntrq" -> IF g.d \notin impl THEN Rej("no-coercion") ELSE AlgoTrq(g.t, "dyn", NoBs, g.d)
    [] g.f = "dyndot" -> IF g.d \notin impl THEN Rej("no-coercion") ELSE Rej("not-found")
ApplicableForm(g) == (g.f = "tyq" => Nominal(r)) /\ (g.f \in {"bdot", "btrq"} => g.bs \subseteq impl)
\* the trait a form's answer belongs to, when it ran a trait implementation
TraitOf(a) == IF a.k = "run" /\ a.v \in {TImpl(t) : t \in Traits} THEN CHOOSE t \in Traits : a.v = TImpl(t) ELSE "-"
NamesTrait(g, t) == g.t = t \/ (g.f = "bdot" /\ AnswerOf(g).k = "run" /\ TraitOf(AnswerOf(g)) = t)
TraitFormsAgree ==
  \A t \in Traits : \A g1, g2 \in {g \in Forms : ApplicableForm(g) /\ g.f \in {"trq", "bdot", "btrq", "dyntrq"}} :
     (NamesTrait(g1, t) /\ NamesTrait(g2, t) /\ AnswerOf(g1).k = "run" /\ AnswerOf(g2).k = "run") => AnswerOf(g1) = AnswerOf(g2)
InherentFormsAgree == (Nominal(r) /\ AlgoDot.k = "run" /\ AlgoTyq.k = "run") => AlgoDot = AlgoTyq
AmbiguousRefused == (form.f = "bdot" /\ Cardinality(form.bs \cap decl) > 1) => Algo.k = "reject"
\* vacuity: both outcomes occur, in every kind of form (checked by the driver on the printed lines)

Emit == PrintT(<<"RESOLVE", ToJson([r |-> r, decl |-> decl, impl |-> impl, inh |-> inh, form |-> form, ans |-> Algo,
                                     overlap |-> Overlap])>>)
=============================================================================
