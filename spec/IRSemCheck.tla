---------------------------- MODULE IRSemCheck ----------------------------
(***************************************************************************)
(* Runs IRSem.tla on recorded intermediate representations: IOEnv.IRFILE   *)
(* is an ndjson file, one accepted program per line ({id, ir: {mono, lift,  *)
(* anf}} as exported by `gv compile` with ir_json).  For each program the   *)
(* outcome (status, output) of every stage is reported; the driver compares *)
(* the stages with each other and with the source meaning (GomlSem.tla) or  *)
(* the recorded output.                                                     *)
(***************************************************************************)
EXTENDS IRSem, Json, IOUtils

Progs == ndJsonDeserialize(IOEnv.IRFILE)
VARIABLE i
Init == i = 0
Next == i < Len(Progs) /\ i' = i + 1
Report == i > 0 => PrintT(<<"IRRUN", ToJson([id |-> Progs[i].id,
                                              core |-> Run(Progs[i].ir.core), mono |-> Run(Progs[i].ir.mono), lift |-> Run(Progs[i].ir.lift), anf |-> Run(Progs[i].ir.anf)])>>)
Done == i = Len(Progs) => PrintT(<<"IRRUNDONE", ToJson([n |-> Len(Progs)])>>)
=============================================================================
