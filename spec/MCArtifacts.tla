---------------------------- MODULE MCArtifacts ----------------------------
(* Model-checking instances of Artifacts: dependency graphs as definitions. *)
EXTENDS Artifacts, IOUtils, SequencesExt

Chain3 == {"A", "B", "Main"}
Chain3Deps == [p \in Chain3 |-> IF p = "Main" THEN {"B"} ELSE IF p = "B" THEN {"A"} ELSE {}]

Diamond4 == {"A", "B", "C", "Main"}
Diamond4Deps == [p \in Diamond4 |-> CASE p = "Main" -> {"B", "C"} [] p = "B" -> {"A"} [] p = "C" -> {"A"} [] OTHER -> {}]

Fan3 == {"A", "B", "Main"}
Fan3Deps == [p \in Fan3 |-> IF p = "Main" THEN {"A", "B"} ELSE {}]

\* Main uses A directly and through B (a transitive edge next to a direct one)
Tri3 == {"A", "B", "Main"}
Tri3Deps == [p \in Tri3 |-> IF p = "Main" THEN {"A", "B"} ELSE IF p = "B" THEN {"A"} ELSE {}]

OneKind == {"k"}

-----------------------------------------------------------------------------
(* Guided simulation for the replay driver: start from the state in which   *)
(* every package has been built once (the driver performs those builds      *)
(* first), choose the edit kind as a function of (package, version, KOFF)   *)
(* instead of nondeterministically, and link only the full set or the full  *)
(* set minus one package.  Every behaviour of SimSpec is a behaviour of     *)
(* Spec prefixed by the initial builds.                                     *)
RECURSIVE C0(_)
C0(p) == [pkg |-> p, v |-> 0, deps |-> [d \in Deps[p] |-> C0(d)]]

InitBuilt ==
  /\ srcI = [p \in Pkgs |-> 0] /\ srcB = [p \in Pkgs |-> 0]
  /\ iface = [p \in Pkgs |-> [c |-> C0(p), st |-> "ok"]]
  /\ core = [p \in Pkgs |-> [c |-> C0(p), body |-> 0, st |-> "ok"]]
  /\ against = [p \in Pkgs |-> [d \in Deps[p] |-> C0(d)]]
  /\ ncor = 0
  /\ last = [a |-> "Init", p |-> "", verdict |-> "ok", S |-> {}]
  /\ hist = <<>>

IKindSeq == <<"addfn", "sig", "field", "variant", "traitmethod", "impl", "removefn", "reorderfields", "reordervariants", "bound">>
BKindSeq == <<"const", "let", "rename">>
KOff == IF "KOFF" \in DOMAIN IOEnv THEN atoi(IOEnv.KOFF) ELSE 0
PkgSeq == SetToSeq(Pkgs)
PIdx(p) == CHOOSE i \in 1..Len(PkgSeq) : PkgSeq[i] = p
IKindOf(p) == IKindSeq[((srcI[p] + 3 * PIdx(p) + KOff) % 10) + 1]
BKindOf(p) == BKindSeq[((srcB[p] + PIdx(p) + KOff) % 3) + 1]

SimLinkSets == {Pkgs} \cup {Pkgs \ {p} : p \in Pkgs}

SimNext ==
  \/ \E p \in Pkgs : EditI(p, IKindOf(p))
  \/ \E p \in Pkgs : EditB(p, BKindOf(p))
  \/ \E p \in Pkgs : Check(p) \/ Build(p)
  \/ \E S \in SimLinkSets : Link(S)
  \/ \E S \in SimLinkSets : Link(S)
  \/ \E p \in Pkgs : \E w \in {"interface", "core"} : \E k \in {"tampered", "otherversion"} : Corrupt(p, w, k)

(* The stale-subset sweep: every package is built; ONE package's interface is edited; then, in dependency order, each package  *)
(* is either rebuilt or left as it is (a body edit marks "not rebuilt" in the history); then everything is linked.  Exhaustive:  *)
(* |Pkgs| * 2^|Pkgs| behaviours per graph - every combination of a changed interface with fresh and stale dependents, which is *)
(* where a link check that looks at only some of the (dependent, dependency) edges goes wrong.                                  *)
SweepAllKinds == IF "SWEEPKINDS" \in DOMAIN IOEnv THEN IOEnv.SWEEPKINDS = "all" ELSE FALSE
Topo == IF Pkgs = Diamond4 THEN <<"A", "B", "C", "Main">> ELSE <<"A", "B", "Main">>
SweepNext ==
  LET k == Len(hist) n == Len(Topo) IN
  \/ k = 0 /\ \E p \in Pkgs : IF SweepAllKinds THEN \E kind \in {IKindSeq[i] : i \in DOMAIN IKindSeq} : EditI(p, kind) ELSE EditI(p, IKindOf(p))
  \/ k \in 1..n /\ (Build(Topo[k]) \/ EditB(Topo[k], BKindOf(Topo[k])))
  \/ k = n + 1 /\ Link(Pkgs)
SweepSpec == InitBuilt /\ [][SweepNext]_vars

SimSpec == InitBuilt /\ [][SimNext]_vars
SimSpecCold == Init /\ [][SimNext]_vars
IKinds == {"addfn", "sig", "field", "variant", "traitmethod", "impl", "removefn", "reorderfields", "reordervariants", "bound"}
BKinds == {"const", "let", "rename"}
=============================================================================
