----------------------------- MODULE MCMatchSem -----------------------------
EXTENDS MatchSem
CONSTANT GridRows
Small == {"bb", "i", "s", "mb", "ub", "mu"}
AllScrut == {"bb", "e3", "e2b", "i", "ib", "s", "sb", "st", "st2", "st2b", "mb", "me", "bbb", "e3e2", "ub", "mu", "mub"}

\* ---- the literal grid: every matrix of two rows over {_, literal} per column of a two-column scrutinee, closed by a catch-all
\* (exhaustively enumerated: decision trees branch on one column and must keep the rows that share a literal there apart)
GridScrut == {"ib", "sb", "bb", "e2b"}
GridScrutThorough == {"ib", "sb", "bb", "e2b", "st", "st2b", "e3e2"}
NoVar(p) == p.k # "v" /\ (p.k \notin {"t", "c", "st"} \/ \A i \in DOMAIN p.ps : p.ps[i].k # "v")
GridPats(t) == {p \in Pats(t, 1) : p.k \in {"t", "st"} /\ NoVar(p) /\ \A i \in DOMAIN p.ps : p.ps[i].k \in {"w", "b", "i", "s"}}
\* the same grid over the scrutinees with a unit column, one level deeper (the unit sits under a constructor): every var-free pattern
UnitGridScrut == {"ub", "mub"}
RECURSIVE NoVarDeep(_)
NoVarDeep(p) == p.k # "v" /\ (p.k \notin {"t", "c", "st"} \/ \A i \in DOMAIN p.ps : NoVarDeep(p.ps[i]))
UnitGridPats(t) == {p \in Pats(t, 2) : p.k = "t" /\ NoVarDeep(p)}
UnitGridInit == ty \in UnitGridScrut /\ rows = <<>> /\ done = FALSE
UnitGridAddRow == /\ ~done /\ Len(rows) < GridRows
                  /\ \E p \in UnitGridPats(TypeOfName(ty)) : rows' = Append(rows, p)
                  /\ UNCHANGED <<ty, done>>
GridInit == ty \in GridScrut /\ rows = <<>> /\ done = FALSE
GridInitThorough == ty \in GridScrutThorough /\ rows = <<>> /\ done = FALSE
GridAddRow == /\ ~done /\ Len(rows) < GridRows
              /\ \E p \in GridPats(TypeOfName(ty)) : rows' = Append(rows, p)
              /\ UNCHANGED <<ty, done>>
GridFinish == /\ ~done /\ Len(rows) = GridRows /\ rows' = Append(rows, PW) /\ done' = TRUE /\ UNCHANGED ty
GridNext == GridAddRow \/ GridFinish
UnitGridNext == UnitGridAddRow \/ GridFinish
=============================================================================
