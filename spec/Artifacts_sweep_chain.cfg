SPECIFICATION SweepSpec
CONSTANTS
  Pkgs <- Chain3
  Deps <- Chain3Deps
  MaxI = 3
  MaxB = 3
  MaxCorrupt = 0
  Depth = 5
  IfaceKinds <- IKinds
  BodyKinds <- BKinds
INVARIANTS Emit LinkSafe
CONSTRAINT Bound
CHECK_DEADLOCK FALSE
