--------------------------------- MODULE Dce ---------------------------------
(***************************************************************************)
(* What dead-code elimination of the emitted Go (go/dce.rs) may and may    *)
(* not do, as a relation between the Go program before the pass and the    *)
(* program after it (C09: "dead-code elimination never drops, duplicates   *)
(* or reorders an observable effect"; C01: nothing the source does is lost).*)
(*                                                                          *)
(* The EFFECT SKELETON of a function body is the sequence, in evaluation    *)
(* order and with the control structure kept, of everything the body does   *)
(* that an observer can notice:                                             *)
(*   - calls (by callee; calls Go defines as value-only -- len, append,     *)
(*     cap, numeric/string conversions, fmt.Sprintf -- and calls of         *)
(*     functions whose own skeleton is empty are not effects),              *)
(*   - operations that can fail at run time: integer division/remainder     *)
(*     by a non-constant, indexing a slice (or an array with a non-constant *)
(*     index), type assertions,                                             *)
(*   - stores through pointers, fields and elements, `go`, `return`,        *)
(*     `break`, and loops (a loop may not terminate).                       *)
(* A branch (`if`, `switch`) whose arms all have an empty skeleton          *)
(* contributes only the effects of its condition.  Declarations and         *)
(* assignments of locals are not effects: the pass may drop them.           *)
(*                                                                          *)
(* The pass is correct on a program iff every function that survives has    *)
(* the same skeleton before and after:  Same(pre, post).  DceCheck.tla      *)
(* evaluates this on the pre-DCE program reported by the hook in            *)
(* go/compile.rs (go_file) and the Go the compiler emitted.                 *)
(***************************************************************************)
EXTENDS Integers, Sequences, FiniteSets, TLC

ValueOnly == {"len", "append", "cap", "string", "int8", "int16", "int32", "int64", "int", "uint8", "uint16", "uint32",
              "uint64", "uint", "byte", "float32", "float64"}
FloatNames == {"float32", "float64"}

Stmts(A, b) == A.blocks[b + 1]
SeqUnion(f) == UNION {f[i] : i \in DOMAIN f}
RECURSIVE Flat(_)
Flat(ss) == IF ss = <<>> THEN <<>> ELSE Head(ss) \o Flat(Tail(ss))

\* ---- declared types of locals and parameters (names are unique per program up to parameters reused across functions)
VarTypes(A) ==
  LET decls == UNION {{<<A.blocks[b][i].n, A.blocks[b][i].t>> : i \in {j \in DOMAIN A.blocks[b] : A.blocks[b][j].k = "var"}} : b \in DOMAIN A.blocks}
      fparams(f) == {<<f.params[i].n, f.params[i].t>> : i \in DOMAIN f.params}
      params == UNION {fparams(A.funcs[n]) : n \in DOMAIN A.funcs} \cup UNION {fparams(A.methods[i]) : i \in DOMAIN A.methods}
  IN decls \cup params
TypesOf(VT, n) == {p[2] : p \in {q \in VT : q[1] = n}}
IsFloatExpr(VT, e) ==
  \/ e.k = "float"
  \/ e.k = "id" /\ TypesOf(VT, e.n) # {} /\ \A t \in TypesOf(VT, e.n) : t.k = "named" /\ t.n \in FloatNames
  \/ e.k = "call" /\ e.f.k = "id" /\ e.f.n \in FloatNames
  \/ e.k = "paren" /\ e.e.k = "float"
IsArrayVar(VT, e) == e.k = "id" /\ TypesOf(VT, e.n) # {} /\ \A t \in TypesOf(VT, e.n) : t.k = "array"
NonZeroConst(e) == (e.k = "int" /\ e.v # 0) \/ e.k = "bigint"

\* ---- effects of an expression, given the set Pure of user functions known to have an empty skeleton
RECURSIVE Ef(_, _, _, _)
EfAll(A, VT, Pure, es) == Flat([i \in DOMAIN es |-> Ef(A, VT, Pure, es[i])])
Ef(A, VT, Pure, e) ==
  CASE e.k \in {"int", "bigint", "float", "str", "bool", "nil", "id", "unitv"} -> <<>>
    [] e.k = "paren" -> Ef(A, VT, Pure, e.e)
    [] e.k = "un" -> Ef(A, VT, Pure, e.e)
    [] e.k = "bin" ->
         IF e.op \in {"&&", "||"}
         THEN LET r == Ef(A, VT, Pure, e.r) IN Ef(A, VT, Pure, e.l) \o (IF r = <<>> THEN <<>> ELSE <<"cond(">> \o r \o <<")">>)
         ELSE Ef(A, VT, Pure, e.l) \o Ef(A, VT, Pure, e.r)
              \o (IF e.op \in {"/", "%"} /\ ~NonZeroConst(e.r) /\ ~IsFloatExpr(VT, e.l) /\ ~IsFloatExpr(VT, e.r) THEN <<"div">> ELSE <<>>)
    [] e.k = "sel" -> Ef(A, VT, Pure, e.e)
    [] e.k = "idx" -> Ef(A, VT, Pure, e.e) \o Ef(A, VT, Pure, e.i)
                      \o (IF IsArrayVar(VT, e.e) /\ e.i.k = "int" THEN <<>> ELSE <<"idx">>)
    [] e.k = "assert" -> Ef(A, VT, Pure, e.e) \o <<"assert">>
    [] e.k = "arrlit" -> EfAll(A, VT, Pure, e.es)
    [] e.k = "lit" -> EfAll(A, VT, Pure, [i \in DOMAIN e.fs |-> e.fs[i].e])
    [] e.k = "call" ->
         LET args == EfAll(A, VT, Pure, e.a) IN
         IF e.f.k = "id" THEN
              IF e.f.n \in DOMAIN A.funcs THEN args \o (IF e.f.n \in Pure THEN <<>> ELSE <<"call:" \o e.f.n>>)
              ELSE IF e.f.n \in ValueOnly \/ e.f.n \in DOMAIN A.types THEN args
              ELSE IF e.f.n \in {"panic", "println", "print"} THEN args \o <<"call:" \o e.f.n>>
              ELSE args \o <<"call:(value)">>                            \* a function value held in a variable
         ELSE IF e.f.k = "sel" /\ e.f.e.k = "id" /\ e.f.e.n \in {A.imports[i].path : i \in DOMAIN A.imports}
              THEN args \o (IF e.f.e.n = "fmt" /\ e.f.f \in {"Sprintf", "Sprint"} THEN <<>> ELSE <<"call:" \o e.f.e.n \o "." \o e.f.f>>)
         ELSE IF e.f.k = "sel" THEN Ef(A, VT, Pure, e.f.e) \o args \o <<"method:" \o e.f.f>>
         ELSE Ef(A, VT, Pure, e.f) \o args \o <<"call:(value)">>
    [] OTHER -> <<"?" \o e.k>>

\* ---- skeleton of a block
RECURSIVE Sk(_, _, _, _)
Arms(A, VT, Pure, bs) == [i \in DOMAIN bs |-> Sk(A, VT, Pure, bs[i])]
Branch(tag, arms) == IF \A i \in DOMAIN arms : arms[i] = <<>> THEN <<>>
                     ELSE <<tag \o "(">> \o Flat([i \in DOMAIN arms |-> arms[i] \o <<"|">>]) \o <<")">>
SkStmt(A, VT, Pure, s) ==
  CASE s.k = "var" -> EfAll(A, VT, Pure, s.init)
    [] s.k = "assign" -> Ef(A, VT, Pure, s.v)
    [] s.k = "expr" -> Ef(A, VT, Pure, s.e)
    [] s.k = "fassign" -> Ef(A, VT, Pure, s.o) \o Ef(A, VT, Pure, s.v) \o <<"store">>
    [] s.k = "passign" -> Ef(A, VT, Pure, s.p) \o Ef(A, VT, Pure, s.v) \o <<"store">>
    [] s.k = "iassign" -> Ef(A, VT, Pure, s.a) \o Ef(A, VT, Pure, s.i) \o Ef(A, VT, Pure, s.v) \o <<"store">>
    [] s.k = "go" -> (IF s.e.k = "call" THEN EfAll(A, VT, Pure, s.e.a) ELSE Ef(A, VT, Pure, s.e)) \o <<"go">>
    [] s.k = "return" -> EfAll(A, VT, Pure, s.e) \o <<"return">>
    [] s.k = "break" -> <<"break">>
    [] s.k = "for" -> <<"for(">> \o Sk(A, VT, Pure, s.body) \o <<")">>
    [] s.k = "if" -> Ef(A, VT, Pure, s.c) \o Branch("if", Arms(A, VT, Pure, <<s.then>> \o s.else))
    [] s.k = "switch" -> Ef(A, VT, Pure, s.e)
                         \o Branch("switch", Arms(A, VT, Pure, [i \in DOMAIN s.cases |-> s.cases[i].b] \o s.default))
    [] s.k = "tswitch" -> Ef(A, VT, Pure, s.e)
                          \o Branch("tswitch", Arms(A, VT, Pure, [i \in DOMAIN s.cases |-> s.cases[i].b] \o s.default))
    [] OTHER -> <<"?" \o s.k>>
Sk(A, VT, Pure, b) == Flat([i \in DOMAIN Stmts(A, b) |-> SkStmt(A, VT, Pure, Stmts(A, b)[i])])

\* ---- functions with an empty skeleton (two rounds: leaves, then functions that only call leaves); "return" alone is no effect
Quiet(sk) == \A i \in DOMAIN sk : sk[i] = "return"
Pure1(A, VT, P) == {n \in DOMAIN A.funcs : Quiet(Sk(A, VT, P, A.funcs[n].body))}
PureFns(A, VT) == Pure1(A, VT, Pure1(A, VT, {}))

\* ---- the relation
FnSk(A, VT, Pure, n) == Sk(A, VT, Pure, A.funcs[n].body)
MethKey(m) == <<m.recv.t, m.name>>
MethodsOf(A) == {MethKey(A.methods[i]) : i \in DOMAIN A.methods}
MethSk(A, VT, Pure, key) == LET i == CHOOSE j \in DOMAIN A.methods : MethKey(A.methods[j]) = key IN Sk(A, VT, Pure, A.methods[i].body)

\* functions of `post` whose skeleton differs from the one they had in `pre` (purity is judged on `pre`, the program the
\* pass was given, restricted to functions that still exist)
Differing(pre, post) ==
  LET vtA == VarTypes(pre) vtB == VarTypes(post)
      pure == PureFns(pre, vtA) \cap PureFns(post, vtB)
  IN {n \in DOMAIN post.funcs : n \notin DOMAIN pre.funcs \/ FnSk(pre, vtA, pure, n) # FnSk(post, vtB, pure, n)}
     \cup {k[2] : k \in {m \in MethodsOf(post) : m \notin MethodsOf(pre) \/ MethSk(pre, vtA, pure, m) # MethSk(post, vtB, pure, m)}}
Same(pre, post) == Differing(pre, post) = {}
=============================================================================
