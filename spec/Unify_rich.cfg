SPECIFICATION Spec
CONSTANTS
  VarIds = {1, 2}
  Lens = {2}
  MaxCalls = 1
  Rich = TRUE
  OccursInRet = TRUE
INVARIANTS InvAcyclic InvUnifiedExact InvComplete InvMostGeneral InvGrows
CHECK_DEADLOCK FALSE
