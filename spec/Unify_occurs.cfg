SPECIFICATION Spec
CONSTANTS
  VarIds = {1, 2}
  Lens = {2}
  MaxCalls = 1
  Rich = TRUE
  OccursInRet = FALSE
INVARIANTS InvAcyclic
CHECK_DEADLOCK FALSE
