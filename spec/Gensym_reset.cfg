SPECIFICATION Spec
CONSTANTS
  Prefs <- P2
  MaxN = 3
  User <- U1
  AllowReset = TRUE
INVARIANTS Unique
CHECK_DEADLOCK FALSE
