------------------------------- MODULE Editor -------------------------------
(***************************************************************************)
(* What an editor sees while a program is being typed (C20): a valid        *)
(* program of NTokens tokens, of which the first `cut` have been typed;     *)
(* something unfinished at the end (`pending`); and a cursor.  Each state   *)
(* is one query situation; the driver materialises the text, places the     *)
(* cursor and asks hover, dot-completion and path-completion there.         *)
(***************************************************************************)
EXTENDS Integers, Sequences, FiniteSets, TLC, Json

CONSTANT NTokens

\* what has just been typed after the last complete token
Pendings == {"nothing", "dot", "colon-colon", "partial-identifier", "dot-partial", "open-paren", "open-brace", "open-string", "multi-byte", "backslashes"}
\* where the cursor is
Cursors == {"end", "before-pending", "start", "middle", "past-line-end", "past-text-end", "inside-multi-byte"}

VARIABLES cut, pending, cursor
vars == <<cut, pending, cursor>>
Init == cut \in 0..NTokens /\ pending \in Pendings /\ cursor \in Cursors
        /\ (cursor = "inside-multi-byte" => pending = "multi-byte")
Next == UNCHANGED vars
Emit == PrintT(<<"EDIT", ToJson([cut |-> cut, pending |-> pending, cursor |-> cursor])>>)
=============================================================================
