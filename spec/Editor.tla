------------------------------- MODULE Editor -------------------------------
(***************************************************************************)
(* What an editor sees while a program is being typed (C20): a valid        *)
(* program of NTokens tokens, of which the first `cut` have been typed;     *)
(* something unfinished at the end (`pending`); and a cursor.  Each state   *)
(* is one query situation; the driver materialises the text, places the     *)
(* cursor and asks hover, dot-completion and path-completion there.         *)
(***************************************************************************)
EXTENDS Integers, Sequences, FiniteSets, TLC, Json

CONSTANTS NTokens, NBytes

\* what has just been typed after the last complete token
Pendings == {"nothing", "dot", "colon-colon", "partial-identifier", "dot-partial", "open-paren", "open-brace", "open-string", "multi-byte", "backslashes"}
\* where the cursor is
Cursors == {"end", "before-pending", "start", "middle", "past-line-end", "past-text-end", "inside-multi-byte"}

\* the unit of `cut`: whole tokens typed (with something unfinished after them), or single keystrokes: the first `cut`
\* bytes of the text (a cut inside a multi-byte character is the byte sequence an editor never sends; the driver moves
\* it to the character boundary), which is where a token is half typed: an unterminated string or character literal, one
\* of the two backslashes of a multi-line string line, half an operator, half a keyword
Units == {"token", "byte"}
VARIABLES unit, cut, pending, cursor
vars == <<unit, cut, pending, cursor>>
Init == \/ /\ unit = "token" /\ cut \in 0..NTokens /\ pending \in Pendings /\ cursor \in Cursors
           /\ (cursor = "inside-multi-byte" => pending = "multi-byte")
        \/ /\ unit = "byte" /\ cut \in 0..NBytes /\ pending = "nothing" /\ cursor \in {"end", "start", "middle"}
Next == UNCHANGED vars
Emit == PrintT(<<"EDIT", ToJson([unit |-> unit, cut |-> cut, pending |-> pending, cursor |-> cursor])>>)
=============================================================================
