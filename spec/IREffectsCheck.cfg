INIT Init
NEXT Next
INVARIANT Report
INVARIANT Done
CHECK_DEADLOCK FALSE
