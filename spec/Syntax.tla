------------------------------- MODULE Syntax -------------------------------
(***************************************************************************)
(* The grammar of goml expressions, statements and patterns beyond the      *)
(* operator table of Pratt.tla (C11): tuples, arrays, struct literals,      *)
(* if / match / while / go, closures, blocks with let- and expression       *)
(* statements, and every pattern form.                                      *)
(*                                                                          *)
(*   Exprs(n)   expression trees with exactly n compound nodes (leaves are  *)
(*              anonymous; the replay driver numbers them)                  *)
(*   Render     the token list with only the necessary parentheses          *)
(*   Parse      the grammar read as a recursive-descent parser              *)
(*                                                                          *)
(* Three rules make parentheses necessary beyond operator precedence, and   *)
(* Render / Parse state them:                                               *)
(*  OpenRight   a closure, `go e`, an `if` whose else-branch is not a       *)
(*              block and a `while` whose body is not a block extend as far *)
(*              to the right as possible: they need parentheses wherever    *)
(*              something of the same expression follows them;              *)
(*  BraceAfterName  an identifier directly followed by `{ }`, `{ name :`    *)
(*              or `{ name ,` starts a struct literal, so a condition or    *)
(*              scrutinee that ends in an identifier is parenthesised when  *)
(*              the block / arm list after it is empty;                     *)
(*              For the same reason a struct literal whose only field is    *)
(*              the shorthand `f` is written `S { f , }`;                   *)
(*  no block expression: `{ .. }` is a body (branch, loop body, closure     *)
(*              body, match arm), not an expression of its own.             *)
(* The one-element tuple expression is written `( e , )`; `( e )` groups.   *)
(* Patterns have no grouping parentheses: `( p )` is the one-element tuple  *)
(* pattern; a lone identifier is a variable pattern, `C ( )` and `E :: C`   *)
(* are constructor patterns.                                                *)
(*                                                                          *)
(* Calls are restricted to the callee forms `name` and `e . name` and a     *)
(* prefix operator is not applied to a call: the other combinations are     *)
(* Pratt.tla's subject (with a known finding there).                        *)
(***************************************************************************)
EXTENDS Integers, Sequences, FiniteSets, TLC, Json, Randomization

CONSTANTS MaxNodes, BinOps,
          Sample      \* 0: every tree; k > 0: a random subset of k trees per part (quick tier)

VARIABLES part, t
vars == <<part, t>>

Prec(op) ==
  CASE op = "||" -> 1 [] op = "&&" -> 2 [] op \in {"==", "!="} -> 3 [] op \in {"<", ">", "<=", ">="} -> 4
    [] op \in {"+", "-"} -> 5 [] op \in {"*", "/"} -> 6
PREFIX == 7
POSTFIX == 8
ATOM == 9

\* ---------------------------------------------------------------- patterns
PV == [k |-> "pvar"]
PW == [k |-> "pwild"]
PI == [k |-> "pint"]
PB == [k |-> "pbool"]
PS == [k |-> "pstr"]
PU == [k |-> "punit"]
PTup(ps) == [k |-> "ptuple", ps |-> ps]
PCon(q, as) == [k |-> "pcon", q |-> q, as |-> as]      \* q: written `E :: C` (TRUE) or `C` (FALSE)
PStr(fs) == [k |-> "pstruct", fs |-> fs]               \* fs: <<[f, sh, p]>>; sh: shorthand `f` for `f : f`
PF(f, p) == [f |-> f, sh |-> FALSE, p |-> p]
PFs(f) == [f |-> f, sh |-> TRUE, p |-> PV]

BasePats == {PV, PW, PI}
Pats ==
  BasePats \cup {PB, PS, PU, PCon(TRUE, <<>>), PCon(FALSE, <<>>), PStr(<<>>), PStr(<<PFs("f")>>), PStr(<<PFs("f"), PFs("g")>>)}
  \cup UNION {{PTup(<<p>>), PTup(<<p, PW>>), PTup(<<PV, p>>), PCon(TRUE, <<p>>), PCon(FALSE, <<p>>), PCon(TRUE, <<p, PV>>),
               PStr(<<PF("f", p)>>), PStr(<<PF("f", p), PFs("g")>>), PStr(<<PFs("f"), PF("g", p)>>)} : p \in BasePats}
  \cup {PTup(<<PCon(TRUE, <<PV>>)>>), PCon(TRUE, <<PTup(<<PV, PI>>)>>), PStr(<<PF("f", PCon(TRUE, <<PW>>))>>),
        PCon(FALSE, <<PStr(<<PFs("f")>>)>>), PTup(<<PTup(<<PV>>), PU>>), PCon(TRUE, <<PS, PB>>)}
LetPats == {PV, PW, PTup(<<PV, PW>>), PStr(<<PFs("f")>>), PCon(TRUE, <<PV>>)}

\* ---------------------------------------------------------------- expressions
V == [k |-> "v"]
N == [k |-> "n"]
Bin(op, l, r) == [k |-> "bin", op |-> op, l |-> l, r |-> r]
Un(e) == [k |-> "un", e |-> e]
Call(f, as) == [k |-> "call", f |-> f, as |-> as]
Field(e) == [k |-> "field", e |-> e]
Tup(es) == [k |-> "tuple", es |-> es]
Arr(es) == [k |-> "array", es |-> es]
SLit(fs) == [k |-> "struct", fs |-> fs]                \* fs: <<[f, sh, e]>>
SF(f, e) == [f |-> f, sh |-> FALSE, e |-> e]
SFs(f) == [f |-> f, sh |-> TRUE, e |-> V]
If(c, th, el) == [k |-> "if", c |-> c, th |-> th, el |-> el]
Match(e, arms) == [k |-> "match", e |-> e, arms |-> arms]   \* arms: <<[p, b]>>
Arm(p, b) == [p |-> p, b |-> b]
While(c, b) == [k |-> "while", c |-> c, b |-> b]
Lam(ps, b) == [k |-> "lam", ps |-> ps, b |-> b]        \* ps: <<BOOLEAN>> (annotated with a type or not)
Go(e) == [k |-> "go", e |-> e]
None == [k |-> "none"]
Block(ss, tail) == [k |-> "block", ss |-> ss, tail |-> tail]
SLet(p, ann, e) == [k |-> "let", p |-> p, ann |-> ann, e |-> e]
SExp(e) == [k |-> "es", e |-> e]

ParamLists == {<<>>, <<FALSE>>, <<TRUE>>, <<FALSE, TRUE>>}
Splits2(n) == {<<i, n - i>> : i \in 0..n}
Splits3(n) == {<<i, j, n - i - j>> : i \in 0..n, j \in 0..n} \cap {s \in (0..n) \X (0..n) \X (0..n) : s[1] + s[2] + s[3] = n}

RECURSIVE Exprs(_)
RECURSIVE Blocks(_)
\* a block costs nothing by itself, each statement costs one node
Blocks(n) ==
  (IF n = 0 THEN {Block(<<>>, None)} ELSE {})
  \cup {Block(<<>>, e) : e \in Exprs(n)}
  \cup (IF n >= 1 THEN
          {Block(<<SExp(e)>>, None) : e \in Exprs(n - 1)}
          \cup UNION {{Block(<<SExp(a)>>, b) : a \in Exprs(s[1]), b \in Exprs(s[2])} : s \in Splits2(n - 1)}
          \cup UNION {{Block(<<SLet(p, ann, a)>>, b) : p \in LetPats, ann \in BOOLEAN, a \in Exprs(s[1]), b \in Exprs(s[2]) \cup {None}} : s \in Splits2(n - 1)}
        ELSE {})
  \cup (IF n >= 2 THEN
          UNION {{Block(<<SLet(PV, FALSE, a), SExp(b)>>, tl) : a \in Exprs(s[1]), b \in Exprs(s[2]), tl \in {None, V}} : s \in Splits2(n - 2)}
        ELSE {})
Bodies(n) == Exprs(n) \cup Blocks(n)
ThenBodies(n) == Blocks(n) \cup (IF n = 0 THEN {V, N} ELSE {})

RECURSIVE Form(_, _, _)
Kinds == {"bin", "un", "call", "field", "tuple", "array", "struct", "if", "match0", "match1", "match2", "while", "lam", "go"}
ArmPats(n) == IF n = 1 THEN Pats ELSE {PV, PCon(TRUE, <<PV>>), PStr(<<PFs("f")>>), PTup(<<PV, PW>>)}
\* the enumeration is split into parts (node count, root kind, sub-key) so that TLC's workers share it and no single set is
\* large; the sub-key is the way the remaining nodes are divided among the children (and, for a one-arm match, the pattern)
SubKeys(n, kd) ==
  CASE kd \in {"bin", "tuple", "while"} -> Splits2(n - 1)
    [] kd \in {"if", "match2"} -> Splits3(n - 1)
    [] kd = "match1" -> ArmPats(n) \X Splits2(n - 1)
    [] OTHER -> {0}
\* the trees with exactly n >= 1 compound nodes whose root is of kind kd, slice s
Form(n, kd, s) ==
  CASE kd = "bin" -> {Bin(op, l, r) : op \in BinOps, l \in Exprs(s[1]), r \in Exprs(s[2])}
    [] kd = "un" -> {Un(e) : e \in {x \in Exprs(n - 1) : x.k # "call"}}
    [] kd = "call" ->
         (IF n = 1 THEN {Call(V, <<>>)} ELSE {})
         \cup {Call(V, <<a>>) : a \in Exprs(n - 1)}
         \cup UNION {{Call(V, <<a, b>>) : a \in Exprs(q[1]), b \in Exprs(q[2])} : q \in Splits2(n - 1)}
         \cup (IF n >= 2 THEN {Call(Field(V), <<a>>) : a \in Exprs(n - 2)} ELSE {})
    [] kd = "field" -> {Field(e) : e \in {x \in Exprs(n - 1) : x # N}}
    [] kd = "tuple" -> {Tup(<<a, b>>) : a \in Exprs(s[1]), b \in Exprs(s[2])}
                       \cup (IF s[2] = 0 THEN {Tup(<<a>>) : a \in Exprs(s[1])} ELSE {})      \* the one-element tuple `( a , )`
    [] kd = "array" ->
         (IF n = 1 THEN {Arr(<<>>)} ELSE {})
         \cup {Arr(<<a>>) : a \in Exprs(n - 1)}
         \cup UNION {{Arr(<<a, b>>) : a \in Exprs(q[1]), b \in Exprs(q[2])} : q \in Splits2(n - 1)}
    [] kd = "struct" ->
         (IF n = 1 THEN {SLit(<<>>), SLit(<<SFs("f")>>), SLit(<<SFs("f"), SFs("g")>>)} ELSE {})
         \cup {SLit(<<SF("f", a)>>) : a \in Exprs(n - 1)}
         \cup {SLit(<<SFs("f"), SF("g", a)>>) : a \in Exprs(n - 1)}
         \cup UNION {{SLit(<<SF("f", a), SF("g", b)>>) : a \in Exprs(q[1]), b \in Exprs(q[2])} : q \in Splits2(n - 1)}
    [] kd = "if" -> {If(c, th, el) : c \in Exprs(s[1]), th \in ThenBodies(s[2]), el \in Bodies(s[3])}
    [] kd = "match0" -> {Match(e, <<>>) : e \in Exprs(n - 1)}
    [] kd = "match1" -> {Match(e, <<Arm(s[1], b)>>) : e \in Exprs(s[2][1]), b \in Bodies(s[2][2])}
    [] kd = "match2" -> {Match(e, <<Arm(p, b), Arm(PW, c)>>) : p \in {PI, PCon(TRUE, <<PV>>)}, e \in Exprs(s[1]), b \in Bodies(s[2]), c \in Bodies(s[3])}
    [] kd = "while" -> {While(c, b) : c \in Exprs(s[1]), b \in ThenBodies(s[2])}
    [] kd = "lam" -> {Lam(ps, b) : ps \in ParamLists, b \in Bodies(n - 1)}
    [] kd = "go" -> {Go(e) : e \in Exprs(n - 1)}
Exprs(n) == IF n = 0 THEN {V, N} ELSE UNION {UNION {Form(n, kd, s) : s \in SubKeys(n, kd)} : kd \in Kinds}
Parts == {<<0, "leaf", 0>>} \cup UNION {UNION {{<<n, kd, s>> : s \in SubKeys(n, kd)} : kd \in Kinds} : n \in 1..MaxNodes}
TreesOf(pt) == IF pt[1] = 0 THEN {V, N} ELSE Form(pt[1], pt[2], pt[3])

\* ---------------------------------------------------------------- rendering
Idents == {"v", "f", "g", "x", "S", "E", "C"}
Paren(ts) == <<"(">> \o ts \o <<")">>
Last(s) == s[Len(s)]

RECURSIVE RenderPat(_)
RECURSIVE RenderPats(_, _)
RECURSIVE RenderPFields(_, _)
RenderPats(ps, i) == IF i > Len(ps) THEN <<>> ELSE (IF i > 1 THEN <<",">> ELSE <<>>) \o RenderPat(ps[i]) \o RenderPats(ps, i + 1)
RenderPFields(fs, i) ==
  IF i > Len(fs) THEN <<>>
  ELSE (IF i > 1 THEN <<",">> ELSE <<>>) \o (IF fs[i].sh THEN <<fs[i].f>> ELSE <<fs[i].f, ":">> \o RenderPat(fs[i].p)) \o RenderPFields(fs, i + 1)
RenderPat(p) ==
  CASE p.k = "pvar" -> <<"x">>
    [] p.k = "pwild" -> <<"_">>
    [] p.k = "pint" -> <<"n">>
    [] p.k = "pbool" -> <<"true">>
    [] p.k = "pstr" -> <<"\"s\"">>
    [] p.k = "punit" -> <<"(", ")">>
    [] p.k = "ptuple" -> <<"(">> \o RenderPats(p.ps, 1) \o <<")">>
    [] p.k = "pcon" -> (IF p.q THEN <<"E", "::", "C">> ELSE <<"C">>)
                       \o (IF p.as = <<>> /\ p.q THEN <<>> ELSE <<"(">> \o RenderPats(p.as, 1) \o <<")">>)
    [] p.k = "pstruct" -> <<"S", "{">> \o RenderPFields(p.fs, 1) \o <<"}">>

RECURSIVE OpenRight(_)
OpenRight(e) ==
  CASE e.k \in {"lam", "go"} -> TRUE
    [] e.k = "if" -> e.el.k # "block"
    [] e.k = "while" -> e.b.k # "block"
    [] e.k = "bin" -> OpenRight(e.r)
    [] e.k = "un" -> OpenRight(e.e)
    [] OTHER -> FALSE
PrecOf(e) == CASE e.k = "bin" -> Prec(e.op) [] e.k = "un" -> PREFIX [] e.k \in {"call", "field"} -> POSTFIX [] OTHER -> ATOM
EmptyBraces(b) == b = Block(<<>>, None)

RECURSIVE Render(_, _, _)
RECURSIVE RenderRaw(_, _)
RECURSIVE RenderList(_, _)
RECURSIVE RenderFields(_, _)
RECURSIVE RenderBody(_, _)
RECURSIVE RenderBlock(_)
RECURSIVE RenderStmts(_, _)
RECURSIVE RenderArms(_, _)
RECURSIVE RenderHead(_, _)

\* Render(e, m, rf): tokens of e where precedence >= m is needed; rf: nothing of the same expression follows
Render(e, m, rf) ==
  IF PrecOf(e) < m \/ (OpenRight(e) /\ ~rf) THEN Paren(RenderRaw(e, TRUE)) ELSE RenderRaw(e, rf)
RenderList(es, i) == IF i > Len(es) THEN <<>> ELSE (IF i > 1 THEN <<",">> ELSE <<>>) \o Render(es[i], 0, TRUE) \o RenderList(es, i + 1)
RenderFields(fs, i) ==
  IF i > Len(fs) THEN <<>>
  ELSE (IF i > 1 THEN <<",">> ELSE <<>>) \o (IF fs[i].sh THEN <<fs[i].f>> ELSE <<fs[i].f, ":">> \o Render(fs[i].e, 0, TRUE)) \o RenderFields(fs, i + 1)
RenderBody(b, rf) == IF b.k = "block" THEN RenderBlock(b) ELSE Render(b, 0, rf)
RenderStmts(ss, i) ==
  IF i > Len(ss) THEN <<>>
  ELSE (IF ss[i].k = "let"
        THEN <<"let">> \o RenderPat(ss[i].p) \o (IF ss[i].ann THEN <<":", "int32">> ELSE <<>>) \o <<"=">> \o Render(ss[i].e, 0, TRUE) \o <<";">>
        ELSE Render(ss[i].e, 0, TRUE) \o <<";">>) \o RenderStmts(ss, i + 1)
RenderBlock(b) == <<"{">> \o RenderStmts(b.ss, 1) \o (IF b.tail = None THEN <<>> ELSE Render(b.tail, 0, TRUE)) \o <<"}">>
RenderArms(arms, i) ==
  IF i > Len(arms) THEN <<>>
  ELSE (IF i > 1 THEN <<",">> ELSE <<>>) \o RenderPat(arms[i].p) \o <<"=>">> \o RenderBody(arms[i].b, TRUE) \o RenderArms(arms, i + 1)
\* a condition / scrutinee, followed by braces that are empty or not (BraceAfterName)
RenderHead(c, emptyBraces) ==
  LET ts == Render(c, 0, FALSE) IN IF emptyBraces /\ Last(ts) \in Idents THEN Paren(ts) ELSE ts
RenderParams(ps) ==
  IF ps = <<>> THEN <<"||">>
  ELSE <<"|">> \o (IF ps[1] THEN <<"x", ":", "int32">> ELSE <<"x">>)
           \o (IF Len(ps) > 1 THEN <<",">> \o (IF ps[2] THEN <<"x", ":", "int32">> ELSE <<"x">>) ELSE <<>>) \o <<"|">>
RenderRaw(e, rf) ==
  CASE e.k = "v" -> <<"v">>
    [] e.k = "n" -> <<"n">>
    [] e.k = "bin" -> LET p == Prec(e.op) IN Render(e.l, p, FALSE) \o <<e.op>> \o Render(e.r, p + 1, rf)
    [] e.k = "un" -> <<"-">> \o Render(e.e, PREFIX, rf)
    [] e.k = "call" -> Render(e.f, POSTFIX, FALSE) \o <<"(">> \o RenderList(e.as, 1) \o <<")">>
    [] e.k = "field" -> Render(e.e, POSTFIX, FALSE) \o <<".", "f">>
    [] e.k = "tuple" -> <<"(">> \o RenderList(e.es, 1) \o (IF Len(e.es) = 1 THEN <<",">> ELSE <<>>) \o <<")">>
    [] e.k = "array" -> <<"[">> \o RenderList(e.es, 1) \o <<"]">>
    [] e.k = "struct" -> <<"S", "{">> \o RenderFields(e.fs, 1) \o (IF Len(e.fs) = 1 /\ e.fs[1].sh THEN <<",">> ELSE <<>>) \o <<"}">>
    [] e.k = "if" -> <<"if">> \o RenderHead(e.c, EmptyBraces(e.th)) \o RenderBody(e.th, FALSE) \o <<"else">> \o RenderBody(e.el, rf)
    [] e.k = "match" -> <<"match">> \o RenderHead(e.e, e.arms = <<>>) \o <<"{">> \o RenderArms(e.arms, 1) \o <<"}">>
    [] e.k = "while" -> <<"while">> \o RenderHead(e.c, EmptyBraces(e.b)) \o RenderBody(e.b, rf)
    [] e.k = "lam" -> RenderParams(e.ps) \o RenderBody(e.b, rf)
    [] e.k = "go" -> <<"go">> \o Render(e.e, 0, rf)

\* ---------------------------------------------------------------- the grammar as a parser: [t, i] (i = next token) or Err
Err == [err |-> TRUE]
IsErr(r) == "err" \in DOMAIN r
Tok(ts, i) == IF i <= Len(ts) THEN ts[i] ELSE "<eof>"
IsBinOp(x) == x \in {"||", "&&", "==", "!=", "<", ">", "<=", ">=", "+", "-", "*", "/"}
IsIdent(x) == x \in Idents
\* BraceAfterName: at `{`, do the next tokens start a struct literal?
LooksLikeStructLit(ts, i) ==
  Tok(ts, i) = "{" /\ (Tok(ts, i + 1) = "}" \/ (IsIdent(Tok(ts, i + 1)) /\ Tok(ts, i + 2) \in {":", ","}))

RECURSIVE ParsePat(_, _)
RECURSIVE ParsePatList(_, _, _)
RECURSIVE ParsePatFields(_, _, _)
\* patterns up to `)`, commas optional
ParsePatList(ts, i, acc) ==
  IF Tok(ts, i) = ")" THEN [ps |-> acc, i |-> i + 1]
  ELSE LET r == ParsePat(ts, i) IN
       IF IsErr(r) THEN Err
       ELSE ParsePatList(ts, IF Tok(ts, r.i) = "," THEN r.i + 1 ELSE r.i, Append(acc, r.t))
ParsePatFields(ts, i, acc) ==
  IF Tok(ts, i) = "}" THEN [fs |-> acc, i |-> i + 1]
  ELSE IF ~IsIdent(Tok(ts, i)) THEN Err
  ELSE IF Tok(ts, i + 1) = ":" THEN
       (LET r == ParsePat(ts, i + 2) IN
        IF IsErr(r) THEN Err
        ELSE ParsePatFields(ts, IF Tok(ts, r.i) = "," THEN r.i + 1 ELSE r.i, Append(acc, PF(Tok(ts, i), r.t))))
  ELSE ParsePatFields(ts, IF Tok(ts, i + 1) = "," THEN i + 2 ELSE i + 1, Append(acc, PFs(Tok(ts, i))))
ParsePat(ts, i) ==
  LET x == Tok(ts, i) IN
  IF x = "true" THEN [t |-> PB, i |-> i + 1]
  ELSE IF x = "n" THEN [t |-> PI, i |-> i + 1]
  ELSE IF x = "\"s\"" THEN [t |-> PS, i |-> i + 1]
  ELSE IF x = "_" THEN [t |-> PW, i |-> i + 1]
  ELSE IF x = "(" THEN
       (IF Tok(ts, i + 1) = ")" THEN [t |-> PU, i |-> i + 2]
        ELSE LET l == ParsePatList(ts, i + 1, <<>>) IN IF IsErr(l) THEN Err ELSE [t |-> PTup(l.ps), i |-> l.i])
  ELSE IF IsIdent(x) THEN
       (IF Tok(ts, i + 1) \notin {"::", "(", "{"} THEN [t |-> PV, i |-> i + 1]
        ELSE LET q == Tok(ts, i + 1) = "::"
                 j == IF q THEN i + 3 ELSE i + 1 IN
             IF q /\ ~IsIdent(Tok(ts, i + 2)) THEN Err
             ELSE IF Tok(ts, j) = "(" THEN
                  (LET l == ParsePatList(ts, j + 1, <<>>) IN IF IsErr(l) THEN Err ELSE [t |-> PCon(q, l.ps), i |-> l.i])
             ELSE IF Tok(ts, j) = "{" THEN
                  (LET l == ParsePatFields(ts, j + 1, <<>>) IN IF IsErr(l) THEN Err ELSE [t |-> PStr(l.fs), i |-> l.i])
             ELSE [t |-> PCon(q, <<>>), i |-> j])
  ELSE Err

RECURSIVE ParseExpr(_, _, _)
RECURSIVE ParseUnary(_, _)
RECURSIVE ParseAtom(_, _)
RECURSIVE ParsePostfix(_, _, _)
RECURSIVE ParseList(_, _, _, _)
RECURSIVE ParseFields(_, _, _)
RECURSIVE ParseBody(_, _)
RECURSIVE ParseBlock(_, _, _)
RECURSIVE ParseArms(_, _, _)
RECURSIVE Climb(_, _, _, _)

\* expressions separated by commas up to `close`
ParseList(ts, i, close, acc) ==
  IF Tok(ts, i) = close /\ acc = <<>> THEN [es |-> acc, i |-> i + 1]
  ELSE LET r == ParseExpr(ts, i, 0) IN
       IF IsErr(r) THEN Err
       ELSE IF Tok(ts, r.i) = "," THEN ParseList(ts, r.i + 1, close, Append(acc, r.t))
       ELSE IF Tok(ts, r.i) = close THEN [es |-> Append(acc, r.t), i |-> r.i + 1]
       ELSE Err
ParseFields(ts, i, acc) ==
  IF Tok(ts, i) = "}" THEN [fs |-> acc, i |-> i + 1]
  ELSE IF ~IsIdent(Tok(ts, i)) THEN Err
  ELSE IF Tok(ts, i + 1) = ":" THEN
       (LET r == ParseExpr(ts, i + 2, 0) IN
        IF IsErr(r) THEN Err
        ELSE ParseFields(ts, IF Tok(ts, r.i) = "," THEN r.i + 1 ELSE r.i, Append(acc, SF(Tok(ts, i), r.t))))
  ELSE ParseFields(ts, IF Tok(ts, i + 1) = "," THEN i + 2 ELSE i + 1, Append(acc, SFs(Tok(ts, i))))
\* a body: a block when it starts with `{`, an expression otherwise
ParseBody(ts, i) == IF Tok(ts, i) = "{" THEN ParseBlock(ts, i + 1, <<>>) ELSE ParseExpr(ts, i, 0)
\* after `{`: statements, then an optional tail expression, then `}`
ParseBlock(ts, i, acc) ==
  IF Tok(ts, i) = "}" THEN [t |-> Block(acc, None), i |-> i + 1]
  ELSE IF Tok(ts, i) = "let" THEN
       (LET p == ParsePat(ts, i + 1) IN
        IF IsErr(p) THEN Err
        ELSE LET ann == Tok(ts, p.i) = ":"
                 j == IF ann THEN p.i + 2 ELSE p.i IN
             IF (ann /\ Tok(ts, p.i + 1) # "int32") \/ Tok(ts, j) # "=" THEN Err
             ELSE LET e == ParseExpr(ts, j + 1, 0) IN
                  IF IsErr(e) \/ Tok(ts, e.i) # ";" THEN Err
                  ELSE ParseBlock(ts, e.i + 1, Append(acc, SLet(p.t, ann, e.t))))
  ELSE LET e == ParseExpr(ts, i, 0) IN
       IF IsErr(e) THEN Err
       ELSE IF Tok(ts, e.i) = ";" THEN ParseBlock(ts, e.i + 1, Append(acc, SExp(e.t)))
       ELSE IF Tok(ts, e.i) = "}" THEN [t |-> Block(acc, e.t), i |-> e.i + 1]
       ELSE Err
\* after `{` of a match: arms `pat => body`, commas optional
ParseArms(ts, i, acc) ==
  IF Tok(ts, i) = "}" THEN [arms |-> acc, i |-> i + 1]
  ELSE LET p == ParsePat(ts, i) IN
       IF IsErr(p) \/ Tok(ts, p.i) # "=>" THEN Err
       ELSE LET b == ParseBody(ts, p.i + 1) IN
            IF IsErr(b) THEN Err
            ELSE ParseArms(ts, IF Tok(ts, b.i) = "," THEN b.i + 1 ELSE b.i, Append(acc, Arm(p.t, b.t)))

ParseAtom(ts, i) ==
  LET x == Tok(ts, i) IN
  IF x = "n" THEN [t |-> N, i |-> i + 1]
  ELSE IF IsIdent(x) THEN
       (IF LooksLikeStructLit(ts, i + 1) THEN
             (IF x # "S" THEN Err        \* a struct literal of another name: not a tree of this module
              ELSE LET l == ParseFields(ts, i + 2, <<>>) IN IF IsErr(l) THEN Err ELSE [t |-> SLit(l.fs), i |-> l.i])
        ELSE IF x = "v" THEN [t |-> V, i |-> i + 1] ELSE Err)
  ELSE IF x = "(" THEN
       (LET first == ParseExpr(ts, i + 1, 0) IN
        IF IsErr(first) THEN Err
        ELSE IF Tok(ts, first.i) = "," /\ Tok(ts, first.i + 1) = ")" THEN [t |-> Tup(<<first.t>>), i |-> first.i + 2]   \* `( e , )`
        ELSE LET l == ParseList(ts, i + 1, ")", <<>>) IN
             IF IsErr(l) \/ l.es = <<>> THEN Err
             ELSE IF Len(l.es) = 1 THEN [t |-> l.es[1], i |-> l.i]     \* grouping parentheses
             ELSE [t |-> Tup(l.es), i |-> l.i])
  ELSE IF x = "[" THEN
       (LET l == ParseList(ts, i + 1, "]", <<>>) IN IF IsErr(l) THEN Err ELSE [t |-> Arr(l.es), i |-> l.i])
  ELSE IF x = "if" THEN
       (LET c == ParseExpr(ts, i + 1, 0) IN
        IF IsErr(c) THEN Err
        ELSE LET th == ParseBody(ts, c.i) IN
             IF IsErr(th) \/ Tok(ts, th.i) # "else" THEN Err
             ELSE LET el == ParseBody(ts, th.i + 1) IN
                  IF IsErr(el) THEN Err ELSE [t |-> If(c.t, th.t, el.t), i |-> el.i])
  ELSE IF x = "match" THEN
       (LET e == ParseExpr(ts, i + 1, 0) IN
        IF IsErr(e) \/ Tok(ts, e.i) # "{" THEN Err
        ELSE LET a == ParseArms(ts, e.i + 1, <<>>) IN IF IsErr(a) THEN Err ELSE [t |-> Match(e.t, a.arms), i |-> a.i])
  ELSE IF x = "while" THEN
       (LET c == ParseExpr(ts, i + 1, 0) IN
        IF IsErr(c) THEN Err
        ELSE LET b == ParseBody(ts, c.i) IN IF IsErr(b) THEN Err ELSE [t |-> While(c.t, b.t), i |-> b.i])
  ELSE IF x = "go" THEN
       (LET e == ParseExpr(ts, i + 1, 0) IN IF IsErr(e) THEN Err ELSE [t |-> Go(e.t), i |-> e.i])
  ELSE IF x = "||" THEN
       (LET b == ParseBody(ts, i + 1) IN IF IsErr(b) THEN Err ELSE [t |-> Lam(<<>>, b.t), i |-> b.i])
  ELSE IF x = "|" THEN
       (LET a1 == Tok(ts, i + 2) = ":"
            j == IF a1 THEN i + 4 ELSE i + 2 IN
        IF Tok(ts, i + 1) # "x" \/ (a1 /\ Tok(ts, i + 3) # "int32") THEN Err
        ELSE IF Tok(ts, j) = "|" THEN
             (LET b == ParseBody(ts, j + 1) IN IF IsErr(b) THEN Err ELSE [t |-> Lam(<<a1>>, b.t), i |-> b.i])
        ELSE IF Tok(ts, j) = "," /\ Tok(ts, j + 1) = "x" THEN
             (LET a2 == Tok(ts, j + 2) = ":"
                  k == IF a2 THEN j + 4 ELSE j + 2 IN
              IF (a2 /\ Tok(ts, j + 3) # "int32") \/ Tok(ts, k) # "|" THEN Err
              ELSE LET b == ParseBody(ts, k + 1) IN IF IsErr(b) THEN Err ELSE [t |-> Lam(<<a1, a2>>, b.t), i |-> b.i])
        ELSE Err)
  ELSE Err

ParsePostfix(ts, i, base) ==
  IF Tok(ts, i) = "(" THEN
       LET a == ParseList(ts, i + 1, ")", <<>>) IN IF IsErr(a) THEN Err ELSE ParsePostfix(ts, a.i, Call(base, a.es))
  ELSE IF Tok(ts, i) = "." THEN
       (IF Tok(ts, i + 1) = "f" /\ ~LooksLikeStructLit(ts, i + 2) THEN ParsePostfix(ts, i + 2, Field(base)) ELSE Err)
  ELSE [t |-> base, i |-> i]

ParseUnary(ts, i) ==
  IF Tok(ts, i) = "-" THEN
       LET r == ParseUnary(ts, i + 1) IN IF IsErr(r) THEN Err ELSE [t |-> Un(r.t), i |-> r.i]
  ELSE LET a == ParseAtom(ts, i) IN IF IsErr(a) THEN Err ELSE ParsePostfix(ts, a.i, a.t)

Climb(ts, i, lhs, m) ==
  LET op == Tok(ts, i) IN
  IF IsBinOp(op) /\ Prec(op) >= m THEN
       LET r0 == ParseUnary(ts, i + 1) IN
       IF IsErr(r0) THEN Err
       ELSE LET r == Climb(ts, r0.i, r0.t, Prec(op) + 1) IN
            IF IsErr(r) THEN Err ELSE Climb(ts, r.i, Bin(op, lhs, r.t), m)
  ELSE [t |-> lhs, i |-> i]

ParseExpr(ts, i, m) == LET u == ParseUnary(ts, i) IN IF IsErr(u) THEN Err ELSE Climb(ts, u.i, u.t, m)

Parse(ts) == LET r == ParseExpr(ts, 1, 0) IN IF IsErr(r) \/ r.i # Len(ts) + 1 THEN Err ELSE r

\* ---------------------------------------------------------------- model
Init == part \in Parts /\ t = None
Next == t = None /\ t' \in (LET S == TreesOf(part) IN IF Sample = 0 \/ Cardinality(S) <= Sample THEN S ELSE RandomSubset(Sample, S)) /\ UNCHANGED part
RoundTrip == t # None => LET r == Parse(Render(t, 0, TRUE)) IN ~IsErr(r) /\ r.t = t
Emit == t # None => PrintT(<<"SYN", ToJson([toks |-> Render(t, 0, TRUE), tree |-> t])>>)
=============================================================================
