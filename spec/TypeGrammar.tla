----------------------------- MODULE TypeGrammar -----------------------------
(***************************************************************************)
(* The grammar of goml type expressions (C11).                             *)
(*                                                                          *)
(*   Type   ::= Atom | Params "->" Type          -- the arrow is right-     *)
(*                                                  associative             *)
(*   Params ::= "(" [Type {"," Type}] ")"                                   *)
(*   Atom   ::= name | name "[" Type {"," Type} "]" | "[" Type ";" n "]"    *)
(*            | "(" Type {"," Type} ")"           -- a tuple (also with one *)
(*                                                  component)              *)
(* There are no grouping parentheses: a function type in parameter, tuple   *)
(* or argument position is delimited by the brackets around it, and         *)
(* `(A) -> (B) -> C` is the curried `(A) -> ((B) -> C)`.                    *)
(*                                                                          *)
(* Types(d) are all type trees of depth <= d over a small alphabet;         *)
(* Render(t) is the token list; Parse is the grammar read as a parser.      *)
(* TLC checks Parse(Render(t)) = t and emits (tokens, tree) for the real    *)
(* parser + AST lowering to be compared against.                            *)
(***************************************************************************)
EXTENDS Integers, Sequences, FiniteSets, TLC, Json

CONSTANTS Depth, Names

VARIABLE t
vars == <<t>>

Con(n) == [k |-> "con", n |-> n]
Tup(ts) == [k |-> "tuple", ts |-> ts]
App(as) == [k |-> "app", as |-> as]              \* Vec[..]
Arr(e) == [k |-> "array", e |-> e]               \* [e; 3]
Fn(ps, r) == [k |-> "fn", ps |-> ps, r |-> r]

RECURSIVE Types(_)
Seqs(S, lo, hi) == UNION {[1..n -> S] : n \in lo..hi}
Types(d) ==
  IF d = 0 THEN {Con(n) : n \in Names}
  ELSE LET sub == Types(d - 1) IN
       sub \cup {Tup(ts) : ts \in Seqs(sub, 1, 2)} \cup {App(<<a>>) : a \in sub} \cup {Arr(e) : e \in sub}
           \cup {Fn(ps, r) : ps \in Seqs(sub, 0, 2), r \in sub}

RECURSIVE Render(_)
RECURSIVE RenderList(_, _)
RenderList(ts, i) == IF i > Len(ts) THEN <<>> ELSE (IF i > 1 THEN <<",">> ELSE <<>>) \o Render(ts[i]) \o RenderList(ts, i + 1)
Render(ty) ==
  CASE ty.k = "con" -> <<ty.n>>
    [] ty.k = "tuple" -> <<"(">> \o RenderList(ty.ts, 1) \o <<")">>
    [] ty.k = "app" -> <<"Vec", "[">> \o RenderList(ty.as, 1) \o <<"]">>
    [] ty.k = "array" -> <<"[">> \o Render(ty.e) \o <<";", "3", "]">>
    [] ty.k = "fn" -> <<"(">> \o RenderList(ty.ps, 1) \o <<")", "->">> \o Render(ty.r)

\* ---------------------------------------------------------------- the grammar as a parser: [t, i] or Err
Err == [err |-> TRUE]
IsErr(r) == "err" \in DOMAIN r
Tok(ts, i) == IF i <= Len(ts) THEN ts[i] ELSE "<eof>"

RECURSIVE ParseType(_, _)
RECURSIVE ParseList(_, _, _, _)
\* elements up to the closing token `close`; returns [ts, i] with i after `close`
ParseList(toks, i, close, acc) ==
  IF Tok(toks, i) = close /\ acc = <<>> THEN [ts |-> acc, i |-> i + 1]
  ELSE LET r == ParseType(toks, i) IN
       IF IsErr(r) THEN Err
       ELSE IF Tok(toks, r.i) = "," THEN ParseList(toks, r.i + 1, close, Append(acc, r.t))
       ELSE IF Tok(toks, r.i) = close THEN [ts |-> Append(acc, r.t), i |-> r.i + 1]
       ELSE Err
ParseType(toks, i) ==
  LET x == Tok(toks, i) IN
  IF x = "(" THEN
       LET l == ParseList(toks, i + 1, ")", <<>>) IN
       IF IsErr(l) THEN Err
       ELSE IF Tok(toks, l.i) = "->" THEN
            (LET r == ParseType(toks, l.i + 1) IN IF IsErr(r) THEN Err ELSE [t |-> Fn(l.ts, r.t), i |-> r.i])
       ELSE IF l.ts = <<>> THEN Err                  \* `()` alone is not a type
       ELSE [t |-> Tup(l.ts), i |-> l.i]
  ELSE IF x = "[" THEN
       LET e == ParseType(toks, i + 1) IN
       IF IsErr(e) \/ Tok(toks, e.i) # ";" \/ Tok(toks, e.i + 1) # "3" \/ Tok(toks, e.i + 2) # "]" THEN Err
       ELSE [t |-> Arr(e.t), i |-> e.i + 3]
  ELSE IF x = "Vec" THEN
       (IF Tok(toks, i + 1) # "[" THEN Err
        ELSE LET l == ParseList(toks, i + 2, "]", <<>>) IN IF IsErr(l) \/ l.ts = <<>> THEN Err ELSE [t |-> App(l.ts), i |-> l.i])
  ELSE IF x \in Names THEN [t |-> Con(x), i |-> i + 1]
  ELSE Err
Parse(toks) == LET r == ParseType(toks, 1) IN IF IsErr(r) \/ r.i # Len(toks) + 1 THEN Err ELSE r

Init == t \in Types(Depth)
Next == UNCHANGED t
RoundTrip == LET r == Parse(Render(t)) IN ~IsErr(r) /\ r.t = t
Emit == PrintT(<<"TYPE", ToJson([toks |-> Render(t), tree |-> t])>>)
=============================================================================
