INIT TInit
NEXT TNext
CONSTANTS
  VarIds = {}
  Lens = {}
  MaxCalls = 0
  Rich = FALSE
  OccursInRet = TRUE
INVARIANTS Finished
CHECK_DEADLOCK FALSE
