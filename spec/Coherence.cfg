INIT Init
NEXT Next
INVARIANTS OrphanRuleImpliesCoherence UniqueMeaning Emit
CHECK_DEADLOCK FALSE
