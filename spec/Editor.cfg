INIT Init
NEXT Next
CONSTANT NTokens = 420
INVARIANT Emit
CHECK_DEADLOCK FALSE
