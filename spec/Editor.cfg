INIT Init
NEXT Next
CONSTANTS NTokens = 420
  NBytes = 1500
INVARIANT Emit
CHECK_DEADLOCK FALSE
