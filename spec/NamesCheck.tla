----------------------------- MODULE NamesCheck -----------------------------
EXTENDS Names
VARIABLE k
Init == k = 0
Next == k = 0 /\ k' = 1
Fns == {"go_ident", "encode_ty", "go_type_name_for", "ty_compact", "trait_impl_fn_name", "inherent_method_fn_name", "ref_struct_name",
        "array_helper_fn_name", "ref_helper_fn_name"}
Report == k = 1 => PrintT(<<"NAMES", ToJson([injective |-> [f \in Fns |-> Injective(f)],
                                             legal |-> [f \in {"go_ident", "go_type_name_for", "ref_struct_name", "array_helper_fn_name", "ref_helper_fn_name"} |-> Legal(f)],
                                             collisions |-> [f \in Fns |-> {<<Table[p[1]].inp, Table[p[2]].inp, Table[p[1]].out>> : p \in Collisions(f)}],
                                             capturing |-> {Table[i].inp : i \in Capturing},
                                             rows |-> Len(Table)])>>)
=============================================================================
