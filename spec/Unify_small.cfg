SPECIFICATION Spec
CONSTANTS
  VarIds = {1, 2}
  Lens = {2, 3}
  MaxCalls = 2
  Rich = FALSE
  OccursInRet = TRUE
INVARIANTS InvAcyclic InvUnifiedExact InvComplete InvMostGeneral InvGrows
CHECK_DEADLOCK FALSE
