INIT GridInitThorough
NEXT GridNext
CONSTANTS
  GridRows = 3
  MaxRows = 4
  Scrutinees <- AllScrut
  PatDepth = 1
  MinRows = 2
INVARIANT Emit
CHECK_DEADLOCK FALSE
