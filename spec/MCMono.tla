------------------------------- MODULE MCMono -------------------------------
EXTENDS Mono
F2 == {"f", "g"}
F3 == {"f", "g", "h"}
\* the real scheme: name = function ++ "__T_" ++ compact type; compact types of different depths differ
GoodName == [c \in F3 \X (0..6) |-> <<c[1], c[2]>>]
\* a scheme that forgets the nesting beyond depth 1 (Box[Box[int]] and Box[int] collide)
BadName == [c \in F3 \X (0..6) |-> <<c[1], IF c[2] > 1 THEN 1 ELSE c[2]>>]
=============================================================================
