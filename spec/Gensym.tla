-------------------------------- MODULE Gensym --------------------------------
(***************************************************************************)
(* The name supply of the compiler (env.rs: Gensym; one instance per       *)
(* compilation, shared by match compilation, closure conversion, ANF and   *)
(* the Go backend).  A generated name is a prefix (x, mtmp, _wild, env, t, *)
(* ret, cond) followed by the value of ONE counter shared by all prefixes.  *)
(*                                                                          *)
(* Properties of the design, checked by TLC on the model:                   *)
(*   Unique      no name is issued twice (because the counter is shared and *)
(*               never goes back; with per-prefix counters it would still   *)
(*               hold, with Reset - the method exists, unused - it fails:   *)
(*               Gensym_reset.cfg is the self-test)                         *)
(*   NoCapture   no issued name is a name the user chose for a function     *)
(*               (locals are renamed name/idx and cannot clash).  This does *)
(*               NOT hold in the design: nothing keeps a user from calling  *)
(*               a function t5.  The model shows when it bites (the user    *)
(*               name must carry exactly the counter value reached), which  *)
(*               is what GensymTrace.tla decides for every real run.        *)
(***************************************************************************)
EXTENDS Naturals, FiniteSets, TLC

CONSTANTS Prefs,    \* set of prefixes
          MaxN,        \* bound on the counter (model checking only)
          User,        \* names chosen by the user: set of <<prefix, n>> that look like generated names
          AllowReset   \* BOOLEAN: the unused Gensym::reset is callable

VARIABLES counter, issued, twice
vars == <<counter, issued, twice>>

Init == counter = 0 /\ issued = {} /\ twice = {}

\* gensym(prefix)
Fresh(p) ==
  /\ counter < MaxN
  /\ LET name == <<p, counter>> IN
     /\ twice' = IF name \in issued THEN twice \cup {name} ELSE twice
     /\ issued' = issued \cup {name}
  /\ counter' = counter + 1

Reset == AllowReset /\ counter' = 0 /\ UNCHANGED <<issued, twice>>

Next == (\E p \in Prefs : Fresh(p)) \/ Reset
Spec == Init /\ [][Next]_vars

Unique == twice = {}
Captured == issued \cap User
NoCapture == Captured = {}
=============================================================================
