------------------------------- MODULE GoSem -------------------------------
(***************************************************************************)
(* Small-step semantics of the Go subset emitted by goml (go/goast.rs,      *)
(* pprint/go_pprint.rs, go/runtime.rs).  Input: the emitted *text*, parsed  *)
(* by lib/goparse.py and hoisted by lib/gohoist.py so that every effectful  *)
(* expression (user call, call through a function value, allocation,        *)
(* append, print, panic) is the root of its statement.  One TLC step = one  *)
(* Go statement (or one return).  Programs are constants; a state holds     *)
(* only block ids / indices, environments, the heap and the output.         *)
(*                                                                          *)
(* Outcome: status.k \in {"ok","failed","unsupported","inconclusive"} and   *)
(* the bytes written to standard output.  "unsupported" means the program   *)
(* left the calibrated subset (never reported as a violation).              *)
(***************************************************************************)
EXTENDS Integers, Sequences, FiniteSets, TLC, Json, IOUtils, SemCommon

Progs == ndJsonDeserialize(IOEnv.PROGS)
MaxSteps == IF "MAXSTEPS" \in DOMAIN IOEnv THEN atoi(IOEnv.MAXSTEPS) ELSE 20000

\* par: goroutines.  The machine runs one goroutine at a time (stack, retv are its state); par.others holds the parked ones,
\* par.main tells whether the running one is main.  A program without `go` statements never changes par.
VARIABLES pid, stack, heap, nxt, out, status, retv, steps, par
vars == <<pid, stack, heap, nxt, out, status, retv, steps, par>>

P == Progs[pid].ast
Blocks == P.blocks

Max(S) == CHOOSE x \in S : \A y \in S : y <= x
Min(S) == CHOOSE x \in S : \A y \in S : x <= y

\* ---------------------------------------------------------------- values
VInt(t, n) == [k |-> "int", t |-> t, n |-> n]
VBool(b) == [k |-> "bool", v |-> b]
VStr(bs) == [k |-> "str", v |-> bs]
VUnit == [k |-> "unit"]
VNil == [k |-> "nil"]
VFn(n) == [k |-> "fn", n |-> n]
VPanic(why) == [k |-> "panic", why |-> why]    \* Go run-time panic
IsBad(v) == v.k \in {"bad", "panic"}
EmptySlice(et) == [k |-> "slice", a |-> 0, len |-> 0, cap |-> 0]

\* ---------------------------------------------------------------- types
TypeDecl(n) == P.types[n]
IsDeclared(n) == n \in DOMAIN P.types
IsIfaceTy(ty) == ty.k = "named" /\ (ty.n = "any" \/ (IsDeclared(ty.n) /\ TypeDecl(ty.n).k = "iface"))
RECURSIVE TypeKey(_)
TypeKey(ty) ==
  CASE ty.k = "named" -> IF ty.n = "byte" THEN "uint8" ELSE ty.n
    [] ty.k = "unit" -> "struct{}"
    [] ty.k = "ptr" -> "*" \o TypeKey(ty.e)
    [] ty.k = "slice" -> "[]" \o TypeKey(ty.e)
    [] OTHER -> "?"

MethodsOfKey(key) == {P.methods[i].name : i \in {j \in DOMAIN P.methods : TypeKey(P.methods[j].recv.t) = key}}
FieldTy(tn, fn) == LET d == TypeDecl(tn) IN d.fields[CHOOSE i \in DOMAIN d.fields : d.fields[i].n = fn].t
HasField(tn, fn) == IsDeclared(tn) /\ TypeDecl(tn).k = "struct" /\ \E i \in DOMAIN TypeDecl(tn).fields : TypeDecl(tn).fields[i].n = fn

RECURSIVE Zero(_)
Zero(ty) ==
  CASE ty.k = "unit" -> VUnit
    [] ty.k = "ptr" -> VNil
    [] ty.k = "func" -> VNil
    [] ty.k = "slice" -> EmptySlice(ty.e)
    [] ty.k = "array" -> [k |-> "array", es |-> [i \in 1..ty.n |-> Zero(ty.e)]]
    [] ty.k = "named" ->
         IF ty.n \in IntTypes THEN VInt(TypeKey(ty), NZero)
         ELSE IF ty.n \in FloatTypes THEN VFloat(ty.n, 0, 1)
         ELSE IF ty.n = "string" THEN VStr(<<>>)
         ELSE IF ty.n = "bool" THEN VBool(FALSE)
         ELSE IF ty.n = "any" THEN VNil
         ELSE IF ~IsDeclared(ty.n) THEN VBad("zero value of unknown type " \o ty.n)
         ELSE LET d == TypeDecl(ty.n) IN
              IF d.k = "iface" THEN VNil
              ELSE IF d.k = "struct" THEN
                   [k |-> "struct", t |-> ty.n,
                    f |-> [n \in {d.fields[i].n : i \in DOMAIN d.fields} |->
                             Zero(d.fields[CHOOSE i \in DOMAIN d.fields : d.fields[i].n = n].t)]]
              ELSE IF d.k = "alias" THEN Zero(d.t)
              ELSE VBad("zero value")
    [] OTHER -> VBad("zero value")

\* ---------------------------------------------------------------- conversion of untyped constants to their context
Conv(v, ty) ==
  IF v.k = "int" /\ v.t = "untyped" THEN
       IF ty.k = "named" /\ ty.n \in IntTypes THEN VInt(TypeKey(ty), v.n)
       ELSE IF IsIfaceTy(ty) THEN VInt("int", v.n)                         \* default type of an untyped integer constant
       ELSE IF ty.k = "named" /\ ty.n \in FloatTypes THEN (IF v.n.s THEN FNorm(ty.n, v.n.v, 1) ELSE VBad("big float constant"))
       ELSE v
  ELSE IF v.k = "float" /\ v.t = "untyped" THEN
       IF ty.k = "named" /\ ty.n \in FloatTypes THEN [v EXCEPT !.t = ty.n]
       ELSE IF IsIfaceTy(ty) THEN [v EXCEPT !.t = "float64"]
       ELSE v
  ELSE IF v.k = "nil" /\ ty.k = "slice" THEN EmptySlice(ty.e)
  ELSE v

\* dynamic type of a value stored in an interface
DynKey(v) ==
  CASE v.k = "struct" -> v.t
    [] v.k = "int" -> v.t
    [] v.k = "float" -> v.t
    [] v.k = "str" -> "string"
    [] v.k = "bool" -> "bool"
    [] v.k = "unit" -> "struct{}"
    [] v.k = "ptr" -> "*" \o v.t
    [] v.k = "nil" -> "<nil>"
    [] OTHER -> "?"

\* ---------------------------------------------------------------- environments
EmptyScope == [n \in {} |-> 0]
InScope(env, n) == {k \in 1..Len(env) : n \in DOMAIN env[k]}
Bound(env, n) == InScope(env, n) # {}
Cell(env, n) == env[Max(InScope(env, n))][n]
Bind(env, n, v, t) == [env EXCEPT ![Len(env)] = (n :> [v |-> v, t |-> t]) @@ @]
Update(env, n, v) == LET k == Max(InScope(env, n)) IN [env EXCEPT ![k] = [@ EXCEPT ![n] = [@ EXCEPT !.v = v]]]
AnyTy == [k |-> "named", n |-> "any"]

\* ---------------------------------------------------------------- formatting
QuoteByte(b) ==
  CASE b = 34 -> <<92, 34>> [] b = 92 -> <<92, 92>>
    [] b = 7 -> <<92, 97>> [] b = 8 -> <<92, 98>> [] b = 12 -> <<92, 102>> [] b = 10 -> <<92, 110>>
    [] b = 13 -> <<92, 114>> [] b = 9 -> <<92, 116>> [] b = 11 -> <<92, 118>>
    [] OTHER -> LET hex == <<48, 49, 50, 51, 52, 53, 54, 55, 56, 57, 97, 98, 99, 100, 101, 102>> IN
                IF b < 32 \/ b = 127 THEN <<92, 120, hex[(b \div 16) + 1], hex[(b % 16) + 1]>> ELSE <<b>>
\* strconv.Quote on byte strings: ASCII exactly; multi-byte UTF-8 sequences of runes known to be printable are kept
\* (U+00C0..U+07FF, CJK U+4E00..U+9FFF, emoticons U+1F600..U+1F64F); everything else (invalid UTF-8, runes whose
\* printability is table-driven) is outside the model
RuneLen(b) == IF b < 128 THEN 1 ELSE IF b >= 194 /\ b <= 223 THEN 2 ELSE IF b >= 224 /\ b <= 239 THEN 3 ELSE IF b >= 240 /\ b <= 244 THEN 4 ELSE 0
Cont(b) == b >= 128 /\ b <= 191
RuneOk(bs) == LET n == RuneLen(Head(bs)) IN n >= 1 /\ Len(bs) >= n /\ \A i \in 2..n : Cont(bs[i])
RuneCp(bs) ==
  LET n == RuneLen(Head(bs)) IN
  CASE n = 1 -> bs[1]
    [] n = 2 -> (bs[1] - 192) * 64 + (bs[2] - 128)
    [] n = 3 -> (bs[1] - 224) * 4096 + (bs[2] - 128) * 64 + (bs[3] - 128)
    [] n = 4 -> (bs[1] - 240) * 262144 + (bs[2] - 128) * 4096 + (bs[3] - 128) * 64 + (bs[4] - 128)
KnownPrintable(cp) == (cp >= 192 /\ cp <= 2047) \/ (cp >= 19968 /\ cp <= 40959) \/ (cp >= 128512 /\ cp <= 128591)
RECURSIVE QuoteSeq(_)
QuoteSeq(bs) ==
  IF bs = <<>> THEN <<>>
  ELSE IF Head(bs) < 128 THEN QuoteByte(Head(bs)) \o QuoteSeq(Tail(bs))
  ELSE LET n == RuneLen(Head(bs)) IN SubSeq(bs, 1, n) \o QuoteSeq(SubSeq(bs, n + 1, Len(bs)))
RECURSIVE Quotable(_)
Quotable(bs) ==
  IF bs = <<>> THEN TRUE
  ELSE IF Head(bs) < 128 THEN Quotable(Tail(bs))
  ELSE RuneOk(bs) /\ KnownPrintable(RuneCp(bs)) /\ Quotable(SubSeq(bs, RuneLen(Head(bs)) + 1, Len(bs)))
\* strconv.QuoteToASCII (%+q): every non-ASCII rune becomes \uXXXX, or \UXXXXXXXX from U+10000 on
HexDigit(d) == <<48, 49, 50, 51, 52, 53, 54, 55, 56, 57, 97, 98, 99, 100, 101, 102>>[d + 1]
RECURSIVE HexN(_, _)
HexN(v, n) == IF n = 0 THEN <<>> ELSE HexN(v \div 16, n - 1) \o <<HexDigit(v % 16)>>
RECURSIVE QuoteAsciiSeq(_)
QuoteAsciiSeq(bs) ==
  IF bs = <<>> THEN <<>>
  ELSE IF Head(bs) < 128 THEN QuoteByte(Head(bs)) \o QuoteAsciiSeq(Tail(bs))
  ELSE LET n == RuneLen(Head(bs)) cp == RuneCp(bs) IN
       (IF cp < 65536 THEN <<92, 117>> \o HexN(cp, 4) ELSE <<92, 85>> \o HexN(cp, 8)) \o QuoteAsciiSeq(SubSeq(bs, n + 1, Len(bs)))
RECURSIVE AllRunesOk(_)
AllRunesOk(bs) == bs = <<>> \/ (RuneOk(bs) /\ AllRunesOk(SubSeq(bs, RuneLen(Head(bs)) + 1, Len(bs))))

TypeNameBytes(t) ==   \* names that can appear in %!d(T=..) bad-verb output
  CASE t = "float32" -> <<102, 108, 111, 97, 116, 51, 50>> [] t = "float64" -> <<102, 108, 111, 97, 116, 54, 52>>
    [] t = "string" -> <<115, 116, 114, 105, 110, 103>> [] t = "bool" -> <<98, 111, 111, 108>> [] OTHER -> <<63>>

FormatV(x) ==      \* %v / Print of a single operand
  CASE x.k = "int" -> VStr(NDec(x.n))
    [] x.k = "str" -> x
    [] x.k = "bool" -> VStr(IF x.v THEN <<116, 114, 117, 101>> ELSE <<102, 97, 108, 115, 101>>)
    [] x.k = "float" -> IF FloatOK(x) THEN VStr(FloatV(x)) ELSE VBad("float formatting outside the modelled range")
    [] x.k = "unit" -> VStr(<<123, 125>>)
    [] OTHER -> VBad("formatting of a composite value")

Sprintf(f, x) ==
  IF f = <<37, 100>> THEN                                              \* "%d"
       (IF x.k = "int" THEN VStr(NDec(x.n))
        ELSE IF x.k \in {"float", "str", "bool"} THEN
             LET tn == IF x.k = "float" THEN (IF x.t = "untyped" THEN "float64" ELSE x.t) ELSE DynKey(x)
                 inner == FormatV(x) IN
             IF IsBad(inner) THEN inner ELSE VStr(<<37, 33, 100, 40>> \o TypeNameBytes(tn) \o <<61>> \o inner.v \o <<41>>)
        ELSE VBad("%d of a composite value"))
  ELSE IF f = <<37, 113>> THEN                                         \* "%q"
       (IF x.k = "str" THEN (IF Quotable(x.v) THEN VStr(<<34>> \o QuoteSeq(x.v) \o <<34>>) ELSE VBad("%q beyond the modelled alphabet"))
        ELSE VBad("%q of non-string"))
  ELSE IF f = <<37, 43, 113>> THEN                                     \* "%+q"
       (IF x.k = "str" THEN (IF AllRunesOk(x.v) THEN VStr(<<34>> \o QuoteAsciiSeq(x.v) \o <<34>>) ELSE VBad("%+q of invalid UTF-8"))
        ELSE VBad("%+q of non-string"))
  ELSE IF f \in {<<37, 118>>, <<37, 115>>} THEN (IF f = <<37, 115>> /\ x.k # "str" THEN VBad("%s of non-string") ELSE FormatV(x))
  ELSE VBad("Sprintf format")

\* ---------------------------------------------------------------- pure expression evaluation
IsPkgSel(e, p) == e.k = "sel" /\ e.e.k = "id" /\ e.e.n = p
IsUserFn(n) == n \in DOMAIN P.funcs

NumOf(e) == IF e.k = "bigint" THEN NFromDigits(FALSE, e.digits) ELSE NFromInt(e.v)

CmpRes(op, c) ==
  CASE op = "<" -> c < 0 [] op = ">" -> c > 0 [] op = "<=" -> c <= 0 [] op = ">=" -> c >= 0 [] op = "==" -> c = 0 [] op = "!=" -> c # 0

RECURSIVE ValEq(_, _)
ValEq(l, r) ==       \* Go == on comparable values of identical type
  IF l.k = "struct" /\ r.k = "struct" THEN l.t = r.t /\ \A n \in DOMAIN l.f : ValEq(l.f[n], r.f[n])
  ELSE IF l.k = "array" /\ r.k = "array" THEN \A i \in DOMAIN l.es : ValEq(l.es[i], r.es[i])
  ELSE IF l.k = "int" /\ r.k = "int" THEN l.n = r.n /\ (l.t = r.t \/ "untyped" \in {l.t, r.t})
  ELSE IF l.k = "float" /\ r.k = "float" THEN l.num = r.num /\ l.den = r.den
  ELSE l = r

EvalBin(op, l, r) ==
  IF IsBad(l) THEN l ELSE IF IsBad(r) THEN r
  ELSE IF l.k = "int" /\ r.k = "int" THEN
       LET t == IF l.t = "untyped" THEN r.t ELSE l.t IN
       CASE op = "+" -> VInt(t, WrapT(t, NAdd(l.n, r.n)))
         [] op = "-" -> VInt(t, WrapT(t, NSub(l.n, r.n)))
         [] op = "*" -> VInt(t, WrapT(t, NMul(l.n, r.n)))
         [] op = "/" -> IF IsZero(r.n) THEN VPanic("integer divide by zero") ELSE VInt(t, WrapT(t, NDiv(l.n, r.n)))
         [] op = "%" -> IF IsZero(r.n) THEN VPanic("integer divide by zero") ELSE VInt(t, WrapT(t, NRem(l.n, r.n)))
         [] op \in {"<", ">", "<=", ">=", "==", "!="} -> VBool(CmpRes(op, NCmp(l.n, r.n)))
         [] OTHER -> VBad("integer operator " \o op)
  ELSE IF l.k \in {"float", "int"} /\ r.k \in {"float", "int"} THEN        \* at least one float; ints here are untyped constants
       LET t == IF l.k = "float" /\ l.t # "untyped" THEN l.t ELSE IF r.k = "float" THEN r.t ELSE "untyped"
           fl == IF l.k = "int" THEN (IF l.n.s THEN VFloat(t, l.n.v, 1) ELSE VBad("big constant")) ELSE l
           fr == IF r.k = "int" THEN (IF r.n.s THEN VFloat(t, r.n.v, 1) ELSE VBad("big constant")) ELSE r IN
       IF IsBad(fl) THEN fl ELSE IF IsBad(fr) THEN fr
       ELSE IF NAbs(fl.num) >= 32768 \/ NAbs(fr.num) >= 32768 \/ fl.den >= 32768 \/ fr.den >= 32768 THEN VBad("float operands outside the modelled range")
       ELSE CASE op = "+" -> FNorm(t, fl.num * fr.den + fr.num * fl.den, fl.den * fr.den)
              [] op = "-" -> FNorm(t, fl.num * fr.den - fr.num * fl.den, fl.den * fr.den)
              [] op = "*" -> FNorm(t, fl.num * fr.num, fl.den * fr.den)
              [] op = "/" -> IF fr.num = 0 THEN VBad("float division by zero (Inf/NaN not modelled)")
                             ELSE FNorm(t, (IF fr.num < 0 THEN -1 ELSE 1) * fl.num * fr.den, fl.den * NAbs(fr.num))
              [] op \in {"<", ">", "<=", ">=", "==", "!="} ->
                   LET d == fl.num * fr.den - fr.num * fl.den IN VBool(CmpRes(op, IF d < 0 THEN -1 ELSE IF d > 0 THEN 1 ELSE 0))
              [] OTHER -> VBad("float operator " \o op)
  ELSE IF l.k = "str" /\ r.k = "str" THEN
       CASE op = "+" -> VStr(l.v \o r.v)
         [] op = "==" -> VBool(l.v = r.v)
         [] op = "!=" -> VBool(l.v # r.v)
         [] OTHER -> VBad("string operator " \o op)      \* ordering of strings is not emitted by goml
  ELSE IF l.k = "bool" /\ r.k = "bool" THEN
       CASE op = "&&" -> VBool(l.v /\ r.v)
         [] op = "||" -> VBool(l.v \/ r.v)
         [] op = "==" -> VBool(l.v = r.v)
         [] op = "!=" -> VBool(l.v # r.v)
         [] OTHER -> VBad("bool operator " \o op)
  ELSE IF op = "==" THEN VBool(ValEq(l, r)) ELSE IF op = "!=" THEN VBool(~ValEq(l, r))
  ELSE VBad("binary operands")

RECURSIVE Eval(_, _, _)
Eval(e, env, hp) ==
  CASE e.k = "int" -> VInt("untyped", NFromInt(e.v))
    [] e.k = "bigint" -> VInt("untyped", NumOf(e))
    [] e.k = "str" -> VStr(e.v)
    [] e.k = "bool" -> VBool(e.v)
    [] e.k = "nil" -> VNil
    [] e.k = "unitv" -> VUnit
    [] e.k = "float" -> FloatOfLit(e, "untyped")
    [] e.k = "paren" -> Eval(e.e, env, hp)
    [] e.k = "id" -> IF Bound(env, e.n) THEN Cell(env, e.n).v
                     ELSE IF IsUserFn(e.n) THEN VFn(e.n) ELSE VBad("undefined: " \o e.n)
    [] e.k = "un" ->
         LET x == Eval(e.e, env, hp) IN
         IF IsBad(x) THEN x
         ELSE IF e.op = "-" /\ x.k = "int" THEN VInt(x.t, WrapT(x.t, NNeg(x.n)))
         ELSE IF e.op = "-" /\ x.k = "float" THEN [x EXCEPT !.num = -x.num]
         ELSE IF e.op = "!" /\ x.k = "bool" THEN VBool(~x.v)
         ELSE IF e.op = "*" /\ x.k = "ptr" THEN hp[x.a].v
         ELSE IF e.op = "*" /\ x.k = "nil" THEN VPanic("nil pointer dereference")
         ELSE VBad("unary operator " \o e.op)
    [] e.k = "bin" ->
         IF e.op \in {"&&", "||"} THEN        \* short-circuit in Go
            LET l == Eval(e.l, env, hp) IN
            IF IsBad(l) THEN l
            ELSE IF l.k # "bool" THEN VBad("logical operand")
            ELSE IF e.op = "&&" /\ ~l.v THEN VBool(FALSE)
            ELSE IF e.op = "||" /\ l.v THEN VBool(TRUE)
            ELSE Eval(e.r, env, hp)
         ELSE EvalBin(e.op, Eval(e.l, env, hp), Eval(e.r, env, hp))
    [] e.k = "sel" ->
         LET x == Eval(e.e, env, hp) IN
         IF IsBad(x) THEN x
         ELSE IF x.k = "struct" THEN (IF e.f \in DOMAIN x.f THEN x.f[e.f] ELSE VBad("no field " \o e.f))
         ELSE IF x.k = "ptr" THEN (IF hp[x.a].v.k = "struct" /\ e.f \in DOMAIN hp[x.a].v.f THEN hp[x.a].v.f[e.f] ELSE VBad("no field " \o e.f))
         ELSE IF x.k = "nil" THEN VPanic("nil pointer dereference")
         ELSE VBad("selector on " \o x.k)
    [] e.k = "idx" ->
         LET x == Eval(e.e, env, hp) i == Eval(e.i, env, hp) IN
         IF IsBad(x) THEN x ELSE IF IsBad(i) THEN i
         ELSE IF i.k # "int" THEN VBad("index kind")
         ELSE IF ~i.n.s THEN VPanic("index out of range")
         ELSE IF x.k = "array" THEN IF i.n.v < 0 \/ i.n.v >= Len(x.es) THEN VPanic("index out of range") ELSE x.es[i.n.v + 1]
         ELSE IF x.k = "slice" THEN IF i.n.v < 0 \/ i.n.v >= x.len THEN VPanic("index out of range") ELSE hp[x.a].es[i.n.v + 1]
         ELSE IF x.k = "str" THEN IF i.n.v < 0 \/ i.n.v >= Len(x.v) THEN VPanic("index out of range") ELSE VInt("uint8", NSmall(x.v[i.n.v + 1]))
         ELSE VBad("index of " \o x.k)
    [] e.k = "assert" ->
         LET x == Eval(e.e, env, hp) IN
         IF IsBad(x) THEN x
         ELSE IF IsIfaceTy(e.t) THEN
              \* assertion to an interface type: succeeds iff the dynamic type's method set covers the interface
              (IF x.k = "nil" THEN VPanic("interface conversion")
               ELSE IF e.t.n = "any" THEN x
               ELSE IF {TypeDecl(e.t.n).methods[i].n : i \in DOMAIN TypeDecl(e.t.n).methods} \subseteq MethodsOfKey(DynKey(x)) THEN x
               ELSE VPanic("interface conversion"))
         ELSE IF DynKey(x) = TypeKey(e.t) THEN x ELSE VPanic("interface conversion")
    [] e.k = "lit" ->
         LET tn == e.t.n IN
         IF ~(IsDeclared(tn) /\ TypeDecl(tn).k = "struct") THEN VBad("composite literal of " \o tn)
         ELSE LET z == Zero(e.t)
                  names == {e.fs[i].n : i \in DOMAIN e.fs}
                  fv == [n \in names |-> LET fe == e.fs[CHOOSE i \in DOMAIN e.fs : e.fs[i].n = n].e IN
                                         IF HasField(tn, n) THEN Conv(Eval(fe, env, hp), FieldTy(tn, n)) ELSE VBad("unknown field " \o n)] IN
              IF IsBad(z) THEN z
              ELSE IF \E n \in names : IsBad(fv[n]) THEN
                   \* the first bad field in *written* order decides (left-to-right evaluation)
                   LET i == Min({j \in DOMAIN e.fs : IsBad(fv[e.fs[j].n])}) IN fv[e.fs[i].n]
              ELSE [z EXCEPT !.f = [n \in DOMAIN z.f |-> IF n \in names THEN fv[n] ELSE z.f[n]]]
    [] e.k = "arrlit" ->
         LET vs == [i \in DOMAIN e.es |-> Conv(Eval(e.es[i], env, hp), e.t.e)] IN
         IF \E i \in DOMAIN vs : IsBad(vs[i]) THEN vs[Min({i \in DOMAIN vs : IsBad(vs[i])})]
         ELSE IF e.t.k = "array" THEN
              LET z == Zero(e.t.e) IN [k |-> "array", es |-> [i \in 1..e.t.n |-> IF i <= Len(vs) THEN vs[i] ELSE z]]
         ELSE VBad("slice literal")       \* handled as an allocation root
    [] e.k = "call" ->
         \* only pure builtins here; effectful calls are statement roots after hoisting
         IF IsPkgSel(e.f, "fmt") /\ e.f.f = "Sprintf" THEN
              IF Len(e.a) # 2 THEN VBad("Sprintf arity")
              ELSE LET f == Eval(e.a[1], env, hp) x == Conv(Eval(e.a[2], env, hp), AnyTy) IN
                   IF IsBad(f) THEN f ELSE IF IsBad(x) THEN x ELSE Sprintf(f.v, x)
         ELSE IF e.f.k = "id" /\ ~Bound(env, e.f.n) /\ ~IsUserFn(e.f.n) /\ e.f.n = "len" THEN
              LET x == Eval(e.a[1], env, hp) IN
              IF IsBad(x) THEN x ELSE IF x.k = "str" THEN VInt("int", NSmall(Len(x.v))) ELSE IF x.k = "slice" THEN VInt("int", NSmall(x.len))
              ELSE IF x.k = "array" THEN VInt("int", NSmall(Len(x.es))) ELSE VBad("len")
         ELSE IF e.f.k = "id" /\ ~Bound(env, e.f.n) /\ ~IsUserFn(e.f.n) /\ e.f.n \in IntTypes THEN
              LET x == Eval(e.a[1], env, hp) tk == IF e.f.n = "byte" THEN "uint8" ELSE e.f.n IN
              IF IsBad(x) THEN x ELSE IF x.k = "int" THEN VInt(tk, Wrap(Bits(tk), Signed(tk), x.n)) ELSE VBad("conversion to integer")
         ELSE IF e.f.k = "id" /\ ~Bound(env, e.f.n) /\ ~IsUserFn(e.f.n) /\ e.f.n \in FloatTypes THEN
              LET x == Eval(e.a[1], env, hp) IN
              IF IsBad(x) THEN x ELSE IF x.k = "float" THEN [x EXCEPT !.t = e.f.n]
              ELSE IF x.k = "int" /\ x.n.s THEN FNorm(e.f.n, x.n.v, 1) ELSE VBad("conversion to float")
         ELSE IF e.f.k = "id" /\ ~Bound(env, e.f.n) /\ ~IsUserFn(e.f.n) /\ e.f.n = "string" THEN
              LET x == Eval(e.a[1], env, hp) IN
              IF IsBad(x) THEN x ELSE IF x.k = "str" THEN x
              ELSE IF x.k = "int" /\ x.n.s /\ x.n.v >= 0 /\ x.n.v < 2048 THEN
                   (IF x.n.v < 128 THEN VStr(<<x.n.v>>) ELSE VStr(<<192 + (x.n.v \div 64), 128 + (x.n.v % 64)>>))
              ELSE VBad("string() of a large code point")
         ELSE VBad("call in pure context")
    [] OTHER -> VBad("expression kind " \o e.k)

\* ---------------------------------------------------------------- frames and statements
Top == stack[Len(stack)]
SetTop(fr) == [stack EXCEPT ![Len(stack)] = fr]
CtlTop(fr) == fr.ctl[Len(fr.ctl)]

RootKind(e, env) ==
  IF e.k = "call" THEN
       IF IsPkgSel(e.f, "fmt") /\ ~Bound(env, "fmt") THEN (IF e.f.f = "Sprintf" THEN "pure" ELSE IF e.f.f \in {"Print", "Println"} THEN "print" ELSE "unknownpkg")
       ELSE IF e.f.k = "sel" /\ e.f.e.k = "id" /\ ~Bound(env, e.f.e.n) /\ ~IsUserFn(e.f.e.n)
               /\ \E i \in DOMAIN P.imports : P.imports[i].path = e.f.e.n THEN "unknownpkg"
       ELSE IF e.f.k = "id" /\ ~Bound(env, e.f.n) /\ ~IsUserFn(e.f.n) THEN
            (IF e.f.n \in (IntTypes \cup FloatTypes \cup {"len", "string"}) THEN "pure"
             ELSE IF e.f.n = "append" THEN "append" ELSE IF e.f.n = "panic" THEN "panic"
             ELSE IF e.f.n = "println" THEN "println" ELSE "ucall")
       ELSE "ucall"
  ELSE IF e.k = "un" /\ e.op = "&" THEN "alloc"
  ELSE "pure"

Keep == UNCHANGED <<pid, par>> /\ steps' = steps + 1
Fail(why) == /\ status' = [k |-> "failed", why |-> why] /\ UNCHANGED <<stack, heap, nxt, out, retv>> /\ Keep
Unsupported(why) == /\ status' = [k |-> "unsupported", why |-> why] /\ UNCHANGED <<stack, heap, nxt, out, retv>> /\ Keep
BadToStatus(v) == IF v.k = "panic" THEN Fail(v.why) ELSE Unsupported(v.why)

\* targets of a root value: [k:"var", n, t] [k:"hoist", n] [k:"assign", n] [k:"discard"] [k:"ret"]
DeliverInFrame(fr, tg, v) ==
  CASE tg.k = "var" -> [fr EXCEPT !.env = Bind(fr.env, tg.n, Conv(v, tg.t), tg.t)]
    [] tg.k = "hoist" -> [fr EXCEPT !.env = Bind(fr.env, tg.n, v, AnyTy)]
    [] tg.k = "assign" -> [fr EXCEPT !.env = Update(fr.env, tg.n, Conv(v, Cell(fr.env, tg.n).t))]
    [] OTHER -> fr

FnOf(name) == P.funcs[name]
VoidTy == [k |-> "void"]
RetTy(name) == IF FnOf(name).ret = <<>> THEN VoidTy ELSE FnOf(name).ret[1]

NewFrame(name, args, tg) ==
  LET f == FnOf(name)
      scope == [n \in {f.params[i].n : i \in DOMAIN f.params} |->
                  LET i == CHOOSE j \in DOMAIN f.params : f.params[j].n = n IN
                  [v |-> Conv(args[i], f.params[i].t), t |-> f.params[i].t]]
  IN [fn |-> name, env |-> <<scope>>, ctl |-> <<[b |-> f.body, i |-> 1, kind |-> "fn"]>>, rt |-> tg]

\* value v produced by the root of the current statement; fr = frame with control already advanced
Produce(v, tg, fr) ==
  IF tg.k = "ret" THEN /\ retv' = [on |-> TRUE, v |-> v] /\ stack' = SetTop(fr)
  ELSE /\ retv' = retv /\ stack' = SetTop(DeliverInFrame(fr, tg, v))

\* Go's append growth for the element counts goml programs reach: double (from 0: 1), as runtime.growslice does
\* below 256 elements *before* rounding the allocation up to a malloc size class.
AlignUp(n, a) == IF a <= 1 THEN n ELSE ((n + a - 1) \div a) * a
RECURSIVE SizeAl(_)
RECURSIVE LayoutFields(_, _, _, _)
LayoutFields(fs, i, off, al) ==      \* [sz, al, lastzero] after laying out fields i.. of a struct
  IF i > Len(fs) THEN [sz |-> off, al |-> al, lastzero |-> FALSE]
  ELSE LET f == SizeAl(fs[i].t) IN
       IF f.sz < 0 THEN f
       ELSE LET o == AlignUp(off, f.al)
                rest == LayoutFields(fs, i + 1, o + f.sz, IF f.al > al THEN f.al ELSE al) IN
            IF i = Len(fs) THEN [sz |-> o + f.sz, al |-> IF f.al > al THEN f.al ELSE al, lastzero |-> f.sz = 0 /\ o + f.sz > 0] ELSE rest
SizeAl(ty) ==          \* size and alignment on amd64 (gc); sz = -1: unknown
  CASE ty.k = "unit" -> [sz |-> 0, al |-> 1]
    [] ty.k \in {"ptr", "func"} -> [sz |-> 8, al |-> 8]
    [] ty.k = "slice" -> [sz |-> 24, al |-> 8]
    [] ty.k = "array" -> LET e == SizeAl(ty.e) IN IF e.sz < 0 THEN e ELSE [sz |-> ty.n * e.sz, al |-> e.al]
    [] ty.k = "named" ->
         IF ty.n \in {"int8", "uint8", "byte", "bool"} THEN [sz |-> 1, al |-> 1]
         ELSE IF ty.n \in {"int16", "uint16"} THEN [sz |-> 2, al |-> 2]
         ELSE IF ty.n \in {"int32", "uint32", "float32"} THEN [sz |-> 4, al |-> 4]
         ELSE IF ty.n \in {"int64", "uint64", "float64", "int", "uint"} THEN [sz |-> 8, al |-> 8]
         ELSE IF ty.n \in {"string", "any"} THEN [sz |-> 16, al |-> 8]
         ELSE IF ~IsDeclared(ty.n) THEN [sz |-> -1, al |-> 1]
         ELSE LET d == TypeDecl(ty.n) IN
              IF d.k = "iface" THEN [sz |-> 16, al |-> 8]
              ELSE IF d.k = "alias" THEN SizeAl(d.t)
              ELSE IF d.fields = <<>> THEN [sz |-> 0, al |-> 1]
              ELSE LET l == LayoutFields(d.fields, 1, 0, 1) IN
                   IF l.sz < 0 THEN l ELSE [sz |-> AlignUp(IF l.lastzero THEN l.sz + 1 ELSE l.sz, l.al), al |-> l.al]
    [] OTHER -> [sz |-> -1, al |-> 1]
SizeClasses == <<8, 16, 24, 32, 48, 64, 80, 96, 112, 128, 144, 160, 176, 192, 208, 224, 240, 256, 288, 320, 352, 384, 416,
                 448, 480, 512, 576, 640, 704, 768, 896, 1024, 1152, 1280, 1408, 1536, 1792, 2048>>
RoundUp(sz) == IF sz > 2048 THEN sz ELSE SizeClasses[Min({i \in DOMAIN SizeClasses : SizeClasses[i] >= sz})]
GrowCap(oldcap, newlen, esz) ==
  LET want == IF newlen > 2 * oldcap THEN newlen ELSE IF oldcap < 256 THEN 2 * oldcap ELSE newlen IN
  IF esz = 0 THEN want ELSE RoundUp(want * esz) \div esz

DoRoot(e, tg, fr) ==
  LET kind == RootKind(e, fr.env) IN
  CASE kind = "pure" ->
         LET v == Eval(e, fr.env, heap) IN
         IF IsBad(v) THEN BadToStatus(v)
         ELSE /\ Produce(v, tg, fr) /\ UNCHANGED <<heap, nxt, out, status>> /\ Keep
    [] kind = "unknownpkg" -> Unsupported("call into a Go package outside the model")
    [] kind = "print" ->
         LET vs == [i \in DOMAIN e.a |-> LET x == Conv(Eval(e.a[i], fr.env, heap), AnyTy) IN IF IsBad(x) THEN x ELSE FormatV(x)] IN
         IF \E i \in DOMAIN vs : IsBad(vs[i]) THEN BadToStatus(vs[Min({i \in DOMAIN vs : IsBad(vs[i])})])
         ELSE IF Len(vs) # 1 THEN Unsupported("Print with several operands")
         ELSE /\ out' = out \o vs[1].v \o (IF e.f.f = "Println" THEN <<10>> ELSE <<>>)
              /\ stack' = SetTop(fr) /\ UNCHANGED <<heap, nxt, status, retv>> /\ Keep
    [] kind = "println" ->                \* builtin println writes to standard error
         LET vs == [i \in DOMAIN e.a |-> Eval(e.a[i], fr.env, heap)] IN
         IF \E i \in DOMAIN vs : IsBad(vs[i]) THEN BadToStatus(vs[Min({i \in DOMAIN vs : IsBad(vs[i])})])
         ELSE /\ stack' = SetTop(fr) /\ UNCHANGED <<heap, nxt, out, status, retv>> /\ Keep
    [] kind = "panic" ->
         LET vs == [i \in DOMAIN e.a |-> Eval(e.a[i], fr.env, heap)] IN
         IF \E i \in DOMAIN vs : IsBad(vs[i]) THEN BadToStatus(vs[Min({i \in DOMAIN vs : IsBad(vs[i])})])
         ELSE Fail("panic")
    [] kind = "alloc" ->
         IF e.e.k = "lit" THEN
              LET v == Eval(e.e, fr.env, heap) IN
              IF IsBad(v) THEN BadToStatus(v)
              ELSE LET p == [k |-> "ptr", a |-> nxt, t |-> e.e.t.n] IN
                   /\ heap' = (nxt :> [k |-> "obj", v |-> v]) @@ heap /\ nxt' = nxt + 1
                   /\ Produce(p, tg, fr) /\ UNCHANGED <<out, status>> /\ Keep
         ELSE Unsupported("address of a non-literal")
    [] kind = "append" ->
         IF Len(e.a) # 2 THEN Unsupported("append arity")
         ELSE
         LET s0 == Eval(e.a[1], fr.env, heap) x0 == Eval(e.a[2], fr.env, heap) IN
         IF IsBad(s0) THEN BadToStatus(s0) ELSE IF IsBad(x0) THEN BadToStatus(x0)
         ELSE IF s0.k \notin {"slice", "nil"} THEN Unsupported("append to non-slice")
         ELSE LET s == IF s0.k = "nil" THEN EmptySlice(AnyTy) ELSE s0
                  \* element type: from the declaration this append initialises or assigns, or from the slice variable
                  sty == IF tg.k = "var" THEN tg.t
                         ELSE IF tg.k = "assign" THEN Cell(fr.env, tg.n).t
                         ELSE IF e.a[1].k = "id" /\ Bound(fr.env, e.a[1].n) THEN Cell(fr.env, e.a[1].n).t ELSE [k |-> "unknown"]
                  x == IF sty.k = "slice" THEN Conv(x0, sty.e) ELSE x0
                  esz == IF sty.k = "slice" THEN SizeAl(sty.e).sz ELSE -1 IN
              IF x.k \in {"int", "float"} /\ x.t = "untyped" THEN Unsupported("append of an untyped constant with unknown element type")
              ELSE IF s.len < s.cap THEN
                  LET r == [s EXCEPT !.len = s.len + 1] IN
                  /\ heap' = [heap EXCEPT ![s.a] = [@ EXCEPT !.es = [@ EXCEPT ![s.len + 1] = x]]]
                  /\ nxt' = nxt
                  /\ Produce(r, tg, fr) /\ UNCHANGED <<out, status>> /\ Keep
              ELSE IF esz < 0 THEN Unsupported("append growth for an element type of unknown size")
              ELSE
                  LET ncap == GrowCap(s.cap, s.len + 1, esz)
                      old == IF s.a = 0 THEN <<>> ELSE SubSeq(heap[s.a].es, 1, s.len)
                      es == [i \in 1..ncap |-> IF i <= s.len THEN old[i] ELSE IF i = s.len + 1 THEN x ELSE [k |-> "zero"]]
                      r == [k |-> "slice", a |-> nxt, len |-> s.len + 1, cap |-> ncap] IN
                  /\ heap' = (nxt :> [k |-> "arr", es |-> es]) @@ heap /\ nxt' = nxt + 1
                  /\ Produce(r, tg, fr) /\ UNCHANGED <<out, status>> /\ Keep
    [] kind = "ucall" ->
         LET c == Eval(e.f, fr.env, heap)
             args == [i \in DOMAIN e.a |-> Eval(e.a[i], fr.env, heap)] IN
         IF IsBad(c) THEN BadToStatus(c)
         ELSE IF \E i \in DOMAIN args : IsBad(args[i]) THEN BadToStatus(args[Min({i \in DOMAIN args : IsBad(args[i])})])
         ELSE IF c.k = "nil" THEN Fail("call of nil func")
         ELSE IF c.k # "fn" THEN Unsupported("callee is not a function value")
         ELSE IF Len(args) # Len(FnOf(c.n).params) THEN Unsupported("argument count")
         ELSE IF Len(stack) >= 400 THEN /\ status' = [k |-> "inconclusive", why |-> "call depth"] /\ UNCHANGED <<stack, heap, nxt, out, retv>> /\ Keep
         ELSE /\ stack' = Append(SetTop(fr), NewFrame(c.n, args, tg))
              /\ UNCHANGED <<heap, nxt, out, status, retv>> /\ Keep

Advance(fr) == [fr EXCEPT !.ctl = [@ EXCEPT ![Len(@)] = [@ EXCEPT !.i = @ + 1]]]
PushBlk(fr, b, kind) == [fr EXCEPT !.ctl = Append(@, [b |-> b, i |-> 1, kind |-> kind]), !.env = Append(@, EmptyScope)]
PopBlk(fr) == [fr EXCEPT !.ctl = SubSeq(@, 1, Len(@) - 1), !.env = SubSeq(@, 1, Len(@) - 1)]

RECURSIVE BreakOut(_)
BreakOut(fr) == LET c == CtlTop(fr) IN IF c.kind \in {"loop", "sw"} THEN PopBlk(fr) ELSE BreakOut(PopBlk(fr))
CanBreak(fr) == \E i \in DOMAIN fr.ctl : fr.ctl[i].kind \in {"loop", "sw"}

Same == UNCHANGED <<heap, nxt, out, status, retv>> /\ Keep

Exec(s, fr0) ==
  LET fr == Advance(fr0) IN
  CASE s.k = "var" ->
         IF s.init = <<>> THEN
              LET z == Zero(s.t) IN
              IF IsBad(z) THEN BadToStatus(z)
              ELSE /\ stack' = SetTop([fr EXCEPT !.env = Bind(fr.env, s.n, z, s.t)]) /\ Same
         ELSE DoRoot(s.init[1], [k |-> "var", n |-> s.n, t |-> s.t], fr)
    [] s.k = "hoist" -> DoRoot(s.init, [k |-> "hoist", n |-> s.n], fr)
    [] s.k = "assign" -> IF s.n = "_" THEN DoRoot(s.v, [k |-> "discard"], fr)        \* blank identifier: the value is evaluated and dropped
                         ELSE IF Bound(fr.env, s.n) THEN DoRoot(s.v, [k |-> "assign", n |-> s.n], fr) ELSE Unsupported("assignment to undeclared " \o s.n)
    [] s.k = "expr" -> DoRoot(s.e, [k |-> "discard"], fr)
    [] s.k = "return" ->
         IF s.e = <<>> THEN /\ retv' = [on |-> TRUE, v |-> VUnit] /\ stack' = SetTop(fr) /\ UNCHANGED <<heap, nxt, out, status>> /\ Keep
         ELSE DoRoot(s.e[1], [k |-> "ret"], fr)
    [] s.k = "fassign" ->
         LET o == Eval(s.o, fr.env, heap) v == Eval(s.v, fr.env, heap) IN
         IF IsBad(o) THEN BadToStatus(o) ELSE IF IsBad(v) THEN BadToStatus(v)
         ELSE IF o.k = "nil" THEN Fail("nil pointer dereference")
         ELSE IF o.k = "ptr" THEN
              (IF ~HasField(heap[o.a].v.t, s.f) THEN Unsupported("unknown field")
               ELSE /\ heap' = [heap EXCEPT ![o.a] = [@ EXCEPT !.v = [@ EXCEPT !.f = [@ EXCEPT ![s.f] = Conv(v, FieldTy(heap[o.a].v.t, s.f))]]]]
                    /\ stack' = SetTop(fr) /\ UNCHANGED <<nxt, out, status, retv>> /\ Keep)
         ELSE IF o.k = "struct" /\ s.o.k = "id" THEN
              (IF ~HasField(o.t, s.f) THEN Unsupported("unknown field")
               ELSE /\ stack' = SetTop([fr EXCEPT !.env = Update(fr.env, s.o.n, [o EXCEPT !.f = [@ EXCEPT ![s.f] = Conv(v, FieldTy(o.t, s.f))]])])
                    /\ Same)
         ELSE Unsupported("field assignment target")
    [] s.k = "passign" ->
         LET p == Eval(s.p, fr.env, heap) v == Eval(s.v, fr.env, heap) IN
         IF IsBad(p) THEN BadToStatus(p) ELSE IF IsBad(v) THEN BadToStatus(v)
         ELSE IF p.k = "nil" THEN Fail("nil pointer dereference")
         ELSE IF p.k # "ptr" THEN Unsupported("pointer assignment target")
         ELSE /\ heap' = [heap EXCEPT ![p.a] = [@ EXCEPT !.v = v]] /\ stack' = SetTop(fr) /\ UNCHANGED <<nxt, out, status, retv>> /\ Keep
    [] s.k = "iassign" ->
         LET i == Eval(s.i, fr.env, heap) v == Eval(s.v, fr.env, heap) IN
         IF IsBad(i) THEN BadToStatus(i) ELSE IF IsBad(v) THEN BadToStatus(v)
         ELSE IF s.a.k # "id" \/ ~Bound(fr.env, s.a.n) THEN Unsupported("index assignment target")
         ELSE LET a == Cell(fr.env, s.a.n) IN
              IF i.k # "int" \/ ~i.n.s THEN Unsupported("index value")
              ELSE IF a.v.k = "array" THEN
                   (IF i.n.v < 0 \/ i.n.v >= Len(a.v.es) THEN Fail("index out of range")
                    ELSE /\ stack' = SetTop([fr EXCEPT !.env = Update(fr.env, s.a.n, [a.v EXCEPT !.es = [@ EXCEPT ![i.n.v + 1] = Conv(v, a.t.e)]])])
                         /\ Same)
              ELSE IF a.v.k = "slice" THEN
                   (IF i.n.v < 0 \/ i.n.v >= a.v.len THEN Fail("index out of range")
                    ELSE /\ heap' = [heap EXCEPT ![a.v.a] = [@ EXCEPT !.es = [@ EXCEPT ![i.n.v + 1] = Conv(v, a.t.e)]]]
                         /\ stack' = SetTop(fr) /\ UNCHANGED <<nxt, out, status, retv>> /\ Keep)
              ELSE Unsupported("index assignment on " \o a.v.k)
    [] s.k = "if" ->
         LET c == Eval(s.c, fr.env, heap) IN
         IF IsBad(c) THEN BadToStatus(c)
         ELSE IF c.k # "bool" THEN Unsupported("non-boolean condition")
         ELSE /\ stack' = SetTop(IF c.v THEN PushBlk(fr, s.then, "blk") ELSE IF s.else = <<>> THEN fr ELSE PushBlk(fr, s.else[1], "blk"))
              /\ Same
    [] s.k = "for" -> /\ stack' = SetTop(PushBlk(fr, s.body, "loop")) /\ Same
    [] s.k = "break" -> IF CanBreak(fr) THEN /\ stack' = SetTop(BreakOut(fr)) /\ Same ELSE Unsupported("break outside loop")
    [] s.k = "switch" ->
         LET v == Eval(s.e, fr.env, heap)
             cs == [i \in DOMAIN s.cases |-> EvalBin("==", v, Eval(s.cases[i].v, fr.env, heap))]
             hits == {i \in DOMAIN s.cases : cs[i].k = "bool" /\ cs[i].v} IN
         IF IsBad(v) THEN BadToStatus(v)
         ELSE IF \E i \in DOMAIN cs : IsBad(cs[i]) THEN BadToStatus(cs[Min({i \in DOMAIN cs : IsBad(cs[i])})])
         ELSE /\ stack' = SetTop(IF hits # {} THEN PushBlk(fr, s.cases[Min(hits)].b, "sw")
                                 ELSE IF s.default # <<>> THEN PushBlk(fr, s.default[1], "sw") ELSE fr)
              /\ Same
    [] s.k = "tswitch" ->
         LET v == Eval(s.e, fr.env, heap)
             hits == {i \in DOMAIN s.cases : v.k # "nil" /\ DynKey(v) = TypeKey(s.cases[i].v)}
             enter(b) == LET f1 == PushBlk(fr, b, "sw") IN
                         IF s.bind = <<>> THEN f1 ELSE [f1 EXCEPT !.env = Bind(f1.env, s.bind[1], v, AnyTy)] IN
         IF IsBad(v) THEN BadToStatus(v)
         ELSE /\ stack' = SetTop(IF hits # {} THEN enter(s.cases[Min(hits)].b)
                                 ELSE IF s.default # <<>> THEN enter(s.default[1]) ELSE fr)
              /\ Same
    [] s.k = "go" ->
         \* (goroutines are explored only when the driver asks for it -- IOEnv.THREADS; a spin-wait has no bound on its steps)
         IF "THREADS" \notin DOMAIN IOEnv THEN Unsupported("go statement (explored by the interleaving check of C09)") ELSE
         \* `go f(args)`: callee and arguments are evaluated by the spawner, the call runs as a new goroutine, the spawner goes on
         IF s.e.k # "call" \/ RootKind(s.e, fr.env) # "ucall" THEN Unsupported("go of something else than a call of a function value")
         ELSE LET c == Eval(s.e.f, fr.env, heap)
                  args == [i \in DOMAIN s.e.a |-> Eval(s.e.a[i], fr.env, heap)] IN
              IF IsBad(c) THEN BadToStatus(c)
              ELSE IF \E i \in DOMAIN args : IsBad(args[i]) THEN BadToStatus(args[Min({i \in DOMAIN args : IsBad(args[i])})])
              ELSE IF c.k # "fn" THEN Unsupported("callee is not a function value")
              ELSE IF Len(args) # Len(FnOf(c.n).params) THEN Unsupported("argument count")
              ELSE /\ par' = [par EXCEPT !.others = Append(@, [stack |-> <<NewFrame(c.n, args, [k |-> "discard"])>>,
                                                                retv |-> [on |-> FALSE, v |-> VUnit], main |-> FALSE])]
                   /\ stack' = SetTop(fr) /\ steps' = steps + 1 /\ UNCHANGED <<pid, heap, nxt, out, status, retv>>
    [] OTHER -> Unsupported("statement " \o s.k)

Running == status.k = "running"

StepStmt ==
  /\ Running /\ ~retv.on /\ stack # <<>> /\ steps < MaxSteps
  /\ LET fr == Top c == CtlTop(fr) stmts == Blocks[c.b + 1] IN
     IF c.i <= Len(stmts) THEN Exec(stmts[c.i], fr)
     ELSE IF c.kind = "loop" THEN
          /\ stack' = SetTop([fr EXCEPT !.ctl = [@ EXCEPT ![Len(@)] = [@ EXCEPT !.i = 1]], !.env = [@ EXCEPT ![Len(@)] = EmptyScope]])
          /\ Same
     ELSE IF c.kind = "fn" THEN
          /\ retv' = [on |-> TRUE, v |-> VUnit] /\ UNCHANGED <<stack, heap, nxt, out, status>> /\ Keep
     ELSE /\ stack' = SetTop(PopBlk(fr)) /\ Same

StepReturn ==
  /\ Running /\ retv.on /\ stack # <<>> /\ steps < MaxSteps
  /\ LET fr == Top v == Conv(retv.v, RetTy(fr.fn)) rest == SubSeq(stack, 1, Len(stack) - 1) IN
     IF rest = <<>> /\ par.main THEN          \* main returns: the program ends, whatever the other goroutines are doing
          /\ stack' = <<>> /\ retv' = [on |-> FALSE, v |-> VUnit] /\ status' = [k |-> "ok", why |-> ""]
          /\ UNCHANGED <<heap, nxt, out>> /\ Keep
     ELSE IF rest = <<>> THEN                  \* another goroutine ends: some parked goroutine (main is among them) goes on
          \E i \in DOMAIN par.others :
            /\ stack' = par.others[i].stack /\ retv' = par.others[i].retv
            /\ par' = [main |-> par.others[i].main, others |-> [j \in 1..(Len(par.others) - 1) |-> par.others[IF j < i THEN j ELSE j + 1]]]
            /\ steps' = steps + 1 /\ UNCHANGED <<pid, heap, nxt, out, status>>
     ELSE LET caller == rest[Len(rest)] IN
          IF fr.rt.k = "ret" THEN
               /\ stack' = rest /\ retv' = [on |-> TRUE, v |-> v] /\ UNCHANGED <<heap, nxt, out, status>> /\ Keep
          ELSE /\ stack' = [rest EXCEPT ![Len(rest)] = DeliverInFrame(caller, fr.rt, v)]
               /\ retv' = [on |-> FALSE, v |-> VUnit] /\ UNCHANGED <<heap, nxt, out, status>> /\ Keep

OutOfSteps ==
  /\ Running /\ steps >= MaxSteps
  /\ status' = [k |-> "inconclusive", why |-> "step bound"] /\ UNCHANGED <<pid, stack, heap, nxt, out, retv, steps, par>>

\* the scheduler: at any moment another goroutine may run instead of the current one
Switch ==
  /\ Running /\ stack # <<>> /\ steps < MaxSteps
  /\ \E i \in DOMAIN par.others :
       /\ stack' = par.others[i].stack /\ retv' = par.others[i].retv
       /\ par' = [main |-> par.others[i].main, others |-> [par.others EXCEPT ![i] = [stack |-> stack, retv |-> retv, main |-> par.main]]]
  /\ UNCHANGED <<pid, heap, nxt, out, status, steps>>

HasMain == "main" \in DOMAIN P.funcs
Init == /\ pid \in 1..Len(Progs)
        /\ stack = IF HasMain THEN <<[fn |-> "main", env |-> <<EmptyScope>>, ctl |-> <<[b |-> P.funcs["main"].body, i |-> 1, kind |-> "fn"]>>, rt |-> [k |-> "discard"]]>> ELSE <<>>
        /\ heap = (0 :> [k |-> "none"]) /\ nxt = 1 /\ out = <<>>
        /\ status = IF HasMain THEN [k |-> "running", why |-> ""] ELSE [k |-> "unsupported", why |-> "no main"]
        /\ retv = [on |-> FALSE, v |-> VUnit] /\ steps = 0 /\ par = [main |-> TRUE, others |-> <<>>]
Next == StepStmt \/ StepReturn \/ OutOfSteps \/ Switch
\* fingerprint for exploring interleavings: a state is the same however many steps led to it (spin loops close into cycles)
ViewNoSteps == <<pid, stack, heap, nxt, out, status, retv, par>>
Spec == Init /\ [][Next]_vars

Done == status.k # "running"
Report == Done => PrintT(<<"REPORT", ToJson([name |-> Progs[pid].name, status |-> status.k, why |-> status.why, out |-> out, steps |-> steps,
                                  agree |-> (Progs[pid].hasexpect /\ status.k = "ok" /\ out = Progs[pid].expect)])>>)
=============================================================================
