--------------------------- MODULE IRTypingCheck ---------------------------
(***************************************************************************)
(* Binds IRTyping.tla to the intermediate representations the real         *)
(* compiler produced: IOEnv.IRFILE is an ndjson file with one accepted      *)
(* program per line ({id, ir: {core, mono, lift, anf}}, written by          *)
(* `gv compile` with ir_json).  The machine visits the programs one by one; *)
(* for each it evaluates the judgment on all four stages and reports the    *)
(* broken rules (the check driver turns a non-empty report into a           *)
(* violation, so that one run reports all of them).                         *)
(***************************************************************************)
EXTENDS IRTyping, Json, IOUtils

Progs == ndJsonDeserialize(IOEnv.IRFILE)

VARIABLE i
Init == i = 0
Next == i < Len(Progs) /\ i' = i + 1

Report == i > 0 => PrintT(<<"IRCHECK", ToJson([id |-> Progs[i].id, errors |-> CheckProgram(Progs[i].ir)])>>)
Done == i = Len(Progs) => PrintT(<<"IRDONE", ToJson([n |-> Len(Progs)])>>)
=============================================================================
