INIT Init
NEXT Next
INVARIANTS ControlIsFree Emit
CHECK_DEADLOCK FALSE
