INIT Init
NEXT Next
CONSTANTS
  Depth = 2
  Names = {"int32", "T"}
INVARIANTS RoundTrip Emit
CHECK_DEADLOCK FALSE
