INIT Init
NEXT Next
INVARIANT VectorOK
CHECK_DEADLOCK FALSE
