------------------------------ MODULE TreeTrace ------------------------------
(* Trace validation of recorded parses against TreeBuilder (one record per input text). *)
EXTENDS TreeReplay, Json, IOUtils
Recs == ndJsonDeserialize(IOEnv.TRACES)
VARIABLE n
TInit == n = 1
TNext == n < Len(Recs) /\ n' = n + 1
Verdict == Conform(Recs[n])
AllGood(v) == v.tile /\ v.boundaries /\ v.replay /\ v.lossless /\ v.diags /\ v.nodes /\ v.deterministic
Report == AllGood(Verdict) \/ PrintT(<<"NONCONFORM", ToJson([id |-> Recs[n].id, verdict |-> Verdict])>>)
=============================================================================
