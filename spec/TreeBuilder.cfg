SPECIFICATION Spec
CONSTANTS
  MaxToks = 4
  MaxEvs = 5
  Fuel = 3
INVARIANTS LeavesArePrefix ReplayAgrees LosslessIffEnoughAdvances LostIsSuffix FuelBounds
CHECK_DEADLOCK FALSE
