INIT TInit
NEXT TNext
CONSTANT MaxDiags = 2
INVARIANT Report
INVARIANT Done
CHECK_DEADLOCK FALSE
