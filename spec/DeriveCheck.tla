---------------------------- MODULE DeriveCheck ----------------------------
(* The JSON format prescribed for derived ToJson is sound: for every value of the enumerated derived types and every   *)
(* string over an alphabet with quotes, backslashes, control characters and non-ASCII text, the rendering is          *)
(* well-formed JSON and decodes back to the value's structure (object per struct; tag/fields per variant).            *)
EXTENDS Derive, FiniteSets, TLC

VARIABLE v
\* alphabet symbols as byte sequences: a " \ LF TAB 0x01 é / DEL
Sym == {<<97>>, <<34>>, <<92>>, <<10>>, <<9>>, <<1>>, <<195, 169>>, <<47>>, <<127>>}
Strs1 == {<<>>} \cup Sym
Strs2 == Strs1 \cup {a \o b : a \in Sym, b \in Sym}
Ints == {NSmall(0), NSmall(-7), NSmall(12)}
VI(n) == [k |-> "int", t |-> "int32", n |-> n]
VS(s) == [k |-> "str", v |-> s]
VB(b) == [k |-> "bool", v |-> b]
TyOf(n) == [t |-> "adt", n |-> n, as |-> <<>>]
PVals(S) == {[k |-> "struct", ty |-> TyOf("P"), f |-> [x |-> VI(i), s |-> VS(s), b |-> VB(b)]] : i \in Ints, s \in S, b \in BOOLEAN}
CVals(S) == {[k |-> "variant", ty |-> TyOf("C"), variant |-> "R", as |-> <<>>]}
            \cup {[k |-> "variant", ty |-> TyOf("C"), variant |-> "G", as |-> <<VI(i)>>] : i \in Ints}
            \cup {[k |-> "variant", ty |-> TyOf("C"), variant |-> "B", as |-> <<VS(s), VB(b)>>] : s \in S, b \in BOOLEAN}
NVals == {[k |-> "struct", ty |-> TyOf("N"), f |-> [p |-> p, c |-> c, u |-> [k |-> "unit"]]] : p \in PVals({<<34, 92>>}), c \in CVals(Strs1)}
\* a struct whose field names coincide with identifiers the derive generates
HVals == {[k |-> "struct", ty |-> TyOf("H"), f |-> [self |-> VI(NSmall(1)), tag |-> VS(s), fields |-> VB(TRUE), __field0 |-> VI(NSmall(2))]] : s \in Strs1}
Values == PVals(Strs2) \cup CVals(Strs2) \cup NVals \cup HVals

FT == [P |-> <<"x", "s", "b">>, N |-> <<"p", "c", "u">>, H |-> <<"self", "tag", "fields", "__field0">>, C |-> <<>>]
NT == [P |-> <<80>>, N |-> <<78>>, H |-> <<72>>, C |-> <<67>>, x |-> <<120>>, s |-> <<115>>, b |-> <<98>>, p |-> <<112>>, c |-> <<99>>, u |-> <<117>>,
       R |-> <<82>>, G |-> <<71>>, B |-> <<66>>, self |-> <<115, 101, 108, 102>>, tag |-> <<116, 97, 103>>, fields |-> <<102, 105, 101, 108, 100, 115>>,
       __field0 |-> <<95, 95, 102, 105, 101, 108, 100, 48>>]

Init == v \in Values
Next == UNCHANGED v
JsonSound == LET t == ToJsonV(v, FT, NT) IN WellFormedJson(t) /\ JsonDecode(t).val = ProjV(v, FT, NT)
\* Go's %q (what the runtime helper json_escape_string uses today) is *not* a JSON escaper: \x01, \x7f are rejected by the recogniser
GoQuoteIsNotJson == ~WellFormedJson(<<34, 92, 120, 48, 49, 34>>) /\ ~WellFormedJson(<<34, 92, 97, 34>>) /\ WellFormedJson(<<34, 92, 117, 48, 48, 48, 49, 34>>)
ASSUME GoQuoteIsNotJson
=============================================================================
