SPECIFICATION Spec
CONSTANTS
  Pkgs <- Tri3
  Deps <- Tri3Deps
  MaxI = 1
  MaxB = 0
  MaxCorrupt = 1
  Depth = 0
  IfaceKinds <- OneKind
  BodyKinds <- OneKind
VIEW view
INVARIANTS TypeOK LinkSafe LinkSafeAll BodyOnlyKeepsHash StaleUnlinkable CorruptRejected
CHECK_DEADLOCK FALSE
