----------------------------- MODULE TreeReplay -----------------------------
(***************************************************************************)
(* The event replay of build_tree as a pure function, and the conformance   *)
(* conditions of one recorded parse (used by TreeBuilder for model checking  *)
(* and by TreeTrace for trace validation).                                   *)
(***************************************************************************)
EXTENDS Integers, Sequences, FiniteSets, TLC

\* ---------------------------------------------------------------- the replay as a function
\* triv: Seq(BOOLEAN) (token i is trivia); evs: Seq of "O" | "C" | "A" | "E"
RECURSIVE SkipTrivia(_, _)
SkipTrivia(triv, c) == IF c <= Len(triv) /\ triv[c] THEN SkipTrivia(triv, c + 1) ELSE c

RECURSIVE ReplayFrom(_, _, _, _)
\* returns the cursor after all events (leaves are tokens 1..cursor-1, in order)
ReplayFrom(triv, evs, i, c) ==
  IF i > Len(evs) THEN c
  ELSE LET c1 == IF evs[i] = "A" /\ c <= Len(triv) THEN c + 1 ELSE c IN
       ReplayFrom(triv, evs, i + 1, SkipTrivia(triv, c1))
Replay(triv, evs) == ReplayFrom(triv, evs, 1, 1)

Count(s, x) == Cardinality({i \in DOMAIN s : s[i] = x})
NonTrivia(triv) == Cardinality({i \in DOMAIN triv : ~triv[i]})
RECURSIVE BalancedFrom(_, _, _)
BalancedFrom(evs, i, d) == IF i > Len(evs) THEN d = 0
                           ELSE IF evs[i] = "O" THEN BalancedFrom(evs, i + 1, d + 1)
                           ELSE IF evs[i] = "C" THEN d > 0 /\ BalancedFrom(evs, i + 1, d - 1)
                           ELSE d > 0 /\ BalancedFrom(evs, i + 1, d)       \* tokens and errors only inside a node
Balanced(evs) == BalancedFrom(evs, 1, 0)

\* ---------------------------------------------------------------- Part 2: conformance of one recorded parse
\* rec: [len, tokens: Seq([s, e, triv]), events: Seq([ev]), leaves: Seq([s, e]), diags: Seq([s, e]), char_boundary: Seq(BOOLEAN),
\*       tree_text_equal, nodes_in_text, twice_equal]
EvCode(e) == CASE e.ev = "open" -> "O" [] e.ev = "close" -> "C" [] e.ev = "adv" -> "A" [] OTHER -> "E"
TokensTile(rec) ==
  LET ts == rec.tokens IN
  /\ (Len(ts) = 0 <=> rec.len = 0)
  /\ Len(ts) > 0 => ts[1].s = 0 /\ ts[Len(ts)].e = rec.len
  /\ \A k \in 1..Len(ts) : ts[k].s < ts[k].e /\ ts[k].e - ts[k].s = ts[k].textlen
  /\ \A k \in 1..(Len(ts) - 1) : ts[k].e = ts[k + 1].s
OnBoundaries(rec) == \A k \in DOMAIN rec.tokens : rec.char_boundary[rec.tokens[k].s + 1] /\ rec.char_boundary[rec.tokens[k].e + 1]
LeavesConform(rec) ==
  LET tv == [k \in DOMAIN rec.tokens |-> rec.tokens[k].triv]
      es == [k \in DOMAIN rec.events |-> EvCode(rec.events[k])]
      c == Replay(tv, es) IN
  /\ Len(rec.leaves) = c - 1
  /\ \A k \in 1..(c - 1) : rec.leaves[k].s = rec.tokens[k].s /\ rec.leaves[k].e = rec.tokens[k].e
  /\ Balanced(es)
Lossless(rec) == Len(rec.leaves) = Len(rec.tokens) /\ rec.tree_text_equal
DiagsInText(rec) == \A k \in DOMAIN rec.diags : (rec.diags[k].s # -1) => (0 <= rec.diags[k].s /\ rec.diags[k].s <= rec.diags[k].e /\ rec.diags[k].e <= rec.len)
Conform(rec) == [tile |-> TokensTile(rec), boundaries |-> OnBoundaries(rec), replay |-> LeavesConform(rec), lossless |-> Lossless(rec),
                 diags |-> DiagsInText(rec), nodes |-> rec.nodes_in_text, deterministic |-> rec.twice_equal]
=====================================================================================================================================================
