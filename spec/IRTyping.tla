------------------------------ MODULE IRTyping ------------------------------
(***************************************************************************)
(* The typing judgment every intermediate representation of goml has to    *)
(* satisfy (C03).  Core, Mono, Lift and ANF share one term language (each   *)
(* node carries the type the compiler assigned to it); the judgment below   *)
(* is checked on the terms the real compiler produced, stage by stage:      *)
(*                                                                          *)
(*   G |- e      every variable use is in scope of a binder (let, lambda    *)
(*               or function parameter, match-arm binder) of the same type, *)
(*               or names a top-level / builtin function whose signature it *)
(*               instantiates;                                              *)
(*               calls, constructors, field reads, projections, operators   *)
(*               and branches agree with the declared signatures;           *)
(*   Closed(e)   from Mono on, no type parameter, no generic application    *)
(*               and no inference variable is left in any type; in Core no  *)
(*               inference variable is left.                                *)
(*   ANF         operands are immediates (variable, literal or tag).        *)
(*                                                                          *)
(* Check(..) returns the set of broken rules; the empty set is the claim.   *)
(* The module has no variables: IRTypingCheck.tla binds it to recorded IR.  *)
(***************************************************************************)
EXTENDS Integers, Sequences, FiniteSets, TLC

\* ---------------------------------------------------------------- types
IntTys == {"int8", "int16", "int32", "int64", "uint8", "uint16", "uint32", "uint64"}
FloatTys == {"float32", "float64"}
NumTys == IntTys \cup FloatTys
PrimTys == NumTys \cup {"unit", "bool", "string"}

TUnit == [t |-> "unit"]
TBool == [t |-> "bool"]
NoTy == [t |-> "-"]

SeqSet(s) == {s[i] : i \in DOMAIN s}

RECURSIVE TyHas(_, _)
TyHas(ty, kinds) ==
  \/ ty.t \in kinds
  \/ CASE ty.t = "tuple" -> \E i \in DOMAIN ty.ts : TyHas(ty.ts[i], kinds)
       [] ty.t = "app" -> TyHas(ty.b, kinds) \/ \E i \in DOMAIN ty.as : TyHas(ty.as[i], kinds)
       [] ty.t \in {"array", "vec", "ref"} -> TyHas(ty.e, kinds)
       [] ty.t = "fn" -> TyHas(ty.r, kinds) \/ \E i \in DOMAIN ty.ps : TyHas(ty.ps[i], kinds)
       [] OTHER -> FALSE

\* the wildcard array length of the array builtins' signatures
RECURSIVE TyHasWildcard(_)
TyHasWildcard(ty) ==
  CASE ty.t = "array" -> ty.len = -1 \/ TyHasWildcard(ty.e)
    [] ty.t = "tuple" -> \E i \in DOMAIN ty.ts : TyHasWildcard(ty.ts[i])
    [] ty.t = "app" -> \E i \in DOMAIN ty.as : TyHasWildcard(ty.as[i])
    [] ty.t \in {"vec", "ref"} -> TyHasWildcard(ty.e)
    [] ty.t = "fn" -> TyHasWildcard(ty.r) \/ \E i \in DOMAIN ty.ps : TyHasWildcard(ty.ps[i])
    [] OTHER -> FALSE

\* substitution of type parameters (s: function from parameter names to types)
RECURSIVE Subst(_, _)
Subst(ty, s) ==
  CASE ty.t = "param" -> IF ty.n \in DOMAIN s THEN s[ty.n] ELSE ty
    [] ty.t = "struct" /\ ty.n = "Self" -> IF "Self" \in DOMAIN s THEN s["Self"] ELSE ty
    [] ty.t = "tuple" -> [ty EXCEPT !.ts = [i \in DOMAIN ty.ts |-> Subst(ty.ts[i], s)]]
    [] ty.t = "app" -> [ty EXCEPT !.as = [i \in DOMAIN ty.as |-> Subst(ty.as[i], s)]]
    [] ty.t \in {"array", "vec", "ref"} -> [ty EXCEPT !.e = Subst(ty.e, s)]
    [] ty.t = "fn" -> [ty EXCEPT !.ps = [i \in DOMAIN ty.ps |-> Subst(ty.ps[i], s)], !.r = Subst(ty.r, s)]
    [] OTHER -> ty

\* one-way matching of a signature against a use: type parameters of the signature are the unknowns;
\* the wildcard array length (-1, only in builtin signatures) matches any length
Fail == [ok |-> FALSE, s |-> <<>>]
RECURSIVE Match(_, _, _)
RECURSIVE MatchSeq(_, _, _, _)
MatchSeq(ps, ts, i, s) ==
  IF i > Len(ps) THEN [ok |-> TRUE, s |-> s]
  ELSE LET r == Match(ps[i], ts[i], s) IN IF r.ok THEN MatchSeq(ps, ts, i + 1, r.s) ELSE Fail
Match(p, ty, s) ==
  IF p.t = "param" THEN
       (IF p.n \in DOMAIN s THEN (IF s[p.n] = ty THEN [ok |-> TRUE, s |-> s] ELSE Fail)
        ELSE [ok |-> TRUE, s |-> (p.n :> ty) @@ s])
  ELSE IF p.t # ty.t THEN Fail
  ELSE CASE p.t = "tuple" -> IF Len(p.ts) = Len(ty.ts) THEN MatchSeq(p.ts, ty.ts, 1, s) ELSE Fail
         [] p.t = "app" -> IF p.b = ty.b /\ Len(p.as) = Len(ty.as) THEN MatchSeq(p.as, ty.as, 1, s) ELSE Fail
         [] p.t = "array" -> IF p.len = -1 \/ p.len = ty.len THEN Match(p.e, ty.e, s) ELSE Fail
         [] p.t \in {"vec", "ref"} -> Match(p.e, ty.e, s)
         [] p.t = "fn" -> IF Len(p.ps) = Len(ty.ps)
                          THEN (LET r == MatchSeq(p.ps, ty.ps, 1, s) IN IF r.ok THEN Match(p.r, ty.r, r.s) ELSE Fail)
                          ELSE Fail
         [] OTHER -> IF p = ty THEN [ok |-> TRUE, s |-> s] ELSE Fail
Instance(scheme, ty) == Match(scheme, ty, <<>>).ok

\* ---------------------------------------------------------------- context
\* C = [fn, stage, env, tops]: the function being checked, the stage, the environment of the stage,
\* and the signatures of the stage's own top-level functions
Err(C, rule, a, b) == {[fn |-> C.fn, stage |-> C.stage, rule |-> rule, a |-> a, b |-> b, n |-> ""]}
ErrN(C, rule, n, a) == {[fn |-> C.fn, stage |-> C.stage, rule |-> rule, a |-> a, b |-> NoTy, n |-> n]}
Need(C, cond, rule, a, b) == IF cond THEN {} ELSE Err(C, rule, a, b)

PostMono(C) == C.stage \in {"mono", "lift", "anf"}
\* functions that exist without being top-level functions of the stage: builtins and externs always; after mono the
\* instances mono made, after lift the apply functions -- but no longer the user's (possibly generic) source functions
Ambient(C, n) == n \in DOMAIN C.env.funcs /\ (~PostMono(C) \/ C.env.funcs[n].origin \in {"Builtin", "Extern", "Mono", "Lift"})
IsBuiltinName(C, n) == n \in DOMAIN C.env.funcs /\ C.env.funcs[n].origin = "Builtin"

Closed(C, ty) ==
  Need(C, ~TyHasWildcard(ty), "wildcard-array-length-left", ty, NoTy) \cup
  (IF PostMono(C) THEN Need(C, ~TyHas(ty, {"param", "var", "app"}), "type-not-closed-after-mono", ty, NoTy)
   ELSE Need(C, ~TyHas(ty, {"var"}), "inference-variable-left", ty, NoTy))

\* the nominal type a constructor belongs to, its parameters and the instantiation a use type gives them
HasAdt(C, ck, tn) == IF ck = "struct" THEN tn \in DOMAIN C.env.structs ELSE tn \in DOMAIN C.env.enums
AdtGens(C, ck, tn) == IF ck = "struct" THEN C.env.structs[tn].gens ELSE C.env.enums[tn].gens
AdtFieldTys(C, ck, tn, vi) ==
  IF ck = "struct" THEN [i \in DOMAIN C.env.structs[tn].fields |-> C.env.structs[tn].fields[i].ty]
  ELSE C.env.enums[tn].variants[vi + 1].ts
AdtHasVariant(C, ck, tn, vi) == ck = "struct" \/ (vi + 1) \in DOMAIN C.env.enums[tn].variants
\* ty is tn applied to as many arguments as tn has parameters
AdtShape(C, ck, tn, ty) ==
  LET gens == AdtGens(C, ck, tn) IN
  IF gens = <<>> THEN ty = [t |-> ck, n |-> tn]
  ELSE ty.t = "app" /\ ty.b = [t |-> ck, n |-> tn] /\ Len(ty.as) = Len(gens)
AdtSubst(C, ck, tn, ty) ==
  LET gens == AdtGens(C, ck, tn) IN
  IF gens = <<>> THEN <<>> ELSE [g \in SeqSet(gens) |-> ty.as[CHOOSE i \in DOMAIN gens : gens[i] = g]]

\* the type of a term.  A let node's own annotation is not used: the compiler stores the type of the bound pattern or of
\* the enclosing statement there (compile_match.rs: `ty: pat_ty`), nothing reads it, and the meaning of `let x = v in b`
\* is the meaning of b -- so its type is the type of its body.
\* `missing(msg)` is the run-time helper a match without a remaining arm compiles to; it does not return.  compile_match.rs
\* annotates the call with whatever type it has at hand (the scrutinee column's), so the model gives it the empty type,
\* which agrees with every branch it stands in.
Bottom == [t |-> "bottom"]
IsMissingCall(e) == e.k = "call" /\ e.f.k = "var" /\ e.f.res = "·missing"
RECURSIVE TyOf(_)
TyOf(e) == IF e.k \in {"let", "lets"} THEN TyOf(e.b) ELSE IF IsMissingCall(e) THEN Bottom ELSE e.ty
Agree(a, b) == a = b \/ a = Bottom \/ b = Bottom

IsImm(e) == e.k \in {"var", "prim", "tag"}
Imm(C, e, rule) == IF C.stage = "anf" THEN Need(C, IsImm(e), rule, e.ty, NoTy) ELSE {}
ImmAll(C, es, rule) == IF C.stage = "anf" THEN Need(C, \A i \in DOMAIN es : IsImm(es[i]), rule, NoTy, NoTy) ELSE {}

\* binders introduced by a match-arm pattern
RECURSIVE PatBinds(_)
PatBinds(p) ==
  CASE p.k = "var" -> (p.n :> p.ty)
    [] p.k = "constr" -> IF p.as = <<>> THEN <<>> ELSE
          LET RECURSIVE Fold(_)
              Fold(i) == IF i > Len(p.as) THEN <<>> ELSE PatBinds(p.as[i]) @@ Fold(i + 1) IN Fold(1)
    [] p.k = "tuple" -> IF p.es = <<>> THEN <<>> ELSE
          LET RECURSIVE Fold(_)
              Fold(i) == IF i > Len(p.es) THEN <<>> ELSE PatBinds(p.es[i]) @@ Fold(i + 1) IN Fold(1)
    [] OTHER -> <<>>

ArgTysAgree(C, ps, as, rule) ==
  IF Len(ps) # Len(as) THEN Err(C, rule \o "-arity", NoTy, NoTy)
  ELSE UNION {Need(C, ps[i] = TyOf(as[i]), rule, ps[i], TyOf(as[i])) : i \in DOMAIN ps}

\* ---------------------------------------------------------------- the judgment
RECURSIVE Check(_, _, _)
RECURSIVE CheckLets(_, _, _, _, _)
CheckAll(es, G, C) == UNION {Check(es[i], G, C) : i \in DOMAIN es}

\* deviation the code makes on purpose (lift.rs, ECall of a closure variable): the callee of a lifted closure call is the
\* `apply` function of the closure's environment struct, but the node is annotated with the type the closure variable had in
\* scope (the environment struct), not with the function's type.  Arguments and result are still checked against the signature.
IsClosureEnv(C, ty) == ty.t = "struct" /\ ty.n \in SeqSet(C.env.lifted)
LiftApplyAnnotation(e, C) ==
  /\ C.stage \in {"lift", "anf"} /\ e.res \in DOMAIN C.tops /\ C.tops[e.res].ps # <<>>
  /\ IsClosureEnv(C, e.ty) /\ C.tops[e.res].ps[1] = e.ty

\* e.res is the top-level function a name stands for: the name itself, except in Core where a call of a generic inherent
\* method names the instance (`inherent#Point#Point[int32,string]#swap`) and mono finds the definition by (base type, method);
\* the exporter applies mono's rule (harness/src/ir_export.rs, resolve_core_names).
IsGlobal(e, G, C) == e.k = "var" /\ e.n \notin DOMAIN G /\ (e.res \in DOMAIN C.tops \/ Ambient(C, e.res))
Signature(e, C) == IF e.res \in DOMAIN C.tops THEN C.tops[e.res] ELSE C.env.funcs[e.res].ty

\* the run-time helper `missing(msg)` stands for a match that has no arm left; the compiler gives it the type the context needs
\* (the exporter marks the helper: res = "·missing" when the program has no function of that name)
IsMissingHelper(e) == e.res = "·missing" /\ e.ty.t = "fn" /\ Len(e.ty.ps) = 1 /\ e.ty.ps[1].t = "string"

CheckVar(e, G, C) ==
  IF e.n \in DOMAIN G THEN Need(C, G[e.n] = e.ty, "variable-use-type-differs-from-binder", G[e.n], e.ty)
  ELSE IF e.res \in DOMAIN C.tops THEN
       (IF PostMono(C) THEN Need(C, C.tops[e.res] = e.ty \/ LiftApplyAnnotation(e, C), "function-use-differs-from-signature", C.tops[e.res], e.ty)
        ELSE Need(C, Instance(C.tops[e.res], e.ty), "function-use-not-an-instance-of-signature", C.tops[e.res], e.ty))
  ELSE IF Ambient(C, e.res) THEN
       Need(C, Instance(C.env.funcs[e.res].ty, e.ty), "function-use-not-an-instance-of-signature", C.env.funcs[e.res].ty, e.ty)
  ELSE IF IsMissingHelper(e) THEN {}
  ELSE ErrN(C, "unbound-variable", e.n, e.ty)

\* a call agrees with the signature of what is called: the declared one for a named function, the callee's type otherwise
CheckCall(e, G, C) ==
  LET sig == IF IsGlobal(e.f, G, C) THEN Signature(e.f, C) ELSE TyOf(e.f)
      use == [t |-> "fn", ps |-> [i \in DOMAIN e.as |-> TyOf(e.as[i])], r |-> e.ty] IN
  IF IsMissingCall(e) THEN ArgTysAgree(C, <<[t |-> "string"]>>, e.as, "call-argument")
  ELSE IF sig.t # "fn" THEN Err(C, "call-of-non-function", sig, NoTy)
  ELSE IF TyHas(sig, {"param"}) THEN Need(C, Instance(sig, use), "call-not-an-instance-of-signature", sig, use)
  ELSE ArgTysAgree(C, sig.ps, e.as, "call-argument") \cup Need(C, sig.r = e.ty, "call-result", sig.r, e.ty)

CheckConstr(e, G, C) ==
  IF ~HasAdt(C, e.ck, e.tn) THEN Err(C, "unknown-type-constructor", e.ty, NoTy)
  ELSE IF ~AdtHasVariant(C, e.ck, e.tn, e.vi) THEN Err(C, "unknown-variant", e.ty, NoTy)
  ELSE IF ~AdtShape(C, e.ck, e.tn, e.ty) THEN Err(C, "constructor-result-type", e.ty, NoTy)
  ELSE LET s == AdtSubst(C, e.ck, e.tn, e.ty)
           fts == AdtFieldTys(C, e.ck, e.tn, e.vi) IN
       ArgTysAgree(C, [i \in DOMAIN fts |-> Subst(fts[i], s)], e.as, "constructor-argument")

CheckGet(e, G, C) ==
  IF ~HasAdt(C, e.ck, e.tn) THEN Err(C, "unknown-type-constructor", TyOf(e.e), NoTy)
  ELSE IF ~AdtHasVariant(C, e.ck, e.tn, e.vi) THEN Err(C, "unknown-variant", TyOf(e.e), NoTy)
  ELSE IF ~AdtShape(C, e.ck, e.tn, TyOf(e.e)) THEN Err(C, "field-read-on-other-type", TyOf(e.e), NoTy)
  ELSE LET s == AdtSubst(C, e.ck, e.tn, TyOf(e.e))
           fts == AdtFieldTys(C, e.ck, e.tn, e.vi) IN
       IF (e.fi + 1) \notin DOMAIN fts THEN Err(C, "unknown-field", TyOf(e.e), NoTy)
       ELSE Need(C, Subst(fts[e.fi + 1], s) = e.ty, "field-read-type", Subst(fts[e.fi + 1], s), e.ty)

CheckBin(e, G, C) ==
  LET l == TyOf(e.l) r == TyOf(e.r) IN
  CASE e.op \in {"+", "-", "*", "/"} ->
         Need(C, l = r /\ l = e.ty, "operator-operands", l, r)
         \cup Need(C, e.ty.t \in NumTys \/ (e.op = "+" /\ e.ty.t = "string"), "operator-type", e.ty, NoTy)
    [] e.op \in {"<", ">", "<=", ">=", "==", "!="} ->
         Need(C, l = r, "operator-operands", l, r) \cup Need(C, e.ty = TBool, "comparison-result", e.ty, NoTy)
    [] e.op \in {"&&", "||"} -> Need(C, l = TBool /\ r = TBool /\ e.ty = TBool, "operator-operands", l, r)
    [] OTHER -> Err(C, "unknown-operator", NoTy, NoTy)

CheckUn(e, G, C) ==
  CASE e.op = "-" -> Need(C, TyOf(e.e) = e.ty /\ e.ty.t \in NumTys, "operator-operands", TyOf(e.e), e.ty)
    [] e.op = "!" -> Need(C, TyOf(e.e) = TBool /\ e.ty = TBool, "operator-operands", TyOf(e.e), e.ty)
    [] OTHER -> Err(C, "unknown-operator", NoTy, NoTy)

MethodSig(C, tr, m) == C.env.traits[tr][m].ty
HasMethod(C, tr, m) == tr \in DOMAIN C.env.traits /\ m \in DOMAIN C.env.traits[tr]
CheckMethodCall(e, G, C, self) ==
  IF ~HasMethod(C, e.tr, e.m) THEN Err(C, "unknown-trait-method", NoTy, NoTy)
  ELSE LET sig == Subst(MethodSig(C, e.tr, e.m), ("Self" :> self)) IN
       IF sig.t # "fn" \/ sig.ps = <<>> THEN Err(C, "trait-method-signature", sig, NoTy)
       ELSE Need(C, sig.ps[1] = TyOf(e.recv), "method-receiver", sig.ps[1], TyOf(e.recv))
            \cup ArgTysAgree(C, Tail(sig.ps), e.as, "method-argument")
            \cup Need(C, sig.r = e.ty, "method-result", sig.r, e.ty)

\* a chain `let x1 = v1 in let x2 = v2 in .. b` arrives as one node {k: "lets", bs: <<[n, v], ..>>, b} (the JSON reader
\* limits nesting); each value is checked in the scope of the binders before it
CheckLets(bs, i, b, G, C) ==
  IF i > Len(bs) THEN Check(b, G, C)
  ELSE Check(bs[i].v, G, C) \cup CheckLets(bs, i + 1, b, (bs[i].n :> TyOf(bs[i].v)) @@ G, C)

Check(e, G, C) ==
  (IF e.k \in {"let", "lets"} THEN {}
   ELSE IF e.k = "var" /\ e.n \notin DOMAIN G /\ IsBuiltinName(C, e.res) THEN Closed(C, e.ty) \ {x \in Closed(C, e.ty) : x.rule = "wildcard-array-length-left"}
   ELSE Closed(C, e.ty)) \cup
  CASE e.k = "var" -> CheckVar(e, G, C)
    [] e.k = "prim" -> Need(C, e.ty.t = e.pk, "literal-type", e.ty, NoTy)
    [] e.k = "tag" -> Need(C, e.ty.t = "enum" /\ e.ty.n \in DOMAIN C.env.enums /\ (e.i + 1) \in DOMAIN C.env.enums[e.ty.n].variants, "tag-of-unknown-variant", e.ty, NoTy)
    [] e.k = "constr" -> CheckAll(e.as, G, C) \cup CheckConstr(e, G, C) \cup ImmAll(C, e.as, "anf-operand-not-immediate")
    [] e.k = "tuple" -> CheckAll(e.es, G, C) \cup ImmAll(C, e.es, "anf-operand-not-immediate")
                        \cup (IF e.ty.t # "tuple" \/ Len(e.ty.ts) # Len(e.es) THEN Err(C, "tuple-type", e.ty, NoTy)
                              ELSE UNION {Need(C, TyOf(e.es[i]) = e.ty.ts[i], "tuple-item", e.ty.ts[i], TyOf(e.es[i])) : i \in DOMAIN e.es})
    [] e.k = "array" -> CheckAll(e.es, G, C) \cup ImmAll(C, e.es, "anf-operand-not-immediate")
                        \cup (IF e.ty.t # "array" \/ e.ty.len # Len(e.es) THEN Err(C, "array-type", e.ty, NoTy)
                              ELSE UNION {Need(C, TyOf(e.es[i]) = e.ty.e, "array-item", e.ty.e, TyOf(e.es[i])) : i \in DOMAIN e.es})
    [] e.k = "closure" -> LET G2 == [n \in {e.ps[i].n : i \in DOMAIN e.ps} |-> e.ps[CHOOSE i \in DOMAIN e.ps : e.ps[i].n = n].ty] @@ G IN
                          Check(e.b, G2, C)
                          \cup Need(C, e.ty.t = "fn" /\ e.ty.ps = [i \in DOMAIN e.ps |-> e.ps[i].ty] /\ e.ty.r = TyOf(e.b), "closure-type", e.ty, TyOf(e.b))
                          \cup Need(C, C.stage \in {"core", "mono"}, "closure-after-lift", NoTy, NoTy)
    [] e.k = "lets" -> CheckLets(e.bs, 1, e.b, G, C)
    [] e.k = "let" -> Check(e.v, G, C) \cup Check(e.b, (e.n :> TyOf(e.v)) @@ G, C)
    [] e.k = "match" -> Check(e.e, G, C) \cup Imm(C, e.e, "anf-operand-not-immediate")
                        \cup UNION {LET a == e.arms[i] G2 == PatBinds(a.l) @@ G IN
                                    Check(a.l, G2, C) \cup Check(a.b, G2, C)
                                    \cup Need(C, TyOf(a.l) = TyOf(e.e), "arm-pattern-type", TyOf(a.l), TyOf(e.e))
                                    \cup Need(C, Agree(TyOf(a.b), e.ty), "arm-result-type", TyOf(a.b), e.ty) : i \in DOMAIN e.arms}
                        \cup UNION {Check(e.d[i], G, C) \cup Need(C, Agree(TyOf(e.d[i]), e.ty), "arm-result-type", TyOf(e.d[i]), e.ty) : i \in DOMAIN e.d}
    [] e.k = "if" -> Check(e.c, G, C) \cup Check(e.t, G, C) \cup Check(e.e, G, C) \cup Imm(C, e.c, "anf-operand-not-immediate")
                     \cup Need(C, TyOf(e.c) = TBool, "condition-type", TyOf(e.c), NoTy)
                     \cup Need(C, Agree(TyOf(e.t), e.ty) /\ Agree(TyOf(e.e), e.ty), "branch-type", TyOf(e.t), TyOf(e.e))
    [] e.k = "while" -> Check(e.c, G, C) \cup Check(e.b, G, C)
                        \cup Need(C, TyOf(e.c) = TBool, "condition-type", TyOf(e.c), NoTy) \cup Need(C, e.ty = TUnit, "while-type", e.ty, NoTy)
    [] e.k = "go" -> Check(e.e, G, C) \cup Need(C, e.ty = TUnit, "go-type", e.ty, NoTy)
    [] e.k = "get" -> Check(e.e, G, C) \cup CheckGet(e, G, C) \cup Imm(C, e.e, "anf-operand-not-immediate")
    [] e.k = "un" -> Check(e.e, G, C) \cup CheckUn(e, G, C) \cup Imm(C, e.e, "anf-operand-not-immediate")
    [] e.k = "bin" -> Check(e.l, G, C) \cup Check(e.r, G, C) \cup CheckBin(e, G, C)
                      \cup Imm(C, e.l, "anf-operand-not-immediate") \cup Imm(C, e.r, "anf-operand-not-immediate")
    [] e.k = "call" -> Check(e.f, G, C) \cup CheckAll(e.as, G, C) \cup Imm(C, e.f, "anf-operand-not-immediate") \cup ImmAll(C, e.as, "anf-operand-not-immediate")
                       \cup CheckCall(e, G, C)
    [] e.k = "todyn" -> Check(e.e, G, C) \cup Imm(C, e.e, "anf-operand-not-immediate") \cup Closed(C, e.for)
                        \cup Need(C, e.ty = [t |-> "dyn", tr |-> e.tr], "to-dyn-type", e.ty, NoTy)
                        \cup Need(C, TyOf(e.e) = e.for, "to-dyn-source-type", TyOf(e.e), e.for)
                        \cup Need(C, e.tr \in DOMAIN C.env.traits, "unknown-trait", NoTy, NoTy)
                        \cup (IF C.stage = "core" /\ ~TyHas(e.for, {"param"})
                              THEN Need(C, \E i \in DOMAIN C.env.impls : C.env.impls[i].tr = e.tr /\ Instance(C.env.impls[i].for, e.for), "to-dyn-without-impl", e.for, NoTy)
                              ELSE {})
    [] e.k = "dyncall" -> Check(e.recv, G, C) \cup CheckAll(e.as, G, C) \cup Imm(C, e.recv, "anf-operand-not-immediate") \cup ImmAll(C, e.as, "anf-operand-not-immediate")
                          \cup Need(C, TyOf(e.recv) = [t |-> "dyn", tr |-> e.tr], "dyn-call-receiver", TyOf(e.recv), NoTy)
                          \cup CheckMethodCall(e, G, C, [t |-> "dyn", tr |-> e.tr])
    [] e.k = "traitcall" -> Check(e.recv, G, C) \cup CheckAll(e.as, G, C)
                            \cup Need(C, C.stage = "core", "trait-call-after-mono", NoTy, NoTy)
                            \cup CheckMethodCall(e, G, C, TyOf(e.recv))
    [] e.k = "proj" -> Check(e.e, G, C) \cup Imm(C, e.e, "anf-operand-not-immediate")
                       \cup (IF TyOf(e.e).t # "tuple" \/ (e.i + 1) \notin DOMAIN TyOf(e.e).ts THEN Err(C, "projection-out-of-range", TyOf(e.e), NoTy)
                             ELSE Need(C, TyOf(e.e).ts[e.i + 1] = e.ty, "projection-type", TyOf(e.e).ts[e.i + 1], e.ty))
    [] OTHER -> Err(C, "unknown-node", NoTy, NoTy)

\* ---------------------------------------------------------------- functions and stages
FnTy(f) == [t |-> "fn", ps |-> [i \in DOMAIN f.params |-> f.params[i].ty], r |-> f.ret]
CheckFn(f, stage, env, tops) ==
  LET C == [fn |-> f.name, stage |-> stage, env |-> env, tops |-> tops]
      G == [n \in {f.params[i].n : i \in DOMAIN f.params} |-> f.params[CHOOSE i \in DOMAIN f.params : f.params[i].n = n].ty] IN
  Check(f.body, G, C)
  \cup Need(C, Agree(TyOf(f.body), f.ret), "body-type-differs-from-return-type", TyOf(f.body), f.ret)
  \cup Closed(C, FnTy(f))
  \cup Need(C, Cardinality({f.params[i].n : i \in DOMAIN f.params}) = Len(f.params), "duplicate-parameter", NoTy, NoTy)

CheckStage(stage, S) ==
  LET names == {S.fns[i].name : i \in DOMAIN S.fns}
      tops == [n \in names |-> FnTy(S.fns[CHOOSE i \in DOMAIN S.fns : S.fns[i].name = n])] IN
  UNION {CheckFn(S.fns[i], stage, S.env, tops) : i \in DOMAIN S.fns}
  \cup (IF Cardinality(names) = Len(S.fns) THEN {} ELSE {[fn |-> "-", stage |-> stage, rule |-> "duplicate-function", a |-> NoTy, b |-> NoTy, n |-> ""]})

CheckProgram(P) == CheckStage("core", P.core) \cup CheckStage("mono", P.mono) \cup CheckStage("lift", P.lift) \cup CheckStage("anf", P.anf)
=============================================================================
