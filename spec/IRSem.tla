------------------------------- MODULE IRSem -------------------------------
(***************************************************************************)
(* The meaning of goml's intermediate representations.  Core, Mono, Lift   *)
(* and ANF share one term language (the one IRTyping.tla types); this module is a  *)
(* big-step evaluator for it: Eval(e, env, st, C) threads the observable    *)
(* state st = [heap, nxt, out, fuel] through the term and returns the value *)
(* or the reason the program stops.  Values and operators are those of the  *)
(* source machine (GomlOps.tla), so "a pass preserves meaning" is an        *)
(* equality of outcomes:                                                    *)
(*                                                                          *)
(*      Run(P.mono) = Run(P.lift) = Run(P.anf)   ( = the source meaning )   *)
(*                                                                          *)
(* evaluated by TLC on the terms the real compiler produced                 *)
(* (IRSemCheck.tla).  Evaluation order is the language's: callee, then      *)
(* arguments left to right; && and || short-circuit; first matching arm;    *)
(* a `while` re-evaluates its condition; a closure captures its environment *)
(* by value; a dyn value carries the implementation table of its type.      *)
(* No variables.                                                            *)
(***************************************************************************)
EXTENDS Integers, Sequences, FiniteSets, TLC, GomlOps

\* ---------------------------------------------------------------- results
Ok(v, st) == [ok |-> TRUE, v |-> v, st |-> st]
Stop(kind, why, st) == [ok |-> FALSE, kind |-> kind, why |-> why, st |-> st]      \* kind: failed | unsupported | inconclusive
StopV(v, st) == Stop(IF v.k = "fail" THEN "failed" ELSE "unsupported", v.why, st)
OfValue(v, st) == IF IsBad(v) THEN StopV(v, st) ELSE Ok(v, st)

\* ---------------------------------------------------------------- literals
PrimValue(e) ==
  CASE e.pk = "unit" -> VUnit
    [] e.pk = "bool" -> VBool(e.bv)
    [] e.pk = "string" -> VStr(e.sv)
    [] e.pk \in IntTypes -> VInt(e.pk, NFromDigits(e.neg, e.ds))
    [] e.pk \in FloatTypes -> FloatOfLit(e, e.pk)
    [] OTHER -> VBad("literal kind " \o e.pk)

\* ---------------------------------------------------------------- patterns of compiled matches
\* an arm's left-hand side is a literal, a constructor (its arguments are names the arm body re-binds through field reads),
\* or (ANF) a constructor tag
ArmMatches(l, v) ==
  CASE l.k = "prim" -> LET p == PrimValue(l) IN IF p.k = "int" THEN v.k = "int" /\ v.n = p.n ELSE p = v
    [] l.k = "tag" -> v.k = "variant" /\ v.vi = l.i
    [] l.k = "constr" -> IF l.ck = "enum" THEN v.k = "variant" /\ v.vi = l.vi ELSE TRUE
    [] l.k = "var" -> TRUE
    [] OTHER -> FALSE
ArmBinds(l, v, env) ==
  IF l.k = "var" THEN (l.n :> v) @@ env
  ELSE IF l.k = "constr" /\ v.k \in {"variant", "struct"} THEN
       LET vs == IF v.k = "variant" THEN v.as ELSE v.fs
           names == {i \in DOMAIN l.as : l.as[i].k = "var" /\ i \in DOMAIN vs} IN
       [n \in {l.as[i].n : i \in names} |-> vs[CHOOSE i \in names : l.as[i].n = n]] @@ env
  ELSE env

\* ---------------------------------------------------------------- effectful builtins
IsEffectful(n) == n \in {"string_print", "string_println", "ref", "ref_get", "ref_set"}
ApplyEffectful(n, vs, st) ==
  CASE n = "string_print" -> Ok(VUnit, [st EXCEPT !.out = @ \o vs[1].v])
    [] n = "string_println" -> Ok(VUnit, [st EXCEPT !.out = @ \o vs[1].v \o <<10>>])
    [] n = "ref" -> Ok([k |-> "ref", a |-> st.nxt], [st EXCEPT !.heap = (st.nxt :> vs[1]) @@ @, !.nxt = @ + 1])
    [] n = "ref_get" -> Ok(st.heap[vs[1].a], st)
    [] n = "ref_set" -> Ok(VUnit, [st EXCEPT !.heap = [@ EXCEPT ![vs[1].a] = vs[2]]])

\* a builtin applied to values of the kinds its signature names (an ill-typed term must stop, not break the evaluator)
KindsOk(n, vs) ==
  LET K(i) == IF i \in DOMAIN vs THEN vs[i].k ELSE "-" IN
  CASE n \in {"string_print", "string_println", "string_len", "json_escape_string"} -> K(1) = "str"
    [] n = "string_get" -> K(1) = "str" /\ K(2) = "int"
    [] n \in IntToStringFns -> K(1) = "int"
    [] n \in {"bool_to_string", "bool_to_json"} -> K(1) = "bool"
    [] n \in {"float32_to_string", "float64_to_string"} -> K(1) = "float"
    [] n = "unit_to_string" -> K(1) = "unit"
    [] n = "ref_get" -> K(1) = "ref"
    [] n = "ref_set" -> K(1) = "ref" /\ Len(vs) = 2
    [] n = "ref" -> Len(vs) = 1
    [] n = "vec_new" -> vs = <<>>
    [] n = "vec_push" -> K(1) = "vec" /\ Len(vs) = 2
    [] n = "vec_len" -> K(1) = "vec"
    [] n = "vec_get" -> K(1) = "vec" /\ K(2) = "int"
    [] n = "array_get" -> K(1) = "array" /\ K(2) = "int"
    [] n = "array_set" -> K(1) = "array" /\ K(2) = "int" /\ Len(vs) = 3
    [] OTHER -> TRUE

\* the name of a value's type as the compiler writes it into implementation names (non-generic types only)
TyNameOf(v) ==
  CASE v.k \in {"int", "float"} -> v.t
    [] v.k = "bool" -> "bool"
    [] v.k = "str" -> "string"
    [] v.k = "unit" -> "unit"
    [] v.k \in {"struct", "variant"} -> v.n
    [] OTHER -> ""

\* ---------------------------------------------------------------- evaluation
RECURSIVE Eval(_, _, _, _)
RECURSIVE EvalSeq(_, _, _, _, _, _)
RECURSIVE EvalLets(_, _, _, _, _, _)
RECURSIVE EvalArms(_, _, _, _, _, _)
RECURSIVE EvalWhile(_, _, _, _)
RECURSIVE Apply(_, _, _, _)

\* es[i..] left to right, collecting values
EvalSeq(es, i, acc, env, st, C) ==
  IF i > Len(es) THEN Ok(acc, st)
  ELSE LET r == Eval(es[i], env, st, C) IN
       IF ~r.ok THEN r ELSE EvalSeq(es, i + 1, Append(acc, r.v), env, r.st, C)

EvalLets(bs, i, b, env, st, C) ==
  IF i > Len(bs) THEN Eval(b, env, st, C)
  ELSE LET r == Eval(bs[i].v, env, st, C) IN
       IF ~r.ok THEN r ELSE EvalLets(bs, i + 1, b, (bs[i].n :> r.v) @@ env, r.st, C)

EvalArms(m, i, v, env, st, C) ==
  IF i > Len(m.arms) THEN
       (IF m.d # <<>> THEN Eval(m.d[1], env, st, C) ELSE Stop("failed", "no arm matches", st))
  ELSE IF ArmMatches(m.arms[i].l, v) THEN Eval(m.arms[i].b, ArmBinds(m.arms[i].l, v, env), st, C)
  ELSE EvalArms(m, i + 1, v, env, st, C)

EvalWhile(e, env, st, C) ==
  IF st.fuel = 0 THEN Stop("inconclusive", "fuel", st)
  ELSE LET c == Eval(e.c, env, [st EXCEPT !.fuel = @ - 1], C) IN
       IF ~c.ok THEN c
       ELSE IF c.v.k # "bool" THEN Stop("unsupported", "condition is " \o c.v.k, c.st)
       ELSE IF ~c.v.v THEN Ok(VUnit, c.st)
       ELSE LET b == Eval(e.b, env, c.st, C) IN IF ~b.ok THEN b ELSE EvalWhile(e, env, b.st, C)

\* apply a function value to evaluated arguments
Apply(f, vs, st, C) ==
  IF st.fuel = 0 THEN Stop("inconclusive", "fuel", st)
  ELSE IF f.k = "fnref" THEN
       IF f.n \in DOMAIN C.fns THEN
            LET d == C.fns[f.n] IN
            IF Len(d.params) # Len(vs) THEN Stop("unsupported", "arity of " \o f.n, st)
            ELSE Eval(d.body, [n \in {d.params[i].n : i \in DOMAIN d.params} |-> vs[CHOOSE i \in DOMAIN d.params : d.params[i].n = n]],
                      [st EXCEPT !.fuel = @ - 1], C)
       ELSE IF f.n = "·missing" THEN Stop("failed", "no arm matches", st)
       ELSE IF (IsEffectful(f.n) \/ IsBuiltin(f.n)) /\ ~KindsOk(f.n, vs) THEN Stop("unsupported", "builtin " \o f.n \o " applied to other kinds of values", st)
       ELSE IF IsEffectful(f.n) THEN ApplyEffectful(f.n, vs, st)
       ELSE IF IsBuiltin(f.n) THEN OfValue(PureBuiltin(f.n, vs, <<>>), st)
       ELSE Stop("unsupported", "unknown function " \o f.n, st)
  ELSE IF f.k = "clo" THEN
       IF Len(f.ps) # Len(vs) THEN Stop("unsupported", "closure arity", st)
       ELSE Eval(f.b, [n \in {f.ps[i] : i \in DOMAIN f.ps} |-> vs[CHOOSE i \in DOMAIN f.ps : f.ps[i] = n]] @@ f.env, [st EXCEPT !.fuel = @ - 1], C)
  ELSE Stop("unsupported", "call of a value that is not a function (" \o f.k \o ")", st)

Eval(e, env, st, C) ==
  CASE e.k = "var" -> IF e.n \in DOMAIN env THEN Ok(env[e.n], st) ELSE Ok([k |-> "fnref", n |-> e.res], st)
    [] e.k = "prim" -> OfValue(PrimValue(e), st)
    [] e.k = "tag" -> Ok([k |-> "variant", n |-> e.ty.n, vi |-> e.i, as |-> <<>>], st)      \* ANF: a constructor without arguments
    [] e.k = "constr" ->
         LET r == EvalSeq(e.as, 1, <<>>, env, st, C) IN
         IF ~r.ok THEN r
         ELSE IF e.ck = "struct" THEN Ok([k |-> "struct", n |-> e.tn, fs |-> r.v], r.st)
         ELSE Ok([k |-> "variant", n |-> e.tn, vi |-> e.vi, as |-> r.v], r.st)
    [] e.k = "tuple" -> LET r == EvalSeq(e.es, 1, <<>>, env, st, C) IN IF ~r.ok THEN r ELSE Ok([k |-> "tuple", es |-> r.v], r.st)
    [] e.k = "array" -> LET r == EvalSeq(e.es, 1, <<>>, env, st, C) IN IF ~r.ok THEN r ELSE Ok([k |-> "array", es |-> r.v], r.st)
    [] e.k = "closure" -> Ok([k |-> "clo", ps |-> [i \in DOMAIN e.ps |-> e.ps[i].n], b |-> e.b, env |-> env], st)
    [] e.k = "lets" -> EvalLets(e.bs, 1, e.b, env, st, C)
    [] e.k = "let" -> LET r == Eval(e.v, env, st, C) IN IF ~r.ok THEN r ELSE Eval(e.b, (e.n :> r.v) @@ env, r.st, C)
    [] e.k = "match" -> LET r == Eval(e.e, env, st, C) IN IF ~r.ok THEN r ELSE EvalArms(e, 1, r.v, env, r.st, C)
    [] e.k = "if" -> LET r == Eval(e.c, env, st, C) IN
                     IF ~r.ok THEN r ELSE IF r.v.k # "bool" THEN Stop("unsupported", "condition is " \o r.v.k, r.st)
                     ELSE IF r.v.v THEN Eval(e.t, env, r.st, C) ELSE Eval(e.e, env, r.st, C)
    [] e.k = "while" -> EvalWhile(e, env, st, C)
    [] e.k = "go" -> Stop("unsupported", "go", st)
    [] e.k = "get" ->
         LET r == Eval(e.e, env, st, C) IN
         IF ~r.ok THEN r
         ELSE IF r.v.k = "struct" /\ (e.fi + 1) \in DOMAIN r.v.fs THEN Ok(r.v.fs[e.fi + 1], r.st)
         ELSE IF r.v.k = "variant" /\ r.v.vi = e.vi /\ (e.fi + 1) \in DOMAIN r.v.as THEN Ok(r.v.as[e.fi + 1], r.st)
         ELSE Stop("unsupported", "field read on a value without that field", r.st)
    [] e.k = "un" -> LET r == Eval(e.e, env, st, C) IN IF ~r.ok THEN r ELSE OfValue(UnOp(e.op, r.v), r.st)
    [] e.k = "bin" ->
         LET l == Eval(e.l, env, st, C) IN
         IF ~l.ok THEN l
         ELSE IF e.op \in {"&&", "||"} /\ l.v.k # "bool" THEN Stop("unsupported", "logical operator on " \o l.v.k, l.st)
         ELSE IF e.op = "&&" /\ ~l.v.v THEN Ok(VBool(FALSE), l.st)
         ELSE IF e.op = "||" /\ l.v.v THEN Ok(VBool(TRUE), l.st)
         ELSE LET r == Eval(e.r, env, l.st, C) IN
              IF ~r.ok THEN r
              ELSE IF e.op \in {"&&", "||"} THEN Ok(r.v, r.st)
              ELSE IF l.v.k # r.v.k THEN Stop("unsupported", "operands of different kinds: " \o l.v.k \o " " \o e.op \o " " \o r.v.k, r.st)
              ELSE OfValue(BinOp(e.op, l.v, r.v), r.st)
    [] e.k = "call" ->
         LET f == Eval(e.f, env, st, C) IN
         IF ~f.ok THEN f
         ELSE LET a == EvalSeq(e.as, 1, <<>>, env, f.st, C) IN
              IF ~a.ok THEN a ELSE Apply(f.v, a.v, a.st, C)
    [] e.k = "todyn" -> LET r == Eval(e.e, env, st, C) IN IF ~r.ok THEN r ELSE Ok([k |-> "dyn", tr |-> e.tr, pre |-> e.implfn, v |-> r.v], r.st)
    [] e.k = "dyncall" ->
         LET d == Eval(e.recv, env, st, C) IN
         IF ~d.ok THEN d
         ELSE IF d.v.k # "dyn" THEN Stop("unsupported", "dyn call on a value that is not a trait object", d.st)
         ELSE LET a == EvalSeq(e.as, 1, <<>>, env, d.st, C) IN
              IF ~a.ok THEN a ELSE Apply([k |-> "fnref", n |-> d.v.pre \o e.m], <<d.v.v>> \o a.v, a.st, C)
    [] e.k = "traitcall" ->     \* Core only: the implementation is chosen by the receiver's type at run time (mono resolves it statically)
         LET d == Eval(e.recv, env, st, C) IN
         IF ~d.ok THEN d
         ELSE LET a == EvalSeq(e.as, 1, <<>>, env, d.st, C) IN
              IF ~a.ok THEN a
              ELSE IF TyNameOf(d.v) = "" THEN Stop("unsupported", "trait call on a value whose type name is not carried by the value", a.st)
              ELSE Apply([k |-> "fnref", n |-> "trait_impl#" \o e.tr \o "#" \o TyNameOf(d.v) \o "#" \o e.m], <<d.v>> \o a.v, a.st, C)
    [] e.k = "proj" -> LET r == Eval(e.e, env, st, C) IN
                       IF ~r.ok THEN r ELSE IF r.v.k = "tuple" /\ (e.i + 1) \in DOMAIN r.v.es THEN Ok(r.v.es[e.i + 1], r.st)
                       ELSE Stop("unsupported", "projection of a value that is not such a tuple", r.st)
    [] OTHER -> Stop("unsupported", "node " \o e.k, st)

\* ---------------------------------------------------------------- a program at one stage
Fuel == 20000
Run(S) ==
  LET names == {S.fns[i].name : i \in DOMAIN S.fns}
      C == [fns |-> [n \in names |-> S.fns[CHOOSE i \in DOMAIN S.fns : S.fns[i].name = n]]]
      st0 == [heap |-> (0 :> VUnit), nxt |-> 1, out |-> <<>>, fuel |-> Fuel] IN
  IF "main" \notin names THEN [status |-> "unsupported", why |-> "no main", out |-> <<>>]
  ELSE IF Cardinality(names) # Len(S.fns) THEN [status |-> "unsupported", why |-> "two functions of one name", out |-> <<>>]
  ELSE LET r == Apply([k |-> "fnref", n |-> "main"], <<>>, st0, C) IN
       IF r.ok THEN [status |-> "ok", why |-> "", out |-> r.st.out]
       ELSE [status |-> r.kind, why |-> r.why, out |-> r.st.out]
=============================================================================
