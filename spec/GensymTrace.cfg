INIT TInit
NEXT TNext
CONSTANTS
  Prefs <- AnyPrefix
  MaxN = 100000000
  User = {}
  AllowReset = FALSE
INVARIANTS TraceInv Finished
CHECK_DEADLOCK FALSE
