INIT Init
NEXT Next
INVARIANT JsonSound
CHECK_DEADLOCK FALSE
