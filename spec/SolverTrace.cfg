INIT TInit
NEXT TNext
CONSTANTS
  MaxEq = 0
  MaxOver = 0
  MaxField = 0
  DeferClaimsProgress = FALSE
INVARIANTS Finished
CHECK_DEADLOCK FALSE
