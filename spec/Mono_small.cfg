SPECIFICATION Spec
CONSTANTS
  Fns <- F2
  MaxDepth = 2
  Dedup = TRUE
  NameFn <- GoodName
INVARIANTS Once Complete Injective NoDivergeIfFinite
PROPERTY Terminates
CHECK_DEADLOCK FALSE
