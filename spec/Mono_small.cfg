SPECIFICATION Spec
CONSTANTS
  Fns <- F2
  MaxDepth = 2
  Dedup = TRUE
  NameFn <- GoodName
INVARIANTS Once Complete Injective NoDivergeIfFinite RefusedOnlyIfInfinite
PROPERTIES Terminates AlwaysEnds
CHECK_DEADLOCK FALSE
