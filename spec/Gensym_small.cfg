SPECIFICATION Spec
CONSTANTS
  Prefs <- P2
  MaxN = 5
  User <- U1
  AllowReset = FALSE
INVARIANTS Unique
CHECK_DEADLOCK FALSE
