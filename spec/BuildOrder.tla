------------------------------ MODULE BuildOrder ------------------------------
(***************************************************************************)
(* Separate compilation orders (C14): for a dependency DAG and an arbitrary  *)
(* order of `goml build` invocations (topological or not), which builds      *)
(* succeed and whether the final link can succeed.  A package can be built   *)
(* only when the interface of every package it imports already exists;       *)
(* link needs the core of every package.                                     *)
(***************************************************************************)
EXTENDS Integers, Sequences, FiniteSets, TLC, Json, SequencesExt

Pk == {"A", "B", "C", "Main"}
Shapes == {"chain", "fanin", "diamond", "vee"}
DepsOf(shape) ==
  CASE shape = "chain" -> [p \in Pk |-> CASE p = "Main" -> {"C"} [] p = "C" -> {"B"} [] p = "B" -> {"A"} [] OTHER -> {}]
    [] shape = "fanin" -> [p \in Pk |-> IF p = "Main" THEN {"A", "B", "C"} ELSE {}]
    [] shape = "diamond" -> [p \in Pk |-> CASE p = "Main" -> {"B", "C"} [] p = "B" -> {"A"} [] p = "C" -> {"A"} [] OTHER -> {}]
    [] shape = "vee" -> [p \in Pk |-> CASE p = "Main" -> {"A", "C"} [] p = "C" -> {"A", "B"} [] OTHER -> {}]   \* A imported directly and through C

VARIABLES shape, order, i, built, log
vars == <<shape, order, i, built, log>>

Perms(S) == {s \in [1..Cardinality(S) -> S] : \A a, b \in 1..Cardinality(S) : a # b => s[a] # s[b]}

Init == /\ shape \in Shapes /\ order \in Perms(Pk) /\ i = 1 /\ built = {} /\ log = <<>>

Build ==
  /\ i <= Len(order)
  /\ LET p == order[i] ok == DepsOf(shape)[p] \subseteq built IN
     /\ built' = IF ok THEN built \cup {p} ELSE built
     /\ log' = Append(log, [p |-> p, ok |-> ok])
  /\ i' = i + 1
  /\ UNCHANGED <<shape, order>>
Next == Build
Spec == Init /\ [][Next]_vars

Done == i > Len(order)
Topological == \A a, b \in 1..Len(order) : order[a] \in DepsOf(shape)[order[b]] => a < b
\* every build of a topological order succeeds; a non-topological order leaves something unbuilt
TopologicalIffAllBuilt == Done => (Topological <=> built = Pk)
\* what is built never depends on anything but the set of earlier successful builds (prefix monotonicity)
Monotone == \A k \in DOMAIN log : log[k].ok => DepsOf(shape)[log[k].p] \subseteq {log[j].p : j \in {j \in 1..(k - 1) : log[j].ok}}
Emit == Done => PrintT(<<"ORDER", ToJson([shape |-> shape, order |-> order, log |-> log, linkable |-> (built = Pk),
                                           deps |-> DepsOf(shape)])>>)
=============================================================================
