------------------------------ MODULE BuildOrder ------------------------------
(***************************************************************************)
(* Separate compilation orders (C14): for EVERY dependency DAG over four     *)
(* packages and an arbitrary                                                  *)
(* order of `goml build` invocations (topological or not), which builds      *)
(* succeed and whether the final link can succeed.  A package can be built   *)
(* only when the interface of every package it imports already exists;       *)
(* link needs the core of every package.                                     *)
(***************************************************************************)
EXTENDS Integers, Sequences, FiniteSets, TLC, Json, SequencesExt

Pk == {"A", "B", "C", "Main"}
Lib == Pk \ {"Main"}
\* every dependency DAG over the four packages: libraries import libraries without a cycle, Main imports libraries, and every
\* package is reachable from Main (the named shapes chain, fan-in, diamond, vee of earlier rounds are four of them; the `tee`
\* Main -> {A, B, C}, C -> B is the smallest one in which a direct import of Main is also imported by a later direct import)
Ranks == {r \in [Lib -> 1..3] : \A a, b \in Lib : a # b => r[a] # r[b]}
Acyclic(d) == \E r \in Ranks : \A p \in Lib : \A q \in d[p] : r[q] < r[p]
Reach1(d, S) == S \cup UNION {d[p] : p \in S}
Reachable(d) == Reach1(d, Reach1(d, Reach1(d, d["Main"])))
Shapes == {d \in [Pk -> SUBSET Lib] : Acyclic(d) /\ Reachable(d) = Lib}
DepsOf(shape) == shape

VARIABLES shape, order, i, built, log
vars == <<shape, order, i, built, log>>

Perms(S) == {s \in [1..Cardinality(S) -> S] : \A a, b \in 1..Cardinality(S) : a # b => s[a] # s[b]}

Init == /\ shape \in Shapes /\ order \in Perms(Pk) /\ i = 1 /\ built = {} /\ log = <<>>

Build ==
  /\ i <= Len(order)
  /\ LET p == order[i] ok == DepsOf(shape)[p] \subseteq built IN
     /\ built' = IF ok THEN built \cup {p} ELSE built
     /\ log' = Append(log, [p |-> p, ok |-> ok])
  /\ i' = i + 1
  /\ UNCHANGED <<shape, order>>
Next == Build
Spec == Init /\ [][Next]_vars

Done == i > Len(order)
Topological == \A a, b \in 1..Len(order) : order[a] \in DepsOf(shape)[order[b]] => a < b
\* every build of a topological order succeeds; a non-topological order leaves something unbuilt
TopologicalIffAllBuilt == Done => (Topological <=> built = Pk)
\* what is built never depends on anything but the set of earlier successful builds (prefix monotonicity)
Monotone == \A k \in DOMAIN log : log[k].ok => DepsOf(shape)[log[k].p] \subseteq {log[j].p : j \in {j \in 1..(k - 1) : log[j].ok}}
Emit == Done => PrintT(<<"ORDER", ToJson([order |-> order, log |-> log, linkable |-> (built = Pk),
                                           deps |-> DepsOf(shape)])>>)
=============================================================================
