SPECIFICATION Spec
CONSTANTS
  VarIds = {1, 2}
  Lens <- WildLens
  MaxCalls = 2
  Rich = FALSE
  OccursInRet = TRUE
INVARIANTS InvUnifiedExact
CHECK_DEADLOCK FALSE
