-------------------------------- MODULE Pratt --------------------------------
(***************************************************************************)
(* The expression grammar goml documents (C11): prefix - and ! bind tighter *)
(* than * /, then + -, then < > <= >=, then == !=, then &&, then ||; call,  *)
(* field access, method call and tuple index bind tightest; binary          *)
(* operators associate to the left.                                         *)
(*                                                                          *)
(*   Trees(n)   all expression shapes with at most n operator nodes         *)
(*              (leaves are anonymous; the replay driver numbers them)      *)
(*   Render(t)  the token list with only the necessary parentheses          *)
(*   Parse(ts)  the meaning of a token list under the documented grammar    *)
(*              (Unary := (-|!) Unary | Postfix;  Postfix := Atom {(..) |   *)
(*              .f | .0};  precedence climbing over Unary)                  *)
(* TLC checks Parse(Render(t)) = t for every tree (the documented grammar   *)
(* is self-consistent and Render really is minimal-but-sufficient) and      *)
(* emits (tokens, tree) for the real parser to be compared against.         *)
(***************************************************************************)
EXTENDS Integers, Sequences, FiniteSets, TLC, Json

CONSTANTS MaxOps, BinOps, PreOps

VARIABLE t
vars == <<t>>

\* ---------------------------------------------------------------- precedence table (higher binds tighter)
Prec(op) ==
  CASE op = "||" -> 1 [] op = "&&" -> 2 [] op \in {"==", "!="} -> 3 [] op \in {"<", ">", "<=", ">="} -> 4
    [] op \in {"+", "-"} -> 5 [] op \in {"*", "/"} -> 6
PREFIX == 7
POSTFIX == 8

Leaf == [k |-> "v"]
Bin(op, l, r) == [k |-> "bin", op |-> op, l |-> l, r |-> r]
Un(op, e) == [k |-> "un", op |-> op, e |-> e]
Call(f, as) == [k |-> "call", f |-> f, as |-> as]
Field(e) == [k |-> "field", e |-> e]          \* e.f
Proj(e) == [k |-> "proj", e |-> e]            \* e.0

\* ---------------------------------------------------------------- trees with exactly n operator nodes
RECURSIVE Exactly(_)
Exactly(n) ==
  IF n = 0 THEN {Leaf}
  ELSE LET sub == Exactly(n - 1) IN
       {Un(op, e) : op \in PreOps, e \in sub}
       \cup {Field(e) : e \in sub} \cup {Proj(e) : e \in sub}
       \cup {Call(e, <<>>) : e \in sub}
       \cup UNION {{Call(f, <<a>>) : f \in Exactly(i), a \in Exactly(n - 1 - i)} : i \in 0..(n - 1)}
       \cup (IF n >= 2 THEN UNION {{Call(f, <<Leaf, a>>) : f \in Exactly(i), a \in Exactly(n - 1 - i)} : i \in 0..(n - 1)} ELSE {})
       \cup UNION {{Bin(op, l, r) : op \in BinOps, l \in Exactly(i), r \in Exactly(n - 1 - i)} : i \in 0..(n - 1)}
Trees == UNION {Exactly(n) : n \in 0..MaxOps}

\* ---------------------------------------------------------------- minimal-parenthesis rendering
Paren(ts) == <<"(">> \o ts \o <<")">>
RECURSIVE Render(_, _)
RECURSIVE RenderArgs(_, _)
RenderArgs(as, i) == IF i > Len(as) THEN <<>> ELSE (IF i > 1 THEN <<",">> ELSE <<>>) \o Render(as[i], 0) \o RenderArgs(as, i + 1)
\* Render(e, m): tokens of e in a context that needs precedence >= m
Render(e, m) ==
  CASE e.k = "v" -> <<"v">>
    [] e.k = "bin" -> LET p == Prec(e.op) body == Render(e.l, p) \o <<e.op>> \o Render(e.r, p + 1) IN IF p < m THEN Paren(body) ELSE body
    [] e.k = "un" -> LET body == <<e.op>> \o Render(e.e, PREFIX) IN IF PREFIX < m THEN Paren(body) ELSE body
    [] e.k = "call" -> Render(e.f, POSTFIX) \o <<"(">> \o RenderArgs(e.as, 1) \o <<")">>
    [] e.k = "field" -> Render(e.e, POSTFIX) \o <<".", "f">>
    [] e.k = "proj" -> Render(e.e, POSTFIX) \o <<".", "0">>

\* ---------------------------------------------------------------- the documented grammar as a parser: [t, i] (i = next token), or [err]
Err == [err |-> TRUE]
IsErr(r) == "err" \in DOMAIN r
Tok(ts, i) == IF i <= Len(ts) THEN ts[i] ELSE "<eof>"
IsBinOp(x) == x \in {"||", "&&", "==", "!=", "<", ">", "<=", ">=", "+", "-", "*", "/"}

RECURSIVE ParseExpr(_, _, _)
RECURSIVE ParseUnary(_, _)
RECURSIVE ParsePostfix(_, _, _)
RECURSIVE ParseArgs(_, _, _)
RECURSIVE Climb(_, _, _, _)

ParseArgs(ts, i, acc) ==         \* after "(" or ","; returns [as, i] with i after ")"
  IF Tok(ts, i) = ")" /\ acc = <<>> THEN [as |-> acc, i |-> i + 1]
  ELSE LET r == ParseExpr(ts, i, 0) IN
       IF IsErr(r) THEN Err
       ELSE IF Tok(ts, r.i) = "," THEN ParseArgs(ts, r.i + 1, Append(acc, r.t))
       ELSE IF Tok(ts, r.i) = ")" THEN [as |-> Append(acc, r.t), i |-> r.i + 1]
       ELSE Err

ParsePostfix(ts, i, base) ==     \* base already parsed, i = next token
  IF Tok(ts, i) = "(" THEN
       LET a == ParseArgs(ts, i + 1, <<>>) IN IF IsErr(a) THEN Err ELSE ParsePostfix(ts, a.i, Call(base, a.as))
  ELSE IF Tok(ts, i) = "." THEN
       (IF Tok(ts, i + 1) = "f" THEN ParsePostfix(ts, i + 2, Field(base))
        ELSE IF Tok(ts, i + 1) = "0" THEN ParsePostfix(ts, i + 2, Proj(base)) ELSE Err)
  ELSE [t |-> base, i |-> i]

ParseUnary(ts, i) ==
  IF Tok(ts, i) \in {"-", "!"} THEN
       LET r == ParseUnary(ts, i + 1) IN IF IsErr(r) THEN Err ELSE [t |-> Un(Tok(ts, i), r.t), i |-> r.i]
  ELSE IF Tok(ts, i) = "v" THEN ParsePostfix(ts, i + 1, Leaf)
  ELSE IF Tok(ts, i) = "(" THEN
       LET r == ParseExpr(ts, i + 1, 0) IN
       IF IsErr(r) \/ Tok(ts, r.i) # ")" THEN Err ELSE ParsePostfix(ts, r.i + 1, r.t)
  ELSE Err

Climb(ts, i, lhs, m) ==          \* lhs parsed up to i; absorb operators of precedence >= m (left associative)
  LET op == Tok(ts, i) IN
  IF IsBinOp(op) /\ Prec(op) >= m THEN
       LET r0 == ParseUnary(ts, i + 1) IN
       IF IsErr(r0) THEN Err
       ELSE LET r == Climb(ts, r0.i, r0.t, Prec(op) + 1) IN
            IF IsErr(r) THEN Err ELSE Climb(ts, r.i, Bin(op, lhs, r.t), m)
  ELSE [t |-> lhs, i |-> i]

ParseExpr(ts, i, m) == LET u == ParseUnary(ts, i) IN IF IsErr(u) THEN Err ELSE Climb(ts, u.i, u.t, m)

Parse(ts) == LET r == ParseExpr(ts, 1, 0) IN IF IsErr(r) \/ r.i # Len(ts) + 1 THEN Err ELSE r

\* ---------------------------------------------------------------- model
Init == t \in Trees
Next == UNCHANGED t
RoundTrip == LET r == Parse(Render(t, 0)) IN ~IsErr(r) /\ r.t = t
\* parentheses are only where needed: removing any one matching pair changes the parse (or breaks it)
Emit == PrintT(<<"TREE", ToJson([toks |-> Render(t, 0), tree |-> t])>>)
=============================================================================
