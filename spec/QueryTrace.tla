----------------------------- MODULE QueryTrace -----------------------------
(***************************************************************************)
(* The contract of the editor queries (C20) and its validation on recorded  *)
(* answers.  IOEnv.QUERIES is an ndjson file, one query per line:           *)
(*   [id, kind: hover | dot | colon,                                         *)
(*    outcome: "value" | "none" | "panic" | "timeout",                       *)
(*    got: the hover text ("" otherwise),                                    *)
(*    oracle: the type the compile path's typed AST gives the identifier     *)
(*            under the cursor ("" when the cursor is not on a variable use  *)
(*            or binder, or the text does not compile),                      *)
(*    offered: completion names, exists: names that exist there according   *)
(*            to the declaration table the text was generated from           *)
(*            (<<"*">> when unknown), rejected: offered names whose           *)
(*            insertion the type checker rejected]                           *)
(* Contract: a query returns (value or none) for every text and position;   *)
(* on a variable use or binder of a compiling program hover returns exactly  *)
(* the compiler's type; every offered completion exists and type-checks.     *)
(***************************************************************************)
EXTENDS Integers, Sequences, FiniteSets, TLC, Json, IOUtils

Queries == ndJsonDeserialize(IOEnv.QUERIES)
VARIABLE i
Init == i = 0
Next == i < Len(Queries) /\ i' = i + 1

ToSet(s) == {s[k] : k \in DOMAIN s}
Returns(q) == q.outcome \in {"value", "none"}
HoverAgrees(q) == q.kind = "hover" /\ q.oracle # "" => q.outcome = "value" /\ q.got = q.oracle
OfferedExist(q) == q.kind \in {"dot", "colon"} /\ ToSet(q.exists) # {"*"} => ToSet(q.offered) \subseteq ToSet(q.exists)
OfferedTypeCheck(q) == q.rejected = <<>>

Problems(q) ==
  (IF ~Returns(q) THEN {"no-answer:" \o q.outcome} ELSE {})
  \cup (IF Returns(q) /\ ~HoverAgrees(q) THEN {IF q.outcome = "value" THEN "hover-differs-from-compiler" ELSE "hover-missing"} ELSE {})
  \cup (IF Returns(q) /\ ~OfferedExist(q) THEN {"completion-does-not-exist"} ELSE {})
  \cup (IF Returns(q) /\ ~OfferedTypeCheck(q) THEN {"completion-does-not-type-check"} ELSE {})

Report == i > 0 /\ Problems(Queries[i]) # {} => PrintT(<<"QUERY", ToJson([id |-> Queries[i].id, problems |-> Problems(Queries[i])])>>)
Done == i = Len(Queries) => PrintT(<<"QUERIESDONE", ToJson([n |-> Len(Queries)])>>)
=============================================================================
