------------------------------- MODULE Derive -------------------------------
(***************************************************************************)
(* What #[derive(ToString)] / #[derive(ToJson)] must produce (C18), defined *)
(* on values, and a JSON text recogniser/decoder used to state that the     *)
(* prescribed JSON format is itself sound: Decode(ToJson(v)) = Proj(v).     *)
(*                                                                          *)
(* Values are those of GomlSem: int / float / bool / str / unit / struct    *)
(* (with its type name; declared field order comes from the table Fields)   *)
(* / variant (enum name, variant name, arguments).                          *)
(***************************************************************************)
EXTENDS Integers, Sequences, SemCommon

\* ---------------------------------------------------------------- text helpers
Q == <<34>>

\* JSON string escaping as RFC 8259 prescribes: quote, backslash and control characters; the rest verbatim
DJsonEscByte(b) ==
  CASE b = 34 -> <<92, 34>> [] b = 92 -> <<92, 92>> [] b = 8 -> <<92, 98>> [] b = 12 -> <<92, 102>>
    [] b = 10 -> <<92, 110>> [] b = 13 -> <<92, 114>> [] b = 9 -> <<92, 116>>
    [] OTHER -> LET hex == <<48, 49, 50, 51, 52, 53, 54, 55, 56, 57, 97, 98, 99, 100, 101, 102>> IN
                IF b < 32 THEN <<92, 117, 48, 48, hex[(b \div 16) + 1], hex[(b % 16) + 1]>> ELSE <<b>>
RECURSIVE DJsonEsc(_)
DJsonEsc(bs) == IF bs = <<>> THEN <<>> ELSE DJsonEscByte(Head(bs)) \o DJsonEsc(Tail(bs))
StrBytes(bs) == Q \o DJsonEsc(bs) \o Q

RECURSIVE JoinWith(_, _)
JoinWith(parts, sep) == IF parts = <<>> THEN <<>> ELSE IF Len(parts) = 1 THEN parts[1] ELSE parts[1] \o sep \o JoinWith(Tail(parts), sep)

\* ---------------------------------------------------------------- the two renderings
\* FT[tyname] : declared field names of a struct type, in order; NT[name] : the bytes of a type / field / variant name
RECURSIVE ToJsonV(_, _, _)
ToJsonV(v, FT, NT) ==
  CASE v.k = "int" -> NDec(v.n)
    [] v.k = "float" -> FloatV(v)
    [] v.k = "bool" -> BoolBytes(v.v)
    [] v.k = "str" -> StrBytes(v.v)
    [] v.k = "unit" -> <<110, 117, 108, 108>>
    [] v.k = "struct" ->
         LET fs == FT[v.ty.n] IN
         <<123>> \o JoinWith([i \in DOMAIN fs |-> Q \o NT[fs[i]] \o Q \o <<58>> \o ToJsonV(v.f[fs[i]], FT, NT)], <<44>>) \o <<125>>
    [] v.k = "variant" ->
         IF v.as = <<>> THEN <<123>> \o Q \o <<116, 97, 103>> \o Q \o <<58>> \o Q \o NT[v.variant] \o Q \o <<125>>
         ELSE <<123>> \o Q \o <<116, 97, 103>> \o Q \o <<58>> \o Q \o NT[v.variant] \o Q \o <<44>>
              \o Q \o <<102, 105, 101, 108, 100, 115>> \o Q \o <<58, 91>>
              \o JoinWith([i \in DOMAIN v.as |-> ToJsonV(v.as[i], FT, NT)], <<44>>) \o <<93, 125>>

RECURSIVE ToStringV(_, _, _)
ToStringV(v, FT, NT) ==
  CASE v.k = "int" -> NDec(v.n)
    [] v.k = "float" -> FloatV(v)
    [] v.k = "bool" -> BoolBytes(v.v)
    [] v.k = "str" -> v.v
    [] v.k = "unit" -> <<40, 41>>
    [] v.k = "struct" ->
         LET fs == FT[v.ty.n] IN
         IF fs = <<>> THEN NT[v.ty.n] \o <<32, 123, 125>>
         ELSE NT[v.ty.n] \o <<32, 123, 32>>
              \o JoinWith([i \in DOMAIN fs |-> NT[fs[i]] \o <<58, 32>> \o ToStringV(v.f[fs[i]], FT, NT)], <<44, 32>>) \o <<32, 125>>
    [] v.k = "variant" ->
         IF v.as = <<>> THEN NT[v.ty.n] \o <<58, 58>> \o NT[v.variant]
         ELSE NT[v.ty.n] \o <<58, 58>> \o NT[v.variant] \o <<40>>
              \o JoinWith([i \in DOMAIN v.as |-> ToStringV(v.as[i], FT, NT)], <<44, 32>>) \o <<41>>

\* ---------------------------------------------------------------- JSON text: recogniser and decoder (RFC 8259 subset: no exponents)
\* result: [ok, i (next position), val] ; val: [j:"num", text] | [j:"str", v] | [j:"bool", v] | [j:"null"] | [j:"arr", es] | [j:"obj", ks, vs]
IsDigit(b) == b >= 48 /\ b <= 57
IsWs(b) == b \in {32, 9, 10, 13}
HexVal(b) == IF b >= 48 /\ b <= 57 THEN b - 48 ELSE IF b >= 97 /\ b <= 102 THEN b - 87 ELSE IF b >= 65 /\ b <= 70 THEN b - 55 ELSE -1
JFail == [ok |-> FALSE, i |-> 0, val |-> [j |-> "null"]]

RECURSIVE SkipWs(_, _)
SkipWs(t, i) == IF i <= Len(t) /\ IsWs(t[i]) THEN SkipWs(t, i + 1) ELSE i

RECURSIVE ScanDigits(_, _)
ScanDigits(t, i) == IF i <= Len(t) /\ IsDigit(t[i]) THEN ScanDigits(t, i + 1) ELSE i

RECURSIVE ParseStrBody(_, _, _)
ParseStrBody(t, i, acc) ==      \* i just after the opening quote
  IF i > Len(t) THEN JFail
  ELSE IF t[i] = 34 THEN [ok |-> TRUE, i |-> i + 1, val |-> [j |-> "str", v |-> acc]]
  ELSE IF t[i] < 32 THEN JFail                                   \* raw control characters are not allowed in JSON strings
  ELSE IF t[i] = 92 THEN
       IF i + 1 > Len(t) THEN JFail
       ELSE LET e == t[i + 1] IN
            IF e = 34 THEN ParseStrBody(t, i + 2, Append(acc, 34)) ELSE IF e = 92 THEN ParseStrBody(t, i + 2, Append(acc, 92))
            ELSE IF e = 47 THEN ParseStrBody(t, i + 2, Append(acc, 47)) ELSE IF e = 98 THEN ParseStrBody(t, i + 2, Append(acc, 8))
            ELSE IF e = 102 THEN ParseStrBody(t, i + 2, Append(acc, 12)) ELSE IF e = 110 THEN ParseStrBody(t, i + 2, Append(acc, 10))
            ELSE IF e = 114 THEN ParseStrBody(t, i + 2, Append(acc, 13)) ELSE IF e = 116 THEN ParseStrBody(t, i + 2, Append(acc, 9))
            ELSE IF e = 117 THEN
                 (IF i + 5 > Len(t) \/ \E k \in 2..5 : HexVal(t[i + k]) < 0 THEN JFail
                  ELSE LET cp == HexVal(t[i + 2]) * 4096 + HexVal(t[i + 3]) * 256 + HexVal(t[i + 4]) * 16 + HexVal(t[i + 5]) IN
                       IF cp < 128 THEN ParseStrBody(t, i + 6, Append(acc, cp))
                       ELSE IF cp < 2048 THEN ParseStrBody(t, i + 6, acc \o <<192 + (cp \div 64), 128 + (cp % 64)>>)
                       ELSE ParseStrBody(t, i + 6, acc \o <<224 + (cp \div 4096), 128 + ((cp \div 64) % 64), 128 + (cp % 64)>>))
            ELSE JFail                                            \* \x, \a, \v ... are not JSON
  ELSE ParseStrBody(t, i + 1, Append(acc, t[i]))

RECURSIVE ParseValue(_, _)
RECURSIVE ParseElems(_, _, _)
RECURSIVE ParseMembers(_, _, _, _)
ParseElems(t, i, acc) ==        \* after '[' or ','
  LET r == ParseValue(t, i) IN
  IF ~r.ok THEN JFail
  ELSE LET k == SkipWs(t, r.i) IN
       IF k > Len(t) THEN JFail
       ELSE IF t[k] = 44 THEN ParseElems(t, k + 1, Append(acc, r.val))
       ELSE IF t[k] = 93 THEN [ok |-> TRUE, i |-> k + 1, val |-> [j |-> "arr", es |-> Append(acc, r.val)]]
       ELSE JFail
ParseMembers(t, i, ks, vs) ==   \* after '{' or ','
  LET a == SkipWs(t, i) IN
  IF a > Len(t) \/ t[a] # 34 THEN JFail
  ELSE LET key == ParseStrBody(t, a + 1, <<>>) IN
       IF ~key.ok THEN JFail
       ELSE LET c == SkipWs(t, key.i) IN
            IF c > Len(t) \/ t[c] # 58 THEN JFail
            ELSE LET r == ParseValue(t, c + 1) IN
                 IF ~r.ok THEN JFail
                 ELSE LET k == SkipWs(t, r.i) IN
                      IF k > Len(t) THEN JFail
                      ELSE IF t[k] = 44 THEN ParseMembers(t, k + 1, Append(ks, key.val.v), Append(vs, r.val))
                      ELSE IF t[k] = 125 THEN [ok |-> TRUE, i |-> k + 1, val |-> [j |-> "obj", ks |-> Append(ks, key.val.v), vs |-> Append(vs, r.val)]]
                      ELSE JFail
StartsWith(t, i, w) == i + Len(w) - 1 <= Len(t) /\ SubSeq(t, i, i + Len(w) - 1) = w
ParseValue(t, i0) ==
  LET i == SkipWs(t, i0) IN
  IF i > Len(t) THEN JFail
  ELSE IF t[i] = 34 THEN ParseStrBody(t, i + 1, <<>>)
  ELSE IF StartsWith(t, i, <<116, 114, 117, 101>>) THEN [ok |-> TRUE, i |-> i + 4, val |-> [j |-> "bool", v |-> TRUE]]
  ELSE IF StartsWith(t, i, <<102, 97, 108, 115, 101>>) THEN [ok |-> TRUE, i |-> i + 5, val |-> [j |-> "bool", v |-> FALSE]]
  ELSE IF StartsWith(t, i, <<110, 117, 108, 108>>) THEN [ok |-> TRUE, i |-> i + 4, val |-> [j |-> "null"]]
  ELSE IF t[i] = 91 THEN
       (LET a == SkipWs(t, i + 1) IN IF a <= Len(t) /\ t[a] = 93 THEN [ok |-> TRUE, i |-> a + 1, val |-> [j |-> "arr", es |-> <<>>]] ELSE ParseElems(t, i + 1, <<>>))
  ELSE IF t[i] = 123 THEN
       (LET a == SkipWs(t, i + 1) IN IF a <= Len(t) /\ t[a] = 125 THEN [ok |-> TRUE, i |-> a + 1, val |-> [j |-> "obj", ks |-> <<>>, vs |-> <<>>]] ELSE ParseMembers(t, i + 1, <<>>, <<>>))
  ELSE IF t[i] = 45 \/ IsDigit(t[i]) THEN
       LET s == IF t[i] = 45 THEN i + 1 ELSE i
           e == ScanDigits(t, s)
           \* no leading zeros: "0" alone or a non-zero first digit
           intok == e > s /\ (t[s] # 48 \/ e = s + 1)
           f == IF e <= Len(t) /\ t[e] = 46 THEN ScanDigits(t, e + 1) ELSE e
           fracok == f = e \/ f > e + 1 IN
       IF intok /\ fracok THEN [ok |-> TRUE, i |-> f, val |-> [j |-> "num", text |-> SubSeq(t, i, f - 1)]] ELSE JFail
  ELSE JFail

\* the whole text is exactly one JSON value
JsonDecode(t) == LET r == ParseValue(t, 1) IN IF r.ok /\ SkipWs(t, r.i) = Len(t) + 1 THEN r ELSE JFail
WellFormedJson(t) == JsonDecode(t).ok

\* what the decoded text must be for value v
RECURSIVE ProjV(_, _, _)
ProjV(v, FT, NT) ==
  CASE v.k = "int" -> [j |-> "num", text |-> NDec(v.n)]
    [] v.k = "float" -> [j |-> "num", text |-> FloatV(v)]
    [] v.k = "bool" -> [j |-> "bool", v |-> v.v]
    [] v.k = "str" -> [j |-> "str", v |-> v.v]
    [] v.k = "unit" -> [j |-> "null"]
    [] v.k = "struct" -> LET fs == FT[v.ty.n] IN
                         [j |-> "obj", ks |-> [i \in DOMAIN fs |-> NT[fs[i]]], vs |-> [i \in DOMAIN fs |-> ProjV(v.f[fs[i]], FT, NT)]]
    [] v.k = "variant" ->
         IF v.as = <<>> THEN [j |-> "obj", ks |-> << <<116, 97, 103>> >>, vs |-> << [j |-> "str", v |-> NT[v.variant]] >>]
         ELSE [j |-> "obj", ks |-> << <<116, 97, 103>>, <<102, 105, 101, 108, 100, 115>> >>,
               vs |-> << [j |-> "str", v |-> NT[v.variant]], [j |-> "arr", es |-> [i \in DOMAIN v.as |-> ProjV(v.as[i], FT, NT)]] >>]
=============================================================================
