------------------------------ MODULE Pipeline ------------------------------
(***************************************************************************)
(* The contract of goml's entry points (C04).                              *)
(*                                                                          *)
(* pipeline::compile runs the stages parser -> lower -> typer -> compile    *)
(* (core, mono, lift, anf, go) in this order; each stage adds diagnostics,  *)
(* and compile returns Err(stage) as soon as a stage has produced an error  *)
(* diagnostic, Ok after the last stage otherwise.  The same shape holds for *)
(* the CLI commands check / build / link (their stages: read artifacts,     *)
(* validate, typecheck or link).  The machine below is that contract; the   *)
(* observable outcome of a run is `result`.                                 *)
(*                                                                          *)
(* What a run may NOT do is not an action here: there is no step that ends  *)
(* a run without a result (panic, abort, stack overflow) and every          *)
(* behaviour reaches a result (termination, checked as liveness; the        *)
(* parser's part of that argument is TreeBuilder.tla's fuel discipline).    *)
(* PipelineTrace.tla checks every recorded outcome of the real entry points *)
(* against Outcomes.                                                        *)
(***************************************************************************)
EXTENDS Integers, Sequences, FiniteSets, TLC

CONSTANT MaxDiags       \* bound on diagnostics a stage may add in the model

Stages == <<"parser", "lower", "typer", "compile">>
Running == [v |-> "running"]

VARIABLES at,        \* index of the stage about to run
          errors,    \* error diagnostics so far: sequence of stage names
          warnings,  \* number of warnings so far
          result
vars == <<at, errors, warnings, result>>

Init == at = 1 /\ errors = <<>> /\ warnings = 0 /\ result = Running

\* a stage runs to completion and reports n errors and w warnings
RunStage(n, w) ==
  /\ result = Running /\ at <= Len(Stages)
  /\ errors' = errors \o [i \in 1..n |-> Stages[at]]
  /\ warnings' = warnings + w
  /\ IF n > 0 THEN /\ result' = [v |-> "err", stage |-> Stages[at], errors |-> errors'] /\ at' = at
     ELSE /\ at' = at + 1 /\ result' = result
Finish == /\ result = Running /\ at = Len(Stages) + 1
          /\ result' = [v |-> "ok", errors |-> errors] /\ UNCHANGED <<at, errors, warnings>>
Next == (\E n \in 0..MaxDiags, w \in 0..1 : RunStage(n, w)) \/ Finish
Spec == Init /\ [][Next]_vars /\ WF_vars(Next)

\* ---------------------------------------------------------------- properties of the contract
TypeOK == at \in 1..(Len(Stages) + 1) /\ warnings \in Nat
\* a rejection names the stage that found errors, carries at least one error, and all its errors are of that stage
ErrHasDiagnostics == result.v = "err" => /\ Len(result.errors) >= 1
                                         /\ \A i \in DOMAIN result.errors : result.errors[i] = result.stage
\* success means no stage reported an error
OkHasNoErrors == result.v = "ok" => result.errors = <<>>
\* a stage never runs after an earlier stage reported an error
StopsAtFirstError == [][result # Running => UNCHANGED vars]_vars
Terminates == <>(result # Running)

\* ---------------------------------------------------------------- outcomes (for PipelineTrace)
\* an observed outcome: the verdict and the set of stages its error diagnostics are attributed to.  The model's errors
\* all carry the rejecting stage; the implementation also labels errors by the component that found them (a rejection by
\* `lower` carries diagnostics labelled `derive`, one by `compile` may carry `typer` ones), which the property allows:
\* at least one error diagnostic, attributed to some stage.
Outcomes(verdict, errStages) ==
  \/ verdict = "ok" /\ errStages = {}
  \/ verdict \in {Stages[i] : i \in DOMAIN Stages} /\ errStages # {}
=============================================================================
