----------------------------- MODULE SolverProof -----------------------------
(* The termination measure of Solver.tla proved for every size of the constraint store (TLAPS): a round that reports a  *)
(* change makes M strictly smaller, and M is a natural number - so the loop of Typer::solve cannot run forever.         *)
EXTENDS Solver, TLAPS

TypeOK == /\ eq \in Nat /\ overK \in Nat /\ overU \in Nat /\ fieldK \in Nat /\ fieldU \in Nat
          /\ changed \in BOOLEAN /\ running \in BOOLEAN /\ rounds \in Nat

THEOREM ProgressStep ==
  ASSUME TypeOK, ~DeferClaimsProgress, Round, changed'
  PROVE  M' < M
<1>0. eq \in Nat /\ overK \in Nat /\ overU \in Nat /\ fieldK \in Nat /\ fieldU \in Nat
   BY DEF TypeOK
<1>1. PICK learnO \in 0..overU, learnF \in 0..fieldU, learnt \in BOOLEAN :
         /\ (learnO + learnF > 0 => learnt /\ (eq + fieldK > 0))
         /\ (learnt => eq + fieldK > 0)
         /\ \E errs \in 0..overK : eq' = overK - errs
         /\ overK' = learnO /\ overU' = overU - learnO
         /\ fieldK' = learnF /\ fieldU' = fieldU - learnF
         /\ changed' = (learnt \/ eq' > 0 \/ (DeferClaimsProgress /\ overU' + fieldU' > 0))
   BY DEF Round
<1>2. PICK errs \in 0..overK : eq' = overK - errs
   BY <1>1
<1>3. learnt \/ eq' > 0
   BY <1>1
<1>4. M' = (learnO + (overU - learnO) + learnF + (fieldU - learnF)) + (learnO + (overU - learnO) + learnF + (fieldU - learnF)) + (overK - errs)
   BY <1>1, <1>2 DEF M, D
<1>5. M = (overK + overU + fieldK + fieldU) + (overK + overU + fieldK + fieldU) + eq
   BY DEF M, D
<1>6. learnO \in Nat /\ learnF \in Nat /\ errs \in Nat /\ learnO <= overU /\ learnF <= fieldU /\ errs <= overK
   BY DEF TypeOK
<1>7. overK + errs + fieldK + fieldK + eq > 0
  <2>1. CASE learnt
     <3>1. eq + fieldK > 0
        BY <1>1, <2>1
     <3>2. QED
        BY <3>1, <1>6, <1>0
  <2>2. CASE eq' > 0
     <3>1. overK - errs > 0
        BY <1>2, <2>2
     <3>2. QED
        BY <3>1, <1>6, <1>0
  <2>3. QED
     BY <1>3, <2>1, <2>2
<1>8. learnO + (overU - learnO) = overU /\ learnF + (fieldU - learnF) = fieldU
   BY <1>6, <1>0
<1>9. M' = (overU + fieldU) + (overU + fieldU) + (overK - errs)
   BY <1>4, <1>8, <1>0, <1>6
<1>10. (overU + fieldU) + (overU + fieldU) + (overK - errs) < (overK + overU + fieldK + fieldU) + (overK + overU + fieldK + fieldU) + eq
   BY <1>7, <1>6, <1>0
<1>11. QED
   BY <1>5, <1>9, <1>10

THEOREM MeasureIsNat == TypeOK => M \in Nat
  BY DEF M, D, TypeOK
=============================================================================
