INIT Init
NEXT Next
CONSTANTS
  MaxPieces = 2
INVARIANTS NoRawControlInSource Emit
CHECK_DEADLOCK FALSE
