----------------------------- MODULE TreeBuilder -----------------------------
(***************************************************************************)
(* The parser's event replay (parser/src/parser.rs: build_tree) and its     *)
(* fuel discipline (peek / advance).                                        *)
(*                                                                          *)
(* build_tree walks the event list; Advance puts the token under the        *)
(* cursor into the tree; after *every* event all trivia tokens under the    *)
(* cursor are put into the tree as well.  Nothing else moves the cursor,    *)
(* so the leaves of the tree are always a prefix of the token list in       *)
(* order; the tree is lossless exactly when the cursor reaches the end,     *)
(* i.e. when there is one Advance per non-trivia token.                     *)
(*                                                                          *)
(* Part 1 (model checking): all token lists and event lists up to a bound.  *)
(* Part 2 (trace validation): Conform(rec) re-derives the leaves from the   *)
(* recorded tokens and events of a real parse and compares them with the    *)
(* recorded tree, checks tiling, character boundaries, diagnostics ranges.  *)
(***************************************************************************)
EXTENDS TreeReplay

\* ---------------------------------------------------------------- Part 1: the machine, for model checking
CONSTANTS MaxToks, MaxEvs, Fuel

VARIABLES triv, evs, i, cursor, leaves, fuel, peeks
vars == <<triv, evs, i, cursor, leaves, fuel, peeks>>

Init == /\ triv \in UNION {[1..n -> BOOLEAN] : n \in 0..MaxToks}
        /\ evs \in UNION {[1..n -> {"O", "C", "A", "E"}] : n \in 0..MaxEvs}
        /\ i = 1 /\ cursor = 1 /\ leaves = <<>>
        /\ fuel = Fuel /\ peeks = 0

\* one iteration of the `for i in 0..events.len()` loop
RECURSIVE TriviaRun(_, _)
TriviaRun(tv, c) == IF c <= Len(tv) /\ tv[c] THEN <<c>> \o TriviaRun(tv, c + 1) ELSE <<>>
Step ==
  /\ i <= Len(evs)
  /\ LET adv == evs[i] = "A" /\ cursor <= Len(triv)
         c1 == IF adv THEN cursor + 1 ELSE cursor
         run == TriviaRun(triv, c1) IN
     /\ leaves' = leaves \o (IF adv THEN <<cursor>> ELSE <<>>) \o run
     /\ cursor' = c1 + Len(run)
  /\ i' = i + 1
  /\ UNCHANGED <<triv, evs, fuel, peeks>>

\* the parser's side: peek burns fuel, advance refuels; with no fuel left peek answers EOF (so `while !at(eof)` loops end)
Peek == /\ i > Len(evs) /\ peeks < 2 * Fuel + 2
        /\ fuel' = IF fuel > 0 THEN fuel - 1 ELSE 0
        /\ peeks' = peeks + 1
        /\ UNCHANGED <<triv, evs, i, cursor, leaves>>
Next == Step \/ Peek
Spec == Init /\ [][Next]_vars

Done == i > Len(evs)
\* the leaves are exactly the tokens before the cursor, in order: nothing duplicated, nothing reordered, nothing skipped
LeavesArePrefix == leaves = [k \in 1..(cursor - 1) |-> k]
\* the function form agrees with the machine
ReplayAgrees == Done => cursor = Replay(triv, evs)
\* lossless iff one Advance per non-trivia token, provided the first event is not an Advance (the parser always opens FILE
\* first; an Advance as very first event would swallow a leading trivia token as if it were significant - found by TLC)
LosslessIffEnoughAdvances ==
  (Done /\ (Len(evs) = 0 \/ evs[1] # "A")) =>
      ((cursor = Len(triv) + 1) <=> (Len(triv) = 0 \/ (Len(evs) > 0 /\ Count(evs, "A") >= NonTrivia(triv))))
\* what is lost otherwise is a suffix
LostIsSuffix == Done => \A k \in 1..Len(triv) : (k >= cursor) <=> (k \notin {leaves[j] : j \in DOMAIN leaves})
\* once the fuel is gone every further peek reports EOF: a loop guarded by peek cannot spin more than Fuel times without advancing
FuelBounds == (peeks >= Fuel) => fuel = 0

=============================================================================
