-------------------------------- MODULE Solver --------------------------------
(***************************************************************************)
(* The constraint loop of the type checker (typer/unify.rs, Typer::solve):  *)
(*                                                                          *)
(*   while changed { changed = false;                                       *)
(*     for each pending constraint:                                         *)
(*       TypeEqual        unify; consumed; changed if the unifier learnt     *)
(*                        something                                          *)
(*       Overloaded       receiver known: replaced by a TypeEqual (changed); *)
(*                        receiver a variable: deferred; else: an error,     *)
(*                        consumed                                           *)
(*       StructFieldAccess receiver a struct: unify the field, consumed      *)
(*                        (changed if learnt); else deferred                 *)
(*     if !changed and constraints remain: report, stop }                    *)
(*                                                                          *)
(* Abstract state: the numbers of pending constraints of each kind and, for  *)
(* the deferred kinds, whether their receiver is known yet (receivers become *)
(* known when a TypeEqual is unified).  One action = one round.              *)
(*                                                                          *)
(* The loop terminates because every round that sets `changed` consumes a    *)
(* constraint or turns an Overloaded into a TypeEqual: the measure            *)
(*        M = 2 * (over + field) + eq                                        *)
(* strictly decreases (`Progress`), and a round that does not set `changed`  *)
(* ends the loop.  TLC checks Progress and termination on the model;         *)
(* SolverTrace.tla checks Progress on every round the real solver runs (hook *)
(* in Typer::solve): a round that reports `changed` without a smaller M -    *)
(* deferring a constraint yet claiming progress - is how the loop would      *)
(* spin forever.                                                             *)
(***************************************************************************)
EXTENDS Naturals, TLC

CONSTANTS MaxEq, MaxOver, MaxField,
          DeferClaimsProgress   \* BOOLEAN, self-test: a deferred constraint sets `changed` (the loop then spins)

VARIABLES eq,        \* pending TypeEqual constraints
          overK, overU,   \* pending Overloaded: receiver known / still a variable
          fieldK, fieldU, \* pending StructFieldAccess: receiver a struct / unknown
          changed, running, rounds
vars == <<eq, overK, overU, fieldK, fieldU, changed, running, rounds>>

D == overK + overU + fieldK + fieldU      \* deferrable constraints (Overloaded, StructFieldAccess)
M == D + D + eq

Init == /\ eq \in 0..MaxEq /\ overK \in 0..MaxOver /\ overU \in 0..MaxOver /\ overK + overU <= MaxOver
        /\ fieldK \in 0..MaxField /\ fieldU \in 0..MaxField /\ fieldK + fieldU <= MaxField
        /\ changed = TRUE /\ running = TRUE /\ rounds = 0

\* one round: all TypeEqual are consumed (each may make some unknown receivers known); every Overloaded with a known receiver
\* becomes a TypeEqual; every StructFieldAccess with a known receiver is consumed; the others are deferred
Round ==
  /\ running /\ changed
  /\ \E learnO \in 0..overU, learnF \in 0..fieldU, learnt \in BOOLEAN :
       \* receivers can only become known through a unification that learnt something
       /\ (learnO + learnF > 0 => learnt /\ (eq + fieldK > 0))
       /\ (learnt => eq + fieldK > 0)
       /\ \E errs \in 0..overK : eq' = overK - errs     \* the TypeEquals pushed by resolved Overloaded constraints (an Overloaded
                                                        \* without exactly one instance is an error and is consumed)
       /\ overK' = learnO /\ overU' = overU - learnO
       /\ fieldK' = learnF /\ fieldU' = fieldU - learnF
       /\ changed' = (learnt \/ eq' > 0 \/ (DeferClaimsProgress /\ overU' + fieldU' > 0))
  /\ rounds' = rounds + 1
  /\ running' = TRUE
Stop == /\ running /\ ~changed /\ running' = FALSE /\ UNCHANGED <<eq, overK, overU, fieldK, fieldU, changed, rounds>>
Idle == ~running /\ UNCHANGED vars
Next == Round \/ Stop \/ Idle
Spec == Init /\ [][Next]_vars /\ WF_vars(Round \/ Stop)

\* a round that reports a change has made the measure smaller
Progress == [][(Round /\ changed') => M' < M]_vars
\* a round that reports no change leaves nothing it could still have done
NoChangeMeansStuck == [][(Round /\ ~changed') => (eq' = 0 /\ overK' = 0 /\ fieldK' = 0)]_vars
Terminates == <>(~running)
RoundsBounded == rounds <= 2 * (MaxOver + MaxField) + MaxEq + 2
=============================================================================
