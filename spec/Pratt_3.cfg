INIT Init
NEXT Next
CONSTANTS
  MaxOps = 3
  BinOps <- RepBin
  PreOps <- AllPre
INVARIANTS RoundTrip Emit
CHECK_DEADLOCK FALSE
