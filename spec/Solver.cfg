SPECIFICATION Spec
CONSTANTS
  MaxEq = 3
  MaxOver = 3
  MaxField = 3
  DeferClaimsProgress = FALSE
INVARIANTS RoundsBounded
PROPERTIES Progress NoChangeMeansStuck Terminates
CHECK_DEADLOCK FALSE
