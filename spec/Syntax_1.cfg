INIT Init
NEXT Next
CONSTANTS
  MaxNodes = 1
  BinOps <- TwoBin
  Sample = 0
INVARIANTS RoundTrip Emit
CHECK_DEADLOCK FALSE
