------------------------------ MODULE MCLexer ------------------------------
(* Instantiation of Lexer.tla: the fixed spellings of crates/lexer/src/lib.rs (written out by scripts/gen_mclexer.py from the
   #[token(..)] attributes as they were when the specification was written - a spelling changed in the code is a difference the
   check reports, it is not picked up from the code) and the generated input texts. *)
EXTENDS Lexer, IOUtils
PunctTable == {[k |-> "LParen", s |-> <<40>>],
               [k |-> "RParen", s |-> <<41>>],
               [k |-> "LBrace", s |-> <<123>>],
               [k |-> "RBrace", s |-> <<125>>],
               [k |-> "LBracket", s |-> <<91>>],
               [k |-> "RBracket", s |-> <<93>>],
               [k |-> "Eq", s |-> <<61>>],
               [k |-> "Semi", s |-> <<59>>],
               [k |-> "Comma", s |-> <<44>>],
               [k |-> "ColonColon", s |-> <<58, 58>>],
               [k |-> "Colon", s |-> <<58>>],
               [k |-> "Arrow", s |-> <<45, 62>>],
               [k |-> "FatArrow", s |-> <<61, 62>>],
               [k |-> "Plus", s |-> <<43>>],
               [k |-> "Minus", s |-> <<45>>],
               [k |-> "Star", s |-> <<42>>],
               [k |-> "Slash", s |-> <<47>>],
               [k |-> "Dot", s |-> <<46>>],
               [k |-> "AndAnd", s |-> <<38, 38>>],
               [k |-> "OrOr", s |-> <<124, 124>>],
               [k |-> "Pipe", s |-> <<124>>],
               [k |-> "Bang", s |-> <<33>>],
               [k |-> "Less", s |-> <<60>>],
               [k |-> "Greater", s |-> <<62>>],
               [k |-> "GreaterEq", s |-> <<62, 61>>],
               [k |-> "LessEq", s |-> <<60, 61>>],
               [k |-> "EqEq", s |-> <<61, 61>>],
               [k |-> "NotEq", s |-> <<33, 61>>],
               [k |-> "Pound", s |-> <<35>>]}
KeywordTable == {[k |-> "ExternKeyword", s |-> <<101, 120, 116, 101, 114, 110>>],
                 [k |-> "PackageKeyword", s |-> <<112, 97, 99, 107, 97, 103, 101>>],
                 [k |-> "ImportKeyword", s |-> <<105, 109, 112, 111, 114, 116>>],
                 [k |-> "FnKeyword", s |-> <<102, 110>>],
                 [k |-> "TraitKeyword", s |-> <<116, 114, 97, 105, 116>>],
                 [k |-> "ImplKeyword", s |-> <<105, 109, 112, 108>>],
                 [k |-> "ForKeyword", s |-> <<102, 111, 114>>],
                 [k |-> "EnumKeyword", s |-> <<101, 110, 117, 109>>],
                 [k |-> "StructKeyword", s |-> <<115, 116, 114, 117, 99, 116>>],
                 [k |-> "TypeKeyword", s |-> <<116, 121, 112, 101>>],
                 [k |-> "MatchKeyword", s |-> <<109, 97, 116, 99, 104>>],
                 [k |-> "IfKeyword", s |-> <<105, 102>>],
                 [k |-> "ElseKeyword", s |-> <<101, 108, 115, 101>>],
                 [k |-> "LetKeyword", s |-> <<108, 101, 116>>],
                 [k |-> "InKeyword", s |-> <<105, 110>>],
                 [k |-> "ReturnKeyword", s |-> <<114, 101, 116, 117, 114, 110>>],
                 [k |-> "GoKeyword", s |-> <<103, 111>>],
                 [k |-> "WhileKeyword", s |-> <<119, 104, 105, 108, 101>>],
                 [k |-> "DynKeyword", s |-> <<100, 121, 110>>],
                 [k |-> "TrueKeyword", s |-> <<116, 114, 117, 101>>],
                 [k |-> "FalseKeyword", s |-> <<102, 97, 108, 115, 101>>],
                 [k |-> "UnitKeyword", s |-> <<117, 110, 105, 116>>],
                 [k |-> "BoolKeyword", s |-> <<98, 111, 111, 108>>],
                 [k |-> "Int8Keyword", s |-> <<105, 110, 116, 56>>],
                 [k |-> "Int16Keyword", s |-> <<105, 110, 116, 49, 54>>],
                 [k |-> "Int32Keyword", s |-> <<105, 110, 116, 51, 50>>],
                 [k |-> "Int64Keyword", s |-> <<105, 110, 116, 54, 52>>],
                 [k |-> "Uint8Keyword", s |-> <<117, 105, 110, 116, 56>>],
                 [k |-> "Uint16Keyword", s |-> <<117, 105, 110, 116, 49, 54>>],
                 [k |-> "Uint32Keyword", s |-> <<117, 105, 110, 116, 51, 50>>],
                 [k |-> "Uint64Keyword", s |-> <<117, 105, 110, 116, 54, 52>>],
                 [k |-> "Float32Keyword", s |-> <<102, 108, 111, 97, 116, 51, 50>>],
                 [k |-> "Float64Keyword", s |-> <<102, 108, 111, 97, 116, 54, 52>>],
                 [k |-> "StringKeyword", s |-> <<115, 116, 114, 105, 110, 103>>],
                 [k |-> "ArrayKeyword", s |-> <<97, 114, 114, 97, 121>>]}
\* every text of at most MaxChars characters over: 'afniu_x18362 4."\\/=<>!&|-:\n\té😀@(;'
CONSTANTS MaxChars, MaxPieces
Chars == {97, 102, 110, 105, 117, 95, 120, 49, 56, 51, 54, 50, 32, 52, 46, 34, 92, 47, 61, 60, 62, 33, 38, 124, 45, 58, 10, 9, 233, 128512, 64, 40, 59}
CharInputs == UNION {[1..n -> Chars] : n \in 0..MaxChars}
\* every text of at most MaxPieces pieces; the pieces: ['fn', 'fnx', 'x_1', '_', 'in', 'int', 'int8', '12', '0', 'i16', 'i8', 'u64', 'f32', 'f64', '1.5', '.', '\\\\', '\\\\ab', '\n', '  ', '"ab"', '"', '\\n', '\\u00e9', '\\q', '//c', '/', 'é', '&&', '&', '::', ':', '=>', '==', '=', '-', '->', '\r\n', '\t\\\\']
Pieces == {<<102, 110>>,
           <<102, 110, 120>>,
           <<120, 95, 49>>,
           <<95>>,
           <<105, 110>>,
           <<105, 110, 116>>,
           <<105, 110, 116, 56>>,
           <<49, 50>>,
           <<48>>,
           <<105, 49, 54>>,
           <<105, 56>>,
           <<117, 54, 52>>,
           <<102, 51, 50>>,
           <<102, 54, 52>>,
           <<49, 46, 53>>,
           <<46>>,
           <<92, 92>>,
           <<92, 92, 97, 98>>,
           <<10>>,
           <<32, 32>>,
           <<34, 97, 98, 34>>,
           <<34>>,
           <<92, 110>>,
           <<92, 117, 48, 48, 101, 57>>,
           <<92, 113>>,
           <<47, 47, 99>>,
           <<47>>,
           <<233>>,
           <<38, 38>>,
           <<38>>,
           <<58, 58>>,
           <<58>>,
           <<61, 62>>,
           <<61, 61>>,
           <<61>>,
           <<45>>,
           <<45, 62>>,
           <<13, 10>>,
           <<9, 92, 92>>}
RECURSIVE Flat(_)
Flat(s) == IF s = <<>> THEN <<>> ELSE Head(s) \o Flat(Tail(s))
PieceInputs == {Flat(s) : s \in UNION {[1..n -> Pieces] : n \in 1..MaxPieces}}
\* multi-line strings as a family of their own: two or three `\\` lines, each with its own indentation, content and line end (LF,
\* CRLF, or nothing at the end of the text) - so also lines of one string that end differently -, then a tail
MlIndent == {<<>>, <<32, 32>>}
MlBody == {<<>>, <<97>>, <<233>>, <<97, 34>>}
MlEol == {<<10>>, <<13, 10>>}
MlLine == {i \o <<92, 92>> \o b \o e : i \in MlIndent, b \in MlBody, e \in MlEol}
MlLast == MlLine \cup {i \o <<92, 92>> \o b : i \in MlIndent, b \in MlBody}
MlTail == {<<>>, <<120>>, <<10>>, <<59, 10>>, <<233>>}
MlInputs == {a \o b \o t : a \in MlLine, b \in MlLast, t \in MlTail} \cup {a \o b \o c \o t : a \in MlLine, b \in MlLine, c \in MlLast, t \in {<<>>, <<59>>}}
\* texts handed over by the driver (corpus files, mutated files): one JSON record {cps: [..]} per line
FileInputs == LET recs == ndJsonDeserialize(IOEnv.LEXTEXTS) IN {recs[i].cps : i \in DOMAIN recs}
=============================================================================
