SPECIFICATION Spec
CONSTANTS
  Puncts <- PunctTable
  Keywords <- KeywordTable
  Inputs <- CharInputs
  MaxChars = 3
  MaxPieces = 0
INVARIANTS Tiles Stable Emit
PROPERTY Terminates
CHECK_DEADLOCK FALSE
