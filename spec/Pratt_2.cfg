INIT Init
NEXT Next
CONSTANTS
  MaxOps = 2
  BinOps <- AllBin
  PreOps <- AllPre
INVARIANTS RoundTrip Emit
CHECK_DEADLOCK FALSE
