--------------------------- MODULE CoherenceLocal ---------------------------
(***************************************************************************)
(* Rules of C16 that are local to one package directory (Coherence.tla      *)
(* has one file and at most one implementation per package):                *)
(*                                                                          *)
(*   * every file of a package directory declares that package's name       *)
(*     -- whichever file the compiler happens to read first;                *)
(*   * a (trait, type) pair is implemented at most once in a package --     *)
(*     whether the trait is the package's own or imported, and whether the   *)
(*     two blocks stand in one file or in two.                              *)
(*                                                                          *)
(* A configuration: which package the rule is probed in (the root package   *)
(* Main or the imported package Lib), the names its two files declare       *)
(* (the file that sorts first, the file that sorts last), where the trait    *)
(* lives, and in which files implementation blocks for the pair stand.       *)
(***************************************************************************)
EXTENDS Integers, Sequences, FiniteSets, TLC, Json

Where == {"Main", "Lib"}
Decl == {"own", "other"}                 \* the name a file declares: the directory's package or another one
TraitHome == {"same-package", "imported-package"}
Blocks == {<<>>, <<1>>, <<2>>, <<1, 1>>, <<1, 2>>, <<2, 1>>, <<2, 2>>}     \* files (by sort position) holding an impl block for the pair

VARIABLES where, first, last, trait, blocks
vars == <<where, first, last, trait, blocks>>
Init == where \in Where /\ first \in Decl /\ last \in Decl /\ trait \in TraitHome /\ blocks \in Blocks
        \* at most one thing is wrong with the file names, and impl blocks stand only in files of the package
        /\ ~(first = "other" /\ last = "other")
        /\ (first = "other" => \A i \in DOMAIN blocks : blocks[i] = 2)
        /\ (last = "other" => \A i \in DOMAIN blocks : blocks[i] = 1)
Next == UNCHANGED vars

Mismatch == first = "other" \/ last = "other"
Duplicate == Len(blocks) >= 2
Viol == IF Mismatch THEN {"mismatch"} ELSE IF Duplicate THEN {"duplicate"} ELSE {}
\* sanity of the rule set: a well-formed package with one implementation has nothing to report
CleanIsClean == (~Mismatch /\ Len(blocks) <= 1) => Viol = {}
Emit == PrintT(<<"LOCALCFG", ToJson([where |-> where, first |-> first, last |-> last, trait |-> trait, blocks |-> blocks, viol |-> Viol])>>)
=============================================================================
