------------------------------ MODULE IntNTest ------------------------------
(* Calibration of IntN against reference results computed outside TLC (python ints) and, for 8 bits,        *)
(* against TLC's native arithmetic exhaustively.                                                            *)
EXTENDS IntN, TLC, Json, IOUtils, FiniteSets

Vec == ndJsonDeserialize(IOEnv.VECTORS)
N(x) == NFromDigits(x.neg, x.ds)

VARIABLE i
Init == i = 1
Next == i < Len(Vec) /\ i' = i + 1

Result(v) ==
  LET a == N(v.a) b == N(v.b)
      raw == CASE v.op = "add" -> NAdd(a, b) [] v.op = "sub" -> NSub(a, b) [] v.op = "mul" -> NMul(a, b)
               [] v.op = "div" -> NDiv(a, b) [] v.op = "rem" -> NRem(a, b) [] v.op = "neg" -> NNeg(a)
               [] v.op = "wrap" -> a [] v.op = "cmp" -> NSmall(NCmp(a, b)) IN
  IF v.bits = 0 THEN raw ELSE Wrap(v.bits, v.signed, raw)

VectorOK == LET v == Vec[i] IN Result(v) = N(v.r) /\ NDec(N(v.r)) = v.dec

\* exhaustive 8-bit cross-check against native arithmetic
I8 == -128..127
TDivNative(a, b) == IF (a < 0) # (b < 0) THEN -(NAbs(a) \div NAbs(b)) ELSE NAbs(a) \div NAbs(b)
W8(x) == ((((x + 128) % 256) + 256) % 256) - 128
ASSUME \A a \in I8 : \A b \in I8 :
   /\ Wrap(8, TRUE, NAdd(NSmall(a), NSmall(b))) = NSmall(W8(a + b))
   /\ Wrap(8, TRUE, NMul(NSmall(a), NSmall(b))) = NSmall(W8(a * b))
   /\ Wrap(8, FALSE, NSub(NSmall(a), NSmall(b))) = NSmall((((a - b) % 256) + 256) % 256)
   /\ (b # 0 => Wrap(8, TRUE, NDiv(NSmall(a), NSmall(b))) = NSmall(W8(TDivNative(a, b))))
=============================================================================
