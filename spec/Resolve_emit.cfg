CONSTANT AllowOverlap = TRUE
INIT Init
NEXT Next
INVARIANTS AlgoIsMeaning OverlapIsTheOnlyDeviation ForReceiver TraitFormsAgree AmbiguousRefused Emit
CHECK_DEADLOCK FALSE
