INIT TInit
NEXT TNext
INVARIANT Report
CHECK_DEADLOCK FALSE
