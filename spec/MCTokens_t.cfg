SPECIFICATION Spec
CONSTANTS
  MaxLen = 3
  Alphabet <- CoreAlphabet
  Contexts <- AllContexts
INVARIANT Emit
CHECK_DEADLOCK FALSE
