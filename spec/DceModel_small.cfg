SPECIFICATION Spec
CONSTANTS
  Vars = {"x", "y"}
  MaxLen = 2
  InnerLen = 1
  LoopCarried = FALSE
  SelfAssign = FALSE
  FailIsEffect = TRUE
INVARIANTS SameEffects ValidGo Idempotent
CHECK_DEADLOCK FALSE
