-------------------------------- MODULE Lexis --------------------------------
(***************************************************************************)
(* Denotation of goml literals (C11): what characters a string literal      *)
(* written in the source stands for, and what number an integer / float     *)
(* spelling stands for.  The lexer accepts in ordinary strings any          *)
(* character except `"`, `\` and control characters, plus the escapes       *)
(*     \" \\ \/ \b \f \n \r \t \uXXXX  (and \uD8xx\uDCxx surrogate pairs)      *)
(* (the JSON set); a multi-line string is the lines after each `\\` joined   *)
(* by line feeds, taken verbatim.                                           *)
(***************************************************************************)
EXTENDS Integers, Sequences, FiniteSets, TLC, Json

CONSTANT MaxPieces

\* a literal body is a sequence of pieces; each piece is [src |-> bytes as written, den |-> bytes denoted]
Hex(c) == IF c >= 48 /\ c <= 57 THEN c - 48 ELSE IF c >= 97 /\ c <= 102 THEN c - 87 ELSE c - 55
Utf8(cp) == IF cp < 128 THEN <<cp>>
            ELSE IF cp < 2048 THEN <<192 + (cp \div 64), 128 + (cp % 64)>>
            ELSE IF cp < 65536 THEN <<224 + (cp \div 4096), 128 + ((cp \div 64) % 64), 128 + (cp % 64)>>
            ELSE <<240 + (cp \div 262144), 128 + ((cp \div 4096) % 64), 128 + ((cp \div 64) % 64), 128 + (cp % 64)>>
Esc(c, d) == [src |-> <<92, c>>, den |-> <<d>>]
U4(h) == [src |-> <<92, 117>> \o h, den |-> Utf8(Hex(h[1]) * 4096 + Hex(h[2]) * 256 + Hex(h[3]) * 16 + Hex(h[4]))]
\* a character outside the basic plane is written as a surrogate pair \uD8xx\uDCxx (the JSON convention)
H4(h) == Hex(h[1]) * 4096 + Hex(h[2]) * 256 + Hex(h[3]) * 16 + Hex(h[4])
UPair(hi, lo) == [src |-> <<92, 117>> \o hi \o <<92, 117>> \o lo, den |-> Utf8(65536 + (H4(hi) - 55296) * 1024 + (H4(lo) - 56320))]
Plain(bs) == [src |-> bs, den |-> bs]

Pieces == {Plain(<<97>>), Plain(<<32>>), Plain(<<195, 169>>), Plain(<<39>>),
           Esc(34, 34), Esc(92, 92), Esc(47, 47), Esc(98, 8), Esc(102, 12), Esc(110, 10), Esc(114, 13), Esc(116, 9),
           U4(<<48, 48, 52, 49>>), U4(<<48, 48, 101, 57>>), U4(<<50, 48, 65, 67>>), U4(<<48, 48, 48, 97>>),
           \* \uD83D\uDE00 (U+1F600), \uD834\uDD1E (U+1D11E), \uD836\uDC00 (U+1D800), \uDBFF\uDFFF (U+10FFFF)
           UPair(<<68, 56, 51, 68>>, <<68, 69, 48, 48>>), UPair(<<68, 56, 51, 52>>, <<68, 68, 49, 69>>),
           UPair(<<68, 56, 51, 54>>, <<68, 67, 48, 48>>), UPair(<<68, 66, 70, 70>>, <<68, 70, 70, 70>>)}

RECURSIVE Cat(_, _)
Cat(ps, f) == IF ps = <<>> THEN <<>> ELSE (IF f = "src" THEN Head(ps).src ELSE Head(ps).den) \o Cat(Tail(ps), f)

VARIABLE lit
Init == lit \in UNION {[1..n -> Pieces] : n \in 0..MaxPieces}
Next == UNCHANGED lit

\* written form (without the surrounding quotes) and denotation
Written == Cat(lit, "src")
Denoted == Cat(lit, "den")
\* the denotation never contains a raw backslash-escape pair unless written as \\ : sanity of the table
NoRawControlInSource == \A i \in DOMAIN Written : Written[i] >= 32
Emit == PrintT(<<"STRLIT", ToJson([src |-> Written, den |-> Denoted])>>)
=============================================================================
