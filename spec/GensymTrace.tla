------------------------------ MODULE GensymTrace ------------------------------
(***************************************************************************)
(* Trace validation of the real name supply against Gensym.tla.  The hook   *)
(* in env.rs (Gensym::gensym, --cfg goml_verif) reports every issued name    *)
(* as (prefix, counter value).  IOEnv.GENSYM is an ndjson file of many       *)
(* programs: "reset" {id, user: the program's function names that have the   *)
(* shape prefix+digits, as [prefix, n] pairs}, then the "gensym" events.     *)
(* Each event is consumed by Gensym.tla's Fresh with the recorded prefix;    *)
(* the recorded counter value must be the model's.  At the end of a program  *)
(* ("end") the names that were issued although the user had chosen them are  *)
(* printed: the property C19 states (no user-chosen name collides with a     *)
(* compiler temporary) decided for that run.                                 *)
(***************************************************************************)
EXTENDS Gensym, Sequences, SequencesExt, Json, IOUtils

Rec == ndJsonDeserialize(IOEnv.GENSYM)
VARIABLES l, user, bad
all == <<vars, l, user, bad>>
Ev == Rec[l]
IsEvent(e) == l <= Len(Rec) /\ Ev.ev = e /\ l' = l + 1

TInit == Init /\ l = 1 /\ user = {} /\ bad = 0
TReset == IsEvent("reset") /\ counter' = 0 /\ issued' = {} /\ twice' = {} /\ user' = ToSet(Ev.user) /\ UNCHANGED bad
TGensym == IsEvent("gensym") /\ Ev.n = counter /\ Fresh(Ev.prefix) /\ UNCHANGED <<user, bad>>
TEnd == /\ IsEvent("end") /\ Ev.issued = counter
        /\ PrintT(<<"GENSYMEND", ToJson([id |-> Ev.id, issued |-> counter, twice |-> Cardinality(twice),
                                          captured |-> SetToSeq(issued \cap user)])>>)
        /\ UNCHANGED <<vars, user, bad>>
Accept == TReset \/ TGensym \/ TEnd
NextReset(k) == LET S == {j \in k..Len(Rec) : Rec[j].ev = "reset"} IN IF S = {} THEN Len(Rec) + 1 ELSE CHOOSE j \in S : \A j2 \in S : j <= j2
Reject == /\ l <= Len(Rec) /\ ~ENABLED Accept
          /\ PrintT(<<"GENSYMREJECT", ToJson([at |-> l, ev |-> Ev, counter |-> counter])>>)
          /\ l' = NextReset(l + 1) /\ bad' = bad + 1 /\ UNCHANGED <<vars, user>>
TNext == Accept \/ Reject
Finished == l = Len(Rec) + 1 => PrintT(<<"GENSYMDONE", ToJson([events |-> Len(Rec), rejected |-> bad])>>)
TraceInv == Unique
AnyPrefix == {"x", "mtmp", "_wild", "env", "t", "ret", "cond"}
=============================================================================
