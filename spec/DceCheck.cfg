INIT Init
NEXT Next
INVARIANT Report
CHECK_DEADLOCK FALSE
