------------------------------ MODULE GomlOps ------------------------------
(***************************************************************************)
(* The value-level meaning of goml shared by the source machine            *)
(* (GomlSem.tla) and the machine for the compiler's intermediate            *)
(* representations (IRSem.tla): values, operators on fixed-width integers,  *)
(* dyadic floats, strings and booleans, and the effect-free builtins.       *)
(* No variables.                                                            *)
(***************************************************************************)
EXTENDS Integers, Sequences, FiniteSets, TLC, Derive

\* ---------------------------------------------------------------- values
VInt(t, n) == [k |-> "int", t |-> t, n |-> n]
VBool(b) == [k |-> "bool", v |-> b]
VStr(bs) == [k |-> "str", v |-> bs]
VUnit == [k |-> "unit"]
VFail(why) == [k |-> "fail", why |-> why]      \* run-time failure of the goml program
IsBad(v) == v.k \in {"bad", "fail"}


\* ---------------------------------------------------------------- operators
BinOp(op, l, r) ==
  IF l.k = "int" THEN
       CASE op = "+" -> VInt(l.t, WrapT(l.t, NAdd(l.n, r.n)))
         [] op = "-" -> VInt(l.t, WrapT(l.t, NSub(l.n, r.n)))
         [] op = "*" -> VInt(l.t, WrapT(l.t, NMul(l.n, r.n)))
         [] op = "/" -> IF IsZero(r.n) THEN VFail("division by zero") ELSE VInt(l.t, WrapT(l.t, NDiv(l.n, r.n)))
         [] op = "<" -> VBool(NCmp(l.n, r.n) < 0)
         [] op = ">" -> VBool(NCmp(l.n, r.n) > 0)
         [] op = "<=" -> VBool(NCmp(l.n, r.n) <= 0)
         [] op = ">=" -> VBool(NCmp(l.n, r.n) >= 0)
         [] op = "==" -> VBool(l.n = r.n)
         [] op = "!=" -> VBool(l.n # r.n)
         [] OTHER -> VBad("integer operator " \o op)
  ELSE IF l.k = "float" THEN
       IF NAbs(l.num) >= 32768 \/ NAbs(r.num) >= 32768 \/ l.den >= 32768 \/ r.den >= 32768 THEN VBad("float operands outside the modelled range")
       ELSE LET d == l.num * r.den - r.num * l.den IN
       CASE op = "+" -> FNorm(l.t, l.num * r.den + r.num * l.den, l.den * r.den)
         [] op = "-" -> FNorm(l.t, d, l.den * r.den)
         [] op = "*" -> FNorm(l.t, l.num * r.num, l.den * r.den)
         [] op = "/" -> IF r.num = 0 THEN VBad("float division by zero") ELSE FNorm(l.t, (IF r.num < 0 THEN -1 ELSE 1) * l.num * r.den, l.den * NAbs(r.num))
         [] op = "<" -> VBool(d < 0) [] op = ">" -> VBool(d > 0) [] op = "<=" -> VBool(d <= 0) [] op = ">=" -> VBool(d >= 0)
         [] op = "==" -> VBool(d = 0) [] op = "!=" -> VBool(d # 0)
         [] OTHER -> VBad("float operator " \o op)
  ELSE IF l.k = "str" THEN
       CASE op = "+" -> VStr(l.v \o r.v)
         [] op = "==" -> VBool(l.v = r.v)
         [] op = "!=" -> VBool(l.v # r.v)
         [] OTHER -> VBad("string operator " \o op)
  ELSE IF l.k = "bool" THEN
       CASE op = "==" -> VBool(l.v = r.v)
         [] op = "!=" -> VBool(l.v # r.v)
         [] OTHER -> VBad("bool operator " \o op)
  ELSE IF l.k = "unit" /\ op \in {"==", "!="} THEN VBool(op = "==")
  ELSE VBad("operator " \o op \o " on " \o l.k)

UnOp(op, v) ==
  IF op = "!" /\ v.k = "bool" THEN VBool(~v.v)
  ELSE IF op = "-" /\ v.k = "int" THEN VInt(v.t, WrapT(v.t, NNeg(v.n)))
  ELSE IF op = "-" /\ v.k = "float" THEN [v EXCEPT !.num = -v.num]
  ELSE VBad("unary operator " \o op)

\* ---------------------------------------------------------------- builtins (the meaning the language documents)
IntToStringFns == {t \o "_to_string" : t \in IntTypes}
IsBuiltin(n) == n \in IntToStringFns \cup {"bool_to_string", "unit_to_string", "float32_to_string", "float64_to_string",
                   "string_print", "string_println", "string_len", "string_get",
                   "ref", "ref_get", "ref_set", "vec_new", "vec_push", "vec_get", "vec_len", "array_get", "array_set",
                   "bool_to_json", "json_escape_string"}

\* JSON string escaping as RFC 8259 prescribes (C18): quotes, backslash, control characters; everything else verbatim
JsonEscByte(b) ==
  CASE b = 34 -> <<92, 34>> [] b = 92 -> <<92, 92>> [] b = 8 -> <<92, 98>> [] b = 12 -> <<92, 102>>
    [] b = 10 -> <<92, 110>> [] b = 13 -> <<92, 114>> [] b = 9 -> <<92, 116>>
    [] OTHER -> LET hex == <<48, 49, 50, 51, 52, 53, 54, 55, 56, 57, 97, 98, 99, 100, 101, 102>> IN
                IF b < 32 THEN <<92, 117, 48, 48, hex[(b \div 16) + 1], hex[(b % 16) + 1]>> ELSE <<b>>
RECURSIVE JsonEsc(_)
JsonEsc(bs) == IF bs = <<>> THEN <<>> ELSE JsonEscByte(Head(bs)) \o JsonEsc(Tail(bs))

\* effect-free builtins: result value
PureBuiltin(name, vs, targs) ==
  CASE name \in IntToStringFns -> VStr(NDec(vs[1].n))
    [] name = "bool_to_string" -> VStr(BoolBytes(vs[1].v))
    [] name = "bool_to_json" -> VStr(BoolBytes(vs[1].v))
    [] name = "unit_to_string" -> VStr(<<40, 41>>)
    [] name \in {"float32_to_string", "float64_to_string"} -> IF FloatOK(vs[1]) THEN VStr(FloatV(vs[1])) ELSE VBad("float formatting outside the modelled range")
    [] name = "json_escape_string" -> VStr(<<34>> \o JsonEsc(vs[1].v) \o <<34>>)
    [] name = "string_len" -> VInt("int32", NSmall(Len(vs[1].v)))
    [] name = "string_get" ->
         IF ~vs[2].n.s \/ vs[2].n.v < 0 \/ vs[2].n.v >= Len(vs[1].v) THEN VFail("string index out of range")
         ELSE IF vs[1].v[vs[2].n.v + 1] >= 128 THEN VBad("string_get on a non-ASCII byte") ELSE VStr(<<vs[1].v[vs[2].n.v + 1]>>)
    [] name = "vec_new" -> [k |-> "vec", ty |-> [t |-> "vec", e |-> IF targs = <<>> THEN [t |-> "?"] ELSE targs[1]], es |-> <<>>]
    [] name = "vec_push" -> [vs[1] EXCEPT !.es = Append(@, vs[2])]
    [] name = "vec_len" -> VInt("int32", NSmall(Len(vs[1].es)))
    [] name = "vec_get" ->
         IF ~vs[2].n.s \/ vs[2].n.v < 0 \/ vs[2].n.v >= Len(vs[1].es) THEN VFail("vec index out of range") ELSE vs[1].es[vs[2].n.v + 1]
    [] name = "array_get" ->
         IF ~vs[2].n.s \/ vs[2].n.v < 0 \/ vs[2].n.v >= Len(vs[1].es) THEN VFail("array index out of range") ELSE vs[1].es[vs[2].n.v + 1]
    [] name = "array_set" ->
         IF ~vs[2].n.s \/ vs[2].n.v < 0 \/ vs[2].n.v >= Len(vs[1].es) THEN VFail("array index out of range")
         ELSE [vs[1] EXCEPT !.es = [@ EXCEPT ![vs[2].n.v + 1] = vs[3]]]
    [] OTHER -> VBad("builtin " \o name)

=============================================================================
