SPECIFICATION Spec
CONSTANTS
  Others <- O3
  SortedQueue = TRUE
  Rank <- RankDef
  MaxEdges = 6
INVARIANTS Det LoadsReachable MissingReported NoSilentMissing
CHECK_DEADLOCK FALSE
