SPECIFICATION Spec
CONSTANTS
  Pkgs <- Diamond4
  Deps <- Diamond4Deps
  MaxI = 1
  MaxB = 0
  MaxCorrupt = 0
  Depth = 0
  IfaceKinds <- OneKind
  BodyKinds <- OneKind
VIEW view
INVARIANTS TypeOK LinkSafe LinkSafeAll BodyOnlyKeepsHash StaleUnlinkable CorruptRejected
CHECK_DEADLOCK FALSE
