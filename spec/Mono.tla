-------------------------------- MODULE Mono --------------------------------
(***************************************************************************)
(* The instantiation worklist of monomorphisation (mono.rs: Ctx with       *)
(* instances, queued, work, out; ensure_instance; the pop loop).            *)
(*                                                                          *)
(* A program is an abstract call graph: generic functions with one type     *)
(* parameter; each call edge f -> g carries a transformer saying which type *)
(* argument g receives as a function of f's own argument:                   *)
(*    "same"  g[T]      "wrap"  g[Box[T]]      "const" g[int]               *)
(* Types are nesting depths of Box over a base (0 = int, 1 = Box[int], ..), *)
(* which is all that matters for termination and naming.  `main` calls some *)
(* functions at depth 0.                                                    *)
(*                                                                          *)
(* Actions mirror the code: Seed (mono of the roots), Pop (take the front   *)
(* of `work`, emit the instance into `out`, call Ensure for every edge),    *)
(* Ensure (look up `instances`; else name it, record it, and queue it       *)
(* unless already `queued`; Refuse when the instance asked for is beyond the *)
(* size bound -- polymorphic recursion).  Dedup = FALSE removes the          *)
(* `queued`/`instances` test and is the self-test: Once must then fail.      *)
(***************************************************************************)
EXTENDS Integers, Sequences, FiniteSets, TLC

CONSTANTS Fns,        \* set of generic function names
          MaxDepth,   \* instantiation closure is cut at this nesting depth (models rejection of polymorphic recursion)
          Dedup,      \* BOOLEAN: ensure_instance consults instances/queued
          NameFn      \* naming scheme: [Fns \X Nat -> names]; injective schemes keep instances apart

Xf == {"same", "wrap", "const"}

VARIABLES edges,     \* [Fns -> SUBSET (Fns \X Xf)]  chosen in Init (the program)
          roots,     \* SUBSET Fns: functions main calls at depth 0
          instances, \* set of <<f, d>> already named
          queued, work, out, pending, st

vars == <<edges, roots, instances, queued, work, out, pending, st>>

Apply(x, d) == CASE x = "same" -> d [] x = "wrap" -> d + 1 [] x = "const" -> 0

Init ==
  /\ edges \in [Fns -> SUBSET (Fns \X Xf)]
  /\ \A f \in Fns : Cardinality(edges[f]) <= 2
  /\ roots \in (SUBSET Fns) \ {{}}
  /\ instances = {} /\ queued = {} /\ work = <<>> /\ out = <<>>
  /\ pending = {<<f, 0>> : f \in roots}      \* calls found in main, still to be passed to ensure_instance
  /\ st = "seed"

\* ensure_instance(f, d) for one pending call
Ensure ==
  /\ pending # {}
  /\ \E c \in pending :
       /\ pending' = pending \ {c}
       /\ IF Dedup /\ c \in instances THEN UNCHANGED <<instances, queued, work>>
          ELSE /\ instances' = instances \cup {c}
               /\ IF Dedup /\ c \in queued THEN UNCHANGED <<queued, work>>
                  ELSE queued' = queued \cup {c} /\ work' = Append(work, c)
  /\ UNCHANGED <<edges, roots, out, st>>

Seed == st = "seed" /\ pending = {} /\ st' = "run" /\ UNCHANGED <<edges, roots, instances, queued, work, out, pending>>

\* pop_front: emit the instance, discover the instances its body calls
Pop ==
  /\ st = "run" /\ pending = {} /\ work # <<>>
  /\ LET c == Head(work) IN
     /\ work' = Tail(work)
     /\ out' = Append(out, c)
     /\ pending' = {<<e[1], Apply(e[2], c[2])>> : e \in edges[c[1]]}
  /\ UNCHANGED <<edges, roots, instances, queued, st>>

Done == st = "run" /\ pending = {} /\ work = <<>>
Diverged == \E c \in pending : c[2] > MaxDepth     \* polymorphic recursion: the closure is infinite
Refused == st = "refused"

\* ensure_instance refuses an instance whose type arguments are larger than the bound (MAX_INSTANCE_TYPE_SIZE in the code,
\* MaxDepth here) and monomorphisation ends with an error: the worklist of a program with polymorphic recursion never drains
Refuse == Diverged /\ ~Refused /\ st' = "refused" /\ UNCHANGED <<edges, roots, instances, queued, work, out, pending>>
EnsureStep == ~Diverged /\ ~Refused /\ Ensure
SeedStep == ~Diverged /\ ~Refused /\ Seed
PopStep == ~Diverged /\ ~Refused /\ Pop
Idle == (Done \/ Refused) /\ UNCHANGED vars
Next == EnsureStep \/ SeedStep \/ PopStep \/ Refuse \/ Idle
Spec == Init /\ [][Next]_vars /\ WF_vars(EnsureStep \/ SeedStep \/ PopStep \/ Refuse)

-----------------------------------------------------------------------------
\* reachable instances, computed declaratively
Reach1(S) == S \cup UNION {{<<e[1], Apply(e[2], c[2])>> : e \in edges[c[1]]} : c \in S}
RECURSIVE ReachN(_, _)
ReachN(S, n) == IF n = 0 THEN S ELSE LET T == Reach1(S) IN IF T = S THEN S ELSE ReachN(T, n - 1)
Reachable == ReachN({<<f, 0>> : f \in roots}, Cardinality(Fns) * (MaxDepth + 2))
Finite == \A c \in Reachable : c[2] <= MaxDepth

\* every instance is emitted at most once
Once == \A i, j \in DOMAIN out : out[i] = out[j] => i = j
\* when the worklist drains, exactly the reachable instances were emitted
Complete == Done => {out[i] : i \in DOMAIN out} = Reachable
\* distinct instances get distinct names under the naming scheme
Injective == \A a, b \in instances : NameFn[a] = NameFn[b] => a = b
\* the worklist drains iff the closure is finite (within the bound)
Terminates == Finite => <>Done
NoDivergeIfFinite == Finite => ~Diverged
\* every program ends: with all its instances, or refused -- and refused only when the closure really is infinite
AlwaysEnds == <>(Done \/ Refused)
RefusedOnlyIfInfinite == Refused => ~Finite
=============================================================================
