-------------------------------- MODULE Mono --------------------------------
(***************************************************************************)
(* The instantiation worklist of monomorphisation (mono.rs: Ctx with       *)
(* instances, queued, work, out, too_large; ensure_instance; the pop loop   *)
(* of mono_checked).                                                         *)
(*                                                                          *)
(* A program is an abstract call graph: generic functions with one type     *)
(* parameter; each call edge f -> g carries a transformer saying which type *)
(* argument g receives as a function of f's own argument:                   *)
(*    "same"  g[T]      "wrap"  g[Box[T]]      "const" g[int]               *)
(* Types are nesting depths of Box over a base (0 = int, 1 = Box[int], ..), *)
(* which is all that matters for termination and naming.  `main` calls some *)
(* functions at depth 0.                                                    *)
(*                                                                          *)
(* The actions are the critical sections of the code, one each:             *)
(*   EnsureOne(c, big)  ensure_instance for one call found in a body: a hit *)
(*                      in `instances`; refused (too_large is set, nothing  *)
(*                      is recorded) when its type arguments are beyond the *)
(*                      bound; else named, and queued unless already queued *)
(*   Seed               the roots have all been passed to ensure_instance    *)
(*   PopTo(P)           pop_front: the instance becomes `cur`, and P is the  *)
(*                      set of calls its body makes (mono_expr will pass     *)
(*                      each to ensure_instance)                             *)
(*   Emit               out.push(cur) once the body has been transformed     *)
(*   Finish             the worklist is empty: Err if too_large, else Ok     *)
(* The parameters (c, big, P) are what the abstract program supplies here    *)
(* and what a recorded event supplies in MonoTrace.tla, which validates the  *)
(* hook events of the real pass (crates/compiler/src/mono.rs under           *)
(* --cfg goml_verif) against these same actions.                             *)
(* Dedup = FALSE removes the `queued`/`instances` test and is the self-test: *)
(* Once must then fail.                                                      *)
(***************************************************************************)
EXTENDS Integers, Sequences, FiniteSets, TLC

CONSTANTS Fns,        \* set of generic function names
          MaxDepth,   \* an instance deeper than this is refused (MAX_INSTANCE_TYPE_SIZE in the code)
          Dedup,      \* BOOLEAN: ensure_instance consults instances/queued
          NameFn      \* naming scheme: [Fns \X Nat -> names]; injective schemes keep instances apart

Xf == {"same", "wrap", "const"}
None == <<>>

VARIABLES edges,     \* [Fns -> SUBSET (Fns \X Xf)]  chosen in Init (the program)
          roots,     \* SUBSET Fns: functions main calls at depth 0
          instances, \* set of instances already named
          queued, work, out,
          pending,   \* calls of the body being transformed that ensure_instance has not seen yet
          cur,       \* the instance popped and not yet pushed to `out`, or None
          tooLarge,  \* Ctx.too_large.is_some()
          st         \* "seed" | "run" | "done" | "refused"

vars == <<edges, roots, instances, queued, work, out, pending, cur, tooLarge, st>>
prog == <<edges, roots>>

Apply(x, d) == CASE x = "same" -> d [] x = "wrap" -> d + 1 [] x = "const" -> 0
CallsOf(c) == {<<e[1], Apply(e[2], c[2])>> : e \in edges[c[1]]}

InitWork ==
  /\ instances = {} /\ queued = {} /\ work = <<>> /\ out = <<>>
  /\ cur = None /\ tooLarge = FALSE /\ st = "seed"

Init ==
  /\ edges \in [Fns -> SUBSET (Fns \X Xf)]
  /\ \A f \in Fns : Cardinality(edges[f]) <= 2
  /\ roots \in (SUBSET Fns) \ {{}}
  /\ pending = {<<f, 0>> : f \in roots}      \* calls found in main, still to be passed to ensure_instance
  /\ InitWork

\* ensure_instance for the call c; `big` says whether its type arguments exceed the bound
EnsureOne(c, big) ==
  /\ st \in {"seed", "run"}
  /\ pending' = pending \ {c}
  /\ IF Dedup /\ c \in instances THEN UNCHANGED <<instances, queued, work, tooLarge>>
     ELSE IF big THEN tooLarge' = TRUE /\ UNCHANGED <<instances, queued, work>>
     ELSE /\ instances' = instances \cup {c}
          /\ tooLarge' = tooLarge
          /\ IF Dedup /\ c \in queued THEN UNCHANGED <<queued, work>>
             ELSE queued' = queued \cup {c} /\ work' = Append(work, c)
  /\ UNCHANGED <<prog, out, cur, st>>

Seed == /\ st = "seed" /\ pending = {} /\ st' = "run"
        /\ UNCHANGED <<prog, instances, queued, work, out, pending, cur, tooLarge>>

\* pop_front; P = the calls made by the body of the popped instance
PopTo(P) ==
  /\ st = "run" /\ pending = {} /\ cur = None /\ work # <<>>
  /\ cur' = Head(work) /\ work' = Tail(work) /\ pending' = P
  /\ UNCHANGED <<prog, instances, queued, out, tooLarge, st>>

Emit ==
  /\ st = "run" /\ cur # None /\ pending = {}
  /\ out' = Append(out, cur) /\ cur' = None
  /\ UNCHANGED <<prog, instances, queued, work, pending, tooLarge, st>>

Finish ==
  /\ st = "run" /\ cur = None /\ pending = {} /\ work = <<>>
  /\ st' = IF tooLarge THEN "refused" ELSE "done"
  /\ UNCHANGED <<prog, instances, queued, work, out, pending, cur, tooLarge>>

Ended == st \in {"done", "refused"}
Ensure == \E c \in pending : EnsureOne(c, c[2] > MaxDepth)
Pop == PopTo(CallsOf(Head(work)))
Idle == Ended /\ UNCHANGED vars
Step == Ensure \/ Seed \/ Pop \/ Emit \/ Finish
Next == Step \/ Idle
Spec == Init /\ [][Next]_vars /\ WF_vars(Step)

-----------------------------------------------------------------------------
\* reachable instances, computed declaratively
Reach1(S) == S \cup UNION {CallsOf(c) : c \in S}
RECURSIVE ReachN(_, _)
ReachN(S, n) == IF n = 0 THEN S ELSE LET T == Reach1(S) IN IF T = S THEN S ELSE ReachN(T, n - 1)
Reachable == ReachN({<<f, 0>> : f \in roots}, Cardinality(Fns) * (MaxDepth + 2))
Finite == \A c \in Reachable : c[2] <= MaxDepth
OutSet == {out[i] : i \in DOMAIN out}
WorkSet == {work[i] : i \in DOMAIN work}

\* every instance is emitted at most once
Once == \A i, j \in DOMAIN out : out[i] = out[j] => i = j
\* the same statement by counting (linear; used on long recorded runs); OnceEquiv is checked with the model
OnceC == Cardinality(OutSet) = Len(out)
OnceEquiv == Once <=> OnceC
\* when the pass succeeds, exactly the reachable instances were emitted
Complete == st = "done" => OutSet = Reachable
\* distinct instances get distinct names under the naming scheme
Injective == \A a, b \in instances : NameFn[a] = NameFn[b] => a = b
\* the pass succeeds exactly when the instantiation closure is finite (within the bound), and is refused otherwise
DoneIffFinite == (st = "done" => Finite) /\ (st = "refused" => ~Finite)
\* bookkeeping of the code: every named instance is waiting, being transformed, or emitted -- nothing is lost or
\* transformed twice; `queued` and `instances` always agree (the second test of ensure_instance is redundant)
Bookkeeping == /\ (Dedup => queued = instances)
               /\ (Dedup => instances = WorkSet \cup OutSet \cup (IF cur = None THEN {} ELSE {cur}))
               /\ (Dedup => \A i \in DOMAIN work : work[i] \notin OutSet /\ work[i] # cur)
\* every program ends: the worklist drains whether or not an instance was refused
AlwaysEnds == <>Ended
=============================================================================
