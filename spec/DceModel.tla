------------------------------- MODULE DceModel -------------------------------
(***************************************************************************)
(* The dead-variable elimination of the Go backend (go/dce.rs,              *)
(* dce_block_with_live) as an algorithm on abstract Go programs, written    *)
(* like the code: a backward scan of every block with the set `live` of     *)
(* variables read later and the set `nd` (needs_decl) of variables a kept   *)
(* assignment still needs a declaration for; nested blocks are scanned with *)
(* the live set of what follows them (no fixpoint for loops).               *)
(*                                                                          *)
(* Programs: two variables; statements                                      *)
(*    decl x e   var x T = e        declz x   var x T                       *)
(*    asg  x e   x = e              eff e     e as a statement (a call)     *)
(*    if c t f   branches on the value of variable c                        *)
(*    loop b     for { b }          brk       break                         *)
(*    ret e                                                                 *)
(* An expression is [pure, uses, tag]: it reads `uses`; if not pure it is a *)
(* call with an observable effect.  `tag` names the call site.              *)
(*                                                                          *)
(* TLC enumerates every program of the bounded shape that is valid Go in    *)
(* the sense of the backend's output (declared before use, in scope, no     *)
(* redeclaration, no read of a variable that was never given a value) and   *)
(* checks of the algorithm's OUTPUT:                                        *)
(*   SameEffects   for every way the branches can go, the sequence of       *)
(*                 (call site, argument values) and the returned value are  *)
(*                 those of the input  - nothing dropped, duplicated,       *)
(*                 reordered, and every effect sees the same values         *)
(*   ValidGo       declared before use and in scope, and nothing declared   *)
(*                 is left unused (Go rejects an unused local)              *)
(* LoopCarried = FALSE is the assumption the algorithm makes about its      *)
(* input (the backend never emits a local that is assigned in one iteration *)
(* and read in the next: loop state lives behind pointers).  With           *)
(* LoopCarried = TRUE (DceModel_carried.cfg) SameEffects fails: scanning a  *)
(* loop body once with the live set of what follows the loop treats the     *)
(* assignment at the end of the body as dead.  That configuration is the    *)
(* self-test of the model and documents the assumption.                     *)
(* SelfAssign = FALSE is a second assumption TLC found while the model was   *)
(* written: for a live `x = f(x)` the code inserts the variables f reads    *)
(* into `live` and THEN removes x, so x is dead above the assignment and    *)
(* its initialiser is dropped (`var x = g(); x = f(x)` becomes `var x T;    *)
(* g(); x = f(x)`).  The backend never emits an assignment that reads its   *)
(* own target (every temporary is assigned from other names), so no goml    *)
(* program can show it; DceModel_selfassign.cfg keeps the counterexample.   *)
(***************************************************************************)
EXTENDS Integers, Sequences, FiniteSets, TLC

CONSTANTS Vars,         \* variable names
          MaxLen,       \* statements at the top level (before the final return)
          InnerLen,     \* statements in a branch / loop body
          LoopCarried,  \* BOOLEAN: admit programs with a loop-carried local
          SelfAssign,   \* BOOLEAN: admit assignments whose right-hand side reads the assigned variable (x = f(x))
          FailIsEffect  \* BOOLEAN: an operation that can fail counts as having an effect (fix 9297588); FALSE = before the fix

None == "-"
\* expression shapes: pure / call (an observable effect) / failing (a pure operation that can stop the program: division, indexing)
Exprs == {e \in [pure : BOOLEAN, fail : BOOLEAN, uses : SUBSET Vars, tag : {0}] : e.pure \/ ~e.fail}
HasEffect(e) == ~e.pure \/ (FailIsEffect /\ e.fail)

\* ---------------------------------------------------------------- tags: the call sites, numbered in textual order
RECURSIVE TagBlock(_, _)
TagStmt(s, n) ==      \* -> <<statement with tags, next tag>>
  CASE s.k \in {"decl", "asg", "eff", "ret"} -> <<[s EXCEPT !.e = [@ EXCEPT !.tag = n]], n + 1>>
    [] s.k = "if" -> LET a == TagBlock(s.t, n) b == TagBlock(s.f, a[2]) IN <<[s EXCEPT !.t = a[1], !.f = b[1]], b[2]>>
    [] s.k = "loop" -> LET a == TagBlock(s.b, n) IN <<[s EXCEPT !.b = a[1]], a[2]>>
    [] OTHER -> <<s, n>>
TagBlock(ss, n) ==
  IF ss = <<>> THEN <<<<>>, n>>
  ELSE LET h == TagStmt(Head(ss), n) r == TagBlock(Tail(ss), h[2]) IN <<<<h[1]>> \o r[1], r[2]>>

\* ---------------------------------------------------------------- the algorithm (dce_block_with_live)
Uses(e) == e.uses
RECURSIVE Assigned(_)
Assigned(ss) == IF ss = <<>> THEN {} ELSE
  LET s == Head(ss) IN
  (CASE s.k = "asg" -> {s.x}
     [] s.k = "if" -> Assigned(s.t) \cup Assigned(s.f)
     [] s.k = "loop" -> Assigned(s.b)
     [] OTHER -> {}) \cup Assigned(Tail(ss))
EffOnly(e) == [k |-> "eff", e |-> e]

RECURSIVE DceBlock(_, _)
RECURSIVE Scan(_, _, _, _, _)
\* scan statements ss[1..i] from the last one; out is the kept suffix (already in final order)
Scan(ss, i, live, nd, out) ==
  IF i = 0 THEN [out |-> out, live |-> live]
  ELSE LET s == ss[i] IN
  CASE s.k = "eff" -> Scan(ss, i - 1, live \cup Uses(s.e), nd, <<s>> \o out)
    [] s.k = "ret" -> Scan(ss, i - 1, live \cup Uses(s.e), nd, <<s>> \o out)
    [] s.k = "brk" -> Scan(ss, i - 1, live, nd, <<s>> \o out)
    [] s.k = "declz" ->                                               \* a declaration without initialiser: kept only when needed
         IF s.x \in live THEN Scan(ss, i - 1, live \ {s.x}, nd, <<s>> \o out)
         ELSE IF s.x \in nd THEN Scan(ss, i - 1, live, nd \ {s.x}, <<s>> \o out)
         ELSE Scan(ss, i - 1, live, nd, out)
    [] s.k = "decl" ->
         IF s.x \in live THEN Scan(ss, i - 1, (live \cup Uses(s.e)) \ {s.x}, nd, <<s>> \o out)
         ELSE IF s.x \in nd THEN
              (IF HasEffect(s.e) THEN Scan(ss, i - 1, live \cup Uses(s.e), nd \ {s.x}, <<[k |-> "declz", x |-> s.x], EffOnly(s.e)>> \o out)
               ELSE Scan(ss, i - 1, live, nd \ {s.x}, <<[k |-> "declz", x |-> s.x]>> \o out))
         ELSE IF HasEffect(s.e) THEN Scan(ss, i - 1, live \cup Uses(s.e), nd, <<EffOnly(s.e)>> \o out)
         ELSE Scan(ss, i - 1, live, nd, out)
    [] s.k = "asg" ->
         IF s.x \in live THEN Scan(ss, i - 1, (live \cup Uses(s.e)) \ {s.x}, nd \cup {s.x}, <<s>> \o out)
         ELSE IF HasEffect(s.e) THEN Scan(ss, i - 1, live \cup Uses(s.e), nd, <<EffOnly(s.e)>> \o out)
         ELSE Scan(ss, i - 1, live, nd, out)
    [] s.k = "loop" ->
         LET b == DceBlock(s.b, live) IN
         Scan(ss, i - 1, live \cup b.live, nd \cup Assigned(b.out), <<[s EXCEPT !.b = b.out]>> \o out)
    [] s.k = "if" ->
         LET t == DceBlock(s.t, live) f == DceBlock(s.f, live) IN
         Scan(ss, i - 1, live \cup {s.c} \cup t.live \cup f.live, nd \cup Assigned(t.out) \cup Assigned(f.out),
              <<[s EXCEPT !.t = t.out, !.f = f.out]>> \o out)
DceBlock(ss, liveOut) == Scan(ss, Len(ss), liveOut, {}, <<>>)
Dce(prog) == DceBlock(prog, {}).out

\* ---------------------------------------------------------------- Go validity (scopes: a block sees the enclosing blocks)
\* Valid(ss, declared, given): every read is of a declared variable that holds a value, every write is to a declared variable,
\* nothing is declared twice in one scope chain (the backend's names are unique)
\* variables certainly assigned by a block that runs to its end (straight-line part only; conservative)
AssignedAll(ss) == {s.x : s \in {ss[i] : i \in {j \in DOMAIN ss : ss[j].k = "asg"}}}
RECURSIVE Valid(_, _, _)
Valid(ss, decl, given) ==
  IF ss = <<>> THEN TRUE ELSE
  LET s == Head(ss) r == Tail(ss) IN
  CASE s.k = "decl" -> Uses(s.e) \subseteq given /\ s.x \notin decl /\ Valid(r, decl \cup {s.x}, given \cup {s.x})
    [] s.k = "declz" -> s.x \notin decl /\ Valid(r, decl \cup {s.x}, given)
    [] s.k = "asg" -> Uses(s.e) \subseteq given /\ s.x \in decl /\ Valid(r, decl, given \cup {s.x})
    [] s.k \in {"eff", "ret"} -> Uses(s.e) \subseteq given /\ Valid(r, decl, given)
    [] s.k = "brk" -> Valid(r, decl, given)
    [] s.k = "if" -> s.c \in given /\ Valid(s.t, decl, given) /\ Valid(s.f, decl, given)
                     /\ Valid(r, decl, given \cup (AssignedAll(s.t) \cap AssignedAll(s.f)))
    [] s.k = "loop" -> Valid(s.b, decl, given) /\ Valid(r, decl, given)

\* reads of a variable anywhere in a block (for "declared and not used")
RECURSIVE Reads(_)
Reads(ss) == IF ss = <<>> THEN {} ELSE
  LET s == Head(ss) IN
  (CASE s.k \in {"decl", "asg", "eff", "ret"} -> Uses(s.e)
     [] s.k = "if" -> {s.c} \cup Reads(s.t) \cup Reads(s.f)
     [] s.k = "loop" -> Reads(s.b)
     [] OTHER -> {}) \cup Reads(Tail(ss))
RECURSIVE NoUnused(_)
\* every variable a block declares is read later in that block (or in blocks nested in it)
NoUnused(ss) == IF ss = <<>> THEN TRUE ELSE
  LET s == Head(ss) r == Tail(ss) IN
  /\ (s.k \in {"decl", "declz"} => s.x \in Reads(r))
  /\ (s.k = "if" => NoUnused(s.t) /\ NoUnused(s.f))
  /\ (s.k = "loop" => NoUnused(s.b))
  /\ NoUnused(r)

\* ---------------------------------------------------------------- meaning: effects and result for a given way the branches go
\* values are terms [tag, args]; a condition is true iff the tag of its value is in T; a loop body runs at most twice
Val(e, env) == [tag |-> e.tag, args |-> [v \in e.uses |-> env[v]]]
RECURSIVE Run(_, _, _, _)
\* st = [env, tr (effects so far), ctl ("go" | "brk" | "ret" | "stuck"), res]
Step(s, st, T, fuel) ==
  CASE s.k = "decl" \/ s.k = "asg" ->
         LET v == Val(s.e, st.env) IN
         [st EXCEPT !.env = [@ EXCEPT ![s.x] = v], !.tr = IF ~s.e.pure \/ s.e.fail THEN Append(@, v) ELSE @]
    [] s.k = "declz" -> [st EXCEPT !.env = [@ EXCEPT ![s.x] = [tag |-> -1, args |-> <<>>]]]
    [] s.k = "eff" -> [st EXCEPT !.tr = Append(@, Val(s.e, st.env))]
    [] s.k = "ret" -> [st EXCEPT !.ctl = "ret", !.res = Val(s.e, st.env), !.tr = IF ~s.e.pure \/ s.e.fail THEN Append(@, Val(s.e, st.env)) ELSE @]
    [] s.k = "brk" -> [st EXCEPT !.ctl = "brk"]
    [] s.k = "if" -> IF st.env[s.c].tag \in T THEN Run(s.t, st, T, fuel) ELSE Run(s.f, st, T, fuel)
    [] s.k = "loop" ->
         LET a == Run(s.b, st, T, fuel) IN
         IF a.ctl = "brk" THEN [a EXCEPT !.ctl = "go"]
         ELSE IF a.ctl # "go" THEN a
         ELSE LET b == Run(s.b, a, T, fuel) IN
              IF b.ctl = "brk" THEN [b EXCEPT !.ctl = "go"] ELSE IF b.ctl # "go" THEN b ELSE [b EXCEPT !.ctl = "stuck"]
Run(ss, st, T, fuel) ==
  IF ss = <<>> \/ st.ctl # "go" THEN st
  ELSE Run(Tail(ss), Step(Head(ss), st, T, fuel), T, fuel)
\* what an observer sees: the effects (failing operations included: they are where a program may stop) and the result
Observe(prog, T) ==
  LET st == Run(prog, [env |-> [v \in Vars |-> [tag |-> -2, args |-> <<>>]], tr |-> <<>>, ctl |-> "go", res |-> None], T, 2) IN
  [tr |-> st.tr, ctl |-> st.ctl, res |-> st.res]

\* ---------------------------------------------------------------- loop-carried locals
RECURSIVE Carried(_)
\* a loop body that reads a variable before (textually) assigning it later in the same body
CarriedIn(b) == \E i, j \in DOMAIN b : i <= j /\ b[j].k = "asg" /\ b[j].x \in Reads(<<b[i]>>) /\ ~(\E h \in 1..(i - 1) : b[h].k \in {"asg", "decl"} /\ b[h].x = b[j].x)
Carried(ss) == IF ss = <<>> THEN FALSE ELSE
  LET s == Head(ss) IN
  (CASE s.k = "loop" -> CarriedIn(s.b) \/ Carried(s.b)
     [] s.k = "if" -> Carried(s.t) \/ Carried(s.f)
     [] OTHER -> FALSE) \/ Carried(Tail(ss))

\* ---------------------------------------------------------------- generation: only programs that are valid Go are built
\* statements that may come next when `decl` are declared and `given` hold a value; compound statements only at nesting depth 0
Next1(decl, given, inLoop) ==
  {[k |-> "decl", x |-> x, e |-> e] : x \in Vars \ decl, e \in {e \in Exprs : e.uses \subseteq given}}
  \cup {[k |-> "declz", x |-> x] : x \in Vars \ decl}
  \cup UNION {{[k |-> "asg", x |-> x, e |-> e] : e \in {e \in Exprs : e.uses \subseteq given /\ (SelfAssign \/ x \notin e.uses)}} : x \in decl}
  \cup {[k |-> "eff", e |-> e] : e \in {e \in Exprs : ~e.pure /\ e.uses \subseteq given}}
  \cup (IF inLoop THEN {[k |-> "brk"]} \cup {[k |-> "if", c |-> c, t |-> <<[k |-> "brk"]>>, f |-> <<>>] : c \in given} ELSE {})
DeclAfter(s, decl) == IF s.k \in {"decl", "declz"} THEN decl \cup {s.x} ELSE decl
GivenAfter(s, given) == IF s.k \in {"decl", "asg"} THEN given \cup {s.x} ELSE given
RECURSIVE Inner(_, _, _, _)
\* blocks of at most n simple statements (the branches of an if, the body of a loop)
Inner(n, decl, given, inLoop) ==
  IF n = 0 THEN {<<>>}
  ELSE {<<>>} \cup UNION {{<<s>> \o r : r \in Inner(n - 1, DeclAfter(s, decl), GivenAfter(s, given), inLoop)} : s \in Next1(decl, given, inLoop)}
CompoundAt(decl, given) ==
  {[k |-> "if", c |-> c, t |-> t, f |-> f] : c \in given, t \in Inner(InnerLen, decl, given, FALSE), f \in Inner(InnerLen, decl, given, FALSE)}
  \cup {[k |-> "loop", b |-> b] : b \in {b \in Inner(InnerLen, decl, given, TRUE) : \E i \in DOMAIN b : b[i].k \in {"brk", "if"}}}
GivenAfterC(s, given) == IF s.k = "if" THEN given \cup (AssignedAll(s.t) \cap AssignedAll(s.f)) ELSE GivenAfter(s, given)
RECURSIVE Top(_, _, _, _)
\* top-level blocks of at most n statements, at most `comp` of them compound
Top(n, comp, decl, given) ==
  IF n = 0 THEN {<<>>}
  ELSE {<<>>}
       \cup UNION {{<<s>> \o r : r \in Top(n - 1, comp, DeclAfter(s, decl), GivenAfter(s, given))} : s \in Next1(decl, given, FALSE)}
       \cup (IF comp = 0 THEN {} ELSE UNION {{<<s>> \o r : r \in Top(n - 1, comp - 1, decl, GivenAfterC(s, given))} : s \in CompoundAt(decl, given)})
Programs ==
  {TagBlock(p \o <<[k |-> "ret", e |-> [pure |-> TRUE, fail |-> FALSE, uses |-> u, tag |-> 0]]>>, 1)[1] :
      p \in Top(MaxLen, 1, {}, {}), u \in SUBSET Vars}

\* ---------------------------------------------------------------- the model: one state per program
VARIABLES prog, outp
vars == <<prog, outp>>
Init == /\ prog \in {q \in Programs : Valid(q, {}, {}) /\ (LoopCarried \/ ~Carried(q))}
        /\ outp = Dce(prog)
Next == UNCHANGED vars
Spec == Init /\ [][Next]_vars

\* the tags whose truth matters: values that can reach a condition
RECURSIVE Flatten(_)
Flatten(ss) == IF ss = <<>> THEN <<>> ELSE
  LET s == Head(ss) IN
  (CASE s.k = "if" -> <<s>> \o Flatten(s.t) \o Flatten(s.f) [] s.k = "loop" -> <<s>> \o Flatten(s.b) [] OTHER -> <<s>>) \o Flatten(Tail(ss))
CondVars(p) == LET f == Flatten(p) IN {f[i].c : i \in {j \in DOMAIN f : f[j].k = "if"}}
CondTags(p) == LET f == Flatten(p) IN {f[i].e.tag : i \in {j \in DOMAIN f : f[j].k \in {"decl", "asg"} /\ f[j].x \in CondVars(p)}}
SameEffects == \A T \in SUBSET CondTags(prog) : Observe(prog, T) = Observe(outp, T)
ValidGo == Valid(outp, {}, {}) /\ NoUnused(outp)
\* the pass is idempotent: a second run changes nothing
Idempotent == Dce(outp) = outp
=============================================================================
