SPECIFICATION Spec
CONSTANTS
  Puncts <- PunctTable
  Keywords <- KeywordTable
  Inputs <- PieceInputs
  MaxChars = 0
  MaxPieces = 3
INVARIANTS Tiles Stable Emit
PROPERTY Terminates
CHECK_DEADLOCK FALSE
