----------------------------- MODULE Artifacts -----------------------------
(***************************************************************************)
(* Separate compilation artifacts of goml (artifact.rs, pipeline/          *)
(* separate.rs, main.rs: check | build | link).                            *)
(*                                                                         *)
(* State: for every package the *source* (interface version, body          *)
(* version) and the two files the CLI writes: <p>.interface and <p>.core.  *)
(* An interface file's content is [pkg, v, deps |-> content of the         *)
(* dependency interfaces it was checked against]; interface_hash is the    *)
(* injective image of that content, so equality of hashes in the code is   *)
(* equality of contents here.  One action per CLI invocation; file         *)
(* corruption and "written by another version" are separate actions.       *)
(*                                                                         *)
(* Shaped like the code:                                                   *)
(*  check_package  = load every dep interface (missing / invalid hash /    *)
(*                   other version => error, nothing written), typecheck,  *)
(*                   write <p>.interface                                   *)
(*  build_package  = same, then write <p>.interface and <p>.core           *)
(*  link_cores     = read_core each input (validate), Main present, every  *)
(*                   dep present in the input set, recorded dep hash =     *)
(*                   hash of the dep's core's interface                    *)
(***************************************************************************)
EXTENDS Integers, Sequences, FiniteSets, TLC, Json

CONSTANTS Pkgs,        \* set of package names, contains "Main"
          Deps,        \* [Pkgs -> SUBSET Pkgs], acyclic
          MaxI,        \* interface edits per package
          MaxB,        \* body edits per package
          MaxCorrupt,  \* corrupt / other-version actions per behaviour
          Depth,       \* history length at which a behaviour is emitted (simulation)
          IfaceKinds,  \* kinds of interface-changing edits (only labels for the replay driver)
          BodyKinds    \* kinds of body-only edits (labels)

VARIABLES srcI,   \* [Pkgs -> Nat]   interface version of the source text
          srcB,   \* [Pkgs -> Nat]   body version of the source text
          iface,  \* [Pkgs -> file]  <p>.interface
          core,   \* [Pkgs -> file]  <p>.core
          against,\* ghost: [Pkgs -> [dep -> content]] what the *core* of p was type-checked against
          ncor,   \* corruptions so far
          last,   \* last action with its verdict (what the CLI must answer)
          hist    \* history (observation only; hidden by VIEW in exhaustive runs)

vars == <<srcI, srcB, iface, core, against, ncor, last, hist>>
view == <<srcI, srcB, iface, core, against, ncor, last>>

None == [none |-> TRUE]
Exists(f) == f # None
\* st: "ok" | "tampered" (a hash-covered field altered, hash not recomputed)
\*           | "otherversion" (format_version / compiler_abi differs, hash consistent)
Good(f) == Exists(f) /\ f.st = "ok"

\* every dependency interface can be loaded: present, hash valid, this format version
CanLoadDeps(p) == \A d \in Deps[p] : Good(iface[d])

Content(p) == [pkg |-> p, v |-> srcI[p], deps |-> [d \in Deps[p] |-> iface[d].c]]

Show(f) == IF f = None THEN "none" ELSE IF f.st # "ok" THEN f.st ELSE ToJson(f.c)

Log(a, p, arg, verdict) ==
  /\ last' = [a |-> a, p |-> p, verdict |-> verdict, S |-> IF a = "Link" THEN arg ELSE {}]
  /\ hist' = IF Depth = 0 THEN hist ELSE Append(hist, [a |-> a, p |-> p, arg |-> arg, expect |-> verdict,
                           ifaces |-> [q \in Pkgs |-> Show(iface'[q])],
                           cores  |-> [q \in Pkgs |-> Show(core'[q])]])

EditI(p, kind) ==
  /\ srcI[p] < MaxI
  /\ srcI' = [srcI EXCEPT ![p] = @ + 1]
  /\ UNCHANGED <<srcB, iface, core, against, ncor>>
  /\ Log("EditI", p, kind, "ok")

EditB(p, kind) ==
  /\ srcB[p] < MaxB
  /\ srcB' = [srcB EXCEPT ![p] = @ + 1]
  /\ UNCHANGED <<srcI, iface, core, against, ncor>>
  /\ Log("EditB", p, kind, "ok")

Check(p) ==
  IF CanLoadDeps(p)
  THEN /\ iface' = [iface EXCEPT ![p] = [c |-> Content(p), st |-> "ok"]]
       /\ UNCHANGED <<srcI, srcB, core, against, ncor>>
       /\ Log("Check", p, "", "ok")
  ELSE /\ UNCHANGED <<srcI, srcB, iface, core, against, ncor>>
       /\ Log("Check", p, "", "fail")

Build(p) ==
  IF CanLoadDeps(p)
  THEN /\ iface' = [iface EXCEPT ![p] = [c |-> Content(p), st |-> "ok"]]
       /\ core' = [core EXCEPT ![p] = [c |-> Content(p), body |-> srcB[p], st |-> "ok"]]
       /\ against' = [against EXCEPT ![p] = [d \in Deps[p] |-> iface[d].c]]
       /\ UNCHANGED <<srcI, srcB, ncor>>
       /\ Log("Build", p, "", "ok")
  ELSE /\ UNCHANGED <<srcI, srcB, iface, core, against, ncor>>
       /\ Log("Build", p, "", "fail")

\* what link_cores decides for the set S of supplied core files
LinkOK(S) ==
  /\ \A p \in S : Good(core[p])
  /\ "Main" \in S
  /\ \A p \in S : \A d \in Deps[p] : d \in S /\ core[p].c.deps[d] = core[d].c

Link(S) ==
  /\ UNCHANGED <<srcI, srcB, iface, core, against, ncor>>
  /\ Log("Link", "all", S, IF LinkOK(S) THEN "ok" ELSE "fail")

\* a file on disk is altered (kind "tampered") or replaced by one another compiler version wrote
Corrupt(p, which, kind) ==
  /\ ncor < MaxCorrupt
  /\ ncor' = ncor + 1
  /\ IF which = "interface"
     THEN /\ Good(iface[p])
          /\ iface' = [iface EXCEPT ![p] = [@ EXCEPT !.st = kind]]
          /\ core' = core
     ELSE /\ Good(core[p])
          /\ core' = [core EXCEPT ![p] = [@ EXCEPT !.st = kind]]
          /\ iface' = iface
  /\ UNCHANGED <<srcI, srcB, against>>
  /\ Log("Corrupt", p, [which |-> which, kind |-> kind], "ok")

Init ==
  /\ srcI = [p \in Pkgs |-> 0] /\ srcB = [p \in Pkgs |-> 0]
  /\ iface = [p \in Pkgs |-> None] /\ core = [p \in Pkgs |-> None]
  /\ against = [p \in Pkgs |-> [d \in Deps[p] |-> None]]
  /\ ncor = 0
  /\ last = [a |-> "Init", p |-> "", verdict |-> "ok", S |-> {}]
  /\ hist = <<>>

LinkSets == {S \in SUBSET Pkgs : S # {}}

Next ==
  \/ \E p \in Pkgs : \E k \in IfaceKinds : EditI(p, k)
  \/ \E p \in Pkgs : \E k \in BodyKinds : EditB(p, k)
  \/ \E p \in Pkgs : Check(p) \/ Build(p)
  \/ \E S \in LinkSets : Link(S)
  \/ \E p \in Pkgs : \E w \in {"interface", "core"} : \E k \in {"tampered", "otherversion"} : Corrupt(p, w, k)

Spec == Init /\ [][Next]_vars

-----------------------------------------------------------------------------
(* Properties (C15).                                                       *)

\* A successful link combined only cores that were built against exactly the interface that the
\* linked core of each dependency exports (ghost `against` is recorded at build time, independently
\* of the hash fields LinkOK inspects), and no altered / foreign-version file took part.
LinkSafe ==
  (last.a = "Link" /\ last.verdict = "ok") =>
     LET S == last.S IN
        /\ "Main" \in S
        /\ \A p \in S : Exists(core[p]) /\ core[p].st = "ok"
        /\ \A p \in S : \A d \in Deps[p] : d \in S /\ against[p][d] = core[d].c

\* stronger, state-level form: whenever the link test passes for S, the ghost agrees
LinkSafeAll ==
  \A S \in LinkSets : LinkOK(S) => \A p \in S : \A d \in Deps[p] : against[p][d] = core[d].c

\* interface content (= hash) is a function of the interface version and the dependency contents only
BodyOnlyKeepsHash ==
  \A p \in Pkgs : Good(core[p]) => core[p].c.pkg = p /\ core[p].c.v <= srcI[p]

\* an interface edit followed by a rebuild of the edited package makes every core that was built
\* against the old interface unlinkable together with the new one
StaleUnlinkable ==
  \A S \in LinkSets : \A p \in S : \A d \in Deps[p] :
     (d \in S /\ Good(core[p]) /\ Good(core[d]) /\ against[p][d] # core[d].c) => ~LinkOK(S)

\* altered or foreign-version files never take part in a successful step
CorruptRejected ==
  /\ \A S \in LinkSets : (\E p \in S : Exists(core[p]) /\ core[p].st # "ok") => ~LinkOK(S)
  /\ \A p \in Pkgs : (\E d \in Deps[p] : Exists(iface[d]) /\ iface[d].st # "ok") => ~CanLoadDeps(p)

TypeOK ==
  /\ srcI \in [Pkgs -> 0..MaxI] /\ srcB \in [Pkgs -> 0..MaxB]
  /\ ncor \in 0..MaxCorrupt

-----------------------------------------------------------------------------
(* Behaviour export for the replay driver (simulation mode).               *)
Emit == Len(hist) = Depth => PrintT(<<"HIST", ToJson(hist)>>)
Bound == Len(hist) <= Depth
=============================================================================
