------------------------------- MODULE Tokens -------------------------------
(***************************************************************************)
(* Generator of syntactic inputs for C04: every sequence of at most MaxLen *)
(* tokens over goml's token alphabet, placed in every syntactic context in  *)
(* which the parser starts a different sub-grammar (items, statements,      *)
(* expressions, types, patterns, generic parameter lists, struct bodies,    *)
(* call arguments, closure parameters).  One state per input; the driver    *)
(* joins the tokens with blanks and hands the text to the real pipeline.    *)
(***************************************************************************)
EXTENDS Integers, Sequences, FiniteSets, TLC, Json

CONSTANTS Alphabet,   \* sequence of token spellings
          MaxLen,
          Contexts    \* set of context names

VARIABLES ctx, toks
vars == <<ctx, toks>>

Init == ctx \in Contexts /\ toks = <<>>
Extend == Len(toks) < MaxLen /\ \E i \in DOMAIN Alphabet : toks' = Append(toks, Alphabet[i]) /\ UNCHANGED ctx
Next == Extend
Spec == Init /\ [][Next]_vars

\* number of inputs the bound covers (checked against what the driver received)
RECURSIVE Pow(_, _)
Pow(b, e) == IF e = 0 THEN 1 ELSE b * Pow(b, e - 1)
RECURSIVE Count(_)
Count(n) == IF n < 0 THEN 0 ELSE Pow(Len(Alphabet), n) + Count(n - 1)
Expected == Cardinality(Contexts) * Count(MaxLen)

Emit == PrintT(<<"TOKENS", ToJson([ctx |-> ctx, toks |-> toks])>>)
=============================================================================
