SPECIFICATION Spec
CONSTANTS
  Pkgs <- Fan3
  Deps <- Fan3Deps
  MaxI = 1
  MaxB = 0
  MaxCorrupt = 1
  Depth = 0
  IfaceKinds <- OneKind
  BodyKinds <- OneKind
VIEW view
INVARIANTS TypeOK LinkSafe LinkSafeAll BodyOnlyKeepsHash StaleUnlinkable CorruptRejected
CHECK_DEADLOCK FALSE
