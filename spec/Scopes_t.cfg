SPECIFICATION Spec
CONSTANTS
  Names <- N2
  MaxToks = 7
  MaxDepth = 3
  ScopedKinds <- AllKinds
INVARIANTS StackIsLexical NoLeak ImplIsLexical Emit
CHECK_DEADLOCK FALSE
