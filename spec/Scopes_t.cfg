SPECIFICATION Spec
CONSTANTS
  Names <- N2
  MaxToks = 6
  MaxDepth = 3
  ScopedKinds <- AllKinds
INVARIANTS StackIsLexical NoLeak ImplIsLexical Emit
CHECK_DEADLOCK FALSE
