INIT Init
NEXT Next
CONSTANTS
  MaxNodes = 2
  BinOps <- OneBin
  Sample = 0
INVARIANTS RoundTrip Emit
CHECK_DEADLOCK FALSE
