SPECIFICATION Spec
CONSTANTS
  Fns <- F3
  MaxDepth = 1
  Dedup = TRUE
  NameFn <- GoodName
INVARIANTS Once Complete Injective NoDivergeIfFinite
PROPERTY Terminates
CHECK_DEADLOCK FALSE
