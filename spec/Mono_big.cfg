SPECIFICATION Spec
CONSTANTS
  Fns <- F3
  MaxDepth = 2
  Dedup = TRUE
  NameFn <- GoodName
INVARIANTS Once Complete Injective NoDivergeIfFinite
CHECK_DEADLOCK FALSE
