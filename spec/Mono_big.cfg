SPECIFICATION Spec
CONSTANTS
  Fns <- F3
  MaxDepth = 1
  Dedup = TRUE
  NameFn <- GoodName
INVARIANTS Once OnceEquiv Complete Injective DoneIffFinite Bookkeeping
\* safety only: 23.7 M distinct states; the liveness property is checked in Mono_small.cfg (F2, depth 2) and Mono_deep.cfg (F2, depth 4)
CHECK_DEADLOCK FALSE
