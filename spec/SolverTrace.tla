------------------------------ MODULE SolverTrace ------------------------------
(***************************************************************************)
(* Trace validation of the real constraint loop against Solver.tla.  The    *)
(* hook in Typer::solve (--cfg goml_verif) reports, for every call, the      *)
(* pending constraints by kind at the start ("solve_start") and after every  *)
(* round together with the round's `changed` flag ("solve_round").  The      *)
(* recorded numbers are the totals of Solver.tla's state (known + unknown    *)
(* receivers), so a round is checked through what Solver.tla proves of its   *)
(* Round action: deferred constraints only disappear, new TypeEquals come    *)
(* only from resolved Overloaded constraints, a round that reports a change  *)
(* makes the measure M smaller (Progress), and the loop runs another round   *)
(* only after a change.  IOEnv.SOLVER holds the events of many programs      *)
(* ("reset" starts a program).                                               *)
(***************************************************************************)
EXTENDS Solver, Sequences, Json, IOUtils

Rec == ndJsonDeserialize(IOEnv.SOLVER)
VARIABLES l, bad, calls
all == <<vars, l, bad, calls>>
Ev == Rec[l]
IsEvent(e) == l <= Len(Rec) /\ Ev.ev = e /\ l' = l + 1
Over == overK + overU
Field == fieldK + fieldU

TInit == /\ l = 1 /\ bad = 0 /\ calls = 0
         /\ eq = 0 /\ overK = 0 /\ overU = 0 /\ fieldK = 0 /\ fieldU = 0 /\ changed = FALSE /\ running = FALSE /\ rounds = 0
TReset == IsEvent("reset") /\ running' = FALSE /\ changed' = FALSE /\ UNCHANGED <<eq, overK, overU, fieldK, fieldU, rounds, bad, calls>>
\* a call of solve: only when no loop is still entitled to another round
TStart == /\ IsEvent("solve_start") /\ ~(running /\ changed)
          /\ eq' = Ev.eq /\ overK' = Ev.over /\ overU' = 0 /\ fieldK' = Ev.field /\ fieldU' = 0
          /\ changed' = TRUE /\ running' = TRUE /\ rounds' = 0 /\ calls' = calls + 1 /\ UNCHANGED bad
TRound == /\ IsEvent("solve_round") /\ running /\ changed
          /\ Ev.over <= Over /\ Ev.field <= Field /\ Ev.eq <= Over - Ev.over
          /\ (Ev.changed => 2 * (Ev.over + Ev.field) + Ev.eq < M)
          /\ eq' = Ev.eq /\ overK' = Ev.over /\ overU' = 0 /\ fieldK' = Ev.field /\ fieldU' = 0
          /\ changed' = Ev.changed /\ running' = TRUE /\ rounds' = rounds + 1 /\ UNCHANGED <<bad, calls>>
Accept == TReset \/ TStart \/ TRound
NextReset(k) == LET S == {j \in k..Len(Rec) : Rec[j].ev = "reset"} IN IF S = {} THEN Len(Rec) + 1 ELSE CHOOSE j \in S : \A j2 \in S : j <= j2
Reject == /\ l <= Len(Rec) /\ ~ENABLED Accept
          /\ PrintT(<<"SOLVERREJECT", ToJson([at |-> l, ev |-> Ev, eq |-> eq, over |-> Over, field |-> Field, changed |-> changed, running |-> running])>>)
          /\ l' = NextReset(l + 1) /\ bad' = bad + 1 /\ UNCHANGED <<vars, calls>>
TNext == Accept \/ Reject
Finished == l = Len(Rec) + 1 => PrintT(<<"SOLVERDONE", ToJson([events |-> Len(Rec), rejected |-> bad, calls |-> calls])>>)
=============================================================================
