------------------------------- MODULE Scopes -------------------------------
(***************************************************************************)
(* Lexical scoping of goml locals (typer/name_resolution.rs:                *)
(* ResolveLocalEnv, resolve_expr, resolve_pat, resolve_closure_param).      *)
(*                                                                          *)
(* The machine *writes* function bodies token by token:                     *)
(*    Let(x)        let x = <id>;                                           *)
(*    Use(x)        a use of x                                              *)
(*    Open(k, x)    opens a block of kind k; kinds "arm" and "closure"      *)
(*                  bind x (pattern variable / closure parameter) for the   *)
(*                  block; "block" (if/else branch, while body, plain       *)
(*                  block) binds nothing                                    *)
(*    NextArm(x)    ends the current match arm and starts the next arm of   *)
(*                  the same match, binding x                               *)
(*    Close         closes the innermost open block                         *)
(* and carries three resolutions of every use:                              *)
(*    res   by the scope stack (the specification, innermost binding wins)  *)
(*    impl  by the implementation-shaped environment: one growing vector    *)
(*          searched from the back, copied (enter_scope) only when a block  *)
(*          of a kind in ScopedKinds is entered                             *)
(*    Decl  declaratively from the token list (block paths), as an          *)
(*          independent definition of "lexical"                             *)
(* Binder ids are 1,2,.. in order of introduction; 0 = unbound; the         *)
(* function parameter `p` has id 1.                                         *)
(***************************************************************************)
EXTENDS Integers, Sequences, FiniteSets, TLC, Json, SequencesExt

CONSTANTS Names,        \* identifiers that may be bound and used, e.g. {"x","y"}
          MaxToks,      \* bound on the token count
          MaxDepth,     \* bound on block nesting
          ScopedKinds   \* block kinds for which the implementation copies its environment

Kinds == {"block", "arm", "closure"}

VARIABLES toks,    \* Seq of [t, x, k, id, res]
          stack,   \* Seq of scopes; scope = Seq of <<name, id>>, innermost last
          impl,    \* implementation environment: Seq of <<name, id>>
          saved,   \* Seq of saved implementation environments (one per open block; <<>> marker when not copied)
          kinds,   \* Seq of the kinds of the open blocks
          nextId

vars == <<toks, stack, impl, saved, kinds, nextId>>

\* ------------------------------------------------------------------ stack resolution (specification)
RECURSIVE FindIn(_, _)
FindIn(scope, x) ==   \* most recent binding of x in one scope, 0 if none
  IF scope = <<>> THEN 0
  ELSE IF Last(scope)[1] = x THEN Last(scope)[2] ELSE FindIn(Front(scope), x)

RECURSIVE Lookup(_, _)
Lookup(stk, x) ==
  IF stk = <<>> THEN 0
  ELSE LET r == FindIn(Last(stk), x) IN IF r # 0 THEN r ELSE Lookup(Front(stk), x)

ImplLookup(env, x) == FindIn(env, x)

\* ------------------------------------------------------------------ actions
Let(x) ==
  /\ Len(toks) < MaxToks
  /\ toks' = Append(toks, [t |-> "let", x |-> x, k |-> "", id |-> nextId, res |-> 0, ires |-> 0])
  /\ stack' = [stack EXCEPT ![Len(stack)] = Append(@, <<x, nextId>>)]
  /\ impl' = Append(impl, <<x, nextId>>)
  /\ nextId' = nextId + 1
  /\ UNCHANGED <<saved, kinds>>

Use(x) ==
  /\ Len(toks) < MaxToks
  /\ toks' = Append(toks, [t |-> "use", x |-> x, k |-> "", id |-> 0,
                           res |-> Lookup(stack, x), ires |-> ImplLookup(impl, x)])
  /\ UNCHANGED <<stack, impl, saved, kinds, nextId>>

Open(k, x) ==
  /\ Len(toks) + 1 < MaxToks          \* room for the matching Close
  /\ Len(stack) <= MaxDepth
  /\ LET binds == k \in {"arm", "closure"} IN
     /\ toks' = Append(toks, [t |-> "open", x |-> IF binds THEN x ELSE "", k |-> k,
                              id |-> IF binds THEN nextId ELSE 0, res |-> 0, ires |-> 0])
     /\ stack' = Append(stack, IF binds THEN << <<x, nextId>> >> ELSE <<>>)
     \* implementation: enter_scope() = work on a copy, i.e. remember the environment to restore at Close
     /\ saved' = Append(saved, IF k \in ScopedKinds THEN [copied |-> TRUE, env |-> impl] ELSE [copied |-> FALSE, env |-> <<>>])
     /\ impl' = IF binds THEN Append(impl, <<x, nextId>>) ELSE impl
     /\ nextId' = IF binds THEN nextId + 1 ELSE nextId
     /\ kinds' = Append(kinds, k)

\* the next arm of the innermost open match: the previous arm's scope ends, a new one (binding x) begins
NextArm(x) ==
  /\ Len(stack) > 1 /\ Last(kinds) = "arm"
  /\ Len(toks) + 1 < MaxToks
  /\ toks' = Append(toks, [t |-> "arm", x |-> x, k |-> "arm", id |-> nextId, res |-> 0, ires |-> 0])
  /\ stack' = [stack EXCEPT ![Len(stack)] = << <<x, nextId>> >>]
  /\ impl' = Append(IF Last(saved).copied THEN Last(saved).env ELSE impl, <<x, nextId>>)
  /\ nextId' = nextId + 1
  /\ UNCHANGED <<saved, kinds>>

Close ==
  /\ Len(stack) > 1
  /\ toks' = Append(toks, [t |-> "close", x |-> "", k |-> "", id |-> 0, res |-> 0, ires |-> 0])
  /\ stack' = Front(stack)
  /\ impl' = IF Last(saved).copied THEN Last(saved).env ELSE impl
  /\ saved' = Front(saved)
  /\ kinds' = Front(kinds)
  /\ UNCHANGED nextId

Init ==
  /\ toks = <<>>
  /\ stack = << << <<"p", 1>> >> >>       \* the function parameter p
  /\ impl = << <<"p", 1>> >>
  /\ saved = <<>>
  /\ kinds = <<>>
  /\ nextId = 2

Next ==
  \/ \E x \in Names : Let(x) \/ Use(x)
  \/ \E x \in Names : \E k \in {"arm", "closure"} : Open(k, x)
  \/ Open("block", "")
  \/ \E x \in Names : NextArm(x)
  \/ Close

Spec == Init /\ [][Next]_vars

\* ------------------------------------------------------------------ declarative definition of lexical scope
\* Path(i): the sequence of indices of the open tokens whose block contains position i
RECURSIVE PathAt(_, _)
PathAt(ts, i) ==   \* path in effect just *before* token i is processed
  IF i = 1 THEN <<>>
  ELSE LET p == PathAt(ts, i - 1) t == ts[i - 1] IN
       IF t.t = "open" THEN Append(p, i - 1)
       ELSE IF t.t = "arm" THEN Append(Front(p), i - 1)
       ELSE IF t.t = "close" THEN Front(p)
       ELSE p
IsPrefix2(a, b) == Len(a) <= Len(b) /\ SubSeq(b, 1, Len(a)) = a
\* block in which the binder introduced at token j lives
BinderPath(ts, j) == IF ts[j].t = "open" THEN Append(PathAt(ts, j), j)
                     ELSE IF ts[j].t = "arm" THEN Append(Front(PathAt(ts, j)), j)
                     ELSE PathAt(ts, j)
Binders(ts, x, i) == {j \in 1..(i - 1) : ts[j].id # 0 /\ ts[j].x = x /\ IsPrefix2(BinderPath(ts, j), PathAt(ts, i))}
Decl(ts, i) ==
  LET B == Binders(ts, ts[i].x, i) IN
  IF B # {} THEN ts[CHOOSE j \in B : \A h \in B : h <= j].id
  ELSE IF ts[i].x = "p" THEN 1 ELSE 0

Uses == {i \in 1..Len(toks) : toks[i].t = "use"}

\* the scope stack implements lexical scoping (C05 on the specification itself)
StackIsLexical == \A i \in Uses : toks[i].res = Decl(toks, i)
\* a binding never leaks out of its block and never changes an earlier resolution (implied by the above, kept explicit)
NoLeak == \A i \in Uses : toks[i].res # 0 =>
             \/ \E j \in 1..(i - 1) : toks[j].id = toks[i].res /\ IsPrefix2(BinderPath(toks, j), PathAt(toks, i))
             \/ toks[i].res = 1
\* the implementation-shaped environment agrees with the specification (holds iff ScopedKinds = Kinds)
ImplIsLexical == \A i \in Uses : toks[i].ires = toks[i].res

\* ------------------------------------------------------------------ export of complete programs
Complete == Len(stack) = 1 /\ Uses # {}
Emit == Complete => PrintT(<<"PROG", ToJson(toks)>>)
=============================================================================
