SPECIFICATION Spec
CONSTANTS
  Names <- N2
  MaxToks = 6
  MaxDepth = 2
  ScopedKinds <- OnlyClosure
INVARIANTS StackIsLexical NoLeak ImplIsLexical
CHECK_DEADLOCK FALSE
