--------------------------- MODULE PipelineTrace ---------------------------
(***************************************************************************)
(* Validates recorded outcomes of the real entry points against the        *)
(* Pipeline contract.  IOEnv.RUNS is an ndjson file, one run per line:      *)
(*   [id, entry, verdict, err_stages (set of stages with an error           *)
(*    diagnostic), n_err, bad_pos (diagnostic ranges outside the text or    *)
(*    off a character boundary), has_output]                                *)
(* verdict is what the harness saw: a stage name, "ok", or "panic" /        *)
(* "timeout" / "signal" - which no behaviour of Pipeline.tla produces.      *)
(***************************************************************************)
EXTENDS Pipeline, Json, IOUtils

Runs == ndJsonDeserialize(IOEnv.RUNS)

VARIABLE i
TInit == i = 0 /\ at = 1 /\ errors = <<>> /\ warnings = 0 /\ result = Running
TNext == i < Len(Runs) /\ i' = i + 1 /\ UNCHANGED vars

ToSet(s) == {s[k] : k \in DOMAIN s}
\* in-process runs of pipeline::compile are judged stage by stage; runs of the command-line entry points (run, check, build,
\* link) by what a user sees: exit status 0, or a non-zero status together with a message; calls of the web playground's
\* functions (entry "web": execute, compile_to_core / mono / anf / go, get_cst / ast / tast of crates/wasm-app) by the
\* string they return: a result, or a text that starts with "error"
Allowed(r) ==
  IF r.entry = "compile" THEN Outcomes(r.verdict, ToSet(r.err_stages))
  ELSE \/ r.verdict = "ok"
       \/ r.verdict = "rejected" /\ ToSet(r.err_stages) = {"message"}
\* what the harness records when a run ends without a result: a caught panic, the time bound, death by a signal, death of
\* the process (abort on stack or memory exhaustion)
NoResult == {"panic", "timeout", "signal", "abort"}
Problems(r) ==
  (IF r.verdict \in NoResult THEN {"no-result:" \o r.verdict} ELSE {})
  \cup (IF r.verdict \notin NoResult /\ ~Allowed(r)
        THEN {IF r.verdict = "ok" THEN "ok-with-error-diagnostics"
              ELSE IF r.n_err = 0 THEN "rejected-without-error-diagnostic" ELSE "diagnostic-of-another-stage"} ELSE {})
  \cup (IF r.bad_pos > 0 THEN {"diagnostic-position-outside-text"} ELSE {})
  \cup (IF r.verdict = "ok" /\ ~r.has_output THEN {"ok-without-output"} ELSE {})

Report == i > 0 /\ Problems(Runs[i]) # {} => PrintT(<<"RUN", ToJson([id |-> Runs[i].id, problems |-> Problems(Runs[i])])>>)
Done == i = Len(Runs) => PrintT(<<"RUNSDONE", ToJson([n |-> Len(Runs)])>>)
=============================================================================
