------------------------------ MODULE MCTokens ------------------------------
EXTENDS Tokens
FullAlphabet == <<"(", ")", "{", "}", "[", "]", "=", ";", ",", "::", ":", "->", "=>", "+", "-", "*", "/", ".", "&&", "||", "|", "!",
                  "<", ">", ">=", "<=", "==", "!=", "#", "extern", "package", "import", "fn", "trait", "impl", "for", "enum", "struct",
                  "type", "match", "if", "else", "let", "in", "return", "go", "while", "dyn", "true", "false", "_", "unit", "bool",
                  "int32", "string", "array", "x", "Foo", "1", "1.5", "2i8", "\"s\"", "Vec", "Self", "self">>
\* the tokens after which the parser's recovery paths differ most (used with MaxLen = 3)
CoreAlphabet == <<"(", ")", "{", "}", "[", "]", "=", ";", ",", "::", ":", "->", "=>", "-", ".", "|", "!", "<", "#",
                  "fn", "impl", "for", "enum", "struct", "match", "if", "else", "let", "go", "while", "dyn", "_", "int32", "x", "Foo", "1", "\"s\"">>
AllContexts == {"top", "body", "expr", "type", "pat", "generics", "fields", "args", "closure", "variant", "implbody", "traitbody"}
=============================================================================
