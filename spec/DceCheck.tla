------------------------------ MODULE DceCheck ------------------------------
(* Evaluates Dce.tla's relation on recorded runs of the real pass: IOEnv.DCE is an ndjson file, one record per accepted    *)
(* program: [name, pre (the Go program handed to eliminate_dead_vars, parsed), post (the Go program the compiler emitted)]. *)
EXTENDS Dce, Json, IOUtils

Recs == ndJsonDeserialize(IOEnv.DCE)
VARIABLE i
Init == i = 0
Next == i < Len(Recs) /\ i' = i + 1

SetToSeq(S) == LET RECURSIVE go(_) go(T) == IF T = {} THEN <<>> ELSE LET x == CHOOSE y \in T : TRUE IN <<x>> \o go(T \ {x}) IN go(S)
Detail(r, n) ==
  LET vtA == VarTypes(r.pre) vtB == VarTypes(r.post)
      pure == PureFns(r.pre, vtA) \cap PureFns(r.post, vtB)
  IN [fn |-> n,
      pre |-> IF n \in DOMAIN r.pre.funcs THEN FnSk(r.pre, vtA, pure, n) ELSE <<"(absent)">>,
      post |-> IF n \in DOMAIN r.post.funcs THEN FnSk(r.post, vtB, pure, n) ELSE <<"(absent)">>]
Report == i > 0 =>
  LET r == Recs[i]
      d == Differing(r.pre, r.post)
      dfn == SetToSeq(d \cap DOMAIN r.post.funcs)
      allf == SetToSeq(DOMAIN r.pre.funcs)
      vtA == VarTypes(r.pre)
  IN PrintT(<<"REPORT", ToJson([name |-> r.name, ndiff |-> Cardinality(d),
                                nfuncs |-> Cardinality(DOMAIN r.post.funcs),
                                natoms |-> Len(Flat([k \in DOMAIN allf |-> FnSk(r.pre, vtA, {}, allf[k])])),
                                diffs |-> [k \in DOMAIN dfn |-> Detail(r, dfn[k])],
                                methods |-> SetToSeq(d \ DOMAIN r.post.funcs)])>>)
=============================================================================
