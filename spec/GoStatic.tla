------------------------------ MODULE GoStatic ------------------------------
(* Static rules of the emitted Go subset (what `go build` / `go vet` would    *)
(* reject) as a walk over functions and statements with a scope stack of     *)
(* (declared type, used) cells.  Rule inventory: DESIGN.md Appendix F.        *)
EXTENDS Integers, Sequences, FiniteSets, TLC, Json, IOUtils, IntN

Progs == ndJsonDeserialize(IOEnv.PROGS)

VARIABLES pid, fi, ctl, env, errs, done
vars == <<pid, fi, ctl, env, errs, done>>

P == Progs[pid].ast
Blocks == P.blocks
Max(S) == CHOOSE x \in S : \A y \in S : y <= x

IntTypes == {"int8","int16","int32","int64","uint8","uint16","uint32","uint64","int","uint","byte"}
FloatTypes == {"float32","float64"}
Basic == IntTypes \cup FloatTypes \cup {"string","bool","any"}

TNamed(n) == [k |-> "named", n |-> n]
TUntyped(c) == [k |-> "untyped", c |-> c]
TVoid == [k |-> "void"]
TErr(why) == [k |-> "err", why |-> why]
TBuiltin(n) == [k |-> "builtin", n |-> n]
IsErr(t) == t.k = "err"

Canon(n) == IF n = "byte" THEN "uint8" ELSE n
RECURSIVE Ident(_, _)
Ident(a, b) ==
  IF a.k # b.k THEN FALSE
  ELSE CASE a.k = "named" -> Canon(a.n) = Canon(b.n)
         [] a.k = "unit" -> TRUE
         [] a.k = "ptr" -> Ident(a.e, b.e)
         [] a.k = "slice" -> Ident(a.e, b.e)
         [] a.k = "array" -> a.n = b.n /\ Ident(a.e, b.e)
         [] a.k = "func" -> /\ Len(a.ps) = Len(b.ps) /\ \A i \in DOMAIN a.ps : Ident(a.ps[i], b.ps[i])
                            /\ Len(a.r) = Len(b.r) /\ \A i \in DOMAIN a.r : Ident(a.r[i], b.r[i])
         [] OTHER -> a = b

Declared(n) == n \in DOMAIN P.types
Decl(n) == P.types[n]
IsIface(t) == t.k = "named" /\ (t.n = "any" \/ (Declared(t.n) /\ Decl(t.n).k = "iface"))
MethodsOf(tn) == {P.methods[i].name : i \in {j \in DOMAIN P.methods : P.methods[j].recv.t.k = "named" /\ P.methods[j].recv.t.n = tn}}
Implements(t, it) ==
  IF it.n = "any" THEN TRUE
  ELSE t.k = "named" /\ {Decl(it.n).methods[i].n : i \in DOMAIN Decl(it.n).methods} \subseteq MethodsOf(t.n)

SignedTy(n) == Canon(n) \in {"int8", "int16", "int32", "int64", "int"}
BitsTy(n) == CASE Canon(n) \in {"int8", "uint8"} -> 8 [] Canon(n) \in {"int16", "uint16"} -> 16
               [] Canon(n) \in {"int32", "uint32"} -> 32 [] OTHER -> 64
Representable(v, n) == InRange(BitsTy(n), SignedTy(n), v)        \* exact, on IntN numbers

\* from: type of the value (possibly untyped constant carrying its value), to: target type
Assignable(from, to) ==
  IF from.k = "untyped" THEN
       CASE from.c = "int" -> (to.k = "named" /\ to.n \in IntTypes /\ Representable(from.v, to.n))
                              \/ (to.k = "named" /\ to.n \in FloatTypes) \/ (IsIface(to) /\ Representable(from.v, "int"))
         [] from.c = "float" -> (to.k = "named" /\ to.n \in FloatTypes) \/ IsIface(to)
         [] from.c = "string" -> (to.k = "named" /\ to.n = "string") \/ IsIface(to)
         [] from.c = "bool" -> (to.k = "named" /\ to.n = "bool") \/ IsIface(to)
         [] from.c = "nil" -> to.k \in {"ptr", "slice", "func"} \/ IsIface(to)
         [] OTHER -> FALSE
  ELSE IF Ident(from, to) THEN TRUE
  ELSE IF IsIface(to) THEN Implements(from, to)
  ELSE FALSE

\* ---------------------------------------------------------------- scopes
EmptyScope == [n \in {} |-> 0]
InScope(e, n) == {k \in 1..Len(e) : n \in DOMAIN e[k]}
Bound(e, n) == InScope(e, n) # {}
Cell(e, n) == e[Max(InScope(e, n))][n]
BindIn(e, n, t, exempt) == [e EXCEPT ![Len(e)] = (n :> [t |-> t, used |-> exempt]) @@ @]
MarkUsed(e, n) == IF Bound(e, n) THEN LET k == Max(InScope(e, n)) IN [e EXCEPT ![k] = [@ EXCEPT ![n] = [@ EXCEPT !.used = TRUE]]] ELSE e
RECURSIVE MarkAll(_, _)
MarkAll(e, ns) == IF ns = {} THEN e ELSE LET n == CHOOSE x \in ns : TRUE IN MarkAll(MarkUsed(e, n), ns \ {n})

\* ---------------------------------------------------------------- expressions
RECURSIVE Uses(_)
SeqUnion(f) == UNION {f[i] : i \in DOMAIN f}
Uses(e) ==
  CASE e.k = "id" -> {e.n}
    [] e.k \in {"paren", "un", "assert"} -> Uses(e.e)
    [] e.k = "bin" -> Uses(e.l) \cup Uses(e.r)
    [] e.k = "sel" -> Uses(e.e)
    [] e.k = "idx" -> Uses(e.e) \cup Uses(e.i)
    [] e.k = "lit" -> SeqUnion([i \in DOMAIN e.fs |-> Uses(e.fs[i].e)])
    [] e.k = "arrlit" -> SeqUnion([i \in DOMAIN e.es |-> Uses(e.es[i])])
    [] e.k = "call" -> Uses(e.f) \cup SeqUnion([i \in DOMAIN e.a |-> Uses(e.a[i])])
    [] OTHER -> {}

\* identifiers read somewhere in a block (shadowing ignored: an over-approximation, used only to decide that a name is NOT used)
RECURSIVE BlockUses(_)
StmtUses(s) ==
  CASE s.k = "var" -> SeqUnion([i \in DOMAIN s.init |-> Uses(s.init[i])])
    [] s.k = "assign" -> Uses(s.v)
    [] s.k \in {"expr", "go"} -> Uses(s.e)
    [] s.k = "return" -> SeqUnion([i \in DOMAIN s.e |-> Uses(s.e[i])])
    [] s.k = "fassign" -> Uses(s.o) \cup Uses(s.v)
    [] s.k = "passign" -> Uses(s.p) \cup Uses(s.v)
    [] s.k = "iassign" -> Uses(s.a) \cup Uses(s.i) \cup Uses(s.v)
    [] s.k = "if" -> Uses(s.c) \cup BlockUses(s.then) \cup SeqUnion([i \in DOMAIN s.else |-> BlockUses(s.else[i])])
    [] s.k = "for" -> BlockUses(s.body)
    [] s.k = "switch" -> Uses(s.e) \cup SeqUnion([i \in DOMAIN s.cases |-> Uses(s.cases[i].v) \cup BlockUses(s.cases[i].b)])
                         \cup SeqUnion([i \in DOMAIN s.default |-> BlockUses(s.default[i])])
    [] s.k = "tswitch" -> Uses(s.e) \cup SeqUnion([i \in DOMAIN s.cases |-> BlockUses(s.cases[i].b)])
                          \cup SeqUnion([i \in DOMAIN s.default |-> BlockUses(s.default[i])])
    [] OTHER -> {}
BlockUses(b) == SeqUnion([i \in DOMAIN Blocks[b + 1] |-> StmtUses(Blocks[b + 1][i])])
\* `switch x := e.(type)`: x must be used in at least one clause ("x declared and not used" otherwise)
TsBindUnused(s) == s.bind # <<>> /\ s.bind[1] \notin (SeqUnion([i \in DOMAIN s.cases |-> BlockUses(s.cases[i].b)])
                                                      \cup SeqUnion([i \in DOMAIN s.default |-> BlockUses(s.default[i])]))

FnType(f) == [k |-> "func", ps |-> [i \in DOMAIN f.params |-> f.params[i].t], r |-> f.ret]
FieldIdx(d, fn) == {i \in DOMAIN d.fields : d.fields[i].n = fn}
ValidType(t) == TRUE

IsNumeric(t) == t.k = "named" /\ t.n \in (IntTypes \cup FloatTypes)
Arith == {"+", "-", "*", "/"}
Cmp == {"<", ">", "<=", ">=", "==", "!="}

RECURSIVE TypeOf(_, _)
Unify2(l, r) ==   \* common type of two operands or error
  IF IsErr(l) THEN l ELSE IF IsErr(r) THEN r
  ELSE IF l.k = "untyped" /\ r.k = "untyped" THEN (IF l.c = r.c THEN l ELSE IF {l.c, r.c} = {"int", "float"} THEN TUntyped("float") ELSE TErr("mismatched constants"))
  ELSE IF l.k = "untyped" THEN (IF Assignable(l, r) THEN r ELSE TErr("constant not representable"))
  ELSE IF r.k = "untyped" THEN (IF Assignable(r, l) THEN l ELSE TErr("constant not representable"))
  ELSE IF Ident(l, r) THEN l ELSE TErr("mismatched types")

TypeOf(e, ev) ==
  CASE e.k = "int" -> [k |-> "untyped", c |-> "int", v |-> NFromInt(e.v)]
    [] e.k = "bigint" -> [k |-> "untyped", c |-> "int", v |-> NFromDigits(FALSE, e.digits)]
    [] e.k = "float" -> TUntyped("float")
    [] e.k = "str" -> TUntyped("string")
    [] e.k = "bool" -> TUntyped("bool")
    [] e.k = "nil" -> TUntyped("nil")
    [] e.k = "unitv" -> [k |-> "unit"]
    [] e.k = "paren" -> TypeOf(e.e, ev)
    [] e.k = "id" ->
         IF Bound(ev, e.n) THEN Cell(ev, e.n).t
         ELSE IF e.n \in DOMAIN P.funcs THEN FnType(P.funcs[e.n])
         ELSE IF e.n \in {"len", "append", "panic", "println"} \cup IntTypes \cup FloatTypes \cup {"string"} THEN TBuiltin(e.n)
         ELSE TErr("undefined: " \o e.n)
    [] e.k = "un" ->
         LET t == TypeOf(e.e, ev) IN
         IF IsErr(t) THEN t
         ELSE IF e.op = "-" THEN (IF IsNumeric(t) THEN t ELSE IF t.k = "untyped" /\ t.c = "int" THEN [t EXCEPT !.v = NNeg(t.v)] ELSE IF t.k = "untyped" /\ t.c = "float" THEN t ELSE TErr("operator - on non-number"))
         ELSE IF e.op = "!" THEN (IF (t.k = "named" /\ t.n = "bool") \/ (t.k = "untyped" /\ t.c = "bool") THEN t ELSE TErr("operator ! on non-bool"))
         ELSE IF e.op = "&" THEN (IF e.e.k = "lit" THEN [k |-> "ptr", e |-> t] ELSE TErr("& of non-literal"))
         ELSE TErr("unary operator")
    [] e.k = "bin" ->
         LET l == TypeOf(e.l, ev) r == TypeOf(e.r, ev) u == Unify2(l, r) IN
         IF IsErr(u) THEN u
         ELSE IF e.op \in Arith THEN
              IF e.op = "/" /\ r.k = "untyped" /\ r.c = "int" /\ IsZero(r.v) THEN TErr("division by zero")
              ELSE IF IsNumeric(u) \/ (u.k = "untyped" /\ u.c \in {"int", "float"}) THEN
                   (IF u.k = "untyped" /\ u.c = "int" /\ l.k = "untyped" /\ r.k = "untyped" /\ l.c = "int" /\ r.c = "int" THEN
                        [u EXCEPT !.v = CASE e.op = "+" -> NAdd(l.v, r.v) [] e.op = "-" -> NSub(l.v, r.v) [] e.op = "*" -> NMul(l.v, r.v)
                                          [] OTHER -> NDiv(l.v, r.v)]
                    ELSE u)
              ELSE IF e.op = "+" /\ ((u.k = "named" /\ u.n = "string") \/ (u.k = "untyped" /\ u.c = "string")) THEN u
              ELSE TErr("operator " \o e.op \o " not defined on operand")
         ELSE IF e.op \in Cmp THEN
              IF u.k \in {"slice", "func"} THEN TErr("uncomparable operands") ELSE TNamed("bool")
         ELSE IF e.op \in {"&&", "||"} THEN
              (IF (u.k = "named" /\ u.n = "bool") \/ (u.k = "untyped" /\ u.c = "bool") THEN TNamed("bool") ELSE TErr("logical operator on non-bool"))
         ELSE TErr("binary operator")
    [] e.k = "sel" ->
         IF e.e.k = "id" /\ ~Bound(ev, e.e.n) /\ e.e.n \notin DOMAIN P.funcs /\ \E i \in DOMAIN P.imports : P.imports[i].path = e.e.n THEN
              (IF e.e.n = "fmt" /\ e.f \in {"Sprintf", "Print", "Println"} THEN TBuiltin("fmt." \o e.f) ELSE TErr("unsupported package member"))
         ELSE LET t0 == TypeOf(e.e, ev) IN
              IF IsErr(t0) THEN t0
              ELSE LET t == IF t0.k = "ptr" THEN t0.e ELSE t0 IN
                   IF t.k = "named" /\ Declared(t.n) /\ Decl(t.n).k = "struct" THEN
                        (IF FieldIdx(Decl(t.n), e.f) # {} THEN Decl(t.n).fields[CHOOSE i \in FieldIdx(Decl(t.n), e.f) : TRUE].t
                         ELSE TErr("no field " \o e.f))
                   ELSE TErr("selector on non-struct")
    [] e.k = "idx" ->
         LET t == TypeOf(e.e, ev) i == TypeOf(e.i, ev) IN
         IF IsErr(t) THEN t ELSE IF IsErr(i) THEN i
         ELSE IF ~((i.k = "named" /\ i.n \in IntTypes) \/ (i.k = "untyped" /\ i.c = "int")) THEN TErr("non-integer index")
         ELSE IF i.k = "untyped" /\ NegOf(i.v) THEN TErr("negative constant index")
         ELSE IF t.k = "array" THEN (IF i.k = "untyped" /\ NCmp(i.v, NFromInt(t.n)) >= 0 THEN TErr("constant index out of bounds") ELSE t.e)
         ELSE IF t.k = "slice" THEN t.e
         ELSE IF t.k = "named" /\ t.n = "string" THEN TNamed("uint8")
         ELSE TErr("index of non-indexable")
    [] e.k = "assert" ->
         LET t == TypeOf(e.e, ev) IN
         IF IsErr(t) THEN t ELSE IF ~IsIface(t) THEN TErr("type assertion on non-interface")
         ELSE IF ~Implements(e.t, t) THEN TErr("impossible type assertion") ELSE e.t
    [] e.k = "lit" ->
         IF ~(e.t.k = "named" /\ Declared(e.t.n) /\ Decl(e.t.n).k = "struct") THEN TErr("composite literal of non-struct " \o e.t.n)
         ELSE LET d == Decl(e.t.n)
                  bad == {i \in DOMAIN e.fs : FieldIdx(d, e.fs[i].n) = {} \/ IsErr(TypeOf(e.fs[i].e, ev))
                                              \/ ~Assignable(TypeOf(e.fs[i].e, ev), d.fields[CHOOSE j \in FieldIdx(d, e.fs[i].n) : TRUE].t)}
                  dup == \E i, j \in DOMAIN e.fs : i # j /\ e.fs[i].n = e.fs[j].n IN
              IF bad # {} THEN TErr("bad field " \o e.fs[CHOOSE i \in bad : TRUE].n \o " in literal of " \o e.t.n)
              ELSE IF dup THEN TErr("duplicate field") ELSE e.t
    [] e.k = "arrlit" ->
         LET bad == {i \in DOMAIN e.es : IsErr(TypeOf(e.es[i], ev)) \/ ~Assignable(TypeOf(e.es[i], ev), e.t.e)} IN
         IF bad # {} THEN TErr("bad element in array literal")
         ELSE IF e.t.k = "array" /\ Len(e.es) > e.t.n THEN TErr("too many elements") ELSE e.t
    [] e.k = "call" ->
         LET ft == TypeOf(e.f, ev)
             ats == [i \in DOMAIN e.a |-> TypeOf(e.a[i], ev)] IN
         IF IsErr(ft) THEN ft
         ELSE IF \E i \in DOMAIN ats : IsErr(ats[i]) THEN ats[CHOOSE i \in DOMAIN ats : IsErr(ats[i])]
         ELSE IF ft.k = "func" THEN
              IF Len(ats) # Len(ft.ps) THEN TErr("wrong argument count")
              ELSE IF \E i \in DOMAIN ats : ~Assignable(ats[i], ft.ps[i]) THEN TErr("argument not assignable")
              ELSE IF ft.r = <<>> THEN TVoid ELSE ft.r[1]
         ELSE IF ft.k = "builtin" THEN
              CASE ft.n = "len" -> IF Len(ats) = 1 /\ (ats[1].k \in {"slice", "array"} \/ (ats[1].k = "named" /\ ats[1].n = "string")) THEN TNamed("int") ELSE TErr("len argument")
                [] ft.n = "append" -> IF Len(ats) = 2 /\ ats[1].k = "slice" /\ Assignable(ats[2], ats[1].e) THEN ats[1]
                                      ELSE IF Len(ats) = 2 /\ ats[1].k = "untyped" /\ ats[1].c = "nil" THEN TErr("append to untyped nil") ELSE TErr("append arguments")
                [] ft.n \in {"panic", "println"} -> TVoid
                [] ft.n \in IntTypes -> IF Len(ats) = 1 /\ ((ats[1].k = "named" /\ ats[1].n \in IntTypes) \/ (ats[1].k = "untyped" /\ ats[1].c = "int")) THEN TNamed(ft.n) ELSE TErr("conversion")
                [] ft.n \in FloatTypes -> IF Len(ats) = 1 /\ (IsNumeric(ats[1]) \/ (ats[1].k = "untyped" /\ ats[1].c \in {"int", "float"})) THEN TNamed(ft.n) ELSE TErr("conversion")
                [] ft.n = "string" -> IF Len(ats) = 1 /\ ats[1].k = "named" /\ ats[1].n \in (IntTypes \cup {"string"}) THEN TNamed("string") ELSE TErr("conversion to string")
                [] ft.n = "fmt.Sprintf" -> IF Len(ats) >= 1 THEN TNamed("string") ELSE TErr("Sprintf")
                [] ft.n \in {"fmt.Print", "fmt.Println"} -> TVoid
                [] OTHER -> TErr("builtin")
         ELSE TErr("call of non-function")
    [] OTHER -> TErr("expression kind")

IsValueBuiltinCall(e, ev) ==
  e.k = "call" /\ e.f.k = "id" /\ ~Bound(ev, e.f.n) /\ e.f.n \notin DOMAIN P.funcs /\ e.f.n \in ({"len", "append", "string"} \cup IntTypes \cup FloatTypes)

\* ---------------------------------------------------------------- terminating statements
RECURSIVE Terminating(_), HasBreak(_)
LastOf(b) == Blocks[b + 1][Len(Blocks[b + 1])]
HasBreak(b) == \E i \in DOMAIN Blocks[b + 1] :
                  LET s == Blocks[b + 1][i] IN
                  s.k = "break" \/ (s.k = "if" /\ (HasBreak(s.then) \/ (s.else # <<>> /\ HasBreak(s.else[1]))))
Terminating(b) ==
  IF Blocks[b + 1] = <<>> THEN FALSE
  ELSE LET s == LastOf(b) IN
       CASE s.k = "return" -> TRUE
         [] s.k = "expr" -> s.e.k = "call" /\ s.e.f.k = "id" /\ s.e.f.n = "panic"
         [] s.k = "for" -> ~HasBreak(s.body)
         [] s.k = "if" -> s.else # <<>> /\ Terminating(s.then) /\ Terminating(s.else[1])
         [] s.k \in {"switch", "tswitch"} -> s.default # <<>> /\ Terminating(s.default[1]) /\ \A i \in DOMAIN s.cases : Terminating(s.cases[i].b)
         [] OTHER -> FALSE

\* ---------------------------------------------------------------- the walk
CurFn == P.funcs[P.funcorder[fi]]
Err(why) == Append(errs, [fn |-> P.funcorder[fi], why |-> why])
Push(c, b, kind) == Append(c, [b |-> b, i |-> 1, kind |-> kind])

Unused(sc) == {n \in DOMAIN sc : ~sc[n].used}

StartFn ==
  /\ ~done /\ ctl = <<>> /\ fi <= Len(P.funcorder)
  /\ LET f == CurFn
         sc == [n \in {f.params[i].n : i \in DOMAIN f.params} |-> [t |-> f.params[CHOOSE i \in DOMAIN f.params : f.params[i].n = n].t, used |-> TRUE]] IN
     /\ ctl' = <<[b |-> f.body, i |-> 1, kind |-> "fn"]>> /\ env' = <<sc>>
     \* (Go: "duplicate argument": the parameters of a function are declared in one block; the blank identifier may repeat)
     /\ errs' = IF \E i, j \in DOMAIN f.params : i < j /\ f.params[i].n = f.params[j].n /\ f.params[i].n # "_"
                THEN Err((CHOOSE n \in {f.params[i].n : i \in DOMAIN f.params} : \E i, j \in DOMAIN f.params : i < j /\ f.params[i].n = n /\ f.params[j].n = n) \o " redeclared in this block")
                ELSE IF f.ret # <<>> /\ ~Terminating(f.body) THEN Err("missing return") ELSE errs
     /\ UNCHANGED <<pid, fi, done>>

Advance(c) == [c EXCEPT ![Len(c)] = [@ EXCEPT !.i = @ + 1]]

CheckStmt(s) ==
  LET c1 == Advance(ctl) IN
  CASE s.k = "var" ->
         LET t == IF s.init = <<>> THEN s.t ELSE TypeOf(s.init[1], env)
             e1 == IF s.init = <<>> THEN env ELSE MarkAll(env, Uses(s.init[1]))
             top == env[Len(env)] IN
         /\ errs' = IF s.n \in DOMAIN top THEN Err(s.n \o " redeclared in this block")
                    ELSE IF IsErr(t) THEN Err(t.why)
                    ELSE IF t.k = "void" THEN Err("void used as value")
                    ELSE IF s.init # <<>> /\ ~Assignable(t, s.t) THEN Err("cannot use value in declaration of " \o s.n)
                    ELSE errs
         /\ env' = BindIn(e1, s.n, s.t, FALSE) /\ ctl' = c1 /\ UNCHANGED <<pid, fi, done>>
    [] s.k = "assign" ->
         LET t == TypeOf(s.v, env) IN
         /\ errs' = IF s.n = "_" THEN (IF IsErr(t) THEN Err(t.why) ELSE IF t.k = "void" THEN Err("void used as value")
                                        ELSE IF t.k = "untyped" /\ t.c = "nil" THEN Err("use of untyped nil in assignment") ELSE errs)
                    ELSE IF ~Bound(env, s.n) THEN Err("undefined: " \o s.n)
                    ELSE IF IsErr(t) THEN Err(t.why)
                    ELSE IF t.k = "void" THEN Err("void used as value")
                    ELSE IF ~Assignable(t, Cell(env, s.n).t) THEN Err("cannot use value in assignment to " \o s.n)
                    ELSE errs
         /\ env' = MarkAll(env, Uses(s.v)) /\ ctl' = c1 /\ UNCHANGED <<pid, fi, done>>
    [] s.k = "expr" ->
         LET t == TypeOf(s.e, env) IN
         /\ errs' = IF IsErr(t) THEN Err(t.why)
                    ELSE IF s.e.k # "call" \/ IsValueBuiltinCall(s.e, env) THEN Err("expression is not used")
                    ELSE errs
         /\ env' = MarkAll(env, Uses(s.e)) /\ ctl' = c1 /\ UNCHANGED <<pid, fi, done>>
    [] s.k = "go" ->
         LET t == TypeOf(s.e, env) IN
         /\ errs' = IF IsErr(t) THEN Err(t.why) ELSE IF s.e.k # "call" THEN Err("go needs call") ELSE errs
         /\ env' = MarkAll(env, Uses(s.e)) /\ ctl' = c1 /\ UNCHANGED <<pid, fi, done>>
    [] s.k = "return" ->
         LET f == CurFn IN
         /\ errs' = IF s.e = <<>> THEN (IF f.ret # <<>> THEN Err("not enough return values") ELSE errs)
                    ELSE LET t == TypeOf(s.e[1], env) IN
                         IF f.ret = <<>> THEN Err("too many return values")
                         ELSE IF IsErr(t) THEN Err(t.why)
                         ELSE IF t.k = "void" \/ ~Assignable(t, f.ret[1]) THEN Err("cannot use value in return")
                         ELSE errs
         /\ env' = IF s.e = <<>> THEN env ELSE MarkAll(env, Uses(s.e[1]))
         /\ ctl' = c1 /\ UNCHANGED <<pid, fi, done>>
    [] s.k = "fassign" ->
         LET tgt == TypeOf([k |-> "sel", e |-> s.o, f |-> s.f], env) t == TypeOf(s.v, env) IN
         /\ errs' = IF IsErr(tgt) THEN Err(tgt.why) ELSE IF IsErr(t) THEN Err(t.why)
                    ELSE IF ~Assignable(t, tgt) THEN Err("cannot use value in field assignment") ELSE errs
         /\ env' = MarkAll(env, Uses(s.o) \cup Uses(s.v)) /\ ctl' = c1 /\ UNCHANGED <<pid, fi, done>>
    [] s.k = "iassign" ->
         LET tgt == TypeOf([k |-> "idx", e |-> s.a, i |-> s.i], env) t == TypeOf(s.v, env) IN
         /\ errs' = IF IsErr(tgt) THEN Err(tgt.why) ELSE IF IsErr(t) THEN Err(t.why)
                    ELSE IF ~Assignable(t, tgt) THEN Err("cannot use value in index assignment") ELSE errs
         /\ env' = MarkAll(env, Uses(s.a) \cup Uses(s.i) \cup Uses(s.v)) /\ ctl' = c1 /\ UNCHANGED <<pid, fi, done>>
    [] s.k = "if" ->
         LET t == TypeOf(s.c, env)
             c2 == IF s.else = <<>> THEN Push(c1, s.then, "blk") ELSE Push(Push(c1, s.else[1], "blk"), s.then, "blk")
             e1 == MarkAll(env, Uses(s.c))
             e2 == IF s.else = <<>> THEN Append(e1, EmptyScope) ELSE Append(Append(e1, EmptyScope), EmptyScope) IN
         /\ errs' = IF IsErr(t) THEN Err(t.why) ELSE IF ~((t.k = "named" /\ t.n = "bool") \/ (t.k = "untyped" /\ t.c = "bool")) THEN Err("non-boolean condition") ELSE errs
         /\ ctl' = c2 /\ env' = e2 /\ UNCHANGED <<pid, fi, done>>
    [] s.k = "for" ->
         /\ ctl' = Push(c1, s.body, "loop") /\ env' = Append(env, EmptyScope) /\ UNCHANGED <<pid, fi, errs, done>>
    [] s.k = "break" ->
         /\ errs' = IF \E i \in DOMAIN ctl : ctl[i].kind \in {"loop", "sw"} THEN errs ELSE Err("break outside loop")
         /\ ctl' = c1 /\ UNCHANGED <<pid, fi, env, done>>
    [] s.k = "switch" ->
         LET t == TypeOf(s.e, env)
             bs == [i \in 1..(Len(s.cases) + Len(s.default)) |-> IF i <= Len(s.cases) THEN s.cases[i].b ELSE s.default[1]]
             n == Len(bs)
             c2 == c1 \o [i \in 1..n |-> [b |-> bs[n + 1 - i], i |-> 1, kind |-> "sw"]]
             badcase == {i \in DOMAIN s.cases : IsErr(Unify2(t, TypeOf(s.cases[i].v, env)))}
             dup == \E i, j \in DOMAIN s.cases : i < j /\ s.cases[i].v.k \in {"int", "str"} /\ s.cases[i].v = s.cases[j].v IN
         /\ errs' = IF IsErr(t) THEN Err(t.why) ELSE IF badcase # {} THEN Err("mismatched case type") ELSE IF dup THEN Err("duplicate case") ELSE errs
         /\ ctl' = c2 /\ env' = MarkAll(env, Uses(s.e)) \o [i \in 1..n |-> EmptyScope] /\ UNCHANGED <<pid, fi, done>>
    [] s.k = "tswitch" ->
         LET t == TypeOf(s.e, env)
             n == Len(s.cases) + Len(s.default)
             cty(i) == IF i <= Len(s.cases) THEN s.cases[i].v ELSE t
             blk(i) == IF i <= Len(s.cases) THEN s.cases[i].b ELSE s.default[1]
             c2 == c1 \o [i \in 1..n |-> [b |-> blk(n + 1 - i), i |-> 1, kind |-> "sw"]]
             sc(i) == IF s.bind = <<>> THEN EmptyScope ELSE (s.bind[1] :> [t |-> cty(i), used |-> TRUE, tsbind |-> TRUE])
             imposs == {i \in DOMAIN s.cases : ~IsErr(t) /\ IsIface(t) /\ ~Implements(s.cases[i].v, t)}
             dup == \E i, j \in DOMAIN s.cases : i < j /\ Ident(s.cases[i].v, s.cases[j].v) IN
         /\ errs' = IF IsErr(t) THEN Err(t.why) ELSE IF ~IsIface(t) THEN Err("type switch on non-interface")
                    ELSE IF imposs # {} THEN Err("impossible type switch case") ELSE IF dup THEN Err("duplicate case in type switch")
                    ELSE IF TsBindUnused(s) THEN Err("declared and not used: " \o s.bind[1]) ELSE errs
         /\ ctl' = c2 /\ env' = MarkAll(env, Uses(s.e)) \o [i \in 1..n |-> sc(n + 1 - i)] /\ UNCHANGED <<pid, fi, done>>
    [] OTHER -> /\ errs' = Err("unsupported statement " \o s.k) /\ ctl' = c1 /\ UNCHANGED <<pid, fi, env, done>>

Step ==
  /\ ~done /\ ctl # <<>>
  /\ LET c == ctl[Len(ctl)] stmts == Blocks[c.b + 1] IN
     IF c.i <= Len(stmts) THEN CheckStmt(stmts[c.i])
     ELSE LET sc == env[Len(env)] un == IF c.kind = "fn" THEN Unused(sc) ELSE Unused(sc) IN
          /\ errs' = IF un # {} THEN Err("declared and not used: " \o (CHOOSE n \in un : TRUE)) ELSE errs
          /\ ctl' = SubSeq(ctl, 1, Len(ctl) - 1) /\ env' = SubSeq(env, 1, Len(env) - 1)
          /\ fi' = IF Len(ctl) = 1 THEN fi + 1 ELSE fi
          /\ UNCHANGED <<pid, done>>

\* every type name mentioned by a declaration (struct fields, aliases, interface methods, signatures) is basic, declared, or
\* a member of an imported package
RECURSIVE NamesIn(_)
NamesIn(t) ==
  CASE t.k = "named" -> {t.n}
    [] t.k \in {"ptr", "slice", "array"} -> NamesIn(t.e)
    [] t.k = "func" -> SeqUnion([i \in DOMAIN t.ps |-> NamesIn(t.ps[i])]) \cup SeqUnion([i \in DOMAIN t.r |-> NamesIn(t.r[i])])
    [] OTHER -> {}
DeclNames(d) ==
  CASE d.k = "struct" -> SeqUnion([i \in DOMAIN d.fields |-> NamesIn(d.fields[i].t)])
    [] d.k = "alias" -> NamesIn(d.t)
    [] d.k = "iface" -> SeqUnion([i \in DOMAIN d.methods |-> SeqUnion([j \in DOMAIN d.methods[i].ps |-> NamesIn(d.methods[i].ps[j])])
                                                            \cup SeqUnion([j \in DOMAIN d.methods[i].r |-> NamesIn(d.methods[i].r[j])])])
    [] OTHER -> {}
SigNames(f) == SeqUnion([i \in DOMAIN f.params |-> NamesIn(f.params[i].t)]) \cup SeqUnion([i \in DOMAIN f.ret |-> NamesIn(f.ret[i])])
\* qualified names (time.Time) are members of imported packages; the parser lists them in the record
QualifiedNames == IF "qualtypes" \in DOMAIN Progs[pid] THEN {Progs[pid].qualtypes[i] : i \in DOMAIN Progs[pid].qualtypes} ELSE {}
\* a qualified type name needs its package imported (`type Time = time.Time` without `import "time"` is "undefined: time")
QualPkgs == IF "qualpkgs" \in DOMAIN Progs[pid] THEN {Progs[pid].qualpkgs[i] : i \in DOMAIN Progs[pid].qualpkgs} ELSE {}
ImportNames == IF "importnames" \in DOMAIN Progs[pid] THEN {Progs[pid].importnames[i] : i \in DOMAIN Progs[pid].importnames} ELSE QualPkgs
KnownTypeName(n) == n \in Basic \/ n \in DOMAIN P.types \/ n = "error"
UndeclaredTypeNames ==
  {n \in UNION {DeclNames(P.types[d]) : d \in DOMAIN P.types} \cup UNION {SigNames(P.funcs[f]) : f \in DOMAIN P.funcs}
            \cup UNION {SigNames(P.methods[i]) : i \in DOMAIN P.methods} : ~KnownTypeName(n)}

Finish ==
  /\ ~done /\ ctl = <<>> /\ fi > Len(P.funcorder)
  /\ done' = TRUE
  /\ errs' = LET unusedimp == {i \in DOMAIN P.imports : P.imports[i].path \notin {Progs[pid].pkguse[j] : j \in DOMAIN Progs[pid].pkguse}}
                 dupnames == \E n \in DOMAIN P.types : n \in DOMAIN P.funcs
                 undecl == {n \in UndeclaredTypeNames : n \notin QualifiedNames}
             IN
             IF unusedimp # {} THEN Append(errs, [fn |-> "", why |-> "imported and not used"])
             ELSE IF dupnames THEN Append(errs, [fn |-> "", why |-> "name declared as type and func"])
             ELSE IF undecl # {} THEN Append(errs, [fn |-> "", why |-> "undefined: " \o (CHOOSE n \in undecl : TRUE)])
             ELSE IF QualPkgs \ ImportNames # {} THEN Append(errs, [fn |-> "", why |-> "undefined: " \o (CHOOSE n \in QualPkgs \ ImportNames : TRUE)]) ELSE errs
  /\ UNCHANGED <<pid, fi, ctl, env>>

Init == pid \in 1..Len(Progs) /\ fi = 1 /\ ctl = <<>> /\ env = <<>> /\ errs = <<>> /\ done = FALSE
Next == StartFn \/ Step \/ Finish
Spec == Init /\ [][Next]_vars
Report == done => PrintT(<<"REPORT", ToJson([name |-> Progs[pid].name, nerr |-> Len(errs), errs |-> errs])>>)
=============================================================================
