-------------------------------- MODULE Unify --------------------------------
(***************************************************************************)
(* The unifier of the type checker (crates/compiler/src/typer/unify.rs:     *)
(* Typer::norm, occurs, Typer::unify) as a state machine over a store of    *)
(* type-variable bindings, shaped like the code:                            *)
(*   - both sides are normalised against the store first (`norm`);          *)
(*   - variable / variable joins the two classes, variable / type runs the  *)
(*     occurs check on the normalised type and binds;                       *)
(*   - equal constructors descend left to right and stop at the first       *)
(*     failure; bindings made before the failure stay (no rollback);        *)
(*   - array lengths agree when equal or when one of them is the wildcard   *)
(*     length (ARRAY_WILDCARD_LEN) - a named deviation from equality;       *)
(*   - a type parameter only unifies with itself.                           *)
(* A type is a record [k, n, v, a]: kind, name, number (variable id / array *)
(* length), children.  The same operators judge the calls the real unifier  *)
(* made (UnifyTrace.tla).                                                   *)
(***************************************************************************)
EXTENDS Integers, Sequences, FiniteSets, TLC

W == -1                                    \* the wildcard array length
Var(v) == [k |-> "var", n |-> "", v |-> v, a |-> <<>>]
Prim(n) == [k |-> "prim", n |-> n, v |-> 0, a |-> <<>>]
Par(n) == [k |-> "param", n |-> n, v |-> 0, a |-> <<>>]
Tup(a) == [k |-> "tuple", n |-> "", v |-> 0, a |-> a]
Fn(ps, r) == [k |-> "func", n |-> "", v |-> 0, a |-> Append(ps, r)]
Arr(len, e) == [k |-> "array", n |-> "", v |-> len, a |-> <<e>>]
None == [k |-> "none", n |-> "", v |-> 0, a |-> <<>>]

\* whether the occurs check looks into the result type of a function type (FALSE: the shape of a seeded slip)
CONSTANT OccursInRet

RECURSIVE Vars(_)
Vars(t) == IF t.k = "var" THEN {t.v} ELSE UNION {Vars(t.a[i]) : i \in DOMAIN t.a}

\* ---- the store: st[v] is the type v is bound to, or None
RECURSIVE Norm(_, _)
Norm(st, t) == IF t.k = "var"
               THEN IF st[t.v].k = "none" THEN t ELSE Norm(st, st[t.v])
               ELSE [t EXCEPT !.a = [i \in DOMAIN t.a |-> Norm(st, t.a[i])]]

RECURSIVE OccursIn(_, _)
OccursIn(v, t) == IF t.k = "var" THEN t.v = v
                  ELSE \E i \in DOMAIN t.a : (OccursInRet \/ t.k # "func" \/ i < Len(t.a)) /\ OccursIn(v, t.a[i])

LenOk(a, b) == a = b \/ a = W \/ b = W
Fail(st) == [ok |-> FALSE, st |-> st]
Done(st) == [ok |-> TRUE, st |-> st]

RECURSIVE U(_, _, _), UList(_, _, _, _)
U(st, l, r) ==
  LET ln == Norm(st, l)
      rn == Norm(st, r) IN
  IF ln.k = "var" /\ rn.k = "var" THEN (IF ln.v = rn.v THEN Done(st) ELSE Done([st EXCEPT ![ln.v] = rn]))
  ELSE IF ln.k = "var" THEN (IF OccursIn(ln.v, rn) THEN Fail(st) ELSE Done([st EXCEPT ![ln.v] = rn]))
  ELSE IF rn.k = "var" THEN (IF OccursIn(rn.v, ln) THEN Fail(st) ELSE Done([st EXCEPT ![rn.v] = ln]))
  ELSE IF ln.k # rn.k THEN Fail(st)
  ELSE IF ln.k \in {"prim", "enum", "struct", "dyn", "param"} THEN (IF ln.n = rn.n THEN Done(st) ELSE Fail(st))
  ELSE IF ln.k = "array" /\ ~LenOk(ln.v, rn.v) THEN Fail(st)
  ELSE IF Len(ln.a) # Len(rn.a) THEN Fail(st)
  ELSE UList(st, ln.a, rn.a, 1)
UList(st, la, ra, i) == IF i > Len(la) THEN Done(st)
                        ELSE LET one == U(st, la[i], ra[i]) IN IF one.ok THEN UList(one.st, la, ra, i + 1) ELSE one

\* ---- what the result means
RECURSIVE Compat(_, _)
Compat(s, t) == /\ s.k = t.k /\ s.n = t.n /\ Len(s.a) = Len(t.a)
                /\ IF s.k = "array" THEN LenOk(s.v, t.v) ELSE s.v = t.v
                /\ \A i \in DOMAIN s.a : Compat(s.a[i], t.a[i])

Succ(st, S) == UNION {IF st[v].k = "none" THEN {} ELSE Vars(st[v]) : v \in S}
RECURSIVE ReachN(_, _, _)
ReachN(st, S, n) == IF n = 0 THEN S ELSE ReachN(st, S \cup Succ(st, S), n - 1)
Acyclic(st) == \A v \in DOMAIN st : v \notin ReachN(st, Succ(st, {v}), Cardinality(DOMAIN st))

RECURSIVE Subst(_, _)
Subst(g, t) == IF t.k = "var" THEN g[t.v] ELSE [t EXCEPT !.a = [i \in DOMAIN t.a |-> Subst(g, t.a[i])]]
Respects(g, st) == \A v \in DOMAIN st : st[v].k # "none" => g[v] = Subst(g, st[v])

\* ---- the design model: calls on a bounded universe of types
CONSTANTS VarIds, Lens, MaxCalls, Rich      \* Rich: function types and a second primitive in the universe
Atoms == {Prim("int32")} \cup (IF Rich THEN {Prim("bool"), Par("T")} ELSE {}) \cup {Var(v) : v \in VarIds}
Ground0 == {Prim("int32")} \cup (IF Rich THEN {Prim("bool"), Par("T")} ELSE {})
Level2(A) == {Tup(<<x, y>>) : x, y \in A} \cup {Arr(n, x) : n \in Lens, x \in A}
             \cup (IF Rich THEN {Fn(<<x>>, y) : x, y \in A} ELSE {})
Types == Atoms \cup Level2(Atoms)
Ground == Ground0 \cup Level2(Ground0)

VARIABLES st, prev, last, calls
vars == <<st, prev, last, calls>>
Empty == [v \in VarIds |-> None]
Init == st = Empty /\ prev = Empty /\ last = [l |-> None, r |-> None, ok |-> TRUE] /\ calls = 0
Call(l, r) == LET res == U(st, l, r) IN
              /\ calls < MaxCalls
              /\ st' = res.st /\ prev' = st /\ last' = [l |-> l, r |-> r, ok |-> res.ok] /\ calls' = calls + 1
Next == \E l, r \in Types : Call(l, r)
Spec == Init /\ [][Next]_vars

Solutions == {g \in [VarIds -> Ground] : Respects(g, prev) /\ Subst(g, last.l) = Subst(g, last.r)}
InvAcyclic == Acyclic(st)
\* a successful call makes both sides the same type (up to the wildcard length)
InvUnified == (calls > 0 /\ last.ok) => Compat(Norm(st, last.l), Norm(st, last.r))
InvUnifiedExact == (calls > 0 /\ last.ok) => Norm(st, last.l) = Norm(st, last.r)
\* a refused call has no solution among the ground types of the bound
InvComplete == (calls > 0 /\ ~last.ok) => Solutions = {}
\* every solution of an accepted call is an instance of the store it left (most general), and the store only grows
InvMostGeneral == (calls > 0 /\ last.ok) => \A g \in Solutions : Respects(g, st)
InvGrows == \A v \in VarIds : prev[v].k # "none" => st[v] = prev[v]
=============================================================================
