--------------------------- MODULE IREffectsCheck ---------------------------
(* Evaluates IREffects.tla's relation on the terms the real compiler produced: IOEnv.IRFILE is an ndjson file, one accepted *)
(* program per line ({id, ir: {core, mono, lift, anf}} as exported by `gv compile` with ir_json).                             *)
EXTENDS IREffects, Json, IOUtils

Progs == ndJsonDeserialize(IOEnv.IRFILE)
VARIABLE i
Init == i = 0
Next == i < Len(Progs) /\ i' = i + 1

SetToSeq(S) == LET RECURSIVE go(_) go(T) == IF T = {} THEN <<>> ELSE LET x == CHOOSE y \in T : TRUE IN <<x>> \o go(T \ {x}) IN go(S)
Detail(A, B, j) ==
  [fn |-> B.fns[j].name,
   before |-> IF Partner(A, B, j) = 0 THEN <<"(absent)">> ELSE SkOf(A, Partner(A, B, j)),
   after |-> SkOf(B, j)]
Report == i > 0 =>
  LET A == Progs[i].ir.lift
      B == Progs[i].ir.anf
      d == SetToSeq(ReorderedIdx(A, B))
  IN PrintT(<<"ORDER", ToJson([id |-> Progs[i].id, ndiff |-> Len(d), nfuncs |-> Len(B.fns),
                               natoms |-> Len(Flat([k \in DOMAIN A.fns |-> SkOf(A, k)])),
                               diffs |-> [k \in DOMAIN d |-> Detail(A, B, d[k])]])>>)
Done == i = Len(Progs) => PrintT(<<"ORDERDONE", ToJson([n |-> Len(Progs)])>>)
=============================================================================
