SPECIFICATION Spec
CONSTANTS
  MaxLen = 2
  Alphabet <- FullAlphabet
  Contexts <- AllContexts
INVARIANT Emit
CHECK_DEADLOCK FALSE
