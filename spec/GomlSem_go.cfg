INIT Init
NEXT Next
INVARIANT Report
VIEW ViewNoSteps
CHECK_DEADLOCK FALSE
