------------------------------ MODULE NamesGen ------------------------------
EXTENDS Names
VARIABLE k
Init == k = 0
Next == k = 0 /\ k' = 1
Emit == k = 1 => /\ PrintT(<<"IDENTS", ToJson(Strs(3) \cup Hostile)>>)
                 /\ PrintT(<<"MONOTYPES", ToJson(MonoTypes)>>)
                 /\ PrintT(<<"ALLTYPES", ToJson(AllTypes)>>)
=============================================================================
