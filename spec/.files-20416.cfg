SPECIFICATION Spec
CONSTANTS
  Puncts <- PunctTable
  Keywords <- KeywordTable
  Inputs <- FileInputs
  MaxChars = 0
  MaxPieces = 0
INVARIANTS Tiles Emit
CHECK_DEADLOCK FALSE
