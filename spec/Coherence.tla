------------------------------ MODULE Coherence ------------------------------
(***************************************************************************)
(* Package isolation and trait coherence of goml (C16): which projects must *)
(* be accepted and which rejected, and why.                                 *)
(*                                                                          *)
(* A configuration: packages Main, A, B with import edges (possibly to a    *)
(* package whose directory does not exist, "Ghost"); A's directory may      *)
(* declare another package name; one struct T defined in package tp, one    *)
(* trait R defined in rp, implementations `impl R for T` placed in a set of *)
(* packages, and one use site in package up that names T and calls R::m.    *)
(*                                                                          *)
(* Viol(c) is the set of rule violations of the configuration:              *)
(*   missing / mismatch / cycle   (discovery, pipeline/packages.rs)         *)
(*   unresolved  a package names an item of a package it does not import    *)
(*   orphan      impl whose trait and type are both foreign                 *)
(*   duplicate   two impls of the same (trait, type) in the project         *)
(* Only packages reachable from Main are loaded and matter.                 *)
(***************************************************************************)
EXTENDS Integers, Sequences, FiniteSets, TLC, Json

Real == {"Main", "A", "B"}
Importable == {"A", "B", "Ghost"}

VARIABLES imports, misnamedA, tp, rp, impls, up, useform
vars == <<imports, misnamedA, tp, rp, impls, up, useform>>
\* tp may also be a builtin type ("int32", "vec" = Vec[int32]): never local to any package, never needs an import.
\* useform: "lit"  the use site builds the value with a struct literal  tp::T { v: 1 }
\*          "assoc" it only uses three-segment paths  tp::T::mk()  and  rp::R::m(x)
BuiltinTypes == {"int32", "vec"}

Init ==
  /\ imports \in [Real -> SUBSET Importable]
  /\ \A p \in Real : p \notin imports[p]
  /\ misnamedA \in BOOLEAN
  /\ tp \in Real \cup BuiltinTypes /\ rp \in Real
  /\ useform \in {"lit", "assoc"}
  /\ impls \in {S \in SUBSET Real : Cardinality(S) <= 2}
  /\ up \in Real
Next == UNCHANGED vars

\* ---------------------------------------------------------------- loading
RECURSIVE ReachFrom(_)
ReachFrom(S) == LET T == S \cup UNION {imports[p] \cap Real : p \in S} IN IF T = S THEN S ELSE ReachFrom(T)
Reach == ReachFrom({"Main"})
Missing == \E p \in Reach : "Ghost" \in imports[p]
Mismatch == misnamedA /\ "A" \in Reach
RECURSIVE PathTo(_, _, _)
PathTo(S, target, n) == IF n = 0 THEN FALSE
                        ELSE LET T == UNION {imports[p] \cap Real : p \in S} IN target \in T \/ PathTo(T, target, n - 1)
Cyclic == \E p \in Reach : PathTo({p}, p, 3)
DiscoveryErrors == (IF Missing THEN {"missing"} ELSE {}) \cup (IF Mismatch THEN {"mismatch"} ELSE {}) \cup (IF Cyclic THEN {"cycle"} ELSE {})

\* ---------------------------------------------------------------- naming
Names(p) == \* packages whose items package p names in its source
  ((IF p \in impls THEN {tp, rp} ELSE {}) \cup (IF p = up THEN {tp, rp} ELSE {})) \cap Real
Unresolved == \E p \in Reach : \E q \in Names(p) : q # p /\ q \notin imports[p]
Orphan == \E p \in Reach \cap impls : rp # p /\ tp # p          \* a builtin tp is never equal to p
Duplicate == Cardinality(Reach \cap impls) >= 2
\* a trait call on T with no implementation loaded at all
NoImpl == up \in Reach /\ Reach \cap impls = {}
TypeErrors == (IF Unresolved THEN {"unresolved"} ELSE {}) \cup (IF Orphan THEN {"orphan"} ELSE {})
              \cup (IF Duplicate THEN {"duplicate"} ELSE {}) \cup (IF NoImpl THEN {"noimpl"} ELSE {})
\* items defined in a package that is not loaded cannot be named by anyone
DefsLoaded == (tp \in BuiltinTypes \/ tp \in Reach) /\ rp \in Reach
Viol == IF DiscoveryErrors # {} THEN DiscoveryErrors ELSE TypeErrors

\* ---------------------------------------------------------------- what the rules guarantee
\* the orphan rule (with acyclic, resolved imports) already implies global coherence: duplicates need a cycle or an orphan
OrphanRuleImpliesCoherence ==
  (DiscoveryErrors = {} /\ ~Unresolved /\ ~Orphan) => ~Duplicate
\* the meaning of the call does not depend on load order: when accepted there is exactly one implementation in the project
UniqueMeaning == (Viol = {} /\ up \in Reach) => Cardinality(Reach \cap impls) = 1

Emit == PrintT(<<"CONFIG", ToJson([imports |-> imports, misnamedA |-> misnamedA, tp |-> tp, rp |-> rp, impls |-> impls, up |-> up, useform |-> useform,
                                    reach |-> Reach, viol |-> Viol])>>)
=============================================================================
