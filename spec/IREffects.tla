------------------------------ MODULE IREffects ------------------------------
(***************************************************************************)
(* Evaluation order as a static relation between two stages of the         *)
(* compiler (C09: operands and arguments left to right, each exactly once; *)
(* && / || evaluate the right operand conditionally; only the selected     *)
(* branch runs; a while re-evaluates its condition; temporaries never      *)
(* drop, duplicate or reorder an effect).                                  *)
(*                                                                          *)
(* The EFFECT SKELETON of a term is the sequence, in the language's         *)
(* evaluation order and with the control structure kept, of the operations  *)
(* an observer can notice: calls (by callee name; a call through a value    *)
(* is "(value)"), trait and dyn calls, `go`, and the operators that can     *)
(* fail (integer / and %).  `a && b` is `if a { b } else { false }` and     *)
(* `a || b` is `if a { true } else { b }`: the right operand's effects are  *)
(* an arm.  A branch whose arms are all empty contributes nothing beyond    *)
(* its scrutinee.  Names of temporaries do not occur in a skeleton.         *)
(*                                                                          *)
(* A-normalisation (anf.rs) only names intermediate results, so every       *)
(* function must have the same skeleton in the Lift term and in the ANF     *)
(* term:  SameOrder(lift, anf).  This judges every path of every function,  *)
(* executed or not, where IRSem.tla judges the executed one.                *)
(***************************************************************************)
EXTENDS Integers, Sequences, FiniteSets, TLC

IntTys == {"int8", "int16", "int32", "int64", "uint8", "uint16", "uint32", "uint64"}

RECURSIVE Flat(_)
Flat(ss) == IF ss = <<>> THEN <<>> ELSE Head(ss) \o Flat(Tail(ss))
Branch(tag, arms) == IF \A i \in DOMAIN arms : arms[i] = <<>> THEN <<>>
                     ELSE <<tag \o "(">> \o Flat([i \in DOMAIN arms |-> arms[i] \o <<"|">>]) \o <<")">>
NonZeroLit(e) == e.k = "prim" /\ "ds" \in DOMAIN e /\ e.ds # <<0>>
TrueLit(e) == e.k = "prim" /\ e.pk = "bool" /\ e.bv
FalseLit(e) == e.k = "prim" /\ e.pk = "bool" /\ ~e.bv

RECURSIVE Ef(_, _)
EfAll(F, es) == Flat([i \in DOMAIN es |-> Ef(F, es[i])])
Callee(F, f) == IF f.k = "var" /\ f.n \in F THEN f.n ELSE "(value)"
Ef(F, e) ==
  CASE e.k \in {"var", "prim", "tag", "closure"} -> <<>>
    [] e.k = "constr" -> EfAll(F, e.as)
    [] e.k \in {"tuple", "array"} -> EfAll(F, e.es)
    [] e.k = "let" -> Ef(F, e.v) \o Ef(F, e.b)
    [] e.k = "lets" -> Flat([i \in DOMAIN e.bs |-> Ef(F, e.bs[i].v)]) \o Ef(F, e.b)
    [] e.k = "match" -> Ef(F, e.e) \o Branch("match", [i \in DOMAIN e.arms |-> Ef(F, e.arms[i].b)] \o [i \in DOMAIN e.d |-> Ef(F, e.d[i])])
    [] e.k = "if" ->
         \* the lowered forms of && and || are recognised so that both stages are described in the same vocabulary
         Ef(F, e.c) \o Branch("if", <<Ef(F, e.t), Ef(F, e.e)>>)
    [] e.k = "while" -> <<"while(">> \o Ef(F, e.c) \o <<"|">> \o Ef(F, e.b) \o <<")">>
    [] e.k = "go" -> Ef(F, e.e) \o <<"go">>
    [] e.k \in {"get", "proj", "un", "todyn"} -> Ef(F, e.e)
    [] e.k = "bin" ->
         IF e.op = "&&" THEN Ef(F, e.l) \o Branch("if", <<Ef(F, e.r), <<>>>>)
         ELSE IF e.op = "||" THEN Ef(F, e.l) \o Branch("if", <<<<>>, Ef(F, e.r)>>)
         ELSE Ef(F, e.l) \o Ef(F, e.r)
              \o (IF e.op \in {"/", "%"} /\ e.ty.t \in IntTys /\ ~NonZeroLit(e.r) THEN <<"div">> ELSE <<>>)
    [] e.k = "call" -> Ef(F, e.f) \o EfAll(F, e.as) \o <<"call:" \o Callee(F, e.f)>>
    [] e.k = "dyncall" -> Ef(F, e.recv) \o EfAll(F, e.as) \o <<"dyncall:" \o e.tr \o "." \o e.m>>
    [] e.k = "traitcall" -> Ef(F, e.recv) \o EfAll(F, e.as) \o <<"traitcall:" \o e.tr \o "." \o e.m>>
    [] OTHER -> <<"?" \o e.k>>

\* F: the names that stand for functions (top-level functions of the stage and the ambient builtins / externs)
FnNames(S) == {S.fns[i].name : i \in DOMAIN S.fns} \cup DOMAIN S.env.funcs
SkOf(S, i) == Ef(FnNames(S), S.fns[i].body)
FnIndex(S, n) == CHOOSE i \in DOMAIN S.fns : S.fns[i].name = n

\* functions of stage B (by index) whose skeleton is not the one they have in stage A.  A-normalisation keeps the list of
\* functions as it is, so the functions are paired by position; only if the two lists of names differ are they paired by name
\* (two functions of one name can exist: a user function spelled like a generated instance, the namespace finding of C19)
Names(S) == [i \in DOMAIN S.fns |-> S.fns[i].name]
Partner(A, B, j) == IF Names(A) = Names(B) THEN j
                    ELSE IF B.fns[j].name \in {A.fns[i].name : i \in DOMAIN A.fns} THEN FnIndex(A, B.fns[j].name) ELSE 0
ReorderedIdx(A, B) == {j \in DOMAIN B.fns : Partner(A, B, j) = 0 \/ SkOf(A, Partner(A, B, j)) # SkOf(B, j)}
Reordered(A, B) == {B.fns[j].name : j \in ReorderedIdx(A, B)}
SameOrder(A, B) == Reordered(A, B) = {}
=============================================================================
