------------------------------ MODULE MonoTrace ------------------------------
(***************************************************************************)
(* Trace validation of the real monomorphisation pass against Mono.tla.    *)
(*                                                                          *)
(* crates/compiler/src/mono.rs carries hooks (compiled with --cfg           *)
(* goml_verif) at the linearization points of the worklist: every return    *)
(* of Ctx::ensure_instance ("ensure": function, substitution key, the name  *)
(* it answered, outcome hit / new / named / refused, length of `work`),     *)
(* the end of seeding ("seeded"), pop_front ("pop"), out.push ("emit"), the  *)
(* end of the loop ("drained"), and every return of                          *)
(* TypeMono::ensure_instance ("tensure": generic type, arguments, name,      *)
(* outcome).  The harness adds "reset" (a new program starts) and "result"   *)
(* (the verdict of the compilation and the function names of the Mono file   *)
(* it produced).  IOEnv.MONOTRACE is the ndjson file of all events of many   *)
(* programs; instance keys are interned by the driver (injectively), names   *)
(* are the real strings.                                                     *)
(*                                                                          *)
(* Each event is consumed by the Mono.tla action of that critical section    *)
(* with the recorded arguments; the recorded outcome, queue lengths and      *)
(* names must be the ones the action produces.  What the hooks do not log    *)
(* (the set of calls in a body) is the lookahead set P.  An event no action  *)
(* accepts rejects the program: Reject prints it and moves to the next       *)
(* program, so one rejected program does not hide the others.                *)
(***************************************************************************)
EXTENDS Mono, Json, IOUtils

Rec == ndJsonDeserialize(IOEnv.MONOTRACE)
NoFns == {}
NoNames == <<>>

VARIABLES l,        \* next event
          tname,    \* instance -> the name ensure_instance answered when it created it
          tmap,     \* (generic type, arguments) -> the name of the monomorphic type
          bad       \* number of rejected programs
tvars == <<l, tname, tmap, bad>>
all == <<vars, tvars>>

ToSet(s) == {s[k] : k \in DOMAIN s}
Range(f) == {f[k] : k \in DOMAIN f}
Ev == Rec[l]
IsEvent(e) == l <= Len(Rec) /\ Ev.ev = e /\ l' = l + 1

TInit == /\ l = 1 /\ tname = <<>> /\ tmap = <<>> /\ bad = 0
         /\ edges = <<>> /\ roots = {} /\ pending = {} /\ InitWork

\* a new program: every variable of the pass starts afresh; the roots are the ensure events up to "seeded"
TReset == /\ IsEvent("reset")
          /\ instances' = {} /\ queued' = {} /\ work' = <<>> /\ out' = <<>> /\ cur' = None /\ tooLarge' = FALSE /\ st' = "seed"
          /\ pending' = ToSet(Ev.P)
          /\ tname' = <<>> /\ tmap' = <<>>
          /\ UNCHANGED <<prog, bad>>

TEnsure ==
  /\ IsEvent("ensure")
  /\ LET c == Ev.c IN
     /\ EnsureOne(c, Ev.outcome = "refused")
     /\ Ev.outcome = (IF c \in instances THEN "hit"
                      ELSE IF Ev.outcome = "refused" THEN "refused"
                      ELSE IF c \in queued THEN "named" ELSE "new")
     /\ Ev.outcome = "hit" => tname[c] = Ev.spec                       \* the same instance always has the same name
     /\ Ev.outcome \in {"new", "named"} =>
          /\ Ev.spec \notin Range(tname)                               \* a new instance gets a name no other instance has
          /\ Len(work') = Ev.work
     /\ tname' = IF Ev.outcome \in {"new", "named"} THEN (c :> Ev.spec) @@ tname ELSE tname
  /\ UNCHANGED <<tmap, bad>>

TSeeded == IsEvent("seeded") /\ Seed /\ Len(work) = Ev.work /\ UNCHANGED <<tname, tmap, bad>>

TPop == /\ IsEvent("pop")
        /\ PopTo(ToSet(Ev.P))
        /\ cur' = Ev.c                      \* the worklist is first-in first-out: the recorded instance is the model's head
        /\ tname[Ev.c] = Ev.spec
        /\ Len(work') = Ev.work
        /\ UNCHANGED <<tname, tmap, bad>>

TEmit == /\ IsEvent("emit")
         /\ Emit
         /\ tname[cur] = Ev.spec /\ Len(out') = Ev.out
         /\ UNCHANGED <<tname, tmap, bad>>

TDrained == /\ IsEvent("drained")
            /\ Finish
            /\ Ev.refused = (st' = "refused") /\ Len(out) = Ev.out
            /\ UNCHANGED <<tname, tmap, bad>>

\* phase 2: generic types.  Only after the function worklist has drained without a refusal.
TTEnsure ==
  /\ IsEvent("tensure")
  /\ st = "done"
  /\ LET k == Ev.k IN
     /\ Ev.outcome = "hit" <=> k \in DOMAIN tmap
     /\ Ev.outcome = "hit" => tmap[k] = Ev.spec
     /\ Ev.outcome = "new" => Ev.spec \notin Range(tmap)
     /\ tmap' = IF Ev.outcome = "new" THEN (k :> Ev.spec) @@ tmap ELSE tmap
  /\ UNCHANGED <<vars, tname, bad>>

\* the outcome of the compilation: accepted only if nothing was refused; the functions of the Mono file are exactly the
\* emitted instances, each once
TResult ==
  /\ IsEvent("result")
  /\ Ended
  /\ (Ev.verdict = "ok") => st = "done" /\ "refused" \notin ToSet(Ev.toutcomes)
  /\ (st = "refused") => Ev.verdict # "ok"
  /\ Ev.verdict = "ok" =>
       /\ Len(Ev.fns) = Len(out)
       /\ ToSet(Ev.fns) = {tname[out[i]] : i \in DOMAIN out}
       /\ Cardinality(ToSet(Ev.fns)) = Len(Ev.fns)
  /\ OnceC /\ Bookkeeping
  /\ UNCHANGED <<vars, tname, tmap, bad>>

Accept == TReset \/ TEnsure \/ TSeeded \/ TPop \/ TEmit \/ TDrained \/ TTEnsure \/ TResult

\* no action of the specification explains the next event: report it and go on with the next program
NextReset(k) == LET S == {j \in k..Len(Rec) : Rec[j].ev = "reset"} IN IF S = {} THEN Len(Rec) + 1 ELSE CHOOSE j \in S : \A j2 \in S : j <= j2
Reject == /\ l <= Len(Rec) /\ ~ENABLED Accept
          /\ PrintT(<<"MONOREJECT", ToJson([at |-> l, ev |-> Ev, st |-> st, work |-> Len(work), out |-> Len(out)])>>)
          /\ l' = NextReset(l + 1) /\ bad' = bad + 1
          /\ UNCHANGED <<vars, tname, tmap>>

TNext == Accept \/ Reject
TraceSpec == TInit /\ [][TNext]_all

\* properties of Mono.tla evaluated on every state of every real run
TraceInv == OnceC /\ (Dedup => queued = instances)
Finished == l = Len(Rec) + 1 => PrintT(<<"MONODONE", ToJson([events |-> Len(Rec), rejected |-> bad])>>)
=============================================================================
