------------------------------ MODULE GomlSem ------------------------------
(* Scratch prototype: small-step (CEK) semantics of a goml slice over GAST.   *)
(* call-by-value, left-to-right, short-circuit, first-match, closures by      *)
(* value capture, Ref heap.                                                   *)
EXTENDS Integers, Sequences, FiniteSets, TLC, Json, IOUtils

Progs == ndJsonDeserialize(IOEnv.PROGS)

VARIABLES pid, ctl, kont, heap, nxt, out, status
vars == <<pid, ctl, kont, heap, nxt, out, status>>

Abs(x) == IF x < 0 THEN -x ELSE x
TDiv(a, b) == IF (a < 0) # (b < 0) THEN -(Abs(a) \div Abs(b)) ELSE Abs(a) \div Abs(b)

VInt(v) == [k |-> "int", v |-> v]
VBool(b) == [k |-> "bool", v |-> b]
VStr(bs) == [k |-> "str", v |-> bs]
VUnit == [k |-> "unit"]

RECURSIVE Digits(_)
Digits(n) == IF n < 10 THEN <<48 + n>> ELSE Digits(n \div 10) \o <<48 + (n % 10)>>
Dec(n) == IF n < 0 THEN <<45>> \o Digits(-n) ELSE Digits(n)

EmptyEnv == [n \in {} |-> 0]
Ext(env, x, v) == (x :> v) @@ env

\* the fixed prelude of the prototype generator, given directly as meaning
Prelude == {"tick", "tickb", "inc", "dbl", "add3"}
Builtins == {"string_println", "string_print", "int32_to_string", "bool_to_string", "ref", "ref_get", "ref_set"}

E(e, env) == [t |-> "e", e |-> e, env |-> env]
V(v) == [t |-> "v", v |-> v]

Push(f) == <<f>> \o kont
Wrap32(v) == v   \* prototype: values stay small

BinOp(op, l, r) ==
  CASE op = "+" -> IF l.k = "str" THEN VStr(l.v \o r.v) ELSE VInt(l.v + r.v)
    [] op = "-" -> VInt(l.v - r.v)
    [] op = "*" -> VInt(l.v * r.v)
    [] op = "<" -> VBool(l.v < r.v)
    [] op = ">" -> VBool(l.v > r.v)
    [] op = "<=" -> VBool(l.v <= r.v)
    [] op = ">=" -> VBool(l.v >= r.v)
    [] op = "==" -> VBool(l.v = r.v)
    [] op = "!=" -> VBool(l.v # r.v)

\* pattern matching: returns [ok, env]
RECURSIVE Match(_, _, _)
RECURSIVE MatchAll(_, _, _)
MatchAll(ps, vs, env) ==
  IF ps = <<>> THEN [ok |-> TRUE, env |-> env]
  ELSE LET r == Match(Head(ps), Head(vs), env) IN IF r.ok THEN MatchAll(Tail(ps), Tail(vs), r.env) ELSE r
Match(p, v, env) ==
  CASE p.k = "pvar" -> [ok |-> TRUE, env |-> Ext(env, p.x, v)]
    [] p.k = "pwild" -> [ok |-> TRUE, env |-> env]
    [] p.k = "pint" -> [ok |-> v.v = p.v, env |-> env]
    [] p.k = "pbool" -> [ok |-> v.v = p.v, env |-> env]
    [] p.k = "pctor" -> IF v.variant = p.variant THEN MatchAll(p.ps, v.as, env) ELSE [ok |-> FALSE, env |-> env]
    [] p.k = "ptuple" -> MatchAll(p.ps, v.es, env)

\* ---------------------------------------------------------------- start evaluating an expression
StepE ==
  /\ ctl.t = "e"
  /\ LET e == ctl.e env == ctl.env IN
     CASE e.k = "int" -> ctl' = V(VInt(e.v)) /\ UNCHANGED <<kont, heap, nxt, out, status>>
       [] e.k = "bool" -> ctl' = V(VBool(e.v)) /\ UNCHANGED <<kont, heap, nxt, out, status>>
       [] e.k = "str" -> ctl' = V(VStr(e.v)) /\ UNCHANGED <<kont, heap, nxt, out, status>>
       [] e.k = "unit" -> ctl' = V(VUnit) /\ UNCHANGED <<kont, heap, nxt, out, status>>
       [] e.k = "var" -> ctl' = V(env[e.x]) /\ UNCHANGED <<kont, heap, nxt, out, status>>
       [] e.k = "fnref" -> ctl' = V([k |-> "fnref", n |-> e.n]) /\ UNCHANGED <<kont, heap, nxt, out, status>>
       [] e.k = "lam" -> ctl' = V([k |-> "clo", ps |-> e.ps, b |-> e.b, env |-> env]) /\ UNCHANGED <<kont, heap, nxt, out, status>>
       [] e.k = "bin" -> ctl' = E(e.l, env) /\ kont' = Push([f |-> "binL", op |-> e.op, r |-> e.r, env |-> env]) /\ UNCHANGED <<heap, nxt, out, status>>
       [] e.k = "un" -> ctl' = E(e.e, env) /\ kont' = Push([f |-> "un", op |-> e.op]) /\ UNCHANGED <<heap, nxt, out, status>>
       [] e.k = "if" -> ctl' = E(e.c, env) /\ kont' = Push([f |-> "if", th |-> e.t, el |-> e.e, env |-> env]) /\ UNCHANGED <<heap, nxt, out, status>>
       [] e.k = "proj" -> ctl' = E(e.e, env) /\ kont' = Push([f |-> "proj", i |-> e.i]) /\ UNCHANGED <<heap, nxt, out, status>>
       [] e.k = "field" -> ctl' = E(e.e, env) /\ kont' = Push([f |-> "field", fld |-> e.f]) /\ UNCHANGED <<heap, nxt, out, status>>
       [] e.k = "match" -> ctl' = E(e.e, env) /\ kont' = Push([f |-> "match", arms |-> e.arms, env |-> env]) /\ UNCHANGED <<heap, nxt, out, status>>
       [] e.k \in {"call", "tuple", "ctor", "struct"} ->
            LET es == CASE e.k = "call" -> e.as [] e.k = "tuple" -> e.es [] e.k = "ctor" -> e.as
                        [] OTHER -> [i \in DOMAIN e.fs |-> e.fs[i].e] IN
            IF es = <<>> THEN /\ ctl' = [t |-> "apply", node |-> e, vs |-> <<>>] /\ UNCHANGED <<kont, heap, nxt, out, status>>
            ELSE /\ ctl' = E(es[1], env) /\ kont' = Push([f |-> "args", node |-> e, es |-> es, done |-> <<>>, env |-> env])
                 /\ UNCHANGED <<heap, nxt, out, status>>
       [] e.k = "callv" -> ctl' = E(e.f, env) /\ kont' = Push([f |-> "callee", as |-> e.as, env |-> env]) /\ UNCHANGED <<heap, nxt, out, status>>
       [] e.k = "block" ->
            IF e.stmts = <<>> THEN ctl' = E(e.tail, env) /\ UNCHANGED <<kont, heap, nxt, out, status>>
            ELSE /\ ctl' = E(e.stmts[1].e, env) /\ kont' = Push([f |-> "blk", stmts |-> e.stmts, i |-> 1, tail |-> e.tail, env |-> env])
                 /\ UNCHANGED <<heap, nxt, out, status>>
  /\ UNCHANGED pid

\* ---------------------------------------------------------------- apply a saturated node
ApplyFn(name, vs) ==   \* prelude functions given by their meaning; printing is visible in out
  CASE name = "tick" \/ name = "tickb" ->
         /\ out' = out \o <<116>> \o Dec(vs[1].v) \o <<10>> /\ ctl' = V(vs[2]) /\ UNCHANGED <<kont, heap, nxt, status>>
    [] name = "inc" -> ctl' = V(VInt(vs[1].v + 1)) /\ UNCHANGED <<kont, heap, nxt, out, status>>
    [] name = "dbl" -> ctl' = V(VInt(vs[1].v * 2)) /\ UNCHANGED <<kont, heap, nxt, out, status>>
    [] name = "apply1" -> ctl' = [t |-> "apply", node |-> [k |-> "callv"], vs |-> <<vs[2]>>, callee |-> vs[1]] /\ UNCHANGED <<kont, heap, nxt, out, status>>
    [] name = "add3" -> ctl' = V(VInt(IF vs[3].v THEN vs[1].v + vs[2].v ELSE vs[1].v - vs[2].v)) /\ UNCHANGED <<kont, heap, nxt, out, status>>
    [] name = "string_println" -> out' = out \o vs[1].v \o <<10>> /\ ctl' = V(VUnit) /\ UNCHANGED <<kont, heap, nxt, status>>
    [] name = "string_print" -> out' = out \o vs[1].v /\ ctl' = V(VUnit) /\ UNCHANGED <<kont, heap, nxt, status>>
    [] name = "int32_to_string" -> ctl' = V(VStr(Dec(vs[1].v))) /\ UNCHANGED <<kont, heap, nxt, out, status>>
    [] name = "bool_to_string" -> ctl' = V(VStr(IF vs[1].v THEN <<116, 114, 117, 101>> ELSE <<102, 97, 108, 115, 101>>)) /\ UNCHANGED <<kont, heap, nxt, out, status>>
    [] name = "ref" -> heap' = (nxt :> vs[1]) @@ heap /\ nxt' = nxt + 1 /\ ctl' = V([k |-> "ref", a |-> nxt]) /\ UNCHANGED <<kont, out, status>>
    [] name = "ref_get" -> ctl' = V(heap[vs[1].a]) /\ UNCHANGED <<kont, heap, nxt, out, status>>
    [] name = "ref_set" -> heap' = [heap EXCEPT ![vs[1].a] = vs[2]] /\ ctl' = V(VUnit) /\ UNCHANGED <<kont, nxt, out, status>>

StepApply ==
  /\ ctl.t = "apply"
  /\ LET e == ctl.node vs == ctl.vs IN
     CASE e.k = "call" -> ApplyFn(e.f, vs)
       [] e.k = "tuple" -> ctl' = V([k |-> "tuple", es |-> vs]) /\ UNCHANGED <<kont, heap, nxt, out, status>>
       [] e.k = "ctor" -> ctl' = V([k |-> "variant", enum |-> e.enum, variant |-> e.variant, as |-> vs]) /\ UNCHANGED <<kont, heap, nxt, out, status>>
       [] e.k = "struct" -> ctl' = V([k |-> "struct", n |-> e.n, f |-> [n \in {e.fs[i].f : i \in DOMAIN e.fs} |-> vs[CHOOSE i \in DOMAIN e.fs : e.fs[i].f = n]]])
                            /\ UNCHANGED <<kont, heap, nxt, out, status>>
       [] e.k = "callv" ->
            LET c == ctl.callee IN
            IF c.k = "fnref" THEN ApplyFn(c.n, vs)
            ELSE /\ ctl' = E(c.b, [i \in {} |-> 0] @@ (c.ps[1].x :> vs[1]) @@ c.env)   \* one-parameter closures in this slice
                 /\ UNCHANGED <<kont, heap, nxt, out, status>>
  /\ UNCHANGED pid

\* ---------------------------------------------------------------- return a value to the continuation
StepV ==
  /\ ctl.t = "v" /\ kont # <<>>
  /\ LET v == ctl.v f == Head(kont) rest == Tail(kont) IN
     CASE f.f = "binL" ->
            IF f.op = "&&" /\ ~v.v THEN ctl' = V(VBool(FALSE)) /\ kont' = rest /\ UNCHANGED <<heap, nxt, out, status>>
            ELSE IF f.op = "||" /\ v.v THEN ctl' = V(VBool(TRUE)) /\ kont' = rest /\ UNCHANGED <<heap, nxt, out, status>>
            ELSE IF f.op \in {"&&", "||"} THEN ctl' = E(f.r, f.env) /\ kont' = rest /\ UNCHANGED <<heap, nxt, out, status>>
            ELSE ctl' = E(f.r, f.env) /\ kont' = <<[f |-> "binR", op |-> f.op, l |-> v]>> \o rest /\ UNCHANGED <<heap, nxt, out, status>>
       [] f.f = "binR" -> ctl' = V(BinOp(f.op, f.l, v)) /\ kont' = rest /\ UNCHANGED <<heap, nxt, out, status>>
       [] f.f = "un" -> ctl' = V(IF f.op = "!" THEN VBool(~v.v) ELSE VInt(-v.v)) /\ kont' = rest /\ UNCHANGED <<heap, nxt, out, status>>
       [] f.f = "if" -> ctl' = E(IF v.v THEN f.th ELSE f.el, f.env) /\ kont' = rest /\ UNCHANGED <<heap, nxt, out, status>>
       [] f.f = "proj" -> ctl' = V(v.es[f.i + 1]) /\ kont' = rest /\ UNCHANGED <<heap, nxt, out, status>>
       [] f.f = "field" -> ctl' = V(v.f[f.fld]) /\ kont' = rest /\ UNCHANGED <<heap, nxt, out, status>>
       [] f.f = "match" ->
            LET hits == {i \in DOMAIN f.arms : Match(f.arms[i].p, v, f.env).ok} IN
            IF hits = {} THEN status' = "failed" /\ UNCHANGED <<ctl, kont, heap, nxt, out>>
            ELSE LET i == CHOOSE j \in hits : \A h \in hits : j <= h IN
                 ctl' = E(f.arms[i].b, Match(f.arms[i].p, v, f.env).env) /\ kont' = rest /\ UNCHANGED <<heap, nxt, out, status>>
       [] f.f = "args" ->
            LET done == Append(f.done, v) IN
            IF Len(done) = Len(f.es) THEN ctl' = [t |-> "apply", node |-> f.node, vs |-> done] /\ kont' = rest /\ UNCHANGED <<heap, nxt, out, status>>
            ELSE ctl' = E(f.es[Len(done) + 1], f.env) /\ kont' = <<[f EXCEPT !.done = done]>> \o rest /\ UNCHANGED <<heap, nxt, out, status>>
       [] f.f = "callee" ->
            ctl' = E(f.as[1], f.env) /\ kont' = <<[f |-> "cargs", callee |-> v]>> \o rest /\ UNCHANGED <<heap, nxt, out, status>>
       [] f.f = "cargs" ->
            ctl' = [t |-> "apply", node |-> [k |-> "callv"], vs |-> <<v>>, callee |-> f.callee] /\ kont' = rest /\ UNCHANGED <<heap, nxt, out, status>>
       [] f.f = "blk" ->
            LET s == f.stmts[f.i]
                env1 == CASE s.k = "let" -> Ext(f.env, s.x, v)
                          [] s.k = "lettup" -> Ext(Ext(f.env, s.xs[1], v.es[1]), s.xs[2], v.es[2])
                          [] OTHER -> f.env IN
            IF f.i = Len(f.stmts) THEN ctl' = E(f.tail, env1) /\ kont' = rest /\ UNCHANGED <<heap, nxt, out, status>>
            ELSE ctl' = E(f.stmts[f.i + 1].e, env1) /\ kont' = <<[f EXCEPT !.i = f.i + 1, !.env = env1]>> \o rest /\ UNCHANGED <<heap, nxt, out, status>>
  /\ UNCHANGED pid

Finish == /\ ctl.t = "v" /\ kont = <<>> /\ status = "running" /\ status' = "ok" /\ UNCHANGED <<pid, ctl, kont, heap, nxt, out>>

Init == /\ pid \in 1..Len(Progs) /\ ctl = E(Progs[pid].main, EmptyEnv) /\ kont = <<>>
        /\ heap = (0 :> 0) /\ nxt = 1 /\ out = <<>> /\ status = "running"
Next == status = "running" /\ (StepE \/ StepApply \/ StepV \/ Finish)
Spec == Init /\ [][Next]_vars
Report == status # "running" => PrintT(ToJson([id |-> Progs[pid].id, status |-> status, out |-> out]))
=============================================================================
