------------------------------ MODULE GomlSem ------------------------------
(***************************************************************************)
(* The source-level meaning of goml programs, as a small-step CEK machine  *)
(* over typed abstract syntax (GAST, produced by lib/gast.py generators):   *)
(* call-by-value, operands and arguments left to right and exactly once,   *)
(* short-circuit && and ||, first-match patterns, closures capturing their  *)
(* environment by value, Ref cells in a shared heap, Vec and array values,  *)
(* fixed-width integers (IntN), dyadic floats, trait dispatch on the        *)
(* receiver's type (values carry their types, generic code passes types),   *)
(* dyn packages, failure = the program stops there with its output kept.    *)
(*                                                                          *)
(* This is the denotation C01, C06-C10, C17 and C18 appeal to; it is        *)
(* independent of the compiler (it never sees inferred types).              *)
(***************************************************************************)
EXTENDS Integers, Sequences, FiniteSets, TLC, Json, IOUtils, GomlOps

Progs == ndJsonDeserialize(IOEnv.PROGS)
MaxSteps == IF "MAXSTEPS" \in DOMAIN IOEnv THEN atoi(IOEnv.MAXSTEPS) ELSE 20000

\* par: activations started by `go`.  One activation runs at a time (ctl, kont are its state); par.others holds the others,
\* par.main tells whether the running one is main.  A program without `go` never changes par.
VARIABLES pid, ctl, kont, heap, nxt, out, status, steps, par
vars == <<pid, ctl, kont, heap, nxt, out, status, steps, par>>

P == Progs[pid]
Min(S) == CHOOSE x \in S : \A y \in S : x <= y

EmptyEnv == [n \in {} |-> 0]
Ext(env, x, v) == (x :> v) @@ env

\* ---------------------------------------------------------------- types at run time
IntTyNames == IntTypes
RECURSIVE Subst(_, _)
Subst(ty, tenv) ==
  CASE ty.t = "param" -> IF ty.n \in DOMAIN tenv THEN tenv[ty.n] ELSE ty
    [] ty.t = "tuple" -> [ty EXCEPT !.ts = [i \in DOMAIN ty.ts |-> Subst(ty.ts[i], tenv)]]
    [] ty.t = "adt" -> [ty EXCEPT !.as = [i \in DOMAIN ty.as |-> Subst(ty.as[i], tenv)]]
    [] ty.t \in {"vec", "ref"} -> [ty EXCEPT !.e = Subst(ty.e, tenv)]
    [] ty.t = "array" -> [ty EXCEPT !.e = Subst(ty.e, tenv)]
    [] ty.t = "fn" -> [ty EXCEPT !.ps = [i \in DOMAIN ty.ps |-> Subst(ty.ps[i], tenv)], !.r = Subst(ty.r, tenv)]
    [] OTHER -> ty

RECURSIVE TyKey(_)
RECURSIVE JoinKeys(_, _)
JoinKeys(ts, i) == IF i > Len(ts) THEN "" ELSE (IF i > 1 THEN "," ELSE "") \o TyKey(ts[i]) \o JoinKeys(ts, i + 1)
TyKey(ty) ==
  CASE ty.t = "adt" -> IF ty.as = <<>> THEN "%" \o ty.n ELSE "%" \o ty.n \o "[" \o JoinKeys(ty.as, 1) \o "]"     \* % marks user types (a struct may be named int32)
    [] ty.t = "tuple" -> "(" \o JoinKeys(ty.ts, 1) \o ")"
    [] ty.t = "vec" -> "Vec[" \o TyKey(ty.e) \o "]"
    [] ty.t = "ref" -> "Ref[" \o TyKey(ty.e) \o "]"
    [] ty.t = "param" -> "?" \o ty.n
    [] ty.t = "dyn" -> "dyn " \o ty.tr
    [] ty.t \in {"array", "fn"} -> "?"
    [] OTHER -> ty.t

\* type of a value, as far as trait dispatch needs it
RECURSIVE TypeOfVal(_)
TypeOfVal(v) ==
  CASE v.k = "int" -> [t |-> v.t]
    [] v.k = "float" -> [t |-> v.t]
    [] v.k = "bool" -> [t |-> "bool"]
    [] v.k = "str" -> [t |-> "string"]
    [] v.k = "unit" -> [t |-> "unit"]
    [] v.k \in {"struct", "variant"} -> v.ty
    [] v.k = "tuple" -> [t |-> "tuple", ts |-> [i \in DOMAIN v.es |-> TypeOfVal(v.es[i])]]
    [] v.k \in {"vec", "ref"} -> v.ty
    [] v.k = "dyn" -> [t |-> "dyn", tr |-> v.trait]
    [] OTHER -> [t |-> "?"]

\* ---------------------------------------------------------------- patterns: [ok, env]
RECURSIVE Match(_, _, _)
RECURSIVE MatchAll(_, _, _)
MatchAll(ps, vs, env) ==
  IF ps = <<>> THEN [ok |-> TRUE, env |-> env]
  ELSE LET r == Match(Head(ps), Head(vs), env) IN IF r.ok THEN MatchAll(Tail(ps), Tail(vs), r.env) ELSE r
LitNum(p) == NFromDigits(p.neg, p.ds)
Match(p, v, env) ==
  CASE p.k = "pvar" -> [ok |-> TRUE, env |-> Ext(env, p.x, v)]
    [] p.k = "pwild" -> [ok |-> TRUE, env |-> env]
    [] p.k = "punit" -> [ok |-> TRUE, env |-> env]
    [] p.k = "pint" -> [ok |-> v.n = LitNum(p), env |-> env]
    [] p.k = "pbool" -> [ok |-> v.v = p.v, env |-> env]
    [] p.k = "pstr" -> [ok |-> v.v = p.v, env |-> env]
    [] p.k = "pctor" -> IF v.variant = p.variant THEN MatchAll(p.ps, v.as, env) ELSE [ok |-> FALSE, env |-> env]
    [] p.k = "ptuple" -> MatchAll(p.ps, v.es, env)
    [] p.k = "pstruct" -> MatchAll([i \in DOMAIN p.fs |-> p.fs[i].p], [i \in DOMAIN p.fs |-> v.f[p.fs[i].f]], env)

\* ---------------------------------------------------------------- machine states
E(e, env, tenv) == [t |-> "e", e |-> e, env |-> env, tenv |-> tenv]
V(v) == [t |-> "v", v |-> v]
Push(f) == <<f>> \o kont
Tick == steps' = steps + 1 /\ UNCHANGED <<pid, par>>
Stop(v) == /\ status' = IF v.k = "fail" THEN [k |-> "failed", why |-> v.why] ELSE [k |-> "unsupported", why |-> v.why]
           /\ UNCHANGED <<ctl, kont, heap, nxt, out>> /\ Tick
Same == UNCHANGED <<heap, nxt, out, status>> /\ Tick
Ret(v) == IF IsBad(v) THEN Stop(v) ELSE /\ ctl' = V(v) /\ UNCHANGED kont /\ Same
RetPop(v, rest) == IF IsBad(v) THEN Stop(v) ELSE /\ ctl' = V(v) /\ kont' = rest /\ Same

\* ---------------------------------------------------------------- function application
FnDef(n) == P.fns[n]
IsUserFn(n) == n \in DOMAIN P.fns

\* enter a user function: parameters are patterns-free names
EnterFn(name, targs, vs, rest) ==
  LET f == FnDef(name)
      env == [x \in {f.params[i] : i \in DOMAIN f.params} |-> vs[CHOOSE i \in DOMAIN f.params : f.params[i] = x]]
      tenv == [g \in {f.gens[i] : i \in DOMAIN f.gens} |-> targs[CHOOSE i \in DOMAIN f.gens : f.gens[i] = g]] IN
  IF Len(vs) # Len(f.params) \/ Len(targs) # Len(f.gens) THEN Stop(VBad("arity of " \o name))
  ELSE IF Len(rest) >= 600 THEN /\ status' = [k |-> "inconclusive", why |-> "continuation depth"] /\ UNCHANGED <<ctl, kont, heap, nxt, out>> /\ Tick
  ELSE /\ ctl' = E(f.body, env, tenv) /\ kont' = rest /\ Same

ImplKey(trait, v) == trait \o "|" \o TyKey(TypeOfVal(v))

\* apply a function value or a named function to evaluated arguments; `rest` is the continuation to return to
ApplyNamed(name, targs, vs, rest) ==
  IF IsUserFn(name) THEN EnterFn(name, targs, vs, rest)
  ELSE IF name = "string_print" THEN /\ out' = out \o vs[1].v /\ ctl' = V(VUnit) /\ kont' = rest /\ UNCHANGED <<heap, nxt, status>> /\ Tick
  ELSE IF name = "string_println" THEN /\ out' = out \o vs[1].v \o <<10>> /\ ctl' = V(VUnit) /\ kont' = rest /\ UNCHANGED <<heap, nxt, status>> /\ Tick
  ELSE IF name = "ref" THEN
       /\ heap' = (nxt :> vs[1]) @@ heap /\ nxt' = nxt + 1
       /\ ctl' = V([k |-> "ref", a |-> nxt, ty |-> [t |-> "ref", e |-> TypeOfVal(vs[1])]]) /\ kont' = rest /\ UNCHANGED <<out, status>> /\ Tick
  ELSE IF name = "ref_get" THEN RetPop(heap[vs[1].a], rest)
  ELSE IF name = "ref_set" THEN /\ heap' = [heap EXCEPT ![vs[1].a] = vs[2]] /\ ctl' = V(VUnit) /\ kont' = rest /\ UNCHANGED <<nxt, out, status>> /\ Tick
  ELSE IF IsBuiltin(name) THEN RetPop(PureBuiltin(name, vs, targs), rest)
  ELSE Stop(VBad("unknown function " \o name))

ApplyValue(c, vs, rest) ==
  IF c.k = "fnref" THEN ApplyNamed(c.n, c.targs, vs, rest)
  ELSE IF c.k = "clo" THEN
       IF Len(vs) # Len(c.ps) THEN Stop(VBad("closure arity"))
       ELSE /\ ctl' = E(c.b, [x \in {c.ps[i] : i \in DOMAIN c.ps} |-> vs[CHOOSE i \in DOMAIN c.ps : c.ps[i] = x]] @@ c.env, c.tenv)
            /\ kont' = rest /\ Same
  ELSE Stop(VBad("call of a non-function value"))

TraitDispatch(trait, m, vs, rest) ==
  \* a trait object is opened only by a call of its own trait; for any other trait it is an ordinary value of type `dyn Tr`
  LET recv == IF vs[1].k = "dyn" /\ vs[1].trait = trait THEN vs[1].v ELSE vs[1]
      key == ImplKey(trait, recv) IN
  IF key \in DOMAIN P.impls /\ m \in DOMAIN P.impls[key] THEN
       ApplyNamed(P.impls[key][m].fn, P.impls[key][m].targs, <<recv>> \o Tail(vs), rest)
  ELSE Stop(VBad("no implementation " \o key \o "." \o m))

\* ---------------------------------------------------------------- start evaluating an expression
ArgsOf(e) == CASE e.k \in {"call", "ctor", "tcall", "dcall", "derived"} -> e.as
               [] e.k \in {"tuple", "array"} -> e.es
               [] e.k = "struct" -> [i \in DOMAIN e.fs |-> e.fs[i].e]
               [] e.k = "callv" -> <<e.f>> \o e.as

StepE ==
  /\ ctl.t = "e"
  /\ LET e == ctl.e env == ctl.env tenv == ctl.tenv IN
     \* a negative literal is written `-` applied to the literal: for an unsigned type that wraps like every other operation
     CASE e.k = "int" -> Ret(VInt(e.ty, IF e.neg THEN WrapT(e.ty, NFromDigits(e.neg, e.ds)) ELSE NFromDigits(e.neg, e.ds)))
       [] e.k = "float" -> Ret(FNorm(e.ty, e.num, e.den))
       [] e.k = "bool" -> Ret(VBool(e.v))
       [] e.k = "str" -> Ret(VStr(e.v))
       [] e.k = "unit" -> Ret(VUnit)
       [] e.k = "var" -> IF e.x \in DOMAIN env THEN Ret(env[e.x]) ELSE Stop(VBad("unbound variable " \o e.x))
       [] e.k = "fnref" -> Ret([k |-> "fnref", n |-> e.n, targs |-> [i \in DOMAIN e.targs |-> Subst(e.targs[i], tenv)]])
       [] e.k = "lam" -> Ret([k |-> "clo", ps |-> e.ps, b |-> e.b, env |-> env, tenv |-> tenv])
       [] e.k = "bin" -> /\ ctl' = E(e.l, env, tenv) /\ kont' = Push([f |-> "binL", op |-> e.op, r |-> e.r, env |-> env, tenv |-> tenv]) /\ Same
       [] e.k = "un" -> /\ ctl' = E(e.e, env, tenv) /\ kont' = Push([f |-> "un", op |-> e.op]) /\ Same
       [] e.k = "if" -> /\ ctl' = E(e.c, env, tenv) /\ kont' = Push([f |-> "if", th |-> e.t, el |-> e.e, env |-> env, tenv |-> tenv]) /\ Same
       [] e.k = "while" -> /\ ctl' = E(e.c, env, tenv) /\ kont' = Push([f |-> "whileC", c |-> e.c, b |-> e.b, env |-> env, tenv |-> tenv]) /\ Same
       [] e.k = "proj" -> /\ ctl' = E(e.e, env, tenv) /\ kont' = Push([f |-> "proj", i |-> e.i]) /\ Same
       [] e.k = "field" -> /\ ctl' = E(e.e, env, tenv) /\ kont' = Push([f |-> "field", fld |-> e.f]) /\ Same
       [] e.k = "todyn" -> /\ ctl' = E(e.e, env, tenv) /\ kont' = Push([f |-> "todyn", trait |-> e.trait]) /\ Same
       [] e.k = "match" -> /\ ctl' = E(e.e, env, tenv) /\ kont' = Push([f |-> "match", arms |-> e.arms, env |-> env, tenv |-> tenv]) /\ Same
       [] e.k \in {"call", "tuple", "array", "ctor", "struct", "tcall", "dcall", "callv", "derived"} ->
            LET es == ArgsOf(e) IN
            IF es = <<>> THEN /\ ctl' = [t |-> "apply", node |-> e, vs |-> <<>>, tenv |-> tenv] /\ UNCHANGED kont /\ Same
            ELSE /\ ctl' = E(es[1], env, tenv) /\ kont' = Push([f |-> "args", node |-> e, es |-> es, done |-> <<>>, env |-> env, tenv |-> tenv]) /\ Same
       [] e.k = "block" ->
            IF e.stmts = <<>> THEN
                 (IF e.tail = <<>> THEN Ret(VUnit) ELSE /\ ctl' = E(e.tail[1], env, tenv) /\ UNCHANGED kont /\ Same)
            ELSE /\ ctl' = E(e.stmts[1].e, env, tenv)
                 /\ kont' = Push([f |-> "blk", stmts |-> e.stmts, i |-> 1, tail |-> e.tail, env |-> env, tenv |-> tenv]) /\ Same
       [] e.k = "go" -> IF "THREADS" \notin DOMAIN IOEnv THEN Stop(VBad("go expression (explored by the interleaving check of C09)"))
                        ELSE /\ ctl' = E(e.e, env, tenv) /\ kont' = Push([f |-> "go", tenv |-> tenv]) /\ Same
       [] OTHER -> Stop(VBad("expression kind " \o e.k))

\* ---------------------------------------------------------------- all operands evaluated: build the value / make the call
StepApply ==
  /\ ctl.t = "apply"
  /\ LET e == ctl.node vs == ctl.vs tenv == ctl.tenv IN
     CASE e.k = "call" -> ApplyNamed(e.f, [i \in DOMAIN e.targs |-> Subst(e.targs[i], tenv)], vs, kont)
       [] e.k = "callv" -> ApplyValue(vs[1], Tail(vs), kont)
       [] e.k \in {"tcall", "dcall"} -> TraitDispatch(e.trait, e.m, vs, kont)
       [] e.k = "derived" ->      \* to_string / to_json of a type that derives it: the rendering Derive.tla prescribes
            IF vs[1].k \notin {"struct", "variant"} THEN Stop(VBad("derived method on a non-derived value"))
            ELSE IF e.m = "to_json" THEN Ret(VStr(ToJsonV(vs[1], P.ftab, P.ntab)))
            ELSE Ret(VStr(ToStringV(vs[1], P.ftab, P.ntab)))
       [] e.k = "tuple" -> Ret([k |-> "tuple", es |-> vs])
       [] e.k = "array" -> Ret([k |-> "array", es |-> vs])
       [] e.k = "ctor" -> Ret([k |-> "variant", ty |-> Subst(e.ty, tenv), variant |-> e.variant, as |-> vs])
       [] e.k = "struct" ->
            Ret([k |-> "struct", ty |-> Subst(e.ty, tenv),
                 f |-> [n \in {e.fs[i].f : i \in DOMAIN e.fs} |-> vs[CHOOSE i \in DOMAIN e.fs : e.fs[i].f = n]]])

\* ---------------------------------------------------------------- return a value to the innermost continuation frame
StepV ==
  /\ ctl.t = "v" /\ kont # <<>>
  /\ LET v == ctl.v f == Head(kont) rest == Tail(kont) IN
     CASE f.f = "binL" ->
            IF f.op = "&&" /\ ~v.v THEN RetPop(VBool(FALSE), rest)
            ELSE IF f.op = "||" /\ v.v THEN RetPop(VBool(TRUE), rest)
            ELSE IF f.op \in {"&&", "||"} THEN /\ ctl' = E(f.r, f.env, f.tenv) /\ kont' = rest /\ Same
            ELSE /\ ctl' = E(f.r, f.env, f.tenv) /\ kont' = <<[f |-> "binR", op |-> f.op, l |-> v]>> \o rest /\ Same
       [] f.f = "binR" -> RetPop(BinOp(f.op, f.l, v), rest)
       [] f.f = "un" -> RetPop(UnOp(f.op, v), rest)
       [] f.f = "if" -> /\ ctl' = E(IF v.v THEN f.th ELSE f.el, f.env, f.tenv) /\ kont' = rest /\ Same
       [] f.f = "whileC" ->
            IF v.v THEN /\ ctl' = E(f.b, f.env, f.tenv) /\ kont' = <<[f EXCEPT !.f = "whileB"]>> \o rest /\ Same
            ELSE RetPop(VUnit, rest)
       [] f.f = "whileB" -> /\ ctl' = E(f.c, f.env, f.tenv) /\ kont' = <<[f EXCEPT !.f = "whileC"]>> \o rest /\ Same
       [] f.f = "proj" -> RetPop(v.es[f.i + 1], rest)
       [] f.f = "field" -> RetPop(v.f[f.fld], rest)
       [] f.f = "todyn" -> RetPop([k |-> "dyn", trait |-> f.trait, v |-> v], rest)
       [] f.f = "go" ->    \* `go e`: e has been evaluated to a function value by the spawner; exactly one new activation applies it to no
                           \* arguments, and the spawner continues with ()
            /\ par' = [par EXCEPT !.others = Append(@, [ctl |-> [t |-> "apply", node |-> [k |-> "callv"], vs |-> <<v>>, tenv |-> f.tenv], kont |-> <<>>, main |-> FALSE])]
            /\ ctl' = V(VUnit) /\ kont' = rest /\ steps' = steps + 1 /\ UNCHANGED <<pid, heap, nxt, out, status>>
       [] f.f = "match" ->
            LET hits == {i \in DOMAIN f.arms : Match(f.arms[i].p, v, f.env).ok} IN
            IF hits = {} THEN Stop(VFail("no arm matches"))
            ELSE LET i == Min(hits) IN
                 /\ ctl' = E(f.arms[i].b, Match(f.arms[i].p, v, f.env).env, f.tenv) /\ kont' = rest /\ Same
       [] f.f = "args" ->
            LET done == Append(f.done, v) IN
            IF Len(done) = Len(f.es) THEN /\ ctl' = [t |-> "apply", node |-> f.node, vs |-> done, tenv |-> f.tenv] /\ kont' = rest /\ Same
            ELSE /\ ctl' = E(f.es[Len(done) + 1], f.env, f.tenv) /\ kont' = <<[f EXCEPT !.done = done]>> \o rest /\ Same
       [] f.f = "blk" ->
            LET s == f.stmts[f.i]
                m == IF s.k = "let" THEN Match(s.p, v, f.env) ELSE [ok |-> TRUE, env |-> f.env] IN
            IF ~m.ok THEN Stop(VFail("let pattern does not match"))
            ELSE IF f.i = Len(f.stmts) THEN
                 (IF f.tail = <<>> THEN RetPop(VUnit, rest) ELSE /\ ctl' = E(f.tail[1], m.env, f.tenv) /\ kont' = rest /\ Same)
            ELSE /\ ctl' = E(f.stmts[f.i + 1].e, m.env, f.tenv) /\ kont' = <<[f EXCEPT !.i = f.i + 1, !.env = m.env]>> \o rest /\ Same

\* main returns: the program ends, whatever the other activations are doing; another activation ends: some other one goes on
Finish == /\ ctl.t = "v" /\ kont = <<>>
          /\ IF par.main THEN /\ status' = [k |-> "ok", why |-> ""] /\ UNCHANGED <<ctl, kont, heap, nxt, out>> /\ Tick
             ELSE \E i \in DOMAIN par.others :
                    /\ ctl' = par.others[i].ctl /\ kont' = par.others[i].kont
                    /\ par' = [main |-> par.others[i].main, others |-> [j \in 1..(Len(par.others) - 1) |-> par.others[IF j < i THEN j ELSE j + 1]]]
                    /\ steps' = steps + 1 /\ UNCHANGED <<pid, heap, nxt, out, status>>
OutOfSteps == /\ steps >= MaxSteps /\ status' = [k |-> "inconclusive", why |-> "step bound"] /\ UNCHANGED <<pid, ctl, kont, heap, nxt, out, steps, par>>
\* the scheduler: at any moment another activation may run instead of the current one
Switch == \E i \in DOMAIN par.others :
            /\ ctl' = par.others[i].ctl /\ kont' = par.others[i].kont
            /\ par' = [main |-> par.others[i].main, others |-> [par.others EXCEPT ![i] = [ctl |-> ctl, kont |-> kont, main |-> par.main]]]
            /\ UNCHANGED <<pid, heap, nxt, out, status, steps>>

Init == /\ pid \in 1..Len(Progs)
        /\ ctl = E(P.fns["main"].body, EmptyEnv, EmptyEnv) /\ kont = <<>>
        /\ heap = (0 :> 0) /\ nxt = 1 /\ out = <<>> /\ status = [k |-> "running", why |-> ""] /\ steps = 0
        /\ par = [main |-> TRUE, others |-> <<>>]
Next == /\ status.k = "running"
        /\ IF steps >= MaxSteps THEN OutOfSteps ELSE (StepE \/ StepApply \/ StepV \/ Finish \/ Switch)
ViewNoSteps == <<pid, ctl, kont, heap, nxt, out, status, par>>
Spec == Init /\ [][Next]_vars
Report == status.k # "running" =>
            PrintT(<<"REPORT", ToJson([name |-> P.name, status |-> status.k, why |-> status.why, out |-> out, steps |-> steps])>>)
=============================================================================
