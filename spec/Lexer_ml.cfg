SPECIFICATION Spec
CONSTANTS
  Puncts <- PunctTable
  Keywords <- KeywordTable
  Inputs <- MlInputs
  MaxChars = 0
  MaxPieces = 3
INVARIANTS Tiles Stable Emit
PROPERTY Terminates
CHECK_DEADLOCK FALSE
