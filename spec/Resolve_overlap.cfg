CONSTANT AllowOverlap = TRUE
INIT Init
NEXT Next
INVARIANTS AlgoIsMeaning OverlapIsTheOnlyDeviation ForReceiver TraitFormsAgree AmbiguousRefused InherentFormsAgree
CHECK_DEADLOCK FALSE
