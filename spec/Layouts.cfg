INIT Init
NEXT Next
INVARIANT Emit
CHECK_DEADLOCK FALSE
