-------------------------------- MODULE Items --------------------------------
(***************************************************************************)
(* The grammar of goml files and top-level items (C11): package and import  *)
(* declarations, attributes, functions with generics and trait bounds,      *)
(* structs, enums, traits, inherent and trait impls (with qualified trait   *)
(* paths), and the four extern forms.                                       *)
(*                                                                          *)
(*   File   ::= ["package" name] {"import" name} {Item}                     *)
(*   Item   ::= {Attr} (Fn | Struct | Enum | Trait | Impl | Extern)         *)
(*   Attr   ::= "#[" tokens with balanced brackets "]"   (one token here)   *)
(*   Fn     ::= "fn" name [Generics] "(" {name ":" Type ","} ")" ["->" Type] Block *)
(*   Generics ::= "[" {name [":" Path {"+" Path}] ","} "]"   (bounds only on functions) *)
(*   Struct ::= "struct" name [Generics] "{" {name ":" Type ","} "}"        *)
(*   Enum   ::= "enum" name [Generics] "{" {name ["(" {Type ","} ")"] ","} "}" *)
(*   Trait  ::= "trait" name "{" {"fn" name "(" {Type ","} ")" ["->" Type] ";"} "}" *)
(*   Impl   ::= "impl" [Generics] [Path "for"] Type "{" {Fn} "}"            *)
(*   Extern ::= "extern" string string [string] (name Params ["->" Type] | "type" name) *)
(*            | "extern" "type" name | "extern" "fn" name Params ["->" Type] *)
(* Separating commas may be followed by a closing bracket (trailing comma). *)
(*                                                                          *)
(* Items(kind) are the item trees over a small alphabet; Render is the      *)
(* token list; Parse the grammar read as a parser.  TLC checks              *)
(* Parse(Render(f)) = f for every file and emits (tokens, tree) for the     *)
(* real parser + AST lowering to be compared against.                       *)
(***************************************************************************)
EXTENDS Integers, Sequences, FiniteSets, TLC, Json

VARIABLES part, t
vars == <<part, t>>

None == [k |-> "none"]
\* ---------------------------------------------------------------- types used in declarations
TInt == [k |-> "int"]          \* int32
TVar == [k |-> "tv"]           \* T
TFn == [k |-> "fn"]            \* ( int32 ) -> T
TApp == [k |-> "app"]          \* S [ T ]
Tys == {TInt, TVar, TFn, TApp}
TyToks(ty) ==
  CASE ty.k = "int" -> <<"int32">> [] ty.k = "tv" -> <<"T">> [] ty.k = "fn" -> <<"(", "int32", ")", "->", "T">>
    [] ty.k = "app" -> <<"S", "[", "T", "]">>

\* ---------------------------------------------------------------- item trees
Gen(g, bs) == [g |-> g, bs |-> bs]                       \* bs: sequence of trait paths "Tr" | "Q::R"
BoundedGens == {<<>>, <<Gen("T", <<>>)>>, <<Gen("T", <<"Tr">>)>>, <<Gen("T", <<"Tr", "Q::R">>)>>, <<Gen("T", <<>>), Gen("U", <<"Q::R">>)>>}
PlainGens == {<<>>, <<Gen("T", <<>>)>>, <<Gen("T", <<>>), Gen("U", <<>>)>>}
TyLists == {<<>>} \cup {<<ty>> : ty \in Tys} \cup {<<TInt, ty>> : ty \in Tys}
Rets == {None} \cup Tys
Fn(at, gens, ps, ret) == [k |-> "fn", at |-> at, gens |-> gens, ps |-> ps, ret |-> ret]
Struct(at, gens, fs) == [k |-> "struct", at |-> at, gens |-> gens, fs |-> fs]
Variant(ts, parens) == [ts |-> ts, parens |-> parens]    \* `V`, `V ( )`, `V ( ts )`
Enum(at, gens, vs) == [k |-> "enum", at |-> at, gens |-> gens, vs |-> vs]
Sig(ps, ret) == [ps |-> ps, ret |-> ret]                 \* fn m ( Self , ps ) [-> ret]
Trait(at, ms) == [k |-> "trait", at |-> at, ms |-> ms]
Impl(gens, tr, for, ms) == [k |-> "impl", gens |-> gens, tr |-> tr, for |-> for, ms |-> ms]
ExtGo(sym, ps, ret) == [k |-> "extern-go", sym |-> sym, ps |-> ps, ret |-> ret]
ExtGoType == [k |-> "extern-go-type"]
ExtType == [k |-> "extern-type"]
ExtBuiltin(ps, ret) == [k |-> "extern-builtin", ps |-> ps, ret |-> ret]

Kinds == {"fn", "struct", "enum", "trait", "impl", "extern"}
VariantLists ==
  {<<>>, <<Variant(<<>>, FALSE)>>, <<Variant(<<>>, TRUE)>>}
  \cup {<<Variant(<<>>, FALSE), Variant(<<ty>>, TRUE)>> : ty \in Tys}
  \cup {<<Variant(<<ty, TInt>>, TRUE)>> : ty \in Tys}
SigLists ==
  {<<>>} \cup {<<Sig(<<>>, r)>> : r \in Rets} \cup {<<Sig(<<ty>>, TInt)>> : ty \in Tys}
  \cup {<<Sig(<<TInt>>, None), Sig(<<>>, ty)>> : ty \in Tys}
ImplFns == {Fn(0, <<>>, <<>>, None), Fn(0, <<>>, <<TApp>>, TInt), Fn(0, <<Gen("U", <<"Tr">>)>>, <<TInt, TVar>>, TVar)}
ItemsOf(kd) ==
  CASE kd = "fn" -> {Fn(at, gens, ps, ret) : at \in 0..2, gens \in BoundedGens, ps \in TyLists, ret \in Rets}
    [] kd = "struct" -> {Struct(at, gens, fs) : at \in 0..1, gens \in PlainGens, fs \in TyLists}
    [] kd = "enum" -> {Enum(at, gens, vs) : at \in 0..1, gens \in PlainGens, vs \in VariantLists}
    [] kd = "trait" -> {Trait(at, ms) : at \in 0..1, ms \in SigLists}
    [] kd = "impl" -> {Impl(gens, tr, for, ms) : gens \in {<<>>, <<Gen("T", <<>>)>>}, tr \in {"", "Tr", "Q::R"}, for \in {TInt, TVar, TApp},
                                                 ms \in {<<>>} \cup {<<f>> : f \in ImplFns} \cup {<<Fn(0, <<>>, <<>>, None), f>> : f \in ImplFns}}
    [] kd = "extern" -> {ExtGo(sym, ps, ret) : sym \in BOOLEAN, ps \in {<<>>, <<TInt>>, <<TInt, TApp>>}, ret \in {None, TInt}}
                        \cup {ExtGoType, ExtType} \cup {ExtBuiltin(ps, ret) : ps \in {<<>>, <<TInt>>, <<TInt, TApp>>}, ret \in {None, TInt}}
Seconds == {Fn(0, <<>>, <<>>, None), Struct(1, <<>>, <<TInt>>), ExtType, Impl(<<>>, "Tr", TInt, <<>>), Trait(0, <<>>)}
File(pkg, imps, trail, items) == [pkg |-> pkg, imps |-> imps, trail |-> trail, items |-> items]
FilesOf(kd) ==
  {File(pkg, imps, trail, <<it>>) : pkg \in BOOLEAN, imps \in 0..2, trail \in BOOLEAN, it \in ItemsOf(kd)}
  \cup {File(FALSE, 0, FALSE, <<it, nx>>) : it \in ItemsOf(kd), nx \in Seconds}
  \cup {File(TRUE, 1, TRUE, <<nx, it>>) : it \in ItemsOf(kd), nx \in Seconds}

\* ---------------------------------------------------------------- rendering
PathToks(p) == IF p = "Q::R" THEN <<"Q", "::", "R">> ELSE <<p>>
RECURSIVE Sep(_, _, _)
\* the token lists in `parts` separated by commas, with a trailing comma when asked and the list is not empty
Sep(parts, i, trail) ==
  IF i > Len(parts) THEN <<>>
  ELSE parts[i] \o (IF i < Len(parts) \/ trail THEN <<",">> ELSE <<>>) \o Sep(parts, i + 1, trail)
RECURSIVE Bounds(_, _)
Bounds(bs, i) == IF i > Len(bs) THEN <<>> ELSE (IF i > 1 THEN <<"+">> ELSE <<>>) \o PathToks(bs[i]) \o Bounds(bs, i + 1)
GenToks(g) == <<g.g>> \o (IF g.bs = <<>> THEN <<>> ELSE <<":">> \o Bounds(g.bs, 1))
GensToks(gens, trail) == IF gens = <<>> THEN <<>> ELSE <<"[">> \o Sep([i \in 1..Len(gens) |-> GenToks(gens[i])], 1, trail) \o <<"]">>
ParamName(i) == IF i = 1 THEN "a" ELSE "b"
ParamsToks(ps, trail) == <<"(">> \o Sep([i \in 1..Len(ps) |-> <<ParamName(i), ":">> \o TyToks(ps[i])], 1, trail) \o <<")">>
TysToks(ts, trail) == <<"(">> \o Sep([i \in 1..Len(ts) |-> TyToks(ts[i])], 1, trail) \o <<")">>
RetToks(r) == IF r = None THEN <<>> ELSE <<"->">> \o TyToks(r)
\* an attribute is written without inner white space and is one token here (the compiler recognises `#[builtin]` and
\* `#[derive(..)]` by their text)
AttrToks(n) == CASE n = 0 -> <<>> [] n = 1 -> <<"#[note]">> [] n = 2 -> <<"#[note]", "#[x[y](z)]">>
FnToks(f, trail) == AttrToks(f.at) \o <<"fn", "f">> \o GensToks(f.gens, trail) \o ParamsToks(f.ps, trail) \o RetToks(f.ret) \o <<"{", "}">>
RECURSIVE Concat(_, _)
Concat(parts, i) == IF i > Len(parts) THEN <<>> ELSE parts[i] \o Concat(parts, i + 1)
VariantToks(v, i, trail) == <<IF i = 1 THEN "V" ELSE "W">> \o (IF v.parens THEN TysToks(v.ts, trail) ELSE <<>>)
SigToks(s, i, trail) == <<"fn", IF i = 1 THEN "m" ELSE "n">>
                        \o <<"(">> \o Sep(<<<<"Self">>>> \o [j \in 1..Len(s.ps) |-> TyToks(s.ps[j])], 1, trail) \o <<")">> \o RetToks(s.ret) \o <<";">>
ItemToks(it, trail) ==
  CASE it.k = "fn" -> FnToks(it, trail)
    [] it.k = "struct" -> AttrToks(it.at) \o <<"struct", "S">> \o GensToks(it.gens, trail)
                          \o <<"{">> \o Sep([i \in 1..Len(it.fs) |-> <<ParamName(i), ":">> \o TyToks(it.fs[i])], 1, trail) \o <<"}">>
    [] it.k = "enum" -> AttrToks(it.at) \o <<"enum", "E">> \o GensToks(it.gens, trail)
                        \o <<"{">> \o Sep([i \in 1..Len(it.vs) |-> VariantToks(it.vs[i], i, trail)], 1, trail) \o <<"}">>
    [] it.k = "trait" -> AttrToks(it.at) \o <<"trait", "Tr", "{">> \o Concat([i \in 1..Len(it.ms) |-> SigToks(it.ms[i], i, trail)], 1) \o <<"}">>
    [] it.k = "impl" -> <<"impl">> \o GensToks(it.gens, trail) \o (IF it.tr = "" THEN <<>> ELSE PathToks(it.tr) \o <<"for">>) \o TyToks(it.for)
                        \o <<"{">> \o Concat([i \in 1..Len(it.ms) |-> FnToks(it.ms[i], trail)], 1) \o <<"}">>
    [] it.k = "extern-go" -> <<"extern", "\"go\"", "\"pkg\"">> \o (IF it.sym THEN <<"\"Sym\"">> ELSE <<>>) \o <<"f">> \o ParamsToks(it.ps, trail) \o RetToks(it.ret)
    [] it.k = "extern-go-type" -> <<"extern", "\"go\"", "\"pkg\"", "type", "S">>
    [] it.k = "extern-type" -> <<"extern", "type", "S">>
    [] it.k = "extern-builtin" -> <<"#[builtin]", "extern", "fn", "f">> \o ParamsToks(it.ps, trail) \o RetToks(it.ret)
Render(f) ==
  (IF f.pkg THEN <<"package", "Pk">> ELSE <<>>)
  \o (CASE f.imps = 0 -> <<>> [] f.imps = 1 -> <<"import", "Lib">> [] f.imps = 2 -> <<"import", "Lib", "import", "Oth">>)
  \o Concat([i \in 1..Len(f.items) |-> ItemToks(f.items[i], f.trail)], 1)

\* ---------------------------------------------------------------- the grammar as a parser
Err == [err |-> TRUE]
IsErr(r) == "err" \in DOMAIN r
Tok(ts, i) == IF i <= Len(ts) THEN ts[i] ELSE "<eof>"
Names == {"a", "b", "f", "m", "n", "S", "E", "V", "W", "T", "U", "Tr", "Q", "R", "Pk", "Lib", "Oth", "note", "x", "y", "z", "builtin", "Self"}
IsName(x) == x \in Names

Slice(ts, i, n) == [j \in 1..n |-> Tok(ts, i + j - 1)]
ParseTy(ts, i) ==
  IF Tok(ts, i) = "int32" THEN [t |-> TInt, i |-> i + 1]
  ELSE IF Tok(ts, i) = "T" THEN [t |-> TVar, i |-> i + 1]
  ELSE IF Slice(ts, i, 5) = <<"(", "int32", ")", "->", "T">> THEN [t |-> TFn, i |-> i + 5]
  ELSE IF Slice(ts, i, 4) = <<"S", "[", "T", "]">> THEN [t |-> TApp, i |-> i + 4]
  ELSE Err
ParsePath(ts, i) ==
  IF ~IsName(Tok(ts, i)) THEN Err
  ELSE IF Tok(ts, i + 1) = "::" THEN (IF IsName(Tok(ts, i + 2)) THEN [p |-> Tok(ts, i) \o "::" \o Tok(ts, i + 2), i |-> i + 3] ELSE Err)
  ELSE [p |-> Tok(ts, i), i |-> i + 1]
RECURSIVE ParseBounds(_, _, _)
ParseBounds(ts, i, acc) ==
  LET p == ParsePath(ts, i) IN
  IF IsErr(p) THEN Err
  ELSE IF Tok(ts, p.i) = "+" THEN ParseBounds(ts, p.i + 1, Append(acc, p.p)) ELSE [bs |-> Append(acc, p.p), i |-> p.i]
RECURSIVE ParseGens(_, _, _, _)
\* after `[`: generics up to `]`; a comma after each is optional
ParseGens(ts, i, bounded, acc) ==
  IF Tok(ts, i) = "]" THEN [gens |-> acc, i |-> i + 1]
  ELSE IF ~IsName(Tok(ts, i)) THEN Err
  ELSE IF bounded /\ Tok(ts, i + 1) = ":" THEN
       (LET b == ParseBounds(ts, i + 2, <<>>) IN
        IF IsErr(b) THEN Err ELSE ParseGens(ts, IF Tok(ts, b.i) = "," THEN b.i + 1 ELSE b.i, bounded, Append(acc, Gen(Tok(ts, i), b.bs))))
  ELSE ParseGens(ts, IF Tok(ts, i + 1) = "," THEN i + 2 ELSE i + 1, bounded, Append(acc, Gen(Tok(ts, i), <<>>)))
OptGens(ts, i, bounded) == IF Tok(ts, i) = "[" THEN ParseGens(ts, i + 1, bounded, <<>>) ELSE [gens |-> <<>>, i |-> i]
RECURSIVE ParseParams(_, _, _)
\* after `(`: `name : Type` separated by commas (required between parameters, optional before `)`)
ParseParams(ts, i, acc) ==
  IF Tok(ts, i) = ")" THEN [ps |-> acc, i |-> i + 1]
  ELSE IF ~IsName(Tok(ts, i)) \/ Tok(ts, i + 1) # ":" THEN Err
  ELSE LET ty == ParseTy(ts, i + 2) IN
       IF IsErr(ty) THEN Err
       ELSE IF Tok(ts, ty.i) = "," THEN ParseParams(ts, ty.i + 1, Append(acc, ty.t))
       ELSE IF Tok(ts, ty.i) = ")" THEN [ps |-> Append(acc, ty.t), i |-> ty.i + 1]
       ELSE Err
RECURSIVE ParseTys(_, _, _, _)
\* types up to `close`, commas optional
ParseTys(ts, i, close, acc) ==
  IF Tok(ts, i) = close THEN [ts |-> acc, i |-> i + 1]
  ELSE LET ty == ParseTy(ts, i) IN
       IF IsErr(ty) THEN Err ELSE ParseTys(ts, IF Tok(ts, ty.i) = "," THEN ty.i + 1 ELSE ty.i, close, Append(acc, ty.t))
OptRet(ts, i) ==
  IF Tok(ts, i) = "->" THEN (LET ty == ParseTy(ts, i + 1) IN IF IsErr(ty) THEN Err ELSE [ret |-> ty.t, i |-> ty.i]) ELSE [ret |-> None, i |-> i]
RECURSIVE ParseAttrs(_, _, _)
\* attributes: [n, i]
ParseAttrs(ts, i, n) == IF Tok(ts, i) \in {"#[note]", "#[x[y](z)]", "#[builtin]"} THEN ParseAttrs(ts, i + 1, n + 1) ELSE [n |-> n, i |-> i]

\* after the attributes, at `fn`
ParseFn(ts, i, at) ==
  IF Tok(ts, i) # "fn" \/ ~IsName(Tok(ts, i + 1)) THEN Err
  ELSE LET g == OptGens(ts, i + 2, TRUE) IN
       IF IsErr(g) \/ Tok(ts, g.i) # "(" THEN Err
       ELSE LET ps == ParseParams(ts, g.i + 1, <<>>) IN
            IF IsErr(ps) THEN Err
            ELSE LET r == OptRet(ts, ps.i) IN
                 IF IsErr(r) \/ Tok(ts, r.i) # "{" \/ Tok(ts, r.i + 1) # "}" THEN Err
                 ELSE [t |-> Fn(at, g.gens, ps.ps, r.ret), i |-> r.i + 2]
RECURSIVE ParseFns(_, _, _)
ParseFns(ts, i, acc) ==
  IF Tok(ts, i) = "}" THEN [ms |-> acc, i |-> i + 1]
  ELSE LET f == ParseFn(ts, i, 0) IN IF IsErr(f) THEN Err ELSE ParseFns(ts, f.i, Append(acc, f.t))
RECURSIVE ParseFields(_, _, _)
ParseFields(ts, i, acc) ==
  IF Tok(ts, i) = "}" THEN [fs |-> acc, i |-> i + 1]
  ELSE IF ~IsName(Tok(ts, i)) \/ Tok(ts, i + 1) # ":" THEN Err
  ELSE LET ty == ParseTy(ts, i + 2) IN
       IF IsErr(ty) THEN Err ELSE ParseFields(ts, IF Tok(ts, ty.i) = "," THEN ty.i + 1 ELSE ty.i, Append(acc, ty.t))
RECURSIVE ParseVariants(_, _, _)
ParseVariants(ts, i, acc) ==
  IF Tok(ts, i) = "}" THEN [vs |-> acc, i |-> i + 1]
  ELSE IF ~IsName(Tok(ts, i)) THEN Err
  ELSE IF Tok(ts, i + 1) = "(" THEN
       (LET l == ParseTys(ts, i + 2, ")", <<>>) IN
        IF IsErr(l) THEN Err ELSE ParseVariants(ts, IF Tok(ts, l.i) = "," THEN l.i + 1 ELSE l.i, Append(acc, Variant(l.ts, TRUE))))
  ELSE ParseVariants(ts, IF Tok(ts, i + 1) = "," THEN i + 2 ELSE i + 1, Append(acc, Variant(<<>>, FALSE)))
RECURSIVE ParseSigs(_, _, _)
ParseSigs(ts, i, acc) ==
  IF Tok(ts, i) = "}" THEN [ms |-> acc, i |-> i + 1]
  ELSE IF Tok(ts, i) # "fn" \/ ~IsName(Tok(ts, i + 1)) \/ Tok(ts, i + 2) # "(" \/ Tok(ts, i + 3) # "Self" THEN Err
  ELSE LET l == ParseTys(ts, IF Tok(ts, i + 4) = "," THEN i + 5 ELSE i + 4, ")", <<>>) IN
       IF IsErr(l) THEN Err
       ELSE LET r == OptRet(ts, l.i) IN
            IF IsErr(r) THEN Err ELSE ParseSigs(ts, IF Tok(ts, r.i) = ";" THEN r.i + 1 ELSE r.i, Append(acc, Sig(l.ts, r.ret)))
\* does a trait path followed by `for` start here? (the look-ahead of `impl`)
ImplHasTrait(ts, i) ==
  IsName(Tok(ts, i)) /\ (Tok(ts, i + 1) = "for" \/ (Tok(ts, i + 1) = "::" /\ IsName(Tok(ts, i + 2)) /\ Tok(ts, i + 3) = "for"))

ParseItem(ts, i0) ==
  LET a == ParseAttrs(ts, i0, 0) IN
  IF IsErr(a) THEN Err
  ELSE LET i == a.i x == Tok(ts, i) IN
  IF x = "fn" THEN ParseFn(ts, i, a.n)
  ELSE IF x = "struct" THEN
       (IF ~IsName(Tok(ts, i + 1)) THEN Err
        ELSE LET g == OptGens(ts, i + 2, FALSE) IN
             IF IsErr(g) \/ Tok(ts, g.i) # "{" THEN Err
             ELSE LET fs == ParseFields(ts, g.i + 1, <<>>) IN IF IsErr(fs) THEN Err ELSE [t |-> Struct(a.n, g.gens, fs.fs), i |-> fs.i])
  ELSE IF x = "enum" THEN
       (IF ~IsName(Tok(ts, i + 1)) THEN Err
        ELSE LET g == OptGens(ts, i + 2, FALSE) IN
             IF IsErr(g) \/ Tok(ts, g.i) # "{" THEN Err
             ELSE LET vs == ParseVariants(ts, g.i + 1, <<>>) IN IF IsErr(vs) THEN Err ELSE [t |-> Enum(a.n, g.gens, vs.vs), i |-> vs.i])
  ELSE IF x = "trait" THEN
       (IF ~IsName(Tok(ts, i + 1)) \/ Tok(ts, i + 2) # "{" THEN Err
        ELSE LET ms == ParseSigs(ts, i + 3, <<>>) IN IF IsErr(ms) THEN Err ELSE [t |-> Trait(a.n, ms.ms), i |-> ms.i])
  ELSE IF x = "impl" THEN
       (LET g == OptGens(ts, i + 1, FALSE) IN
        IF IsErr(g) \/ a.n # 0 THEN Err
        ELSE LET tr == IF ImplHasTrait(ts, g.i) THEN ParsePath(ts, g.i) ELSE [p |-> "", i |-> g.i - 1]
                 ty == ParseTy(ts, tr.i + 1) IN                  \* skips `for`
             IF IsErr(ty) \/ Tok(ts, ty.i) # "{" THEN Err
             ELSE LET ms == ParseFns(ts, ty.i + 1, <<>>) IN IF IsErr(ms) THEN Err ELSE [t |-> Impl(g.gens, tr.p, ty.t, ms.ms), i |-> ms.i])
  ELSE IF x = "extern" THEN
       (IF Tok(ts, i + 1) = "type" THEN (IF IsName(Tok(ts, i + 2)) /\ a.n = 0 THEN [t |-> ExtType, i |-> i + 3] ELSE Err)
        ELSE IF Tok(ts, i + 1) = "fn" THEN
             (IF ~IsName(Tok(ts, i + 2)) \/ Tok(ts, i + 3) # "(" \/ a.n # 1 THEN Err
              ELSE LET ps == ParseParams(ts, i + 4, <<>>) IN
                   IF IsErr(ps) THEN Err
                   ELSE LET r == OptRet(ts, ps.i) IN IF IsErr(r) THEN Err ELSE [t |-> ExtBuiltin(ps.ps, r.ret), i |-> r.i])
        ELSE IF Tok(ts, i + 1) # "\"go\"" \/ Tok(ts, i + 2) # "\"pkg\"" \/ a.n # 0 THEN Err
        ELSE LET sym == Tok(ts, i + 3) = "\"Sym\""
                 j == IF sym THEN i + 4 ELSE i + 3 IN
             IF Tok(ts, j) = "type" THEN (IF IsName(Tok(ts, j + 1)) /\ ~sym THEN [t |-> ExtGoType, i |-> j + 2] ELSE Err)
             ELSE IF ~IsName(Tok(ts, j)) \/ Tok(ts, j + 1) # "(" THEN Err
             ELSE LET ps == ParseParams(ts, j + 2, <<>>) IN
                  IF IsErr(ps) THEN Err
                  ELSE LET r == OptRet(ts, ps.i) IN IF IsErr(r) THEN Err ELSE [t |-> ExtGo(sym, ps.ps, r.ret), i |-> r.i])
  ELSE Err
RECURSIVE ParseItems(_, _, _)
ParseItems(ts, i, acc) ==
  IF i > Len(ts) THEN [items |-> acc]
  ELSE LET it == ParseItem(ts, i) IN IF IsErr(it) THEN Err ELSE ParseItems(ts, it.i, Append(acc, it.t))
\* a file; `trail` is a property of the spelling, not of the tree: it is copied from the expected file
Parse(ts, trail) ==
  LET pkg == Tok(ts, 1) = "package"
      i1 == IF pkg THEN 3 ELSE 1
      n == IF Tok(ts, i1) # "import" THEN 0 ELSE IF Tok(ts, i1 + 2) # "import" THEN 1 ELSE 2
      its == ParseItems(ts, i1 + 2 * n, <<>>) IN
  IF IsErr(its) THEN Err ELSE File(pkg, n, trail, its.items)

\* ---------------------------------------------------------------- model
Init == part \in Kinds /\ t = None
Next == t = None /\ t' \in FilesOf(part) /\ UNCHANGED part
RoundTrip == t # None => Parse(Render(t), t.trail) = t
Emit == t # None => PrintT(<<"ITEMS", ToJson([toks |-> Render(t), tree |-> t])>>)
=============================================================================
