SPECIFICATION Spec
CONSTANTS
  Fns <- F2
  MaxDepth = 2
  Dedup = FALSE
  NameFn <- GoodName
INVARIANTS Once Complete Injective

CHECK_DEADLOCK FALSE
