SPECIFICATION Spec
CONSTANTS
  Fns <- F2
  MaxDepth = 2
  Dedup = FALSE
  NameFn <- GoodName
INVARIANTS Once Complete Injective NoDivergeIfFinite

CHECK_DEADLOCK FALSE
