-------------------------------- MODULE IntN --------------------------------
(***************************************************************************)
(* Exact integers for the executable semantics (GoSem, GomlSem, C10).      *)
(* TLC integers are 32-bit and overflow is an error, so a number is        *)
(*    [s |-> TRUE,  v |-> n]                  when |n| < 2^29   (fast path) *)
(*    [s |-> FALSE, neg |-> b, mag |-> bytes] otherwise; bytes are the      *)
(*                                            magnitude, little-endian,     *)
(*                                            base 256, no high zero byte   *)
(* The representation is canonical, so TLA+ equality is numeric equality.  *)
(* Fixed-width arithmetic = exact arithmetic followed by Wrap(bits,signed). *)
(* Division truncates toward zero (Go and goml); TLC's \div floors.         *)
(***************************************************************************)
EXTENDS Integers, Sequences

SmallLim == 536870912        \* 2^29
NAbs(x) == IF x < 0 THEN -x ELSE x
NSmall(n) == [s |-> TRUE, v |-> n]
NZero == NSmall(0)

\* ----------------------------------------------------------------- byte magnitudes
RECURSIVE ToBytes(_)
ToBytes(n) == IF n = 0 THEN <<>> ELSE <<n % 256>> \o ToBytes(n \div 256)      \* n >= 0

RECURSIVE TrimHi(_)
TrimHi(m) == IF m = <<>> THEN m ELSE IF m[Len(m)] = 0 THEN TrimHi(SubSeq(m, 1, Len(m) - 1)) ELSE m

RECURSIVE BytesVal(_)
BytesVal(m) == IF m = <<>> THEN 0 ELSE m[1] + 256 * BytesVal(Tail(m))          \* only when < 2^30

FitsSmall(m) == Len(m) <= 3 \/ (Len(m) = 4 /\ m[4] < 32)

FromMag(neg, mag) ==
  LET m == TrimHi(mag) IN
  IF FitsSmall(m) THEN NSmall(IF neg THEN -BytesVal(m) ELSE BytesVal(m))
  ELSE [s |-> FALSE, neg |-> neg, mag |-> m]

MagOf(n) == IF n.s THEN ToBytes(NAbs(n.v)) ELSE n.mag
NegOf(n) == IF n.s THEN n.v < 0 ELSE n.neg
IsZero(n) == n.s /\ n.v = 0

Byte(m, i) == IF i <= Len(m) THEN m[i] ELSE 0
MaxLen(a, b) == IF Len(a) > Len(b) THEN Len(a) ELSE Len(b)

RECURSIVE AddMagC(_, _, _, _)
AddMagC(a, b, i, c) ==
  IF i > MaxLen(a, b) THEN (IF c = 0 THEN <<>> ELSE <<c>>)
  ELSE LET s == Byte(a, i) + Byte(b, i) + c IN <<s % 256>> \o AddMagC(a, b, i + 1, s \div 256)
AddMag(a, b) == AddMagC(a, b, 1, 0)

RECURSIVE SubMagB(_, _, _, _)
SubMagB(a, b, i, br) ==          \* a >= b
  IF i > Len(a) THEN <<>>
  ELSE LET d == Byte(a, i) - Byte(b, i) - br IN
       IF d < 0 THEN <<d + 256>> \o SubMagB(a, b, i + 1, 1) ELSE <<d>> \o SubMagB(a, b, i + 1, 0)
SubMag(a, b) == TrimHi(SubMagB(a, b, 1, 0))

RECURSIVE CmpMagI(_, _, _)
CmpMagI(a, b, i) ==              \* compare from the high byte down; a, b trimmed
  IF i = 0 THEN 0
  ELSE IF Byte(a, i) < Byte(b, i) THEN -1 ELSE IF Byte(a, i) > Byte(b, i) THEN 1 ELSE CmpMagI(a, b, i - 1)
CmpMag(a, b) == IF Len(a) < Len(b) THEN -1 ELSE IF Len(a) > Len(b) THEN 1 ELSE CmpMagI(a, b, Len(a))

RECURSIVE MulSmallC(_, _, _, _)
MulSmallC(a, k, i, c) ==         \* a * k, 0 <= k < 2^16
  IF i > Len(a) THEN ToBytes(c)
  ELSE LET p == a[i] * k + c IN <<p % 256>> \o MulSmallC(a, k, i + 1, p \div 256)
MulSmall(a, k) == TrimHi(MulSmallC(a, k, 1, 0))

RECURSIVE Zeros(_)
Zeros(n) == IF n <= 0 THEN <<>> ELSE <<0>> \o Zeros(n - 1)

RECURSIVE MulMagI(_, _, _)
MulMagI(a, b, i) ==
  IF i > Len(b) THEN <<>>
  ELSE AddMag(Zeros(i - 1) \o MulSmall(a, b[i]), MulMagI(a, b, i + 1))
MulMag(a, b) == TrimHi(MulMagI(a, b, 1))

\* a divided by small k (0 < k < 2^16): [q, r]
RECURSIVE DivSmallI(_, _, _, _)
DivSmallI(a, k, i, r) ==         \* from the high byte down; returns bytes high-first reversed into little-endian
  IF i = 0 THEN [q |-> <<>>, r |-> r]
  ELSE LET cur == r * 256 + a[i]
           rest == DivSmallI(a, k, i - 1, cur % k) IN
       [q |-> rest.q \o <<cur \div k>>, r |-> rest.r]
DivSmall(a, k) == LET d == DivSmallI(a, k, Len(a), 0) IN [q |-> TrimHi(d.q), r |-> d.r]

\* general division of magnitudes by binary long division: [q, r]
Bit(m, j) == (Byte(m, (j \div 8) + 1) \div (2 ^ (j % 8))) % 2       \* j-th bit, j >= 0
Shl1(m, b) == TrimHi(MulSmallC(m, 2, 1, b))                           \* 2*m + b
RECURSIVE DivBits(_, _, _, _, _)
DivBits(a, b, j, q, r) ==
  IF j < 0 THEN [q |-> q, r |-> r]
  ELSE LET r1 == Shl1(r, Bit(a, j)) IN
       IF CmpMag(r1, b) >= 0 THEN DivBits(a, b, j - 1, Shl1(q, 1), SubMag(r1, b))
       ELSE DivBits(a, b, j - 1, Shl1(q, 0), r1)
DivMag(a, b) == DivBits(a, b, 8 * Len(a) - 1, <<>>, <<>>)

\* ----------------------------------------------------------------- exact arithmetic on numbers
NNeg(n) == IF n.s THEN NSmall(-n.v) ELSE [n EXCEPT !.neg = ~n.neg]

NAdd(a, b) ==
  IF a.s /\ b.s THEN
       LET r == a.v + b.v IN IF NAbs(r) < SmallLim THEN NSmall(r) ELSE FromMag(r < 0, ToBytes(NAbs(r)))
  ELSE LET ma == MagOf(a) mb == MagOf(b) na == NegOf(a) nb == NegOf(b) IN
       IF na = nb THEN FromMag(na, AddMag(ma, mb))
       ELSE LET c == CmpMag(ma, mb) IN
            IF c = 0 THEN NZero ELSE IF c > 0 THEN FromMag(na, SubMag(ma, mb)) ELSE FromMag(nb, SubMag(mb, ma))
NSub(a, b) == NAdd(a, NNeg(b))

NMul(a, b) ==
  IF a.s /\ b.s /\ NAbs(a.v) < 16384 /\ NAbs(b.v) < 16384 THEN NSmall(a.v * b.v)
  ELSE IF IsZero(a) \/ IsZero(b) THEN NZero
  ELSE FromMag(NegOf(a) # NegOf(b), MulMag(MagOf(a), MagOf(b)))

\* truncated division and remainder (b # 0)
NDiv(a, b) ==
  IF a.s /\ b.s THEN
       LET q == NAbs(a.v) \div NAbs(b.v) IN NSmall(IF (a.v < 0) # (b.v < 0) THEN -q ELSE q)
  ELSE LET d == DivMag(MagOf(a), MagOf(b)) IN
       LET q == TrimHi(d.q) IN IF q = <<>> THEN NZero ELSE FromMag(NegOf(a) # NegOf(b), q)
NRem(a, b) == NSub(a, NMul(NDiv(a, b), b))

NCmp(a, b) ==
  IF a.s /\ b.s THEN (IF a.v < b.v THEN -1 ELSE IF a.v > b.v THEN 1 ELSE 0)
  ELSE LET na == NegOf(a) nb == NegOf(b) IN
       IF na /\ ~nb THEN -1 ELSE IF ~na /\ nb THEN 1
       ELSE LET c == CmpMag(MagOf(a), MagOf(b)) IN IF na THEN -c ELSE c
NLt(a, b) == NCmp(a, b) < 0
NLe(a, b) == NCmp(a, b) <= 0

\* ----------------------------------------------------------------- fixed width
Pow2Bytes(bits) == Zeros(bits \div 8) \o <<1>>                        \* 2^bits, bits multiple of 8
LowBytes(m, n) == [i \in 1..n |-> Byte(m, i)]

\* value of n modulo 2^bits, reinterpreted as signed when `signed`
Wrap(bits, signed, n) ==
  IF n.s /\ bits <= 16 THEN
       LET md == 2 ^ bits
           u == ((n.v % md) + md) % md IN
       NSmall(IF signed /\ u >= md \div 2 THEN u - md ELSE u)
  ELSE IF n.s /\ (IF signed THEN TRUE ELSE n.v >= 0) /\ bits >= 32 THEN n       \* |v| < 2^29 is in range of every >= 32-bit type
  ELSE LET nb == bits \div 8
           low == TrimHi(LowBytes(MagOf(n), nb))
           u == IF NegOf(n) /\ low # <<>> THEN SubMag(Pow2Bytes(bits), low) ELSE low      \* n mod 2^bits as magnitude
           top == Byte(u, nb) >= 128 IN
       IF signed /\ top THEN FromMag(TRUE, SubMag(Pow2Bytes(bits), u)) ELSE FromMag(FALSE, u)

\* n lies in the range of the type
InRange(bits, signed, n) == Wrap(bits, signed, n) = n

\* ----------------------------------------------------------------- decimal
RECURSIVE SmallDigits(_)
SmallDigits(n) == IF n < 10 THEN <<48 + n>> ELSE SmallDigits(n \div 10) \o <<48 + (n % 10)>>
RECURSIVE MagDigits(_)
MagDigits(m) == IF FitsSmall(m) THEN SmallDigits(BytesVal(m))
                ELSE LET d == DivSmall(m, 10) IN MagDigits(d.q) \o <<48 + d.r>>
\* decimal rendering as a byte sequence ("-12")
NDec(n) == IF n.s THEN (IF n.v < 0 THEN <<45>> \o SmallDigits(-n.v) ELSE SmallDigits(n.v))
           ELSE (IF n.neg THEN <<45>> ELSE <<>>) \o MagDigits(n.mag)

\* number from decimal digits (sequence of 0..9), exact
RECURSIVE DigitsMag(_, _)
DigitsMag(ds, acc) == IF ds = <<>> THEN acc
                      ELSE DigitsMag(Tail(ds), TrimHi(AddMag(MulSmall(acc, 10), ToBytes(Head(ds)))))
NFromDigits(neg, ds) == FromMag(neg, DigitsMag(ds, <<>>))

\* small conversions
NVal(n) == n.v                 \* only for n.s
NFromInt(i) == IF NAbs(i) < SmallLim THEN NSmall(i) ELSE FromMag(i < 0, ToBytes(NAbs(i)))
=============================================================================
