SPECIFICATION SweepSpec
CONSTANTS
  Pkgs <- Diamond4
  Deps <- Diamond4Deps
  MaxI = 3
  MaxB = 3
  MaxCorrupt = 0
  Depth = 6
  IfaceKinds <- IKinds
  BodyKinds <- BKinds
INVARIANTS Emit LinkSafe
CONSTRAINT Bound
CHECK_DEADLOCK FALSE
