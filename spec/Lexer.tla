-------------------------------- MODULE Lexer --------------------------------
(***************************************************************************)
(* The lexer (crates/lexer/src/lib.rs) as a scanner over a text: one        *)
(* action = one call of Lexer::next.  A text is a sequence of code points;  *)
(* positions are reported in UTF-8 bytes, as the compiler does.             *)
(*                                                                         *)
(* Rules (the logos definition read as a specification):                    *)
(*   - the token at a position is the LONGEST match of any token class;     *)
(*     on equal length a keyword wins over an identifier;                   *)
(*   - classes: fixed spellings (punctuation, operators, keywords, `_`),     *)
(*     identifiers [A-Za-z][A-Za-z_0-9]*, numbers (digits, digits.digits,    *)
(*     each optionally followed by a width suffix that is part of the token  *)
(*     only when complete), strings (JSON escapes only, no raw control       *)
(*     characters), blanks, `//` comments to the end of the line, and        *)
(*     multi-line strings: a line starting `\\` followed by at least one     *)
(*     more line whose first non-blank characters are `\\` (transcribed      *)
(*     from lex_multiline_str; the token ends before the line feed of its    *)
(*     last line; a single `\\` line is NOT a token - named rule OneLine);   *)
(*   - where nothing matches, an Error token covers the longest prefix that  *)
(*     could still have become a token (an unclosed string up to the last      *)
(*     complete character or escape, a lone `&` or `\`), at least one character; a *)
(*     `\\` that is not a multi-line string is an Error token of those two   *)
(*     characters.                                                          *)
(* Checked on the model: tokens tile the text, every token is non-empty     *)
(* (termination), and lexing the text of a token gives that token back      *)
(* (Stable).  The same operator LexAll predicts the token stream of every   *)
(* generated text; the real lexer must produce exactly it (kinds and byte    *)
(* ranges).                                                                 *)
(***************************************************************************)
EXTENDS Integers, Sequences, FiniteSets, TLC, Json

At(t, i) == IF i >= 1 /\ i <= Len(t) THEN t[i] ELSE -1
Width(c) == IF c < 128 THEN 1 ELSE IF c < 2048 THEN 2 ELSE IF c < 65536 THEN 3 ELSE 4
RECURSIVE Bytes(_, _, _)
Bytes(t, from, to) == IF from > to THEN 0 ELSE Width(t[from]) + Bytes(t, from + 1, to)      \* bytes of t[from..to]

IsDigit(c) == c >= 48 /\ c <= 57
IsAlpha(c) == (c >= 65 /\ c <= 90) \/ (c >= 97 /\ c <= 122)
IsIdentCont(c) == IsAlpha(c) \/ IsDigit(c) \/ c = 95
IsHex(c) == IsDigit(c) \/ (c >= 65 /\ c <= 70) \/ (c >= 97 /\ c <= 102)
IsBlank(c) == c \in {32, 9, 13, 10}
IsStrChar(c) == c >= 32 /\ c # 34 /\ c # 92
In(cls, c) == CASE cls = "digit" -> IsDigit(c) [] cls = "identcont" -> IsIdentCont(c) [] cls = "blank" -> IsBlank(c)
                [] cls = "notnl" -> c >= 0 /\ c # 10 [] cls = "spacetab" -> c = 32 \/ c = 9

RECURSIVE Run(_, _, _)
Run(t, p, cls) == IF In(cls, At(t, p)) THEN 1 + Run(t, p + 1, cls) ELSE 0              \* length of the run of cls starting at p

\* fixed spellings, given as code point sequences by the instantiating module
CONSTANTS Puncts,      \* set of [k |-> kind, s |-> spelling]
          Keywords     \* set of [k |-> kind, s |-> spelling]  (identifier-shaped, and "_")
HasPrefix(t, p, s) == \A i \in 1..Len(s) : At(t, p + i - 1) = s[i]
Slice(t, p, n) == [i \in 1..n |-> t[p + i - 1]]

No == [k |-> "none", n |-> 0]
Best(S) == IF S = {} THEN No ELSE CHOOSE m \in S : \A m2 \in S : m.n >= m2.n
PunctAt(t, p) == Best({[k |-> q.k, n |-> Len(q.s)] : q \in {q \in Puncts : HasPrefix(t, p, q.s)}})
WordAt(t, p) == IF At(t, p) = 95 THEN [k |-> "WildcardKeyword", n |-> 1]
                ELSE IF ~IsAlpha(At(t, p)) THEN No
                ELSE LET n == 1 + Run(t, p + 1, "identcont")
                         kw == {q \in Keywords : q.s = Slice(t, p, n)} IN
                     IF kw = {} THEN [k |-> "Ident", n |-> n] ELSE [k |-> (CHOOSE q \in kw : TRUE).k, n |-> n]

\* numbers: digits [. digits] [suffix]
IntSuffixes == {<<"Int8Lit", <<105, 56>>>>, <<"Int16Lit", <<105, 49, 54>>>>, <<"Int32Lit", <<105, 51, 50>>>>, <<"Int64Lit", <<105, 54, 52>>>>,
                <<"UInt8Lit", <<117, 56>>>>, <<"UInt16Lit", <<117, 49, 54>>>>, <<"UInt32Lit", <<117, 51, 50>>>>, <<"UInt64Lit", <<117, 54, 52>>>>}
FloatSuffixes == {<<"Float32Lit", <<102, 51, 50>>>>, <<"Float64Lit", <<102, 54, 52>>>>}
NumberAt(t, p) ==
  LET d == Run(t, p, "digit") IN
  IF d = 0 THEN No
  ELSE LET frac == IF At(t, p + d) = 46 THEN Run(t, p + d + 1, "digit") ELSE 0 IN
       IF frac > 0
       THEN LET n == d + 1 + frac
                sf == {s \in FloatSuffixes : HasPrefix(t, p + n, s[2])} IN
            IF sf = {} THEN [k |-> "Float", n |-> n] ELSE LET s == CHOOSE s \in sf : TRUE IN [k |-> s[1], n |-> n + Len(s[2])]
       ELSE LET sf == {s \in IntSuffixes : HasPrefix(t, p + d, s[2])} IN
            IF sf = {} THEN [k |-> "Int", n |-> d]
            ELSE LET s == CHOOSE s \in sf : \A s2 \in sf : Len(s[2]) >= Len(s2[2]) IN [k |-> s[1], n |-> d + Len(s[2])]

\* strings: StrScan(t, q) walks the body from q; result [ok, n]: closed (n = index of the closing quote) or the index where the scan died
RECURSIVE StrScan(_, _)
StrScan(t, q) ==
  LET c == At(t, q) IN
  IF c = 34 THEN [ok |-> TRUE, at |-> q]
  ELSE IF c = 92 THEN
         LET e == At(t, q + 1) IN
         IF e \in {34, 92, 98, 110, 102, 114, 116, 47} THEN StrScan(t, q + 2)
         ELSE IF e = 117 THEN
                (IF ~IsHex(At(t, q + 2)) THEN [ok |-> FALSE, at |-> q]
                 ELSE IF ~IsHex(At(t, q + 3)) THEN [ok |-> FALSE, at |-> q]
                 ELSE IF ~IsHex(At(t, q + 4)) THEN [ok |-> FALSE, at |-> q]
                 ELSE IF ~IsHex(At(t, q + 5)) THEN [ok |-> FALSE, at |-> q]
                 ELSE StrScan(t, q + 6))
         ELSE [ok |-> FALSE, at |-> q]
  ELSE IF c >= 0 /\ IsStrChar(c) THEN StrScan(t, q + 1)
  ELSE [ok |-> FALSE, at |-> q]                       \* end of text, or a raw control character
StrAt(t, p) == IF At(t, p) # 34 THEN No
               ELSE LET r == StrScan(t, p + 1) IN IF r.ok THEN [k |-> "Str", n |-> r.at - p + 1] ELSE No
\* how far an attempt at a string got before it died (the Error token of an unclosed / malformed string)
StrViable(t, p) == IF At(t, p) # 34 THEN 0 ELSE LET r == StrScan(t, p + 1) IN IF r.ok THEN 0 ELSE r.at - p

\* multi-line strings, transcribed from lex_multiline_str; positions are indices into t, p is the first backslash.
\* MlLines(t, ls, lines, endPrev): ls = start of the candidate next line, endPrev = index of the line feed before it
RECURSIVE MlLines(_, _, _, _)
MlLines(t, ls, lines, endPrev) ==
  IF ls > Len(t) THEN [lines |-> lines, end |-> endPrev]          \* the text ended with the line feed: it is consumed
  ELSE LET idx == ls + Run(t, ls, "spacetab") IN
       \* (idx + 1 >= len in the code, 0-based: the second backslash does not exist)
       IF idx + 1 > Len(t) \/ At(t, idx) # 92 \/ At(t, idx + 1) # 92
       THEN [lines |-> lines, end |-> endPrev - 1]                  \* trim the line feed that brought us here
       ELSE LET stop == idx + 2 + Run(t, idx + 2, "notnl") IN        \* index of the line feed, or Len(t) + 1
            IF stop > Len(t) THEN [lines |-> lines + 1, end |-> Len(t)]
            ELSE MlLines(t, stop + 1, lines + 1, stop)
MlAt(t, p) ==
  IF At(t, p) # 92 \/ At(t, p + 1) # 92 THEN No
  ELSE LET nl == p + 2 + Run(t, p + 2, "notnl") IN                   \* index of the first line feed
       IF nl > Len(t) THEN [k |-> "Error", n |-> 2]                   \* OneLine: no line feed at all
       ELSE LET r == MlLines(t, nl + 1, 1, nl) IN
            IF r.lines < 2 THEN [k |-> "Error", n |-> 2] ELSE [k |-> "MultilineStr", n |-> r.end - p + 1]

BlankAt(t, p) == LET n == Run(t, p, "blank") IN IF n = 0 THEN No ELSE [k |-> "Whitespace", n |-> n]
CommentAt(t, p) == IF At(t, p) = 47 /\ At(t, p + 1) = 47 THEN [k |-> "Comment", n |-> 2 + Run(t, p + 2, "notnl")] ELSE No

\* the token at p (p <= Len(t))
TokenAt(t, p) ==
  LET ml == MlAt(t, p)
      m == Best({PunctAt(t, p), WordAt(t, p), NumberAt(t, p), StrAt(t, p), BlankAt(t, p), CommentAt(t, p)}) IN
  IF ml.n > 0 THEN ml
  ELSE IF m.n > 0 THEN m
  ELSE LET v == StrViable(t, p) IN [k |-> "Error", n |-> IF v > 1 THEN v ELSE 1]

RECURSIVE LexFrom(_, _, _)
LexFrom(t, p, b) == IF p > Len(t) THEN <<>>
                    ELSE LET m == TokenAt(t, p)
                             w == Bytes(t, p, p + m.n - 1) IN
                         <<[k |-> m.k, s |-> b, e |-> b + w]>> \o LexFrom(t, p + m.n, b + w)
LexAll(t) == LexFrom(t, 1, 0)

\* ---- the scanner as a state machine
CONSTANT Inputs
VARIABLES text, pos, bpos, out
vars == <<text, pos, bpos, out>>
Init == text \in Inputs /\ pos = 1 /\ bpos = 0 /\ out = <<>>
Scan == /\ pos <= Len(text)
        /\ LET m == TokenAt(text, pos)
               w == Bytes(text, pos, pos + m.n - 1) IN
           /\ pos' = pos + m.n /\ bpos' = bpos + w
           /\ out' = Append(out, [k |-> m.k, s |-> bpos, e |-> bpos + w, from |-> pos, n |-> m.n])
        /\ UNCHANGED text
Next == Scan
Spec == Init /\ [][Next]_vars /\ WF_vars(Next)

AtEnd == pos = Len(text) + 1
Tiles == /\ \A i \in DOMAIN out : out[i].n >= 1 /\ out[i].s < out[i].e
         /\ \A i \in 1..Len(out) - 1 : out[i].e = out[i + 1].s /\ out[i].from + out[i].n = out[i + 1].from
         /\ (out # <<>> => out[1].s = 0 /\ out[1].from = 1 /\ out[Len(out)].e = bpos /\ out[Len(out)].from + out[Len(out)].n = pos)
         /\ pos <= Len(text) + 1
\* lexing the text of a token gives that token back (Error tokens: errors again, possibly several)
Stable == \A i \in DOMAIN out :
            LET sub == Slice(text, out[i].from, out[i].n)
                again == LexAll(sub) IN
            IF out[i].k = "Error" THEN \A j \in DOMAIN again : again[j].k = "Error"
            ELSE Len(again) = 1 /\ again[1].k = out[i].k
Terminates == <>AtEnd
Emit == AtEnd => PrintT(<<"LEX", ToJson([text |-> text, toks |-> [i \in DOMAIN out |-> [k |-> out[i].k, s |-> out[i].s, e |-> out[i].e]]])>>)
=============================================================================
