SPECIFICATION Spec
CONSTANTS
  Names <- N2
  MaxToks = 5
  MaxDepth = 2
  ScopedKinds <- AllKinds
INVARIANTS StackIsLexical NoLeak ImplIsLexical Emit
CHECK_DEADLOCK FALSE
