SPECIFICATION Spec
INVARIANTS TopologicalIffAllBuilt Monotone Emit
CHECK_DEADLOCK FALSE
