SPECIFICATION Spec
CONSTANTS
  VarIds = {1, 2}
  Lens <- WildLens
  MaxCalls = 2
  Rich = FALSE
  OccursInRet = TRUE
INVARIANTS InvAcyclic InvUnified InvGrows
CHECK_DEADLOCK FALSE
