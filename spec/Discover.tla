------------------------------ MODULE Discover ------------------------------
(***************************************************************************)
(* Package discovery and ordering of goml (pipeline/packages.rs,            *)
(* pipeline/pipeline.rs: typecheck_packages / compile).                     *)
(*                                                                          *)
(* discover_packages keeps a *stack* `queue` seeded with the entry          *)
(* package's imports and extended with the imports of every package it      *)
(* loads; `discovery_order` is the order of first loads and is the order in *)
(* which package top-levels are concatenated into the program, so it is     *)
(* visible in the emitted Go.  Imports are a set in the code; how a set is  *)
(* turned into a sequence is the only nondeterminism:                       *)
(*   SortedQueue = FALSE : any permutation (std HashSet iteration order,    *)
(*                         which depends on the per-process hash seed)      *)
(*   SortedQueue = TRUE  : ascending by name (after the `fix:` commit)      *)
(* topo_sort_packages iterates sorted names and sorted deps and is          *)
(* deterministic by construction; it is modelled as an operator.            *)
(***************************************************************************)
EXTENDS Integers, Sequences, FiniteSets, TLC, Json, SequencesExt

CONSTANTS Others,       \* package names other than "Main" (model strings "A","B",..)
          SortedQueue,  \* BOOLEAN, see above
          Rank,         \* [Pkgs -> Nat] name order (TLC cannot compare strings)
          MaxEdges      \* bound on the number of import edges (state-space knob)

Pkgs == Others \cup {"Main"}

VARIABLES imports,  \* [Pkgs -> SUBSET Pkgs]   the project (chosen in Init, then constant)
          exists,   \* SUBSET Pkgs             packages whose directory exists
          queue, loaded, order, st

vars == <<imports, exists, queue, loaded, order, st>>

\* all sequences enumerating the set S
Perms(S) == {s \in [1..Cardinality(S) -> S] : \A i, j \in 1..Cardinality(S) : i # j => s[i] # s[j]}
Sorted(S) == CHOOSE s \in Perms(S) : \A i, j \in 1..Cardinality(S) : i < j => Rank[s[i]] < Rank[s[j]]
Iter(S) == IF SortedQueue THEN {Sorted(S)} ELSE Perms(S)

Edges(imp) == {<<p, q>> \in Pkgs \X Pkgs : q \in imp[p]}

Init ==
  /\ imports \in [Pkgs -> SUBSET Pkgs]
  /\ Cardinality(Edges(imports)) <= MaxEdges
  /\ exists \in {E \in SUBSET Pkgs : "Main" \in E}
  /\ \A p \in Pkgs \ exists : imports[p] = {}          \* a missing package has no source
  /\ queue \in Iter(imports["Main"])
  /\ loaded = {"Main"}
  /\ order = <<"Main">>
  /\ st = "discover"

\* one iteration of `while let Some(package_name) = queue.pop()`
Pop ==
  /\ st = "discover" /\ queue # <<>>
  /\ LET p == Last(queue) rest == Front(queue) IN
     IF p \in loaded THEN
        /\ queue' = rest /\ UNCHANGED <<loaded, order, st>>
     ELSE IF p \notin exists THEN
        /\ st' = "err-missing" /\ UNCHANGED <<queue, loaded, order>>
     ELSE
        /\ \E q \in Iter(imports[p]) : queue' = rest \o q
        /\ loaded' = loaded \cup {p}
        /\ order' = Append(order, p)
        /\ st' = st
  /\ UNCHANGED <<imports, exists>>

Finish ==
  /\ st = "discover" /\ queue = <<>>
  /\ st' = "done"
  /\ UNCHANGED <<imports, exists, queue, loaded, order>>

Next == Pop \/ Finish
Spec == Init /\ [][Next]_vars

-----------------------------------------------------------------------------
\* Reference: the unique discovery order under ascending iteration (what a deterministic compiler does).
RECURSIVE Canon(_, _, _, _)
Canon(imp, q, ld, ord) ==
  IF q = <<>> THEN ord
  ELSE LET p == Last(q) rest == Front(q) IN
       IF p \in ld THEN Canon(imp, rest, ld, ord)
       ELSE Canon(imp, rest \o Sorted(imp[p]), ld \cup {p}, Append(ord, p))
CanonOrder == Canon(imports, Sorted(imports["Main"]), {"Main"}, <<"Main">>)

Reach == {p \in Pkgs : p \in loaded}
AllExist == \A p \in Pkgs : p \in exists

\* C13 on the design: the result is a function of the project, not of the schedule
Det == (st = "done") => order = CanonOrder

\* discovery loads exactly the packages reachable from Main, each once
RECURSIVE ReachFrom(_, _)
ReachFrom(imp, S) == LET T == S \cup UNION {imp[p] : p \in S} IN IF T = S THEN S ELSE ReachFrom(imp, T)
LoadsReachable == (st = "done") => /\ loaded = ReachFrom(imports, {"Main"})
                                    /\ Len(order) = Cardinality(loaded)
                                    /\ \A i, j \in 1..Len(order) : i # j => order[i] # order[j]
\* a missing package is reported iff one is reachable
MissingReported == (st = "err-missing") => \E p \in ReachFrom(imports, {"Main"}) : p \notin exists
NoSilentMissing == (st = "done") => ReachFrom(imports, {"Main"}) \subseteq exists

Terminates == <>(st # "discover")

\* Export: for every project, every order the model can realise (used to validate real discovery orders)
Emit == (st = "done") => PrintT(<<"ORDER", ToJson([imports |-> imports, exists |-> exists, order |-> order])>>)
=============================================================================
