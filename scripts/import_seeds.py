#!/usr/bin/env python3
"""Copy evaluated seeded changes from /tmp/seeded_out into /verif/seeded/<ID>-m<i>/ (patch.diff, demonstration, meta.json)."""
import json, os, shutil, sys, glob
for d in sorted(glob.glob(os.environ.get("SEED_ROOT", "/tmp/seeded_out") + "/C*/m*")):
    if not os.path.exists(os.path.join(d, "patch.diff")) or not os.path.exists(os.path.join(d, "meta.json")):
        continue
    prop = os.path.basename(os.path.dirname(d)); m = os.path.basename(d)
    dst = f"/verif/seeded/{prop}-{m}"
    os.makedirs(dst, exist_ok=True)
    for f in os.listdir(d):
        src = os.path.join(d, f)
        if f in ("eval.json",) or f.startswith("go_with") or f == "target":
            continue
        if os.path.isdir(src):
            shutil.copytree(src, os.path.join(dst, f), dirs_exist_ok=True, ignore=shutil.ignore_patterns("target", "out", "*.core", "*.interface"))
        elif os.path.getsize(src) < 200000:
            shutil.copy(src, os.path.join(dst, f))
    try:
        meta = json.load(open(os.path.join(d, "meta.json")))
    except Exception:
        meta = {"property": prop, "raw_meta": open(os.path.join(d, "meta.json")).read()[:2000]}
    ev = os.path.join(d, "eval.json")
    if os.path.exists(ev):
        meta["checks_run"] = json.load(open(ev))
        meta["detected_by"] = sorted(k for k, v in meta["checks_run"].items() if v["exit"] == 1)
    conf = os.path.join(d, "confirm.json")
    if os.path.exists(conf):
        meta["confirmed"] = json.load(open(conf))
    json.dump(meta, open(os.path.join(dst, "meta.json"), "w"), indent=1)
    print(dst, meta.get("detected_by"))

# index
rows = []
for d in sorted(glob.glob("/verif/seeded/C*-m*")):
    try:
        meta = json.load(open(os.path.join(d, "meta.json")))
    except Exception:
        continue
    name = os.path.basename(d)
    runs = meta.get("checks_run", {})
    ids = []
    for k, v in runs.items():
        if v.get("exit") == 1:
            ids += [f"{k}: {i}" for i in v.get("identities", [])[:3]]
    conf = meta.get("confirmed", {})
    what = meta.get("summary") or meta.get("title") or meta.get("description") or meta.get("what") or ""
    if isinstance(what, (list, dict)):
        what = json.dumps(what)
    rows.append((name, str(what).replace("\n", " ")[:160], ", ".join(meta.get("detected_by", [])) or "-",
                 "; ".join(ids)[:300], f"{conf.get('stable_tests_passing', '?')}/{conf.get('stable_tests_total', '?')}"))
with open("/verif/seeded/INDEX.md", "w") as f:
    f.write("# Seeded breaking changes\n\nEach directory holds `patch.diff` (applies to /repo at the recorded HEAD; never committed there), the sub-agent's demonstration, and `meta.json` "
            "(property, what the change needs to manifest, `checks_run`: the checks I ran against it in a scratch worktree with their exit codes and reported identities, "
            "`confirmed`: build and pinned-test result of the patched tree).\n\n| seed | change | detected by | first identities reported | stable tests passing |\n|---|---|---|---|---|\n")
    for r in rows:
        f.write("| " + " | ".join(x.replace("|", "/") for x in r) + " |\n")
print("index written", len(rows))
