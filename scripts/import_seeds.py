#!/usr/bin/env python3
"""Copy evaluated seeded changes from /tmp/seeded_out into /verif/seeded/<ID>-m<i>/ (patch.diff, demonstration, meta.json)."""
import json, os, shutil, sys, glob
for d in sorted(glob.glob("/tmp/seeded_out/C*/m*")):
    if not os.path.exists(os.path.join(d, "patch.diff")) or not os.path.exists(os.path.join(d, "meta.json")):
        continue
    prop = os.path.basename(os.path.dirname(d)); m = os.path.basename(d)
    dst = f"/verif/seeded/{prop}-{m}"
    os.makedirs(dst, exist_ok=True)
    for f in os.listdir(d):
        src = os.path.join(d, f)
        if f in ("eval.json",) or f.startswith("go_with") or f == "target":
            continue
        if os.path.isdir(src):
            shutil.copytree(src, os.path.join(dst, f), dirs_exist_ok=True, ignore=shutil.ignore_patterns("target", "out", "*.core", "*.interface"))
        elif os.path.getsize(src) < 200000:
            shutil.copy(src, os.path.join(dst, f))
    try:
        meta = json.load(open(os.path.join(d, "meta.json")))
    except Exception:
        meta = {"property": prop, "raw_meta": open(os.path.join(d, "meta.json")).read()[:2000]}
    ev = os.path.join(d, "eval.json")
    if os.path.exists(ev):
        meta["checks_run"] = json.load(open(ev))
        meta["detected_by"] = sorted(k for k, v in meta["checks_run"].items() if v["exit"] == 1)
    conf = os.path.join(d, "confirm.json")
    if os.path.exists(conf):
        meta["confirmed"] = json.load(open(conf))
    json.dump(meta, open(os.path.join(dst, "meta.json"), "w"), indent=1)
    print(dst, meta.get("detected_by"))
