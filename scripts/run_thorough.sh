#!/bin/sh
# run the thorough tier of the given checks one after the other; print exit code and wall time
cd "$(dirname "$0")/.."
for id in "$@"; do
  s=$(date +%s); ./check $id --tier thorough > thorough_$id.out 2> thorough_$id.err; rc=$?; e=$(date +%s)
  echo "$id exit=$rc $((e-s))s $(grep -c '^KNOWN-FINDING' thorough_$id.out) known $(grep -c '^VIOLATION' thorough_$id.out) violations"
  grep '^VIOLATION\|TOOL-ERROR' thorough_$id.out thorough_$id.err | head -5
done
