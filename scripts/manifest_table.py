HOOK_COMMITS = []
NOTES = ("All checks are driven by /verif/check (python3, stdlib). Specifications live in /verif/spec; the Rust harness "
         "/verif/harness (binary gv) and the goml CLI are rebuilt from /repo's working tree on every run with --cfg goml_verif. "
         "Exit 0 = held (KNOWN-FINDING lines for defects listed in known_findings.json), 1 = VIOLATION, 2 = tool error.")
ENGINES = [
    {"name": "tlc", "path": "/verif/spec", "serves_properties": ["C01", "C02", "C05", "C06", "C07", "C08", "C09", "C10", "C11", "C12", "C13", "C14", "C15", "C16", "C17", "C18", "C19", "C03", "C04"],
     "kind_free_text": "TLA+ specifications model-checked / simulated by TLC 1.8"},
    {"name": "gv", "path": "/verif/harness", "serves_properties": ["C01", "C02", "C05", "C06", "C07", "C08", "C09", "C10", "C11", "C12", "C13", "C14", "C15", "C16", "C17", "C18", "C19", "C03", "C04"],
     "kind_free_text": "Rust conformance harness with path dependencies on /repo/crates/*, and the goml CLI built from /repo"},
]
PENDING = "check not built yet in this round (planned in DESIGN.md §4); not a claim that the technique cannot apply"
NOT_APPLICABLE = {p: PENDING for p in ["C%02d" % i for i in range(1, 21)]}
CHECKS = {
    "C04": {
        "level": "model_checking",
        "technique": "Pipeline.tla is the contract of the entry points (stages in order, Err(stage) with >= 1 error diagnostic as soon as a stage reports one, Ok otherwise, every behaviour ends with a result), model-checked incl. termination; PipelineTrace.tla validates the recorded outcome of every real run against it; inputs come from TLC generators (MCTokens.tla token sequences x syntactic contexts, Layouts.tla package layouts) and the generators of the other checks, and are run through pipeline::compile in process and through the real binary (run / check / build / link)",
        "text": "Every token sequence of length <= 2 over the full 65-token alphabet (<= 3 over 37 core tokens) in 12 syntactic contexts (top level, body, expression, type, pattern, generic list, fields, arguments, closure parameters, variants, impl and trait bodies); all strings of <= 2 (3) symbols over C12's lexical alphabet plus seeded longer ones and mutated corpus files; every generated program family of the other checks and thousands of ill-typed variants (C03's mutation engine); 20 shapes of nesting / chaining / wide declarations at depth 16..200 in process and 300..3000 through the real binary (own stack); 2400 package layouts (what main imports x state of the imported directories x sibling files: absent, empty, wrong package name, garbage, not UTF-8, import cycles, file instead of directory, duplicate definitions, a sibling whose error lies beyond the entry file's length); interface/core artifacts malformed structurally (truncation, wrong JSON types, deleted keys, emptied containers, huge numbers) offered to check / build / link; the CLI on unreadable, non-UTF-8, empty, directory and missing inputs. A run violates the property when it panics, is killed by a signal, exceeds 60 s, succeeds without output, fails without an error diagnostic / message, or reports a position outside the text or off a character boundary.",
        "note": "Shapes whose compile time grows polynomially (nested tuples, arrays, while loops: ~d^3..d^4) are kept below the depth where they would exceed the time bound; they terminate. Diagnostics carry no file name, so positions are judged for single-file inputs only. In-process runs use a 256 MiB stack; stack exhaustion is judged on the binary.",
    },
    "C03": {
        "level": "model_checking",
        "technique": "IRTyping.tla is the typing judgment of goml's intermediate representations (scoping, signatures, constructors, field reads, operators, branches, closedness after mono, ANF immediacy); the Core/Mono/Lift/ANF terms the real compiler produced for every accepted program are exported structurally and TLC evaluates the judgment on them (IRTypingCheck.tla); ill-typed variants with one injected type error must be rejected by the typer",
        "text": "Every program the compiler accepts - the recorded corpus, all generated families of the other checks (about 1600 programs in quick) and a family of generic functions, closures over type parameters, generic containers, generic inherent/trait methods and array/vec/ref builtins at five instantiation types - is compiled; all four IRs with their environments (struct/enum definitions, function signatures, trait methods, impls) are exported node by node with the type each node carries and IRTyping.tla is evaluated on them by TLC: every variable use in scope of a binder of the same type or an instance of a function signature, every call / constructor / field read / projection / operator / branch / arm consistent, no type parameter, type application or inference variable after mono, no wildcard array length, ANF operands immediate. The judgment's deliberate deviations from a textbook reading are named in the spec (let annotations, lifted apply callee annotation, the diverging `missing` helper, Core instance names). From each accepted generated program ill-typed variants are derived (a value of another type - literals, comparisons, arithmetic, lambdas - in any slot whose type is fixed by a declaration; wrong arity; unknown field in reads and literals; array literal longer/shorter than annotated; dropped payload; literal pattern of another type): each must be rejected with a typer diagnostic. A self-test corrupts recorded IR in seven ways and requires the judgment to reject each.",
        "note": "The ill-typed variants are ill-typed by construction (declared slot types), not by a second TLA+ typing judgment of the source language; accepted variants are additionally put through IRTyping. Programs whose IR nests deeper than the JSON reader's limit (255) after let-chain flattening would be skipped and listed (none today).",
    },
    "C19": {
        "level": "model_checking",
        "technique": "Names.tla generates the entity universe and states injectivity / legality / non-capture of name tables; the real naming functions are applied to the universe and the recorded table validated by TLC (NamesCheck.tla); alpha-renaming of one base program to every hostile identifier validated GomlSem vs GoSem + GoStatic",
        "text": "TLC enumerates 913 internal names over the compiler's separators plus hostile identifiers and up to 4425 types of nesting depth 2; go_ident, encode_ty, go_type_name_for, ty_compact, trait_impl_fn_name, inherent_method_fn_name, ref_struct_name and the array/ref helper namers are applied to all of them by the harness and NamesCheck.tla checks each table for injectivity, legality of the outputs as Go identifiers and that no user-writable identifier lands on a name the output relies on. One base program (functions, parameters, locals, struct, fields, enum, variants, trait, methods, closure, generic, refs, vecs, arrays) is alpha-renamed, each identifier kind to each hostile name (Go keywords, predeclared identifiers, runtime helper names, temporaries, generated helper/instance names): accepted variants must print the same and yield valid Go.",
        "note": "Quick uses types whose description is short (about 1/8 of the universe) and every second hostile name.",
    },
    "C14": {
        "level": "model_checking",
        "technique": "BuildOrder.tla enumerates DAG shapes x all build orders with predicted per-step verdicts (TLC checks topological <=> everything builds); each order is executed through the real build/check/link CLI on files; linked Go compared with whole-program Go by GoStatic/GoSem",
        "text": "For chain, fan-in, diamond and direct+transitive import shapes over four packages, TLC enumerates all 24 orders of build invocations and predicts each build's success and linkability. The driver performs the steps on real files (build against the interfaces written so far, check vs build interface equality, link), compares every verdict, and for every successful link requires the linked Go to be valid and to behave exactly like the Go obtained by compiling the whole project at once (GoSem outcomes equal), with content that crosses package boundaries in every way (generic functions instantiated in dependents, foreign traits implemented for local types, bounded generics, enums/structs matched across packages).",
        "note": "Quick runs 4 orders per shape, thorough all 96; equivalence is between the two compilation routes (both executed by GoSem), not against GomlSem.",
    },
    "C16": {
        "level": "model_checking",
        "technique": "Coherence.tla enumerates all package/placement configurations with their rule-violation sets and proves (TLC) that the orphan rule with acyclic resolved imports implies coherence; sampled configurations are written as directory trees, compiled by the real pipeline and the verdict class compared; accepted ones executed by GoSem",
        "text": "48384 configurations of three packages (import edges incl. a missing package, misnamed directory, placement of a struct, a trait, <= 2 impls and a use site) are enumerated by TLC with the set of violated rules (missing, mismatch, cycle, unresolved, orphan, duplicate, noimpl); TLC checks OrphanRuleImpliesCoherence and UniqueMeaning on all of them. A stratified sample (every violation class; thorough: all) is compiled: accepted iff the model's set is empty, a rejection must carry one of the model's reasons, and an accepted program must print the value of the unique loaded implementation.",
        "note": "Verdict classes are recognised from diagnostic texts by keyword; three packages only.",
    },
    "C12": {
        "level": "model_checking",
        "technique": "TreeBuilder.tla (event replay + fuel) model-checked for all small token/event lists; recorded tokens, parser events, tree leaves and diagnostics of real parses validated by TreeTrace.tla (leaves re-derived from tokens+events, tiling, boundaries, ranges)",
        "text": "TLC checks on TreeBuilder.tla that the tree's leaves are always an in-order prefix of the token list, that the tree is lossless exactly when there is one Advance per significant token (and which suffix is lost otherwise), and that exhausted fuel forces EOF. For every input text - all strings of <= 2 (3) symbols over a 30-symbol alphabet covering each token class, quotes, backslashes, the multi-line string introducer, 2- and 4-byte characters and an illegal character, seeded longer strings, bodies of functions, and seeded mutations of the corpus - the real lexer and parser are run; TreeTrace.tla re-derives the leaves from the recorded tokens and events and compares them with the recorded tree, and checks that token ranges tile the text on character boundaries, tree text = input, all node and diagnostic ranges lie in the text, and a second parse is identical.",
        "note": "Beyond the enumerated lengths this is seeded sampling (as DESIGN.md states).",
    },
    "C11": {
        "level": "model_checking",
        "technique": "Pratt.tla (documented precedence table, minimal-parenthesis Render, declarative Parse) checked by TLC for Parse(Render(t)) = t on all small trees; each rendered token list, with varied trivia, parsed by the real lexer/parser/AST lowering and compared with the tree; Lexis.tla literal denotations compared with the AST's literal values",
        "text": "TLC enumerates every expression shape with <= 2 operator nodes over 12 binary, 2 prefix and 5 postfix forms (and <= 3 nodes over representative operators), checks that the documented grammar is self-consistent, and emits (tokens, tree); each token list is joined with spaces, without spaces, and with newlines/tabs/line comments and parsed by parse_ast_file; the ast::File expression must equal the tree. Lexis.tla enumerates string literal bodies over every escape the lexer accepts plus plain/UTF-8 pieces with their denotation; the AST string value must be the denoted bytes; numeric spellings (leading zeros, suffixes, floats) and multi-line strings likewise.",
        "note": "Leaves are variables only; item/pattern/type forms are exercised through the other families' rendered programs rather than enumerated here.",
    },
    "C18": {
        "level": "model_checking",
        "technique": "Derive.tla (prescribed renderings + JSON recogniser/decoder) checked by TLC on enumerated values (Decode(ToJson(v)) = v); derive templates evaluated by GomlSem.tla+Derive.tla vs GoSem.tla on the real derived code",
        "text": "Derive.tla prescribes to_json/to_string on values and contains an RFC 8259 recogniser and decoder; TLC checks on ~900 values with all strings of length <= 2 over a hostile alphabet that the prescribed JSON is well formed and decodes back to the value. Structs/enums with every primitive field type, nesting, recursion, field names coinciding with generated identifiers (tag, fields, field0), empty structs and strings containing each special character are derived and run; the Go output must equal the prescription. Underivable field types and generic types must be rejected by a derive-stage diagnostic.",
        "note": "Special characters are only denotable through multi-line string literals today (so test strings contain a line feed). Floats on the dyadic fragment.",
    },
    "C17": {
        "level": "translation_validation",
        "technique": "call-form templates per receiver kind evaluated by GomlSem.tla (dispatch on the receiver's type, dyn packages) and by GoSem.tla on the emitted Go; rejection templates for ambiguity / missing impl",
        "text": "For int32, string, bool, a struct, an enum, two instances of a generic struct and a type of another package, one program prints every applicable call form (inherent x.m(a) and T::m(x,a); trait Tr::m(x,a), both bounded-generic forms, dyn via annotated let, dyn via argument coercion, literal coerced to dyn); all lines must equal GomlSem's result, with a second impl present so that a wrong dispatch is visible. An ambiguous method name under two bounds and a dyn coercion without impl must be rejected; disambiguated spellings accepted and dispatch to the named trait.",
        "note": "Trusted as for C01. Programs hitting the known dyn-wrapper naming defect for generic instances (C02 finding) are not executable and only counted.",
    },
    "C07": {
        "level": "model_checking",
        "technique": "Mono.tla (instantiation worklist with dedup, naming, termination) model-checked by TLC incl. liveness; generic templates x concrete type-argument pairs validated GomlSem (type passing) vs GoSem on the monomorphised Go, GoStatic for duplicate/missing instances",
        "text": "Mono.tla models ensure_instance / pop over all call graphs of 2-3 generic functions with same/wrap/const type-argument transformers: each reachable instance emitted exactly once (fails as self-test without the queued test), completeness, injective naming, termination iff the closure is finite. Templates (identity, swap, first, boxes, options incl. return-type-only parameters, nested instances, recursive lists, function-typed parameters, trait-bounded functions calling each other, impls on two instances of one generic type) are instantiated at pairs of 16 concrete types; outputs of the monomorphised Go must equal GomlSem's and the Go must be valid.",
        "note": "Trusted as for C01; Mono.tla abstracts types to nesting depth. The H2 tracing hook planned in DESIGN.md was not needed (behavioural binding).",
    },
    "C08": {
        "level": "translation_validation",
        "technique": "closure templates (capture set x nesting x flow x mutation/shadowing) evaluated by GomlSem.tla and, after real lambda lifting, by GoSem.tla",
        "text": "Every combination of captured binder kinds (fn parameter, let, pattern variable, outer closure parameter, Ref cell), nesting depth 1-3 and flow of the function value (let, tuple, struct field, array, argument, branch result, closure-in-closure, call after Ref mutation, call after shadowing, repeated call), top-level functions as values, zero-arity values and returned counters; captured variables carry distinct weights so the printed number identifies binder and value. Outcome of the lifted Go must equal GomlSem's closure semantics.",
        "note": "Programs whose Go is invalid because of the known closure-representation defect (C02 finding) cannot be executed and are only counted.",
    },
    "C10": {
        "level": "model_checking",
        "technique": "IntN.tla (exact N-bit arithmetic) checked by TLC against reference vectors and exhaustively for 8 bits; literal/operator/boundary templates run through GomlSem.tla and, compiled, through GoSem.tla",
        "text": "IntN.tla defines wrap-around, truncated division, comparison and decimal rendering on exact integers beyond TLC's 32 bits and is self-checked (reference vectors, all 8-bit pairs). Every literal spelling (min-1, min, -1, 0, 1, max, max+1, leading zeros; suffixed/annotated/inferred) at each of the 8 integer types, every arithmetic/comparison operator and negation on boundary operands (through functions and directly on literals), division by zero, mixed widths and dyadic float arithmetic/printing are compiled; accept/reject verdicts and printed values must equal GomlSem's; emitted Go must be valid (GoStatic incl. constant-overflow and constant zero-divisor rules).",
        "note": "Floats only on exactly representable dyadic values (no IEEE rounding in TLA+); boundary operands, not all pairs, for 16/32/64 bits.",
    },
    "C06": {
        "level": "model_checking",
        "technique": "MatchSem.tla (Matches/Binds/FirstMatch + matrix generator) checked and simulated by TLC; every generated matrix compiled by the real pipeline and its decision tree executed by GoSem.tla against FirstMatch's prediction for every scrutinee value",
        "text": "MatchSem.tla defines first-match semantics over bool/int/string literals, tuples, a struct with permuted field patterns, plain and generic enums (depth 2) and generates matrices row by row; TLC checks FirstMatchIsFirst/WildcardLastIsTotal and emits each matrix with the expected arm and bindings for every value. Each matrix is compiled as a match in unit position, in value position (exhaustive ones) and as a destructuring let (irrefutable rows); GoSem.tla executes the emitted switch tree; printed arm index and bound sub-values must equal the prediction, values no row matches must fail exactly there; MatchSem and GomlSem must agree with each other (else tool error).",
        "note": "Trusted: MatchSem.tla, GoSem.tla, renderer. Matrices <= 4 rows, depth 2, sampled by TLC simulation (260 quick / 6000 thorough); comparison is behavioural so a different correct heuristic raises no alarm.",
    },
    "C01": {
        "level": "translation_validation",
        "technique": "two TLC-executed semantics: GomlSem.tla (source meaning) vs GoSem.tla run on the real compiler's emitted Go text; corpus re-compiled and executed against outputs recorded from real Go",
        "text": "For every program of the enumerated families (evaluation-order, match matrices, numeric, closure, generic, call-form, derive templates) and seeded random type-directed programs, the outcome (stdout bytes, normal/failed end) of GoSem.tla on the Go text emitted by the real pipeline must equal the outcome of GomlSem.tla on the source; the repository corpus is re-compiled and its fresh Go executed by GoSem against the outputs recorded from real Go. GoSem is calibrated first on the recorded .go files (must reproduce the recorded outputs byte for byte).",
        "note": "Trusted: GomlSem/GoSem as specifications (GoSem calibrated on 67+ recorded real-Go runs), the Go-subset parser and hoister, TLC. Bounded programs (<= 20000 source steps); floats only on exactly representable dyadic values; extern Go packages unsupported.",
    },
    "C02": {
        "level": "translation_validation",
        "technique": "GoStatic.tla (Go's static rules as a TLC-executed specification) over the emitted text of every accepted program, calibrated on the recorded corpus (accept 73, reject 058)",
        "text": "The emitted Go of every accepted program (corpus, package projects, all generated families, random programs) is parsed by an independent Go-subset parser and walked by GoStatic.tla: declarations before use and once per scope, assignability incl. untyped-constant representability, call/return arity and types, expression-statement rule, unused locals/imports, terminating statements, switch rules. Calibration: every recorded corpus file real Go accepted must be accepted, the recorded rejected one must be rejected.",
        "note": "Trusted: GoStatic.tla as a model of go/types for this subset (not go vet itself), goparse. Unknown constructs are 'unsupported', never violations.",
    },
    "C09": {
        "level": "model_checking",
        "technique": "TLC executes GomlSem.tla (left-to-right operand frames, short-circuit frames) and GoSem.tla on the emitted Go for effect-position templates of every n-ary construct, plus random programs",
        "text": "Ticks, Ref updates and failing operations are placed in every operand / argument / field / branch / condition / discarded position of every n-ary construct (all 12 binary operators incl. order-sensitive operands, calls, methods, tuples, arrays, constructors, struct literals in permuted order, if/match/while, discarded conditionals and matches, unused lets in arms and loops); GomlSem.tla computes the expected output, GoSem.tla runs the compiler's Go; outcomes must be equal.",
        "note": "Trusted as for C01. The `go` interleaving part is not yet included in this round's machinery (sequential effects only).",
    },
    "C05": {
        "level": "model_checking",
        "technique": "TLC enumeration of all scoping skeletons with Scopes.tla (stack = declarative lexical resolution = implementation-shaped environment) + replay of every skeleton through the real AST->HIR lowering and the full compiler",
        "text": "Scopes.tla writes every function body over lets, uses, blocks (then/else/while), match arms and closures for names {x,p} (+y thorough) up to 6 (7) tokens and nesting 2 (3), carrying the lexical resolution of every use; TLC checks that the scope stack equals the declarative block-path definition and that the implementation-shaped environment (one vector, copied per scoped block kind) agrees, and fails as a self-test when only closures copy. All ~1.8e5 complete skeletons are rendered and lowered by the real name resolution: every use must resolve to exactly the model's binder (by source position), unbound uses must stay unresolved; a sample is run through the whole compiler (accept well-scoped, reject unbound with a diagnostic naming the identifier, never an internal error).",
        "note": "Trusted: renderer offsets, TLC. Bounded by token count/nesting/name set; type-level scoping (generics) and package-level names are C16's business.",
    },
    "C13": {
        "level": "model_checking",
        "technique": "TLC check of Discover.tla (all import graphs x all set-iteration schedules) + trace validation of real discovery orders and byte-comparison of all outputs across processes with pinned hash seeds",
        "text": "Discover.tla models discover_packages as the stack machine it is, with set iteration as the only nondeterminism; TLC proves Det for the sorted design on every import graph with <= 3 non-entry packages and <= 6 edges (and finds the counterexample for HashSet iteration as a self-test). Projects enumerated by TLC, error projects with several diagnostics and the whole repository corpus are compiled in K processes whose RandomState keys are pinned to different seeds; the realised discovery order must be the model's behaviour and Go text, Core/Mono/Lift/ANF/TAST dumps, diagnostics and interface/core files must be byte-identical.",
        "note": "Trusted: strace getrandom injection really fixes RandomState (self-checked: same seed => same bytes), K seeds sample the schedule space (6 quick, 32 thorough). Directory enumeration order is not varied (read_gom_sources sorts).",
    },
    "C15": {
        "level": "model_checking",
        "technique": "TLC exhaustive check of Artifacts.tla + replay of TLC-simulated histories through the real check/build/link CLI (verdicts and interface-hash partition), single-field corruption sweep",
        "text": "Artifacts.tla (one action per CLI invocation, files with injective interface contents) is model-checked exhaustively on small dependency graphs for LinkSafe/StaleUnlinkable/CorruptRejected; behaviours generated by TLC from the same spec are replayed on real files through `goml check|build|link`, comparing every verdict and the partition of all interface hashes after every step; every leaf of the JSON artifacts is altered in turn.",
        "note": "Trusted: TLC, the replay driver (lib/c15.py), the package generator (interface edits produce never-seen interfaces). Bounded: graphs of 3-4 packages, MaxI<=3 edits, sampled histories of 16 steps.",
    },
}
