#!/usr/bin/env python3
"""For every seeded change under /tmp/seeded_out: in its scratch worktree (never /repo) reset to /repo's HEAD, apply the patch, run the
pinned test suite with the guard off and record whether all 59 stable tests still pass (confirm.json)."""
import glob, json, os, re, subprocess, sys
base = json.load(open("/root/.vp/BASELINE.json"))
head = subprocess.run(["git", "-C", "/repo", "rev-parse", "HEAD"], capture_output=True, text=True).stdout.strip()
only = sys.argv[1:]
for d in sorted(glob.glob(os.environ.get("SEED_ROOT", "/tmp/seeded_out") + "/C*/m*")):
    prop = os.path.basename(os.path.dirname(d))
    if only and prop not in only:
        continue
    if not os.path.exists(d + "/patch.diff"):
        continue
    wt = os.environ.get("WT_ROOT", "/tmp/wt") + "/" + prop
    if not os.path.isdir(wt):
        subprocess.run(["git", "-C", "/repo", "worktree", "add", "-q", wt, "HEAD"], check=True)
    subprocess.run(["git", "-C", wt, "checkout", "-q", "--detach", head], check=True)
    subprocess.run(["git", "-C", wt, "checkout", "-q", "--", "."], check=True)
    r = subprocess.run(["git", "-C", wt, "apply", d + "/patch.diff"], capture_output=True, text=True)
    if r.returncode != 0:
        r = subprocess.run(["git", "-C", wt, "apply", "--3way", d + "/patch.diff"], capture_output=True, text=True)
        subprocess.run(["git", "-C", wt, "reset", "-q"], check=False)
    if r.returncode != 0:
        json.dump({"applies": False, "stderr": r.stderr[:400]}, open(d + "/confirm.json", "w"))
        print(d, "PATCH-FAIL")
        continue
    env = dict(os.environ, CARGO_NET_OFFLINE="true")
    env.pop("RUSTFLAGS", None)
    t = subprocess.run(["cargo", "test", "--workspace", "--no-fail-fast", "--offline"], cwd=wt, env=env, stdout=subprocess.PIPE, stderr=subprocess.STDOUT, text=True)
    passed = set()
    crate = None
    built = "error: could not compile" not in t.stdout
    for ln in t.stdout.splitlines():
        m = re.match(r"\s+Running (?:unittests )?(\S+) \(target/debug/deps/([a-z_]+)-", ln)
        if m:
            crate = ("compiler::" + os.path.splitext(os.path.basename(m.group(1)))[0]) if m.group(1).startswith("tests/") else m.group(2)
        m = re.match(r"^test (\S+) \.\.\. (ok|FAILED)", ln)
        if m and crate and m.group(2) == "ok":
            passed.add(crate + "::" + m.group(1))
    tails = {x.split("::", 1)[1] for x in passed}
    missing = [x for x in base["stable_pass"] if x not in passed and x.split("::", 1)[1] not in tails]
    subprocess.run(["git", "-C", wt, "checkout", "-q", "--", "."], check=True)
    json.dump({"applies": True, "builds": built, "goml_head": head[:7], "stable_tests_passing": len(base["stable_pass"]) - len(missing), "stable_tests_total": len(base["stable_pass"]),
               "not_passing": missing[:5]}, open(d + "/confirm.json", "w"), indent=1)
    print(d, "builds" if built else "BUILD-FAIL", len(base["stable_pass"]) - len(missing), "/", len(base["stable_pass"]), flush=True)
