#!/bin/sh
# seed6_run.sh ID [extra check ids...] - confirm (build + pinned tests with the guard off + the demonstration both ways) and evaluate
# the round-6 seeded changes /tmp/seed6/<ID>/m5|m6 in the scratch worktree /tmp/seed6/<ID>/wt (never /repo).
id=$1; shift
mkdir -p /tmp/seed6wt; ln -sfn /tmp/seed6/$id/wt /tmp/seed6wt/$id
cd /verif
SEED_ROOT=/tmp/seed6 WT_ROOT=/tmp/seed6wt python3 scripts/confirm_seeds.py $id
head=$(git -C /repo rev-parse HEAD)
for m in m7 m8; do
  d=/tmp/seed6/$id/$m; wt=/tmp/seed6/$id/wt
  [ -f $d/patch.diff ] || continue
  if [ -f $d/demo.sh ]; then
    git -C $wt checkout -q --detach $head; git -C $wt checkout -q -- .
    (cd $d && timeout 900 bash ./demo.sh $wt >/dev/null 2>&1); clean=$?
    git -C $wt apply $d/patch.diff 2>/dev/null || { git -C $wt apply --3way $d/patch.diff; git -C $wt reset -q; }
    (cd $d && timeout 900 bash ./demo.sh $wt >/dev/null 2>&1); seeded=$?
    git -C $wt checkout -q -- .
    echo "{\"demo_exit_unchanged\": $clean, \"demo_exit_with_change\": $seeded}" > $d/demo.json
    echo "$id/$m demo: unchanged=$clean with-change=$seeded"
  fi
  python3 scripts/seed_eval.py $d $wt $id "$@" 2>&1 | grep -v "^\[build\]" | cut -c1-600
done
