#!/bin/sh
# Re-evaluate every seeded change under /tmp/seeded_out against its property's check (and C01/C02 where relevant), in a scratch worktree.
# usage: eval_all_seeds.sh [ID ...]
cd /verif
ROOT=${SEED_ROOT:-/tmp/seeded_out}
WT=${WT_ROOT:-/tmp/wt}
for d in $ROOT/C*/m*; do
  [ -f "$d/patch.diff" ] || continue
  id=$(basename $(dirname $d))
  if [ $# -gt 0 ]; then case " $* " in *" $id "*) ;; *) continue;; esac; fi
  wt=$WT/$id
  [ -d "$wt" ] || git -C /repo worktree add -q $wt HEAD
  extra=""
  case $id in C01) extra="C09";; C02) extra="C01";; esac
  scripts/seed_eval.py $d $wt $id $extra
done
