#!/bin/sh
# run every registered quick check once; print exit code and wall time (exit 0 expected on the unchanged tree)
cd /verif
for id in $(python3 -c "import json; print(' '.join(c['property_id'] for c in json.load(open('MANIFEST.json'))['checks']))"); do
  if [ $# -gt 0 ]; then case " $* " in *" $id "*) ;; *) continue;; esac; fi
  s=$(date +%s); ./check $id --tier quick > work/last_$id.out 2> work/last_$id.err; rc=$?; e=$(date +%s)
  echo "$id exit=$rc $((e-s))s $(grep -c '^KNOWN-FINDING' work/last_$id.out) known $(grep -c '^VIOLATION' work/last_$id.out) violations"
done
