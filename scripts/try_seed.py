#!/usr/bin/env python3
"""try_seed.py <patch.diff> <CHECK_ID>...  — apply a seeded change to /repo, run the quick checks, undo it.
Prints for each check: exit code and the VIOLATION identities. /repo must be clean."""
import subprocess, sys, os, re
patch = os.path.abspath(sys.argv[1]); checks = sys.argv[2:]
tier = os.environ.get("TIER", "quick")
st = subprocess.run(["git", "-C", "/repo", "status", "--porcelain", "--untracked-files=no"], capture_output=True, text=True).stdout.strip()
if st:
    print("repo not clean:\n" + st); sys.exit(2)
r = subprocess.run(["git", "-C", "/repo", "apply", patch], capture_output=True, text=True)
if r.returncode != 0:
    print("patch does not apply:", r.stderr); sys.exit(2)
try:
    for c in checks:
        p = subprocess.run(["/verif/check", c, "--tier", tier], capture_output=True, text=True, cwd="/verif")
        ids = re.findall(r"identity=(.*)", p.stderr)
        viol = len(re.findall(r"^VIOLATION", p.stdout, re.M))
        print(f"{c}: exit={p.returncode} violations={viol} identities={ids[:6]}")
        if p.returncode == 2:
            print(p.stderr[-1500:])
finally:
    subprocess.run(["git", "-C", "/repo", "checkout", "--", "."], check=True)
