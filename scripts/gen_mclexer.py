#!/usr/bin/env python3
"""Writes spec/MCLexer.tla's spelling tables from the #[token(..)] attributes of crates/lexer/src/lib.rs.  Run by hand when the
language's spellings change on purpose; the checks never run it, so a spelling changed in the code alone is reported as a difference."""
import re
src = open('/repo/crates/lexer/src/lib.rs').read()
toks = re.findall(r'#\[token\("((?:[^"\\]|\\.)*)"\)\]\s*\n\s*(\w+),', src)
cps = lambda s: "<<" + ", ".join(str(ord(c)) for c in s) + ">>"
puncts = [(k, s) for s, k in toks if not (s[0].isalpha() or s == '_')]
kws = [(k, s) for s, k in toks if s[0].isalpha()]
print("PunctTable == {" + ",\n               ".join(f'[k |-> "{k}", s |-> {cps(s)}]' for k, s in puncts) + "}")
print("KeywordTable == {" + ",\n                 ".join(f'[k |-> "{k}", s |-> {cps(s)}]' for k, s in kws) + "}")
