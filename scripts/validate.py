#!/usr/bin/env python3
"""Validate MANIFEST.json and every evidence file against the schemas (run with python3-vt)."""
import json, glob, sys, jsonschema
ok = True
jsonschema.validate(json.load(open("/verif/MANIFEST.json")), json.load(open("/root/.vp/MANIFEST.schema.json")))
es = json.load(open("/root/.vp/EVIDENCE.schema.json"))
for p in sorted(glob.glob("/verif/evidence/*.json")):
    try:
        jsonschema.validate(json.load(open(p)), es); print("ok  ", p)
    except Exception as e:
        ok = False; print("BAD ", p, str(e)[:300])
sys.exit(0 if ok else 1)
