#!/usr/bin/env python3
"""Validate MANIFEST.json and every evidence file against the schemas (run with python3-vt), and check what the schema cannot say:
the level written into an evidence file is the category claimed in MANIFEST.json, and the keys that level asks for are present."""
import json, glob, os, sys, jsonschema
ok = True
man = json.load(open("/verif/MANIFEST.json"))
jsonschema.validate(man, json.load(open("/root/.vp/MANIFEST.schema.json")))
cat = {c["property_id"]: c["level_claimed"]["category"] for c in man["checks"]}
es = json.load(open("/root/.vp/EVIDENCE.schema.json"))
NEED = {"model_checking": ["states", "transitions", "traces_validated_against_impl", "samples"],
        "translation_validation": ["programs", "disagreements_checked", "samples"],
        "exploration": ["evaluations", "distinct_nontrivial", "rule", "samples"],
        "fault_enumeration": ["evaluations", "distinct_nontrivial", "rule", "samples"],
        "proof": ["obligations", "discharged", "checker_cmd", "trusted_base"], "other": ["explanation"]}
for pid in sorted(cat):
    p = f"/verif/evidence/{pid}.json"
    if not os.path.exists(p):
        ok = False; print("MISSING", p); continue
    try:
        e = json.load(open(p))
        jsonschema.validate(e, es)
        if e["property_id"] != pid:
            raise ValueError(f"property_id {e['property_id']!r} in {p}")
        if e["level"] != cat[pid]:
            raise ValueError(f"level {e['level']!r} but MANIFEST level_claimed.category is {cat[pid]!r}")
        miss = [k for k in NEED[e["level"]] if k not in e["coverage"]]
        if miss:
            raise ValueError(f"coverage keys missing for level {e['level']}: {miss}")
        print("ok  ", p)
    except Exception as x:
        ok = False; print("BAD ", p, str(x)[:300])
sys.exit(0 if ok else 1)
