#!/usr/bin/env python3
"""Regenerate /verif/MANIFEST.json from the table below and validate it against the schema."""
import json, os, subprocess, sys
HERE = os.path.dirname(os.path.dirname(os.path.abspath(__file__)))
sys.path.insert(0, os.path.join(HERE, "scripts"))
from manifest_table import CHECKS, NOT_APPLICABLE, ENGINES, NOTES, HOOK_COMMITS

ALL = ["C%02d" % i for i in range(1, 21)]
checks = []
for pid in ALL:
    if pid not in CHECKS:
        continue
    c = CHECKS[pid]
    checks.append({
        "property_id": pid,
        "quick_cmd": f"./check {pid} --tier quick",
        "thorough_cmd": f"./check {pid} --tier thorough",
        "evidence_file": f"/verif/evidence/{pid}.json",
        "replay_cmd_template": f"./check {pid} --replay {{path}}",
        "engine": c.get("engine", "tlc+gv"),
        "level_claimed": {"category": c["level"], "text": c["text"], "design_ref": c.get("design_ref", "DESIGN.md §4 " + pid)},
        "level_note": c["note"],
        "technique": c["technique"],
    })
na = [{"property_id": p, "reason": NOT_APPLICABLE[p]} for p in ALL if p not in CHECKS]
missing = [p for p in ALL if p not in CHECKS and p not in NOT_APPLICABLE]
assert not missing, missing
m = {
    "version": 1,
    "setup_cmd": "./scripts/setup.sh",
    "hooks": {
        "guard": "goml_verif",
        "enable": "RUSTFLAGS='--cfg goml_verif --check-cfg cfg(goml_verif)' (set by /verif/harness/.cargo/config.toml for the harness build and by lib/common.py:build_cli for the CLI build)",
        "baseline_off_cmd": "python3 /verif/scripts/baseline_off.py",
        "source_commits": HOOK_COMMITS,
        "add_only": True,
    },
    "engines": ENGINES,
    "checks": checks,
    "notes": NOTES,
    "not_applicable": na,
}
json.dump(m, open(os.path.join(HERE, "MANIFEST.json"), "w"), indent=1)
try:
    import jsonschema
    jsonschema.validate(m, json.load(open("/root/.vp/MANIFEST.schema.json")))
    print("MANIFEST.json valid;", len(checks), "checks,", len(na), "not_applicable")
except ImportError:
    print("jsonschema not importable here; run with python3-vt to validate")
