#!/usr/bin/env python3
"""Run the repository's pinned test suite with the verification guard OFF and compare with BASELINE.json:
every test of stable_pass must pass. Exit 0 iff so."""
import json, os, re, subprocess, sys
base = json.load(open("/root/.vp/BASELINE.json")) if os.path.exists("/root/.vp/BASELINE.json") else None
env = dict(os.environ, CARGO_NET_OFFLINE="true")
env.pop("RUSTFLAGS", None)
r = subprocess.run(["cargo", "test", "--workspace", "--no-fail-fast", "--offline"], cwd=os.environ.get("BASELINE_DIR", "/repo"), env=env,
                   stdout=subprocess.PIPE, stderr=subprocess.STDOUT, text=True)
passed, failed = set(), set()
crate = None
for ln in r.stdout.splitlines():
    m = re.match(r"\s+Running (?:unittests )?(\S+) \(target/debug/deps/([a-z_]+)-", ln)
    if m:
        if m.group(1).startswith("tests/"):
            crate = "compiler::" + os.path.splitext(os.path.basename(m.group(1)))[0]
        else:
            crate = m.group(2)
    m = re.match(r"^test (\S+) \.\.\. (ok|FAILED)", ln)
    if m and crate:
        name = crate + "::" + m.group(1)
        (passed if m.group(2) == "ok" else failed).add(name)
print(f"passed={len(passed)} failed={len(failed)}")
if base:
    tails = {t.split("::", 1)[1] for t in passed}
    missing = [t for t in base["stable_pass"] if t not in passed and t.split("::", 1)[1] not in tails]
    print(f"stable_pass={len(base['stable_pass'])} not-passing={len(missing)}")
    for t in missing:
        print("  NOT PASSING:", t)
    sys.exit(1 if missing else 0)
sys.exit(0 if passed and not failed else 1)
