#!/bin/sh
# seed5_run.sh ID [extra check ids...] - confirm (build + pinned tests with the guard off + the demonstration both ways) and evaluate
# the round-5 seeded changes /tmp/seed5/<ID>/m5|m6 in the scratch worktree /tmp/seed5/<ID>/wt (never /repo).
id=$1; shift
mkdir -p /tmp/seed5wt; ln -sfn /tmp/seed5/$id/wt /tmp/seed5wt/$id
cd /verif
SEED_ROOT=/tmp/seed5 WT_ROOT=/tmp/seed5wt python3 scripts/confirm_seeds.py $id
head=$(git -C /repo rev-parse HEAD)
for m in m5 m6; do
  d=/tmp/seed5/$id/$m; wt=/tmp/seed5/$id/wt
  [ -f $d/patch.diff ] || continue
  if [ -f $d/demo.sh ]; then
    git -C $wt checkout -q --detach $head; git -C $wt checkout -q -- .
    (cd $d && timeout 900 sh ./demo.sh $wt >/dev/null 2>&1); clean=$?
    git -C $wt apply $d/patch.diff 2>/dev/null || { git -C $wt apply --3way $d/patch.diff; git -C $wt reset -q; }
    (cd $d && timeout 900 sh ./demo.sh $wt >/dev/null 2>&1); seeded=$?
    git -C $wt checkout -q -- .
    echo "{\"demo_exit_unchanged\": $clean, \"demo_exit_with_change\": $seeded}" > $d/demo.json
    echo "$id/$m demo: unchanged=$clean with-change=$seeded"
  fi
  python3 scripts/seed_eval.py $d $wt $id "$@" 2>&1 | grep -v "^\[build\]" | cut -c1-600
done
