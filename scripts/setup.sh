#!/bin/sh
# Build the framework offline from files on disk: the harness (gv) and the goml CLI, both from /repo's working tree.
set -e
cd "$(dirname "$0")/.."
export CARGO_NET_OFFLINE=true
mkdir -p work evidence
[ -f harness/Cargo.lock ] || cp /repo/Cargo.lock harness/Cargo.lock
(cd harness && cargo build --offline --quiet)
(cd /repo && RUSTFLAGS="--cfg goml_verif --check-cfg cfg(goml_verif)" cargo build --offline --quiet -p compiler --bin compiler --target-dir /verif/work/cli-target)
echo setup ok
