#!/bin/sh
# Re-evaluate the round-3 seeded changes (/tmp/seeded_out3/<ID>/m5|m6) against the final checks: the owner's check plus the checks of
# neighbouring properties that state the same fact.  usage: reeval_round3.sh ID...
cd /verif
for id in "$@"; do
  for m in m5 m6; do
    d=/tmp/seeded_out3/$id/$m
    [ -f "$d/patch.diff" ] || continue
    extra=""
    case "$id/$m" in
      C01/*) extra="C09";;
      C14/m6) extra="C15";;
      C06/m6) extra="C09";;
      C10/m6) extra="C17";;
      C11/m6) extra="C10";;
    esac
    python3 scripts/seed_eval.py $d /tmp/wt3/$id $id $extra 2>&1 | grep -v "^\[build\]" | cut -c1-400
  done
done
