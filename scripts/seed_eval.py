#!/usr/bin/env python3
"""seed_eval.py <seed dir with patch.diff> <worktree> <CHECK_ID>... — evaluate checks against a seeded change in a scratch
worktree of goml (never /repo): reset the worktree to /repo's HEAD, apply the patch, run the checks with GOML_REPO pointing there."""
import subprocess, sys, os, re, json
seed = os.path.abspath(sys.argv[1]); wt = sys.argv[2]; checks = sys.argv[3:]
head = subprocess.run(["git", "-C", "/repo", "rev-parse", "HEAD"], capture_output=True, text=True).stdout.strip()
subprocess.run(["git", "-C", wt, "checkout", "-q", "--detach", head], check=True)
subprocess.run(["git", "-C", wt, "checkout", "-q", "--", "."], check=True)
r = subprocess.run(["git", "-C", wt, "apply", os.path.join(seed, "patch.diff")], capture_output=True, text=True)
if r.returncode != 0:   # the patch was made against an older HEAD (before a hook or fix commit touched the same file)
    r = subprocess.run(["git", "-C", wt, "apply", "--3way", os.path.join(seed, "patch.diff")], capture_output=True, text=True)
    subprocess.run(["git", "-C", wt, "reset", "-q"], check=False)
if r.returncode != 0:
    print("PATCH-FAIL", r.stderr[:500]); sys.exit(2)
env = dict(os.environ, GOML_REPO=wt, VERIF_TIER=os.environ.get("TIER", "quick"))
res = {}
for c in checks:
    p = subprocess.run(["/verif/check", c], capture_output=True, text=True, cwd="/verif", env=env)
    ids = re.findall(r"identity=(.*)", p.stderr)
    res[c] = {"exit": p.returncode, "violations": len(re.findall(r"^VIOLATION", p.stdout, re.M)), "identities": ids[:8]}
    print(f"{os.path.basename(os.path.dirname(seed))}/{os.path.basename(seed)} {c}: exit={p.returncode} identities={ids[:5]}")
    if p.returncode == 2:
        print(p.stderr[-800:])
subprocess.run(["git", "-C", wt, "checkout", "-q", "--", "."], check=True)
json.dump(res, open(os.path.join(seed, "eval.json"), "w"), indent=1)
