use std::path::PathBuf;
use std::time::{Duration, Instant};

use compiler::pipeline::pipeline::{CompilationError, compile};
use serde_json::{Value, json};

use crate::util::{Guarded, diag_json, emit, guarded, opt, read_requests, strip_repo};

const WIDTH: usize = 120;

/// request: {"id":.., "path":"/abs/dir/main.gom", "dumps":bool?, "core_json":bool?, "ir_json":bool?}
/// answer : {"id","verdict": ok|parser|lower|typer|compile|panic|timeout|io, "diags":[..], "go": text?, dumps...}
pub fn run(args: &[String]) -> i32 {
    let limit_ms: u64 = opt(args, "--limit-ms")
        .and_then(|s| s.parse().ok())
        .unwrap_or(20_000);
    for req in read_requests(args) {
        let id = req.get("id").cloned().unwrap_or(Value::Null);
        let path = PathBuf::from(req["path"].as_str().unwrap_or(""));
        let dumps = req.get("dumps").and_then(|v| v.as_bool()).unwrap_or(false);
        let core_json = req
            .get("core_json")
            .and_then(|v| v.as_bool())
            .unwrap_or(false);
        let ir_json = req.get("ir_json").and_then(|v| v.as_bool()).unwrap_or(false);
        let disc = req.get("disc").and_then(|v| v.as_bool()).unwrap_or(false);
        // {"trace": ["mono", "dce", "gensym"]}: events of the compiler's verification hooks, by kind
        let trace: Vec<String> = req
            .get("trace")
            .and_then(|v| v.as_array())
            .map(|a| a.iter().filter_map(|x| x.as_str().map(|s| s.to_string())).collect())
            .unwrap_or_default();
        // {"text": .., "dir": ..}: compile the text as <dir>/main.gom without writing it (dir should exist and hold no .gom files)
        let (path, src) = if let Some(t) = req.get("text").and_then(|t| t.as_str()) {
            let dir = req.get("dir").and_then(|d| d.as_str()).unwrap_or("/nonexistent");
            (PathBuf::from(dir).join("main.gom"), t.to_string())
        } else {
            match std::fs::read_to_string(&path) {
                Ok(s) => (path, s),
                Err(e) => {
                    emit(&json!({"id": id, "verdict": "io", "msg": e.to_string()}));
                    continue;
                }
            }
        };
        let t0 = Instant::now();
        let p2 = path.clone();
        let src_len = src.len();
        let src_copy = src.clone();
        let r = guarded(Duration::from_millis(limit_ms), move || {
            let discovery = if disc { discovery_of(&p2, &src) } else { Value::Null };
            if !trace.is_empty() {
                hooks_start();
            }
            let mut out = compile_one(&p2, &src, dumps, core_json, ir_json, trace.iter().any(|k| k == "mono"));
            if !trace.is_empty() {
                out["trace"] = Value::from(hooks_take(&trace));
            }
            if disc {
                out["discovery"] = discovery;
            }
            out
        });
        let mut out = match r {
            Guarded::Done(v) => v,
            Guarded::Panic { msg, at } => {
                json!({"verdict": "panic", "msg": msg, "at": strip_repo(&at)})
            }
            Guarded::Timeout => json!({"verdict": "timeout"}),
        };
        // positions carried by diagnostics: inside the text and on character boundaries
        let mut boundaries_ok: Vec<Value> = Vec::new();
        if let Some(ds) = out.get("diags").and_then(|d| d.as_array()) {
            for d in ds {
                if let (Some(s), Some(e)) = (d["s"].as_u64(), d["e"].as_u64()) {
                    let (s, e) = (s as usize, e as usize);
                    if s > e || e > src_copy.len() || !src_copy.is_char_boundary(s) || !src_copy.is_char_boundary(e) {
                        boundaries_ok.push(json!({"s": s, "e": e, "msg": d["msg"]}));
                    }
                }
            }
        }
        out["id"] = id;
        out["src_len"] = Value::from(src_len);
        if !boundaries_ok.is_empty() {
            out["bad_positions"] = Value::from(boundaries_ok);
        }
        out["ms"] = Value::from(t0.elapsed().as_millis() as u64);
        emit(&out);
    }
    0
}

fn discovery_of(path: &std::path::Path, src: &str) -> Value {
    let Ok(ast) = compiler::pipeline::pipeline::parse_ast_file(path, src) else {
        return Value::Null;
    };
    let root = path.parent().unwrap_or(std::path::Path::new("."));
    match compiler::pipeline::packages::discover_packages(root, Some(path), Some(ast)) {
        Ok(g) => {
            let topo = compiler::pipeline::packages::topo_sort_packages(&g)
                .map(|o| Value::from(o))
                .unwrap_or_else(|e| {
                    json!({"err": e.diagnostics().iter().map(|d| d.message().to_string()).collect::<Vec<_>>()})
                });
            json!({"order": g.discovery_order, "topo": topo})
        }
        Err(e) => {
            json!({"err": e.diagnostics().iter().map(|d| d.message().to_string()).collect::<Vec<_>>()})
        }
    }
}

fn compile_one(p2: &std::path::Path, src: &str, dumps: bool, core_json: bool, ir_json: bool, mono_fns: bool) -> Value {
    {
        {
            match compile(p2, src) {
                Ok(c) => {
                    let mut out = json!({"verdict": "ok"});
                    out["go"] = Value::from(c.go.to_pretty(&c.goenv, WIDTH));
                    if dumps {
                        out["core"] = Value::from(c.core.to_pretty(&c.genv, WIDTH));
                        out["mono"] = Value::from(c.mono.to_pretty(&c.monoenv, WIDTH));
                        out["lift"] = Value::from(c.lambda.to_pretty(&c.liftenv, WIDTH));
                        out["anf"] = Value::from(c.anf.to_pretty(&c.anfenv, WIDTH));
                        out["tast"] = Value::from(c.tast.to_pretty(&c.genv, WIDTH));
                        out["ast"] = Value::from(c.ast.to_pretty(WIDTH));
                        let ctx = compiler::pprint::hir_pprint::HirPrintCtx::new(&c.hir_table);
                        out["hir"] = Value::from(c.hir.to_pretty(&ctx, WIDTH));
                    }
                    if mono_fns {
                        out["mono_fns"] = Value::from(c.mono.toplevels.iter().map(|f| f.name.clone()).collect::<Vec<_>>());
                    }
                    if core_json {
                        out["core_json"] = serde_json::to_value(&c.core).unwrap_or(Value::Null);
                    }
                    if ir_json {
                        out["ir"] = crate::compile_cmd::ir_export(&c);
                    }
                    out
                }
                Err(err) => {
                    let verdict = match &err {
                        CompilationError::Parser { .. } => "parser",
                        CompilationError::Lower { .. } => "lower",
                        CompilationError::Typer { .. } => "typer",
                        CompilationError::Compile { .. } => "compile",
                    };
                    let diags: Vec<Value> = err.diagnostics().iter().map(diag_json).collect();
                    json!({"verdict": verdict, "diags": diags})
                }
            }
        }
    }
}

#[cfg(not(feature = "ir"))]
pub fn ir_export(_c: &compiler::pipeline::pipeline::Compilation) -> Value {
    serde_json::json!({"unavailable": "the harness was built without the structural IR export"})
}

#[cfg(feature = "ir")]
pub fn ir_export(c: &compiler::pipeline::pipeline::Compilation) -> Value {
    crate::ir_export::ir_export(c)
}

#[cfg(feature = "hooks")]
fn hooks_start() {
    crate::trace_hooks::start();
}
#[cfg(feature = "hooks")]
fn hooks_take(kinds: &[String]) -> Vec<Value> {
    crate::trace_hooks::take(kinds)
}
#[cfg(not(feature = "hooks"))]
fn hooks_start() {}
#[cfg(not(feature = "hooks"))]
fn hooks_take(_kinds: &[String]) -> Vec<Value> {
    vec![serde_json::json!({"ev": "unavailable"})]
}
