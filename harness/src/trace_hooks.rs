// The compiler's verification hooks (crates/compiler/src/verif_hooks.rs, compiled with --cfg goml_verif): install a log on
// the compiling thread, collect its events afterwards.
use serde_json::Value;

pub fn start() {
    compiler::verif_hooks::start();
}

/// events of the kinds asked for ("mono": ensure/seeded/pop/emit/drained/tensure, "dce": pre_dce, "gensym", "solver": solve_start/solve_round, "unify": unify_call/unify_ok/unify_ret/unify_field_ok)
pub fn take(kinds: &[String]) -> Vec<Value> {
    let want = |ev: &str| -> bool {
        let kind = match ev {
            "ensure" | "seeded" | "pop" | "emit" | "drained" | "tensure" => "mono",
            "pre_dce" => "dce",
            "gensym" => "gensym",
            "solve_start" | "solve_round" => "solver",
            "unify_call" | "unify_ok" | "unify_ret" | "unify_field_ok" => "unify",
            _ => "other",
        };
        kinds.iter().any(|k| k == kind || k == "all")
    };
    compiler::verif_hooks::take()
        .iter()
        .filter_map(|l| serde_json::from_str::<Value>(l).ok())
        .filter(|v| v.get("ev").and_then(|e| e.as_str()).map(want).unwrap_or(false))
        .collect()
}
