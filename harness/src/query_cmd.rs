//! gv query — editor queries (hover, `x.` completions, `Path::` completions) at many cursor positions of one text,
//! plus the oracle the compile path provides: the type of every variable use / binder in the typed AST.
//!
//! request: {"id", "text", "positions": [[line, col], ..] | "all": true, "kinds": ["hover","dot","colon"], "oracle": bool}
//! answer : {"id", "results": [{"l","c","hover": {"ok": s}|{"err": s}|{"panic": at}, "dot": [names]|null|{"panic"}, "colon": ..}], "oracle": [{"s","e","ty","what"}]}
use std::path::Path;
use std::time::Duration;

use compiler::tast;
use serde_json::{Value, json};

use crate::util::{Guarded, emit, guarded, read_requests, strip_repo, take_panic};

fn catch<T>(f: impl FnOnce() -> T) -> Result<T, Value> {
    match std::panic::catch_unwind(std::panic::AssertUnwindSafe(f)) {
        Ok(v) => Ok(v),
        Err(_) => {
            let (msg, at) = take_panic();
            Err(json!({"panic": strip_repo(&at), "msg": msg}))
        }
    }
}

fn range_of(ptr: &Option<parser::syntax::MySyntaxNodePtr>) -> Option<(u32, u32)> {
    ptr.as_ref().map(|p| {
        let r = p.text_range();
        (u32::from(r.start()), u32::from(r.end()))
    })
}

fn walk_pat(p: &tast::Pat, out: &mut Vec<Value>) {
    match p {
        tast::Pat::PVar { name, ty, astptr } => {
            if let Some((s, e)) = range_of(astptr) {
                out.push(json!({"s": s, "e": e, "ty": ty.to_pretty(80), "what": "binder", "name": name}));
            }
        }
        tast::Pat::PConstr { args, .. } => args.iter().for_each(|a| walk_pat(a, out)),
        tast::Pat::PTuple { items, .. } => items.iter().for_each(|a| walk_pat(a, out)),
        _ => {}
    }
}

fn walk(e: &tast::Expr, out: &mut Vec<Value>) {
    use tast::Expr::*;
    match e {
        EVar { name, ty, astptr } => {
            if let Some((s, e)) = range_of(astptr) {
                out.push(json!({"s": s, "e": e, "ty": ty.to_pretty(80), "what": "use", "name": name}));
            }
        }
        EPrim { .. } => {}
        // the callee of a method call: `x.m` / `T::m` / `Tr::m`; its type is the method's type at this call (instantiated)
        EInherentMethod { method_name, ty, astptr, .. } => {
            if let Some((s, e)) = range_of(astptr) {
                out.push(json!({"s": s, "e": e, "ty": ty.to_pretty(80), "what": "field", "name": method_name.0, "node": "inherent-method"}));
            }
        }
        ETraitMethod { method_name, ty, astptr, .. } | EDynTraitMethod { method_name, ty, astptr, .. } => {
            if let Some((s, e)) = range_of(astptr) {
                out.push(json!({"s": s, "e": e, "ty": ty.to_pretty(80), "what": "field", "name": method_name.0, "node": "trait-method"}));
            }
        }
        EConstr { args, .. } => args.iter().for_each(|a| walk(a, out)),
        ETuple { items, .. } | EArray { items, .. } => items.iter().for_each(|a| walk(a, out)),
        EClosure { params, body, .. } => {
            for p in params {
                if let Some((s, e)) = range_of(&p.astptr) {
                    out.push(json!({"s": s, "e": e, "ty": p.ty.to_pretty(80), "what": "closure-param", "name": p.name}));
                }
            }
            walk(body, out)
        }
        ELet { pat, value, .. } => {
            walk_pat(pat, out);
            walk(value, out)
        }
        EBlock { exprs, .. } => exprs.iter().for_each(|a| walk(a, out)),
        EMatch { expr, arms, .. } => {
            walk(expr, out);
            for a in arms {
                walk_pat(&a.pat, out);
                walk(&a.body, out);
            }
        }
        EIf { cond, then_branch, else_branch, .. } => {
            walk(cond, out);
            walk(then_branch, out);
            walk(else_branch, out)
        }
        EWhile { cond, body, .. } => {
            walk(cond, out);
            walk(body, out)
        }
        EGo { expr, .. } | EUnary { expr, .. } | EToDyn { expr, .. } => walk(expr, out),
        ECall { func, args, .. } => {
            walk(func, out);
            // `recv.m(..)`: the method node carries no position; the method name follows the receiver (the first argument) and a
            // dot.  Recorded with the receiver's end; `oracle` keeps it only if the text there really is `.m`.
            if let EInherentMethod { method_name, ty, .. } | ETraitMethod { method_name, ty, .. } | EDynTraitMethod { method_name, ty, .. } = func.as_ref() {
                let recv_range = match args.first() {
                    Some(EVar { astptr, .. }) | Some(EField { astptr, .. }) => range_of(astptr),
                    _ => None,
                };
                if let Some((_, e)) = recv_range {
                    out.push(json!({"after": e, "ty": ty.to_pretty(80), "what": "method", "name": method_name.0}));
                }
            }
            args.iter().for_each(|a| walk(a, out))
        }
        EProj { tuple, .. } => walk(tuple, out),
        EField { expr, field_name, ty, astptr } => {
            if let Some((s, e)) = range_of(astptr) {
                out.push(json!({"s": s, "e": e, "ty": ty.to_pretty(80), "what": "field", "name": field_name}));
            }
            walk(expr, out)
        }
        EBinary { lhs, rhs, .. } => {
            walk(lhs, out);
            walk(rhs, out)
        }
    }
}

/// turn the `method` records (position = end of the receiver) into ranges of the method name, when the text has `.name` there
fn place_methods(out: Vec<Value>, text: &str) -> Vec<Value> {
    let bytes = text.as_bytes();
    out.into_iter()
        .filter_map(|v| {
            if v["what"] != "method" {
                return Some(v);
            }
            let mut at = v["after"].as_u64()? as usize;
            let name = v["name"].as_str()?.to_string();
            while at < bytes.len() && (bytes[at] == b' ' || bytes[at] == b'\n') {
                at += 1;
            }
            if at >= bytes.len() || bytes[at] != b'.' {
                return None;
            }
            at += 1;
            if !bytes[at..].starts_with(name.as_bytes()) {
                return None;
            }
            let end = at + name.len();
            if end < bytes.len() && (bytes[end].is_ascii_alphanumeric() || bytes[end] == b'_') {
                return None;
            }
            Some(json!({"s": at, "e": end, "ty": v["ty"], "what": "use", "name": name, "node": "method-name"}))
        })
        .collect()
}

fn oracle(path: &Path, text: &str) -> Value {
    match compiler::pipeline::pipeline::compile(path, text) {
        Ok(c) => {
            let mut out = Vec::new();
            for item in c.tast.toplevels.iter() {
                match item {
                    tast::Item::Fn(f) => walk(&f.body, &mut out),
                    tast::Item::ImplBlock(b) => b.methods.iter().for_each(|f| walk(&f.body, &mut out)),
                    _ => {}
                }
            }
            Value::from(place_methods(out, text))
        }
        Err(_) => Value::Null,
    }
}

pub fn run(args: &[String]) -> i32 {
    for req in read_requests(args) {
        let id = req.get("id").cloned().unwrap_or(Value::Null);
        let text = req["text"].as_str().unwrap_or("").to_string();
        let dir = req.get("dir").and_then(|d| d.as_str()).unwrap_or("/nonexistent").to_string();
        let want = |k: &str| req.get("kinds").and_then(|v| v.as_array()).is_none_or(|a| a.iter().any(|x| x.as_str() == Some(k)));
        let (wh, wd, wc) = (want("hover"), want("dot"), want("colon"));
        let want_oracle = req.get("oracle").and_then(|v| v.as_bool()).unwrap_or(false);
        let mut positions: Vec<(u32, u32)> = Vec::new();
        if req.get("all").and_then(|v| v.as_bool()).unwrap_or(false) {
            // every byte offset of the text as (line, byte column), plus one column past each line end and one line past the end
            let mut line = 0u32;
            let mut col = 0u32;
            for b in text.bytes() {
                positions.push((line, col));
                if b == b'\n' {
                    positions.push((line, col + 1));
                    line += 1;
                    col = 0;
                } else {
                    col += 1;
                }
            }
            positions.push((line, col));
            positions.push((line, col + 1));
            positions.push((line + 1, 0));
            positions.push((line + 7, 3));
            positions.push((u32::MAX, u32::MAX));
            positions.push((0, u32::MAX));
        }
        if let Some(ps) = req.get("positions").and_then(|v| v.as_array()) {
            for p in ps {
                positions.push((p[0].as_u64().unwrap_or(0) as u32, p[1].as_u64().unwrap_or(0) as u32));
            }
        }
        let limit = Duration::from_secs(req.get("limit_s").and_then(|v| v.as_u64()).unwrap_or(300));
        let r = guarded(limit, move || {
            let path = std::path::PathBuf::from(dir).join("main.gom");
            let mut results = Vec::new();
            for (l, c) in positions {
                let mut o = json!({"l": l, "c": c});
                if wh {
                    o["hover"] = match catch(|| compiler::query::hover_type(&path, &text, l, c)) {
                        Ok(Ok(s)) => json!({"ok": s}),
                        Ok(Err(e)) => json!({"err": e}),
                        Err(p) => p,
                    };
                }
                if wd {
                    o["dot"] = match catch(|| compiler::query::dot_completions(&path, &text, l, c)) {
                        Ok(Some(items)) => Value::from(items.iter().map(|i| json!({"n": i.name, "k": format!("{:?}", i.kind), "d": i.detail})).collect::<Vec<_>>()),
                        Ok(None) => Value::Null,
                        Err(p) => p,
                    };
                }
                if wc {
                    o["colon"] = match catch(|| compiler::query::colon_colon_completions(&path, &text, l, c)) {
                        Ok(Some(items)) => Value::from(items.iter().map(|i| json!({"n": i.name, "k": format!("{:?}", i.kind), "d": i.detail})).collect::<Vec<_>>()),
                        Ok(None) => Value::Null,
                        Err(p) => p,
                    };
                }
                results.push(o);
            }
            let orc = if want_oracle {
                catch(|| oracle(&path, &text)).unwrap_or(Value::Null)
            } else {
                Value::Null
            };
            json!({"results": results, "oracle": orc})
        });
        let mut out = match r {
            Guarded::Done(v) => v,
            Guarded::Panic { msg, at } => json!({"fatal": "panic", "msg": msg, "at": strip_repo(&at)}),
            Guarded::Timeout => json!({"fatal": "timeout"}),
        };
        out["id"] = id;
        emit(&out);
    }
    0
}
