use std::path::Path;
use std::time::Duration;

use compiler::hir;
use serde_json::{Value, json};

use crate::util::{Guarded, diag_json, emit, guarded, read_requests, strip_repo};

/// request: {"id":.., "text": "<goml source>"}
/// answer : {"id","verdict": ok|parser|lower|panic|timeout, "uses":[{x,at,res,binder_at?,id?}], "binds":[{x,at,id}], "diags":[..]}
/// Offsets are byte offsets of the identifier token in the text (the positional key the Scopes model uses).
pub fn run(args: &[String]) -> i32 {
    for req in read_requests(args) {
        let id = req.get("id").cloned().unwrap_or(Value::Null);
        let text = req["text"].as_str().unwrap_or("").to_string();
        let r = guarded(Duration::from_secs(10), move || {
            let path = Path::new("/nonexistent/main.gom");
            match compiler::pipeline::pipeline::parse_ast_file(path, &text) {
                Ok(ast) => {
                    let (phir, table, diags) = hir::lower_to_hir(ast);
                    let mut uses = Vec::new();
                    for idx in 0..table.expr_count() {
                        let eid = hir::ExprId {
                            pkg: table.package(),
                            idx: idx as u32,
                        };
                        if let hir::Expr::ENameRef { res, hint, astptr } = table.expr(eid) {
                            let at: Value = astptr
                                .map(|p| Value::from(u32::from(p.text_range().start())))
                                .unwrap_or(Value::Null);
                            match res {
                                hir::NameRef::Local(l) => {
                                    let b: Value = table
                                        .local_origin_ptr(*l)
                                        .map(|p| Value::from(u32::from(p.text_range().start())))
                                        .unwrap_or(Value::Null);
                                    uses.push(json!({"x": hint, "at": at, "res": "local", "binder_at": b, "id": l.idx}));
                                }
                                hir::NameRef::Unresolved(_) => {
                                    uses.push(json!({"x": hint, "at": at, "res": "unresolved"}));
                                }
                                _ => {
                                    uses.push(json!({"x": hint, "at": at, "res": "global"}));
                                }
                            }
                        }
                    }
                    let mut binds = Vec::new();
                    for idx in 0..table.pat_count() {
                        let pid = hir::PatId {
                            pkg: table.package(),
                            idx: idx as u32,
                        };
                        if let hir::Pat::PVar { name, astptr } = table.pat(pid) {
                            let at: u32 = astptr.text_range().start().into();
                            binds.push(json!({"x": table.local_hint(*name), "at": at, "id": name.idx}));
                        }
                    }
                    for idx in 0..table.expr_count() {
                        let eid = hir::ExprId {
                            pkg: table.package(),
                            idx: idx as u32,
                        };
                        if let hir::Expr::EClosure { params, .. } = table.expr(eid) {
                            for cp in params.iter() {
                                let at: u32 = cp.astptr.text_range().start().into();
                                binds.push(json!({"x": table.local_hint(cp.name), "at": at, "id": cp.name.idx, "closure_param": true}));
                            }
                        }
                    }
                    for &def_id in phir.toplevels.iter() {
                        if let hir::Def::Fn(func) = table.def(def_id) {
                            for (i, (lid, _)) in func.params.iter().enumerate() {
                                binds.push(json!({"x": table.local_hint(*lid), "at": Value::Null, "id": lid.idx, "fn": func.name, "index": i}));
                            }
                        }
                    }
                    let d: Vec<Value> = diags.iter().map(diag_json).collect();
                    json!({"verdict": "ok", "uses": uses, "binds": binds, "diags": d})
                }
                Err(e) => {
                    let d: Vec<Value> = e.diagnostics().iter().map(diag_json).collect();
                    let verdict = match e {
                        compiler::pipeline::pipeline::CompilationError::Parser { .. } => "parser",
                        _ => "lower",
                    };
                    json!({"verdict": verdict, "diags": d})
                }
            }
        });
        let mut out = match r {
            Guarded::Done(v) => v,
            Guarded::Panic { msg, at } => {
                json!({"verdict": "panic", "msg": msg, "at": strip_repo(&at)})
            }
            Guarded::Timeout => json!({"verdict": "timeout"}),
        };
        out["id"] = id;
        emit(&out);
    }
    0
}
