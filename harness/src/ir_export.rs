//! Uniform JSON export of the four IR stages (Core, Mono, Lift, ANF) and their environments.
//! The shape mirrors the records IRTyping.tla works on: every node is {k, ty, ..children}.
use compiler::common::{Constructor, Prim};
use compiler::pipeline::pipeline::Compilation;
use compiler::tast::{self, Ty};
use compiler::{anf, core, lift, mono};
use serde_json::{Map, Value, json};

pub fn ty(t: &Ty) -> Value {
    match t {
        Ty::TVar(v) => json!({"t": "var", "n": format!("{:?}", v)}),
        Ty::TUnit => json!({"t": "unit"}),
        Ty::TBool => json!({"t": "bool"}),
        Ty::TInt8 => json!({"t": "int8"}),
        Ty::TInt16 => json!({"t": "int16"}),
        Ty::TInt32 => json!({"t": "int32"}),
        Ty::TInt64 => json!({"t": "int64"}),
        Ty::TUint8 => json!({"t": "uint8"}),
        Ty::TUint16 => json!({"t": "uint16"}),
        Ty::TUint32 => json!({"t": "uint32"}),
        Ty::TUint64 => json!({"t": "uint64"}),
        Ty::TFloat32 => json!({"t": "float32"}),
        Ty::TFloat64 => json!({"t": "float64"}),
        Ty::TString => json!({"t": "string"}),
        Ty::TTuple { typs } => json!({"t": "tuple", "ts": typs.iter().map(ty).collect::<Vec<_>>()}),
        Ty::TEnum { name } => json!({"t": "enum", "n": name}),
        Ty::TStruct { name } => json!({"t": "struct", "n": name}),
        Ty::TDyn { trait_name } => json!({"t": "dyn", "tr": trait_name}),
        Ty::TApp { ty: base, args } => {
            json!({"t": "app", "b": ty(base), "as": args.iter().map(ty).collect::<Vec<_>>()})
        }
        Ty::TArray { len, elem } => {
            let l: i64 = if *len == tast::ARRAY_WILDCARD_LEN { -1 } else { (*len).min(1 << 30) as i64 };
            json!({"t": "array", "len": l, "e": ty(elem)})
        }
        Ty::TVec { elem } => json!({"t": "vec", "e": ty(elem)}),
        Ty::TRef { elem } => json!({"t": "ref", "e": ty(elem)}),
        Ty::TParam { name } => json!({"t": "param", "n": name}),
        Ty::TFunc { params, ret_ty } => {
            json!({"t": "fn", "ps": params.iter().map(ty).collect::<Vec<_>>(), "r": ty(ret_ty)})
        }
    }
}

/// literal payload: ints as decimal text (TLC integers are 32-bit), strings as bytes, floats as their shortest decimal text
fn prim_value(p: &Prim) -> Value {
    match p {
        Prim::Unit { .. } => json!({}),
        Prim::Bool { value } => json!({"bv": value}),
        Prim::Int8 { value } => json!({"iv": value.to_string()}),
        Prim::Int16 { value } => json!({"iv": value.to_string()}),
        Prim::Int32 { value } => json!({"iv": value.to_string()}),
        Prim::Int64 { value } => json!({"iv": value.to_string()}),
        Prim::UInt8 { value } => json!({"iv": value.to_string()}),
        Prim::UInt16 { value } => json!({"iv": value.to_string()}),
        Prim::UInt32 { value } => json!({"iv": value.to_string()}),
        Prim::UInt64 { value } => json!({"iv": value.to_string()}),
        Prim::Float32 { value } => json!({"fv": format!("{}", value)}),
        Prim::Float64 { value } => json!({"fv": format!("{}", value)}),
        Prim::String { value } => json!({"sv": value.as_bytes()}),
    }
}

fn prim_node(p: &Prim, t: &Ty) -> Value {
    let mut v = prim_value(p);
    v["k"] = Value::from("prim");
    v["pk"] = Value::from(prim_kind(p));
    v["ty"] = ty(t);
    v
}

fn prim_kind(p: &Prim) -> &'static str {
    match p {
        Prim::Unit { .. } => "unit",
        Prim::Bool { .. } => "bool",
        Prim::Int8 { .. } => "int8",
        Prim::Int16 { .. } => "int16",
        Prim::Int32 { .. } => "int32",
        Prim::Int64 { .. } => "int64",
        Prim::UInt8 { .. } => "uint8",
        Prim::UInt16 { .. } => "uint16",
        Prim::UInt32 { .. } => "uint32",
        Prim::UInt64 { .. } => "uint64",
        Prim::Float32 { .. } => "float32",
        Prim::Float64 { .. } => "float64",
        Prim::String { .. } => "string",
    }
}

fn constr(c: &Constructor) -> (String, String, usize) {
    match c {
        Constructor::Enum(e) => ("enum".into(), e.type_name.0.clone(), e.index),
        Constructor::Struct(s) => ("struct".into(), s.type_name.0.clone(), 0),
    }
}

fn cparams(ps: &[tast::ClosureParam]) -> Value {
    Value::from(ps.iter().map(|p| json!({"n": p.name, "ty": ty(&p.ty)})).collect::<Vec<_>>())
}

macro_rules! common_arms {
    ($E:path, $e:expr, $rec:ident, $arm:ident) => {{
        use $E as X;
        match $e {
            X::EVar { name, ty: t } => Some(json!({"k": "var", "n": name, "res": name, "ty": ty(t)})),
            X::EPrim { value, ty: t } => Some(prim_node(value, t)),
            X::EConstr { constructor, args, ty: t } => {
                let (ck, tn, vi) = constr(constructor);
                Some(json!({"k": "constr", "ck": ck, "tn": tn, "vi": vi, "as": args.iter().map($rec).collect::<Vec<_>>(), "ty": ty(t)}))
            }
            X::ETuple { items, ty: t } => Some(json!({"k": "tuple", "es": items.iter().map($rec).collect::<Vec<_>>(), "ty": ty(t)})),
            X::EArray { items, ty: t } => Some(json!({"k": "array", "es": items.iter().map($rec).collect::<Vec<_>>(), "ty": ty(t)})),
            X::ELet { name, value, body, ty: t } => Some(json!({"k": "let", "n": name, "v": $rec(value), "b": $rec(body), "ty": ty(t)})),
            X::EMatch { expr, arms, default, ty: t } => Some(json!({"k": "match", "e": $rec(expr),
                "arms": arms.iter().map($arm).collect::<Vec<_>>(),
                "d": default.iter().map(|d| $rec(d)).collect::<Vec<_>>(), "ty": ty(t)})),
            X::EIf { cond, then_branch, else_branch, ty: t } => Some(json!({"k": "if", "c": $rec(cond), "t": $rec(then_branch), "e": $rec(else_branch), "ty": ty(t)})),
            X::EWhile { cond, body, ty: t } => Some(json!({"k": "while", "c": $rec(cond), "b": $rec(body), "ty": ty(t)})),
            X::EGo { expr, ty: t } => Some(json!({"k": "go", "e": $rec(expr), "ty": ty(t)})),
            X::EConstrGet { expr, constructor, field_index, ty: t } => {
                let (ck, tn, vi) = constr(constructor);
                Some(json!({"k": "get", "e": $rec(expr), "ck": ck, "tn": tn, "vi": vi, "fi": field_index, "ty": ty(t)}))
            }
            X::EUnary { op, expr, ty: t } => Some(json!({"k": "un", "op": op.symbol(), "e": $rec(expr), "ty": ty(t)})),
            X::EBinary { op, lhs, rhs, ty: t } => Some(json!({"k": "bin", "op": op.symbol(), "l": $rec(lhs), "r": $rec(rhs), "ty": ty(t)})),
            X::ECall { func, args, ty: t } => Some(json!({"k": "call", "f": $rec(func), "as": args.iter().map($rec).collect::<Vec<_>>(), "ty": ty(t)})),
            X::EToDyn { trait_name, for_ty, expr, ty: t } => Some(json!({"k": "todyn", "tr": trait_name.0, "for": ty(for_ty), "e": $rec(expr), "ty": ty(t),
                "implfn": compiler::names::trait_impl_fn_name(trait_name, for_ty, "")})),
            X::EDynCall { trait_name, method_name, receiver, args, ty: t } => Some(json!({"k": "dyncall", "tr": trait_name.0, "m": method_name.0,
                "recv": $rec(receiver), "as": args.iter().map($rec).collect::<Vec<_>>(), "ty": ty(t)})),
            X::EProj { tuple, index, ty: t } => Some(json!({"k": "proj", "e": $rec(tuple), "i": index, "ty": ty(t)})),
            #[allow(unreachable_patterns)]
            _ => None,
        }
    }};
}

fn core_arm(a: &core::Arm) -> Value {
    json!({"l": core_expr(&a.lhs), "b": core_expr(&a.body)})
}
pub fn core_expr(e: &core::Expr) -> Value {
    if let Some(v) = common_arms!(core::Expr, e, core_expr, core_arm) {
        return v;
    }
    match e {
        core::Expr::EClosure { params, body, ty: t } => json!({"k": "closure", "ps": cparams(params), "b": core_expr(body), "ty": ty(t)}),
        core::Expr::ETraitCall { trait_name, method_name, receiver, args, ty: t } => json!({"k": "traitcall", "tr": trait_name.0, "m": method_name.0,
            "recv": core_expr(receiver), "as": args.iter().map(core_expr).collect::<Vec<_>>(), "ty": ty(t)}),
        _ => json!({"k": "unknown"}),
    }
}

fn mono_arm(a: &mono::MonoArm) -> Value {
    json!({"l": mono_expr(&a.lhs), "b": mono_expr(&a.body)})
}
pub fn mono_expr(e: &mono::MonoExpr) -> Value {
    if let Some(v) = common_arms!(mono::MonoExpr, e, mono_expr, mono_arm) {
        return v;
    }
    match e {
        mono::MonoExpr::EClosure { params, body, ty: t } => json!({"k": "closure", "ps": cparams(params), "b": mono_expr(body), "ty": ty(t)}),
        _ => json!({"k": "unknown"}),
    }
}

fn lift_arm(a: &lift::LiftArm) -> Value {
    json!({"l": lift_expr(&a.lhs), "b": lift_expr(&a.body)})
}
pub fn lift_expr(e: &lift::LiftExpr) -> Value {
    common_arms!(lift::LiftExpr, e, lift_expr, lift_arm).unwrap_or_else(|| json!({"k": "unknown"}))
}

fn imm(i: &anf::ImmExpr) -> Value {
    match i {
        anf::ImmExpr::ImmVar { name, ty: t } => json!({"k": "var", "n": name, "res": name, "ty": ty(t)}),
        anf::ImmExpr::ImmPrim { value, ty: t } => prim_node(value, t),
        anf::ImmExpr::ImmTag { index, ty: t } => json!({"k": "tag", "i": index, "ty": ty(t)}),
    }
}
fn anf_arm(a: &anf::Arm) -> Value {
    json!({"l": imm(&a.lhs), "b": aexpr(&a.body)})
}
fn immb(i: &Box<anf::ImmExpr>) -> Value {
    imm(i)
}
pub fn cexpr(e: &anf::CExpr) -> Value {
    use anf::CExpr as X;
    match e {
        X::CImm { imm: i } => imm(i),
        X::EConstr { constructor, args, ty: t } => {
            let (ck, tn, vi) = constr(constructor);
            json!({"k": "constr", "ck": ck, "tn": tn, "vi": vi, "as": args.iter().map(imm).collect::<Vec<_>>(), "ty": ty(t)})
        }
        X::ETuple { items, ty: t } => json!({"k": "tuple", "es": items.iter().map(imm).collect::<Vec<_>>(), "ty": ty(t)}),
        X::EArray { items, ty: t } => json!({"k": "array", "es": items.iter().map(imm).collect::<Vec<_>>(), "ty": ty(t)}),
        X::EMatch { expr, arms, default, ty: t } => json!({"k": "match", "e": immb(expr), "arms": arms.iter().map(anf_arm).collect::<Vec<_>>(),
            "d": default.iter().map(|d| aexpr(d)).collect::<Vec<_>>(), "ty": ty(t)}),
        X::EIf { cond, then, else_, ty: t } => json!({"k": "if", "c": immb(cond), "t": aexpr(then), "e": aexpr(else_), "ty": ty(t)}),
        X::EWhile { cond, body, ty: t } => json!({"k": "while", "c": aexpr(cond), "b": aexpr(body), "ty": ty(t)}),
        X::EConstrGet { expr, constructor, field_index, ty: t } => {
            let (ck, tn, vi) = constr(constructor);
            json!({"k": "get", "e": immb(expr), "ck": ck, "tn": tn, "vi": vi, "fi": field_index, "ty": ty(t)})
        }
        X::EUnary { op, expr, ty: t } => json!({"k": "un", "op": op.symbol(), "e": immb(expr), "ty": ty(t)}),
        X::EBinary { op, lhs, rhs, ty: t } => json!({"k": "bin", "op": op.symbol(), "l": immb(lhs), "r": immb(rhs), "ty": ty(t)}),
        X::ECall { func, args, ty: t } => json!({"k": "call", "f": imm(func), "as": args.iter().map(imm).collect::<Vec<_>>(), "ty": ty(t)}),
        X::EToDyn { trait_name, for_ty, expr, ty: t } => json!({"k": "todyn", "tr": trait_name.0, "for": ty(for_ty), "e": imm(expr), "ty": ty(t),
            "implfn": compiler::names::trait_impl_fn_name(trait_name, for_ty, "")}),
        X::EDynCall { trait_name, method_name, receiver, args, ty: t } => json!({"k": "dyncall", "tr": trait_name.0, "m": method_name.0,
            "recv": imm(receiver), "as": args.iter().map(imm).collect::<Vec<_>>(), "ty": ty(t)}),
        X::EGo { closure, ty: t } => json!({"k": "go", "e": immb(closure), "ty": ty(t)}),
        X::EProj { tuple, index, ty: t } => json!({"k": "proj", "e": immb(tuple), "i": index, "ty": ty(t)}),
    }
}
pub fn aexpr(e: &anf::AExpr) -> Value {
    match e {
        anf::AExpr::ACExpr { expr } => cexpr(expr),
        anf::AExpr::ALet { name, value, body, ty: t } => json!({"k": "let", "n": name, "v": cexpr(value), "b": aexpr(body), "ty": ty(t)}),
    }
}

fn params(ps: &[(String, Ty)]) -> Value {
    Value::from(ps.iter().map(|(n, t)| json!({"n": n, "ty": ty(t)})).collect::<Vec<_>>())
}

fn struct_def(d: &compiler::env::StructDef) -> Value {
    json!({"gens": d.generics.iter().map(|g| g.0.clone()).collect::<Vec<_>>(),
           "fields": d.fields.iter().map(|(n, t)| json!({"n": n.0, "ty": ty(t)})).collect::<Vec<_>>()})
}
fn enum_def(d: &compiler::env::EnumDef) -> Value {
    json!({"gens": d.generics.iter().map(|g| g.0.clone()).collect::<Vec<_>>(),
           "variants": d.variants.iter().map(|(n, ts)| json!({"n": n.0, "ts": ts.iter().map(ty).collect::<Vec<_>>()})).collect::<Vec<_>>()})
}

/// the environment a stage's terms are typed in
fn env_json(c: &Compilation, stage: &str) -> Value {
    // after monomorphisation the definitions are the ones the pass left in its own environment (fields of non-generic types
    // that mention generic instances are rewritten there)
    let genv = if stage == "core" { &c.genv } else { &c.monoenv.genv };
    let mut structs = Map::new();
    let mut enums = Map::new();
    let mut funcs = Map::new();
    for (n, d) in genv.type_env.structs.iter() {
        structs.insert(n.0.clone(), struct_def(d));
    }
    for (n, d) in genv.type_env.enums.iter() {
        enums.insert(n.0.clone(), enum_def(d));
    }
    for (n, s) in genv.value_env.funcs.iter() {
        funcs.insert(n.clone(), json!({"gens": s.type_params, "ty": ty(&s.ty), "origin": format!("{:?}", s.origin)}));
    }
    for (n, f) in genv.value_env.extern_funcs.iter() {
        funcs.insert(n.clone(), json!({"gens": Vec::<String>::new(), "ty": ty(&f.ty), "origin": "Extern"}));
    }
    if stage != "core" {
        for (n, d) in c.monoenv.mono_structs.iter() {
            structs.insert(n.0.clone(), struct_def(d));
        }
        for (n, d) in c.monoenv.mono_enums.iter() {
            enums.insert(n.0.clone(), enum_def(d));
        }
        for (n, t) in c.monoenv.mono_funcs.iter() {
            funcs.insert(n.clone(), json!({"gens": Vec::<String>::new(), "ty": ty(t), "origin": "Mono"}));
        }
    }
    if stage == "lift" || stage == "anf" {
        for (n, d) in c.liftenv.lifted_structs.iter() {
            structs.insert(n.0.clone(), struct_def(d));
        }
        for (n, t) in c.liftenv.lifted_funcs.iter() {
            funcs.insert(n.clone(), json!({"gens": Vec::<String>::new(), "ty": ty(t), "origin": "Lift"}));
        }
    }
    let mut traits = Map::new();
    for (n, d) in genv.trait_env.trait_defs.iter() {
        let mut ms = Map::new();
        for (m, s) in d.methods.iter() {
            ms.insert(m.clone(), json!({"gens": s.type_params, "ty": ty(&s.ty)}));
        }
        traits.insert(n.clone(), Value::Object(ms));
    }
    let impls: Vec<Value> = genv
        .trait_env
        .trait_impls
        .iter()
        .map(|((tr, for_ty), d)| json!({"tr": tr, "for": ty(for_ty), "gens": d.params.iter().map(|p| p.0.clone()).collect::<Vec<_>>(),
                                        "methods": d.methods.keys().cloned().collect::<Vec<_>>()}))
        .collect();
    let lifted: Vec<String> = if stage == "lift" || stage == "anf" {
        c.liftenv.lifted_structs.keys().map(|k| k.0.clone()).collect()
    } else {
        Vec::new()
    };
    json!({"structs": structs, "enums": enums, "funcs": funcs, "traits": traits, "impls": impls, "lifted": lifted})
}

/// Core names the instance of a generic inherent method at the call site (`inherent#Point#Point[int32,string]#swap`);
/// mono finds the definition through the (base type, method) index (mono.rs, Ctx::new / ECall).  The same rule, applied
/// to every variable node of the Core export, fills `res` (the top-level function the name stands for).
fn resolve_core_names(v: &mut Value, tops: &std::collections::HashSet<String>, index: &std::collections::HashMap<(String, String), String>) {
    match v {
        Value::Object(m) => {
            if m.get("k").and_then(|k| k.as_str()) == Some("var") {
                let n = m.get("n").and_then(|n| n.as_str()).unwrap_or("").to_string();
                if !tops.contains(&n)
                    && let Some((b, me)) = compiler::names::parse_inherent_method_fn_name(&n)
                    && let Some(g) = index.get(&(b.to_string(), me.to_string()))
                {
                    m.insert("res".into(), Value::from(g.clone()));
                }
            }
            for (_, x) in m.iter_mut() {
                resolve_core_names(x, tops, index);
            }
        }
        Value::Array(a) => {
            for x in a.iter_mut() {
                resolve_core_names(x, tops, index);
            }
        }
        _ => {}
    }
}

/// `missing` is the run-time helper a match without a remaining arm is compiled to.  It is not in any environment; unless
/// the program defines a function of that name itself, a variable node `missing` stands for the helper (res = "·missing").
fn mark_missing_helper(fns: &mut Vec<Value>) {
    let user_defined = fns.iter().any(|f| f.get("name").and_then(|n| n.as_str()) == Some("missing"));
    if user_defined {
        return;
    }
    fn go(v: &mut Value) {
        match v {
            Value::Object(m) => {
                if m.get("k").and_then(|k| k.as_str()) == Some("var") && m.get("n").and_then(|n| n.as_str()) == Some("missing") {
                    m.insert("res".into(), Value::from("·missing"));
                }
                for (_, x) in m.iter_mut() {
                    go(x);
                }
            }
            Value::Array(a) => {
                for x in a.iter_mut() {
                    go(x);
                }
            }
            _ => {}
        }
    }
    for f in fns.iter_mut() {
        go(f);
    }
}

pub fn ir_export(c: &Compilation) -> Value {
    let tops: std::collections::HashSet<String> = c.core.toplevels.iter().map(|f| f.name.clone()).collect();
    let mut index = std::collections::HashMap::new();
    for f in c.core.toplevels.iter() {
        if !f.generics.is_empty()
            && f.name.starts_with("inherent#")
            && let Some((b, me)) = compiler::names::parse_inherent_method_fn_name(&f.name)
        {
            index.insert((b.to_string(), me.to_string()), f.name.clone());
        }
    }
    let mut core_fns: Vec<Value> = c
        .core
        .toplevels
        .iter()
        .map(|f| json!({"name": f.name, "gens": f.generics, "params": params(&f.params), "ret": ty(&f.ret_ty), "body": core_expr(&f.body)}))
        .collect();
    for f in core_fns.iter_mut() {
        resolve_core_names(f, &tops, &index);
    }
    let mut mono_fns: Vec<Value> = c
        .mono
        .toplevels
        .iter()
        .map(|f| json!({"name": f.name, "gens": Vec::<String>::new(), "params": params(&f.params), "ret": ty(&f.ret_ty), "body": mono_expr(&f.body)}))
        .collect();
    let mut lift_fns: Vec<Value> = c
        .lambda
        .toplevels
        .iter()
        .map(|f| json!({"name": f.name, "gens": Vec::<String>::new(), "params": params(&f.params), "ret": ty(&f.ret_ty), "body": lift_expr(&f.body)}))
        .collect();
    let mut anf_fns: Vec<Value> = c
        .anf
        .toplevels
        .iter()
        .map(|f| json!({"name": f.name, "gens": Vec::<String>::new(), "params": params(&f.params), "ret": ty(&f.ret_ty), "body": aexpr(&f.body)}))
        .collect();
    mark_missing_helper(&mut core_fns);
    mark_missing_helper(&mut mono_fns);
    mark_missing_helper(&mut lift_fns);
    mark_missing_helper(&mut anf_fns);
    json!({
        "core": {"fns": core_fns, "env": env_json(c, "core")},
        "mono": {"fns": mono_fns, "env": env_json(c, "mono")},
        "lift": {"fns": lift_fns, "env": env_json(c, "lift")},
        "anf": {"fns": anf_fns, "env": env_json(c, "anf")},
    })
}
