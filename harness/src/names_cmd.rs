use std::time::Duration;

use compiler::tast::Ty;
use serde_json::{Value, json};

use crate::util::{Guarded, emit, guarded, read_requests, strip_repo};

/// request: {"id":.., "fn": "go_ident"|"encode_ty"|"go_type_name_for"|"ty_compact"|"trait_impl_fn_name"|"inherent_method_fn_name"
///            |"ref_struct_name"|"array_helper_fn_name"|"ref_helper_fn_name", "s": string?, "ty": <serde Ty>?, "trait": string?, "method": string?, "prefix": string?}
/// answer : {"id", "out": string} | {"id","panic":..}
pub fn run(args: &[String]) -> i32 {
    for req in read_requests(args) {
        let id = req.get("id").cloned().unwrap_or(Value::Null);
        let r = guarded(Duration::from_secs(5), move || {
            let f = req["fn"].as_str().unwrap_or("");
            let ty: Option<Ty> = req.get("ty").and_then(|t| serde_json::from_value(t.clone()).ok());
            let s = req.get("s").and_then(|x| x.as_str()).unwrap_or("").to_string();
            let m = req.get("method").and_then(|x| x.as_str()).unwrap_or("m").to_string();
            let tr = req.get("trait").and_then(|x| x.as_str()).unwrap_or("Tr").to_string();
            let prefix = req.get("prefix").and_then(|x| x.as_str()).unwrap_or("array_get").to_string();
            let need_ty = || ty.clone().ok_or_else(|| "missing or undecodable ty".to_string());
            let out: Result<String, String> = match f {
                "go_ident" => Ok(compiler::go::mangle::go_ident(&s)),
                "encode_ty" => need_ty().map(|t| compiler::go::mangle::encode_ty(&t)),
                "go_type_name_for" => need_ty().map(|t| compiler::go::goast::go_type_name_for(&t)),
                "ty_compact" => need_ty().map(|t| compiler::names::ty_compact(&t)),
                "trait_impl_fn_name" => need_ty().map(|t| {
                    compiler::names::trait_impl_fn_name(&compiler::tast::TastIdent(tr.clone()), &t, &m)
                }),
                "inherent_method_fn_name" => need_ty().map(|t| compiler::names::inherent_method_fn_name(&t, &m)),
                "ref_struct_name" => need_ty().map(|t| compiler::go::goast::ref_struct_name(&t)),
                "array_helper_fn_name" => need_ty().map(|t| compiler::go::runtime::array_helper_fn_name(&prefix, &t)),
                "ref_helper_fn_name" => need_ty().map(|t| compiler::go::runtime::ref_helper_fn_name(&prefix, &t)),
                other => Err(format!("unknown fn {other}")),
            };
            match out {
                Ok(o) => json!({"out": o}),
                Err(e) => json!({"error": e}),
            }
        });
        let mut out = match r {
            Guarded::Done(v) => v,
            Guarded::Panic { msg, at } => json!({"panic": msg, "at": strip_repo(&at)}),
            Guarded::Timeout => json!({"timeout": true}),
        };
        out["id"] = id;
        emit(&out);
    }
    0
}
