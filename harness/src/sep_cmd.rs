pub fn run(_args: &[String]) -> i32 {
    eprintln!("not implemented");
    2
}
