// gv — conformance harness binding the TLA+ specifications in /verif/spec to the goml compiler.
// Every sub-command reads ndjson requests on stdin (or a file) and writes one ndjson answer per request.
// Panics of the code under test are data ({"verdict":"panic",...}), never harness failures.

#[cfg(feature = "asttrees")]
mod ast_export;
mod compile_cmd;
#[cfg(feature = "hir")]
mod hir_cmd;
#[cfg(feature = "ir")]
mod ir_export;
#[cfg(feature = "names")]
mod names_cmd;
mod parse_cmd;
#[cfg(feature = "query")]
mod query_cmd;
mod sep_cmd;
#[cfg(feature = "hooks")]
mod trace_hooks;
mod util;
#[cfg(feature = "web")]
mod web_cmd;

fn main() {
    let args: Vec<String> = std::env::args().collect();
    if args.len() < 2 {
        eprintln!("usage: gv <compile|hir|parse|names|sep|query|web> ...");
        std::process::exit(2);
    }
    util::install_quiet_panic_hook();
    let rest = &args[2..];
    if util::flag(rest, "--inline") {
        util::INLINE.store(true, std::sync::atomic::Ordering::Relaxed);
    }
    let code = match args[1].as_str() {
        "compile" => compile_cmd::run(rest),
        #[cfg(feature = "hir")]
        "hir" => hir_cmd::run(rest),
        "parse" => parse_cmd::run(rest),
        #[cfg(feature = "names")]
        "names" => names_cmd::run(rest),
        "sep" => sep_cmd::run(rest),
        #[cfg(feature = "query")]
        "query" => query_cmd::run(rest),
        #[cfg(feature = "web")]
        "web" => web_cmd::run(rest),
        other => {
            eprintln!("unknown sub-command {other}");
            2
        }
    };
    std::process::exit(code);
}
