use std::cell::RefCell;
use std::io::{BufRead, Write};
use std::sync::mpsc;
use std::time::Duration;

use serde_json::{Value, json};

thread_local! {
    static LAST_PANIC: RefCell<Option<(String, String)>> = const { RefCell::new(None) };
}

pub fn install_quiet_panic_hook() {
    std::panic::set_hook(Box::new(|info| {
        let loc = info
            .location()
            .map(|l| format!("{}:{}", l.file(), l.line()))
            .unwrap_or_else(|| "?".to_string());
        let msg = if let Some(s) = info.payload().downcast_ref::<&str>() {
            s.to_string()
        } else if let Some(s) = info.payload().downcast_ref::<String>() {
            s.clone()
        } else {
            "<non-string panic>".to_string()
        };
        LAST_PANIC.with(|p| *p.borrow_mut() = Some((msg, loc)));
    }));
}

pub fn take_panic() -> (String, String) {
    LAST_PANIC
        .with(|p| p.borrow_mut().take())
        .unwrap_or_else(|| ("<unknown>".into(), "?".into()))
}

pub enum Guarded<T> {
    Done(T),
    Panic { msg: String, at: String },
    Timeout,
}

/// Run `f` on a big-stack thread under catch_unwind with a wall-clock limit.
pub static INLINE: std::sync::atomic::AtomicBool = std::sync::atomic::AtomicBool::new(false);

pub fn guarded<T: Send + 'static>(
    limit: Duration,
    f: impl FnOnce() -> T + Send + 'static,
) -> Guarded<T> {
    if INLINE.load(std::sync::atomic::Ordering::Relaxed) {
        // single-threaded mode: the whole process uses one RandomState key pair (pinned by strace in C13)
        return match std::panic::catch_unwind(std::panic::AssertUnwindSafe(f)) {
            Ok(v) => Guarded::Done(v),
            Err(_) => {
                let (msg, at) = take_panic();
                Guarded::Panic { msg, at }
            }
        };
    }
    let (tx, rx) = mpsc::channel();
    let builder = std::thread::Builder::new().stack_size(256 * 1024 * 1024);
    let handle = builder
        .spawn(move || {
            let r = std::panic::catch_unwind(std::panic::AssertUnwindSafe(f));
            let r = match r {
                Ok(v) => Guarded::Done(v),
                Err(_) => {
                    let (msg, at) = take_panic();
                    Guarded::Panic { msg, at }
                }
            };
            let _ = tx.send(r);
        })
        .expect("spawn");
    match rx.recv_timeout(limit) {
        Ok(r) => {
            let _ = handle.join();
            r
        }
        Err(_) => Guarded::Timeout,
    }
}

pub fn strip_repo(at: &str) -> String {
    // stable panic-site identity: path relative to the repository
    match at.find("crates/") {
        Some(i) => at[i..].to_string(),
        None => at.to_string(),
    }
}

pub fn read_requests(args: &[String]) -> Vec<Value> {
    let mut out = Vec::new();
    let reader: Box<dyn BufRead> = if let Some(p) = args.first().filter(|a| !a.starts_with("--")) {
        Box::new(std::io::BufReader::new(
            std::fs::File::open(p).unwrap_or_else(|e| {
                eprintln!("cannot open {p}: {e}");
                std::process::exit(2)
            }),
        ))
    } else {
        Box::new(std::io::BufReader::new(std::io::stdin()))
    };
    for line in reader.lines() {
        let line = line.expect("read");
        if line.trim().is_empty() {
            continue;
        }
        match serde_json::from_str::<Value>(&line) {
            Ok(v) => out.push(v),
            Err(e) => {
                eprintln!("bad request line: {e}");
                std::process::exit(2);
            }
        }
    }
    out
}

pub fn emit(v: &Value) {
    let stdout = std::io::stdout();
    let mut lock = stdout.lock();
    serde_json::to_writer(&mut lock, v).expect("write");
    lock.write_all(b"\n").expect("write");
}

pub fn diag_json(d: &diagnostics::Diagnostic) -> Value {
    let (s, e) = match d.range() {
        Some(r) => (
            Value::from(u32::from(r.start())),
            Value::from(u32::from(r.end())),
        ),
        None => (Value::Null, Value::Null),
    };
    json!({
        "stage": d.stage().as_str(),
        "sev": match d.severity() { diagnostics::Severity::Error => "error", diagnostics::Severity::Warning => "warning" },
        "msg": d.message(),
        "s": s, "e": e,
    })
}

pub fn flag(args: &[String], name: &str) -> bool {
    args.iter().any(|a| a == name)
}

pub fn opt(args: &[String], name: &str) -> Option<String> {
    args.iter()
        .position(|a| a == name)
        .and_then(|i| args.get(i + 1).cloned())
}
