use std::path::Path;
use std::time::Duration;

use ast::ast as A;
use parser::event::Event;
use serde_json::{Value, json};

use crate::util::{Guarded, diag_json, emit, guarded, read_requests, strip_repo};

/// request: {"id":.., "text":"..." | "bytes":[..], "mode":"ast"|"cst"}
/// ast: {"verdict": ok|parser|lower, "fns": {name: expr}, "diags":[..]}
/// cst: tokens, parser events, tree leaves, text of the tree, diagnostics, second-parse equality
pub fn run(args: &[String]) -> i32 {
    for req in read_requests(args) {
        let id = req.get("id").cloned().unwrap_or(Value::Null);
        let text: String = if let Some(b) = req.get("bytes").and_then(|b| b.as_array()) {
            let bytes: Vec<u8> = b.iter().map(|x| x.as_u64().unwrap_or(0) as u8).collect();
            match String::from_utf8(bytes) {
                Ok(s) => s,
                Err(_) => {
                    emit(&json!({"id": id, "verdict": "not-utf8"}));
                    continue;
                }
            }
        } else {
            req["text"].as_str().unwrap_or("").to_string()
        };
        let mode = req["mode"].as_str().unwrap_or("ast").to_string();
        let r = guarded(Duration::from_secs(10), move || {
            if mode == "cst" { cst(&text) } else { ast_mode(&text) }
        });
        let mut out = match r {
            Guarded::Done(v) => v,
            Guarded::Panic { msg, at } => {
                json!({"verdict": "panic", "msg": msg, "at": strip_repo(&at)})
            }
            Guarded::Timeout => json!({"verdict": "timeout"}),
        };
        out["id"] = id;
        emit(&out);
    }
    0
}

fn ast_mode(text: &str) -> Value {
    let path = Path::new("/nonexistent/main.gom");
    match compiler::pipeline::pipeline::parse_ast_file(path, text) {
        Ok(file) => {
            let mut fns = serde_json::Map::new();
            let mut sigs = serde_json::Map::new();
            for item in file.toplevels.iter() {
                if let A::Item::Fn(f) = item {
                    fns.insert(f.name.0.clone(), expr(&f.body));
                    sigs.insert(f.name.0.clone(), json!({"params": f.params.iter().map(|(_, t)| type_expr(t)).collect::<Vec<_>>(),
                                                          "ret": f.ret_ty.as_ref().map(type_expr)}));
                }
            }
            json!({"verdict": "ok", "fns": fns, "sigs": sigs})
        }
        Err(e) => {
            let d: Vec<Value> = e.diagnostics().iter().map(diag_json).collect();
            let verdict = match e {
                compiler::pipeline::pipeline::CompilationError::Parser { .. } => "parser",
                _ => "lower",
            };
            json!({"verdict": verdict, "diags": d})
        }
    }
}

/// type expressions as trees: {k: "con", n} | {k: "tuple", ts} | {k: "app", n, as} | {k: "array", len, e} | {k: "fn", ps, r} | {k: "dyn", n}
pub fn type_expr(t: &A::TypeExpr) -> Value {
    use A::TypeExpr::*;
    let con = |n: &str| json!({"k": "con", "n": n});
    match t {
        TUnit => con("unit"),
        TBool => con("bool"),
        TInt8 => con("int8"),
        TInt16 => con("int16"),
        TInt32 => con("int32"),
        TInt64 => con("int64"),
        TUint8 => con("uint8"),
        TUint16 => con("uint16"),
        TUint32 => con("uint32"),
        TUint64 => con("uint64"),
        TFloat32 => con("float32"),
        TFloat64 => con("float64"),
        TString => con("string"),
        TTuple { typs } => json!({"k": "tuple", "ts": typs.iter().map(type_expr).collect::<Vec<_>>()}),
        TCon { path } => con(&path_str(path)),
        TDyn { trait_path } => json!({"k": "dyn", "n": path_str(trait_path)}),
        TApp { ty, args } => json!({"k": "app", "f": type_expr(ty), "as": args.iter().map(type_expr).collect::<Vec<_>>()}),
        TArray { len, elem } => json!({"k": "array", "len": len, "e": type_expr(elem)}),
        TFunc { params, ret_ty } => json!({"k": "fn", "ps": params.iter().map(type_expr).collect::<Vec<_>>(), "r": type_expr(ret_ty)}),
    }
}

fn path_str(p: &A::Path) -> String {
    p.segments
        .iter()
        .map(|s| s.ident.0.clone())
        .collect::<Vec<_>>()
        .join("::")
}

fn lit(kind: &str, ty: &str, v: &str) -> Value {
    json!({"k": kind, "ty": ty, "v": v})
}

pub fn expr(e: &A::Expr) -> Value {
    use A::Expr::*;
    match e {
        EPath { path, .. } => json!({"k": "path", "p": path_str(path)}),
        EUnit { .. } => json!({"k": "unit"}),
        EBool { value, .. } => json!({"k": "bool", "v": value}),
        EInt { value, .. } => lit("int", "", value),
        EInt8 { value, .. } => lit("int", "int8", value),
        EInt16 { value, .. } => lit("int", "int16", value),
        EInt32 { value, .. } => lit("int", "int32", value),
        EInt64 { value, .. } => lit("int", "int64", value),
        EUInt8 { value, .. } => lit("int", "uint8", value),
        EUInt16 { value, .. } => lit("int", "uint16", value),
        EUInt32 { value, .. } => lit("int", "uint32", value),
        EUInt64 { value, .. } => lit("int", "uint64", value),
        EFloat { value, .. } => json!({"k": "float", "ty": "", "v": format!("{:?}", value)}),
        EFloat32 { value, .. } => lit("float", "float32", value),
        EFloat64 { value, .. } => lit("float", "float64", value),
        EString { value, .. } => json!({"k": "str", "bytes": value.as_bytes()}),
        EConstr {
            constructor, args, ..
        } => json!({"k": "constr", "p": path_str(constructor), "as": args.iter().map(expr).collect::<Vec<_>>()}),
        EStructLiteral { name, fields, .. } => json!({"k": "struct", "p": path_str(name),
            "fs": fields.iter().map(|(f, e)| json!({"f": f.0, "e": expr(e)})).collect::<Vec<_>>()}),
        ETuple { items, .. } => json!({"k": "tuple", "es": items.iter().map(expr).collect::<Vec<_>>()}),
        EArray { items, .. } => json!({"k": "array", "es": items.iter().map(expr).collect::<Vec<_>>()}),
        ELet { pat, value, annotation, .. } => {
            json!({"k": "let", "p": pat_json(pat), "pt": pat_tree(pat), "ann": annotation.is_some(),
                "annt": annotation.as_ref().map(type_expr), "e": expr(value)})
        }
        EClosure { params, body, .. } => json!({"k": "lam",
            "ps": params.iter().map(|p| p.name.0.clone()).collect::<Vec<_>>(),
            "pts": params.iter().map(|p| p.ty.as_ref().map(type_expr)).collect::<Vec<_>>(), "b": expr(body)}),
        EMatch { expr: e, arms, .. } => json!({"k": "match", "e": expr(e),
            "arms": arms.iter().map(|a| json!({"p": pat_json(&a.pat), "pt": pat_tree(&a.pat), "b": expr(&a.body)})).collect::<Vec<_>>()}),
        EIf {
            cond,
            then_branch,
            else_branch,
            ..
        } => json!({"k": "if", "c": expr(cond), "t": expr(then_branch), "e": expr(else_branch)}),
        EWhile { cond, body, .. } => json!({"k": "while", "c": expr(cond), "b": expr(body)}),
        EGo { expr: e, .. } => json!({"k": "go", "e": expr(e)}),
        ECall { func, args, .. } => {
            json!({"k": "call", "f": expr(func), "as": args.iter().map(expr).collect::<Vec<_>>()})
        }
        EUnary { op, expr: e, .. } => json!({"k": "un", "op": op.symbol(), "e": expr(e)}),
        EBinary { op, lhs, rhs, .. } => {
            json!({"k": "bin", "op": op.symbol(), "l": expr(lhs), "r": expr(rhs)})
        }
        EProj { tuple, index, .. } => json!({"k": "proj", "e": expr(tuple), "i": index}),
        EField { expr: e, field, .. } => json!({"k": "field", "e": expr(e), "f": field.0}),
        EBlock { exprs, .. } => json!({"k": "block", "es": exprs.iter().map(expr).collect::<Vec<_>>()}),
    }
}

/// patterns as trees
pub fn pat_tree(p: &A::Pat) -> Value {
    use A::Pat::*;
    match p {
        PVar { name, .. } => json!({"k": "pvar", "n": name.0}),
        PUnit { .. } => json!({"k": "punit"}),
        PBool { value, .. } => json!({"k": "pbool", "v": value}),
        PInt { value, .. } => json!({"k": "pint", "ty": "", "v": value}),
        PInt8 { value, .. } => json!({"k": "pint", "ty": "int8", "v": value}),
        PInt16 { value, .. } => json!({"k": "pint", "ty": "int16", "v": value}),
        PInt32 { value, .. } => json!({"k": "pint", "ty": "int32", "v": value}),
        PInt64 { value, .. } => json!({"k": "pint", "ty": "int64", "v": value}),
        PUInt8 { value, .. } => json!({"k": "pint", "ty": "uint8", "v": value}),
        PUInt16 { value, .. } => json!({"k": "pint", "ty": "uint16", "v": value}),
        PUInt32 { value, .. } => json!({"k": "pint", "ty": "uint32", "v": value}),
        PUInt64 { value, .. } => json!({"k": "pint", "ty": "uint64", "v": value}),
        PString { value, .. } => json!({"k": "pstr", "bytes": value.as_bytes()}),
        PConstr { constructor, args, .. } => json!({"k": "pcon", "p": path_str(constructor), "as": args.iter().map(pat_tree).collect::<Vec<_>>()}),
        PStruct { name, fields, .. } => json!({"k": "pstruct", "p": path_str(name),
            "fs": fields.iter().map(|(f, q)| json!({"f": f.0, "p": pat_tree(q)})).collect::<Vec<_>>()}),
        PTuple { pats, .. } => json!({"k": "ptuple", "ps": pats.iter().map(pat_tree).collect::<Vec<_>>()}),
        PWild { .. } => json!({"k": "pwild"}),
    }
}

fn pat_json(p: &A::Pat) -> Value {
    // patterns are exported through their Debug rendering with syntax pointers removed (enough for equality checks)
    let s = format!("{:?}", p);
    let mut out = String::new();
    let mut rest = s.as_str();
    while let Some(i) = rest.find("astptr:") {
        out.push_str(&rest[..i]);
        // skip to the matching close of the pointer value: "astptr: SyntaxNodePtr { kind: .., range: a..b }"
        let tail = &rest[i..];
        let end = tail.find('}').map(|j| j + 1).unwrap_or(tail.len());
        rest = &tail[end..];
    }
    out.push_str(rest);
    Value::from(out)
}

fn cst(text: &str) -> Value {
    let path = Path::new("/nonexistent/main.gom");
    let toks = lexer::lex(text);
    let tokens: Vec<Value> = toks
        .iter()
        .map(|t| {
            json!({"k": format!("{:?}", t.kind), "s": u32::from(t.range.start()), "e": u32::from(t.range.end()),
                   "triv": t.kind.is_trivia(), "textlen": t.text.len()})
        })
        .collect();
    let mut p = parser::parser::Parser::new(path, toks);
    parser::file::file(&mut p);
    let events: Vec<Value> = p
        .events
        .iter()
        .map(|e| match e {
            Event::Open {
                kind,
                forward_parent,
            } => json!({"ev": "open", "kind": format!("{:?}", kind), "fp": forward_parent}),
            Event::Close => json!({"ev": "close"}),
            Event::Advance => json!({"ev": "adv"}),
            Event::Error(_) => json!({"ev": "err"}),
        })
        .collect();
    let res = p.build_tree();
    let root = parser::syntax::MySyntaxNode::new_root(res.green_node.clone());
    let tree_text = root.text().to_string();
    let mut leaves = Vec::new();
    let mut nodes_ok = true;
    let len = text.len() as u32;
    for el in root.descendants_with_tokens() {
        let r = el.text_range();
        if u32::from(r.end()) > len || u32::from(r.start()) > u32::from(r.end()) {
            nodes_ok = false;
        }
        if let Some(t) = el.as_token() {
            leaves.push(json!({"k": format!("{:?}", t.kind()), "s": u32::from(r.start()), "e": u32::from(r.end())}));
        }
    }
    let diags: Vec<Value> = res.diagnostics.iter().map(diag_json).collect();
    // second parse of the same text
    let res2 = parser::parse(path, text);
    let same = format!("{:?}", res.green_node) == format!("{:?}", res2.green_node)
        && res.diagnostics.len() == res2.diagnostics.len();
    let boundaries: Vec<bool> = (0..=text.len()).map(|i| text.is_char_boundary(i)).collect();
    json!({"verdict": "ok", "len": len, "tokens": tokens, "events": events, "leaves": leaves,
           "tree_text_equal": tree_text == text, "tree_text_len": tree_text.len(), "nodes_in_text": nodes_ok,
           "diags": diags, "twice_equal": same, "char_boundary": boundaries})
}
