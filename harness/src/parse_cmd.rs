use std::path::Path;
use std::time::Duration;

use parser::event::Event;
use serde_json::{Value, json};

use crate::util::{Guarded, diag_json, emit, guarded, read_requests, strip_repo};

/// request: {"id":.., "text":"..." | "bytes":[..], "mode":"ast"|"cst"}
/// ast: {"verdict": ok|parser|lower, "fns": {name: expr}, "diags":[..]}
/// cst: tokens, parser events, tree leaves, text of the tree, diagnostics, second-parse equality
pub fn run(args: &[String]) -> i32 {
    for req in read_requests(args) {
        let id = req.get("id").cloned().unwrap_or(Value::Null);
        let text: String = if let Some(b) = req.get("bytes").and_then(|b| b.as_array()) {
            let bytes: Vec<u8> = b.iter().map(|x| x.as_u64().unwrap_or(0) as u8).collect();
            match String::from_utf8(bytes) {
                Ok(s) => s,
                Err(_) => {
                    emit(&json!({"id": id, "verdict": "not-utf8"}));
                    continue;
                }
            }
        } else {
            req["text"].as_str().unwrap_or("").to_string()
        };
        let mode = req["mode"].as_str().unwrap_or("ast").to_string();
        let r = guarded(Duration::from_secs(10), move || {
            if mode == "cst" { cst(&text) } else { ast_mode(&text) }
        });
        let mut out = match r {
            Guarded::Done(v) => v,
            Guarded::Panic { msg, at } => {
                json!({"verdict": "panic", "msg": msg, "at": strip_repo(&at)})
            }
            Guarded::Timeout => json!({"verdict": "timeout"}),
        };
        out["id"] = id;
        emit(&out);
    }
    0
}

#[cfg(feature = "asttrees")]
fn ast_mode(text: &str) -> Value {
    crate::ast_export::ast_mode(text)
}

#[cfg(not(feature = "asttrees"))]
fn ast_mode(_text: &str) -> Value {
    json!({"verdict": "unavailable", "msg": "the harness was built without the AST tree export"})
}

fn cst(text: &str) -> Value {
    let path = Path::new("/nonexistent/main.gom");
    let toks = lexer::lex(text);
    let tokens: Vec<Value> = toks
        .iter()
        .map(|t| {
            json!({"k": format!("{:?}", t.kind), "s": u32::from(t.range.start()), "e": u32::from(t.range.end()),
                   "triv": t.kind.is_trivia(), "textlen": t.text.len()})
        })
        .collect();
    let mut p = parser::parser::Parser::new(path, toks);
    parser::file::file(&mut p);
    let events: Vec<Value> = p
        .events
        .iter()
        .map(|e| match e {
            Event::Open {
                kind,
                forward_parent,
            } => json!({"ev": "open", "kind": format!("{:?}", kind), "fp": forward_parent}),
            Event::Close => json!({"ev": "close"}),
            Event::Advance => json!({"ev": "adv"}),
            Event::Error(_) => json!({"ev": "err"}),
        })
        .collect();
    let res = p.build_tree();
    let root = parser::syntax::MySyntaxNode::new_root(res.green_node.clone());
    let tree_text = root.text().to_string();
    let mut leaves = Vec::new();
    let mut nodes_ok = true;
    let len = text.len() as u32;
    for el in root.descendants_with_tokens() {
        let r = el.text_range();
        if u32::from(r.end()) > len || u32::from(r.start()) > u32::from(r.end()) {
            nodes_ok = false;
        }
        if let Some(t) = el.as_token() {
            leaves.push(json!({"k": format!("{:?}", t.kind()), "s": u32::from(r.start()), "e": u32::from(r.end())}));
        }
    }
    let diags: Vec<Value> = res.diagnostics.iter().map(diag_json).collect();
    // second parse of the same text
    let res2 = parser::parse(path, text);
    let same = format!("{:?}", res.green_node) == format!("{:?}", res2.green_node)
        && res.diagnostics.len() == res2.diagnostics.len();
    let boundaries: Vec<bool> = (0..=text.len()).map(|i| text.is_char_boundary(i)).collect();
    json!({"verdict": "ok", "len": len, "tokens": tokens, "events": events, "leaves": leaves,
           "tree_text_equal": tree_text == text, "tree_text_len": tree_text.len(), "nodes_in_text": nodes_ok,
           "diags": diags, "twice_equal": same, "char_boundary": boundaries})
}
