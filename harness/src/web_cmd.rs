//! gv web — the entry points of the web playground (crates/wasm-app): the same library behind its own glue.
//!
//! request: {"id", "text", "fns": ["execute","compile_to_core",..] | absent = all text functions, "positions": [[line, col], ..]}
//! answer : {"id", "out": {fn: {"ok": string} | {"panic": at, "msg"}}, "queries": [{"l","c","hover","dot","colon"}]}
use std::time::Duration;

use serde_json::{Value, json};

use crate::util::{Guarded, emit, guarded, read_requests, strip_repo, take_panic};

fn call(f: impl FnOnce() -> String) -> Value {
    match std::panic::catch_unwind(std::panic::AssertUnwindSafe(f)) {
        Ok(s) => json!({"ok": s}),
        Err(_) => {
            let (msg, at) = take_panic();
            json!({"panic": strip_repo(&at), "msg": msg})
        }
    }
}

pub fn run(args: &[String]) -> i32 {
    for req in read_requests(args) {
        let id = req.get("id").cloned().unwrap_or(Value::Null);
        let text = req["text"].as_str().unwrap_or("").to_string();
        let fns: Vec<String> = match req.get("fns").and_then(|v| v.as_array()) {
            Some(a) => a.iter().filter_map(|x| x.as_str().map(|s| s.to_string())).collect(),
            None => ["execute", "compile_to_core", "compile_to_mono", "compile_to_anf", "compile_to_go", "get_cst", "get_ast", "get_tast"]
                .iter()
                .map(|s| s.to_string())
                .collect(),
        };
        let positions: Vec<(u32, u32)> = req
            .get("positions")
            .and_then(|v| v.as_array())
            .map(|ps| ps.iter().map(|p| (p[0].as_u64().unwrap_or(0) as u32, p[1].as_u64().unwrap_or(0) as u32)).collect())
            .unwrap_or_default();
        let limit = Duration::from_secs(req.get("limit_s").and_then(|v| v.as_u64()).unwrap_or(60));
        let r = guarded(limit, move || {
            let mut out = serde_json::Map::new();
            for f in fns {
                let v = match f.as_str() {
                    "execute" => call(|| wasm_app::execute(&text)),
                    "compile_to_core" => call(|| wasm_app::compile_to_core(&text)),
                    "compile_to_mono" => call(|| wasm_app::compile_to_mono(&text)),
                    "compile_to_anf" => call(|| wasm_app::compile_to_anf(&text)),
                    "compile_to_go" => call(|| wasm_app::compile_to_go(&text)),
                    "get_cst" => call(|| wasm_app::get_cst(&text)),
                    "get_ast" => call(|| wasm_app::get_ast(&text)),
                    "get_tast" => call(|| wasm_app::get_tast(&text)),
                    _ => json!({"unknown": f}),
                };
                out.insert(f, v);
            }
            let mut qs = Vec::new();
            for (l, c) in positions {
                qs.push(json!({"l": l, "c": c,
                    "hover": call(|| wasm_app::hover(&text, l, c)),
                    "dot": call(|| wasm_app::dot_completions(&text, l, c)),
                    "colon": call(|| wasm_app::colon_colon_completions(&text, l, c))}));
            }
            json!({"out": out, "queries": qs})
        });
        let mut out = match r {
            Guarded::Done(v) => v,
            Guarded::Panic { msg, at } => json!({"fatal": "panic", "msg": msg, "at": strip_repo(&at)}),
            Guarded::Timeout => json!({"fatal": "timeout"}),
        };
        out["id"] = id;
        emit(&out);
    }
    0
}
