//! gv parse, mode "ast": the abstract syntax tree of a text as JSON trees (expressions, patterns, types, items)
use std::path::Path;

use ast::ast as A;
use serde_json::{Value, json};

use crate::util::diag_json;

pub fn ast_mode(text: &str) -> Value {
    let path = Path::new("/nonexistent/main.gom");
    match compiler::pipeline::pipeline::parse_ast_file(path, text) {
        Ok(file) => {
            let mut fns = serde_json::Map::new();
            let mut sigs = serde_json::Map::new();
            for item in file.toplevels.iter() {
                if let A::Item::Fn(f) = item {
                    fns.insert(f.name.0.clone(), expr(&f.body));
                    sigs.insert(f.name.0.clone(), json!({"params": f.params.iter().map(|(_, t)| type_expr(t)).collect::<Vec<_>>(),
                                                          "ret": f.ret_ty.as_ref().map(type_expr)}));
                }
            }
            let items: Vec<Value> = file.toplevels.iter().map(item_json).collect();
            json!({"verdict": "ok", "fns": fns, "sigs": sigs, "package": file.package.0,
                   "imports": file.imports.iter().map(|i| i.0.clone()).collect::<Vec<_>>(), "items": items})
        }
        Err(e) => {
            let d: Vec<Value> = e.diagnostics().iter().map(diag_json).collect();
            let verdict = match e {
                compiler::pipeline::pipeline::CompilationError::Parser { .. } => "parser",
                _ => "lower",
            };
            json!({"verdict": verdict, "diags": d})
        }
    }
}

fn attrs_json(a: &[A::Attribute]) -> Value {
    Value::from(a.iter().map(|x| x.text.clone()).collect::<Vec<_>>())
}

fn params_json(ps: &[(A::AstIdent, A::TypeExpr)]) -> Value {
    Value::from(ps.iter().map(|(n, t)| json!({"n": n.0, "t": type_expr(t)})).collect::<Vec<_>>())
}

fn fn_json(f: &A::Fn) -> Value {
    json!({"k": "fn", "attrs": attrs_json(&f.attrs), "name": f.name.0,
        "generics": f.generics.iter().map(|g| g.0.clone()).collect::<Vec<_>>(),
        "bounds": f.generic_bounds.iter().map(|(g, bs)| json!({"g": g.0, "bs": bs.iter().map(path_str).collect::<Vec<_>>()})).collect::<Vec<_>>(),
        "params": params_json(&f.params), "ret": f.ret_ty.as_ref().map(type_expr), "body": expr(&f.body)})
}

/// top-level items as trees (everything the AST keeps of a declaration)
fn item_json(item: &A::Item) -> Value {
    match item {
        A::Item::Fn(f) => fn_json(f),
        A::Item::StructDef(d) => json!({"k": "struct", "attrs": attrs_json(&d.attrs), "name": d.name.0,
            "generics": d.generics.iter().map(|g| g.0.clone()).collect::<Vec<_>>(),
            "fields": d.fields.iter().map(|(n, t)| json!({"n": n.0, "t": type_expr(t)})).collect::<Vec<_>>()}),
        A::Item::EnumDef(d) => json!({"k": "enum", "attrs": attrs_json(&d.attrs), "name": d.name.0,
            "generics": d.generics.iter().map(|g| g.0.clone()).collect::<Vec<_>>(),
            "variants": d.variants.iter().map(|(n, ts)| json!({"n": n.0, "ts": ts.iter().map(type_expr).collect::<Vec<_>>()})).collect::<Vec<_>>()}),
        A::Item::TraitDef(d) => json!({"k": "trait", "attrs": attrs_json(&d.attrs), "name": d.name.0,
            "methods": d.method_sigs.iter().map(|m| json!({"n": m.name.0, "ps": m.params.iter().map(type_expr).collect::<Vec<_>>(), "r": type_expr(&m.ret_ty)})).collect::<Vec<_>>()}),
        A::Item::ImplBlock(b) => json!({"k": "impl", "attrs": attrs_json(&b.attrs),
            "generics": b.generics.iter().map(|g| g.0.clone()).collect::<Vec<_>>(),
            "trait": b.trait_name.as_ref().map(path_str), "for": type_expr(&b.for_type),
            "methods": b.methods.iter().map(fn_json).collect::<Vec<_>>()}),
        A::Item::ExternGo(e) => json!({"k": "extern-go", "attrs": attrs_json(&e.attrs), "pkg": e.package_path, "sym": e.go_symbol,
            "name": e.goml_name.0, "explicit": e.explicit_go_symbol, "params": params_json(&e.params), "ret": e.ret_ty.as_ref().map(type_expr)}),
        A::Item::ExternType(e) => json!({"k": "extern-type", "attrs": attrs_json(&e.attrs), "name": e.goml_name.0}),
        A::Item::ExternBuiltin(e) => json!({"k": "extern-builtin", "attrs": attrs_json(&e.attrs), "name": e.name.0,
            "params": params_json(&e.params), "ret": e.ret_ty.as_ref().map(type_expr)}),
    }
}

/// type expressions as trees: {k: "con", n} | {k: "tuple", ts} | {k: "app", n, as} | {k: "array", len, e} | {k: "fn", ps, r} | {k: "dyn", n}
pub fn type_expr(t: &A::TypeExpr) -> Value {
    use A::TypeExpr::*;
    let con = |n: &str| json!({"k": "con", "n": n});
    match t {
        TUnit => con("unit"),
        TBool => con("bool"),
        TInt8 => con("int8"),
        TInt16 => con("int16"),
        TInt32 => con("int32"),
        TInt64 => con("int64"),
        TUint8 => con("uint8"),
        TUint16 => con("uint16"),
        TUint32 => con("uint32"),
        TUint64 => con("uint64"),
        TFloat32 => con("float32"),
        TFloat64 => con("float64"),
        TString => con("string"),
        TTuple { typs } => json!({"k": "tuple", "ts": typs.iter().map(type_expr).collect::<Vec<_>>()}),
        TCon { path } => con(&path_str(path)),
        TDyn { trait_path } => json!({"k": "dyn", "n": path_str(trait_path)}),
        TApp { ty, args } => json!({"k": "app", "f": type_expr(ty), "as": args.iter().map(type_expr).collect::<Vec<_>>()}),
        TArray { len, elem } => json!({"k": "array", "len": len, "e": type_expr(elem)}),
        TFunc { params, ret_ty } => json!({"k": "fn", "ps": params.iter().map(type_expr).collect::<Vec<_>>(), "r": type_expr(ret_ty)}),
    }
}

fn path_str(p: &A::Path) -> String {
    p.segments
        .iter()
        .map(|s| s.ident.0.clone())
        .collect::<Vec<_>>()
        .join("::")
}

fn lit(kind: &str, ty: &str, v: &str) -> Value {
    json!({"k": kind, "ty": ty, "v": v})
}

pub fn expr(e: &A::Expr) -> Value {
    use A::Expr::*;
    match e {
        EPath { path, .. } => json!({"k": "path", "p": path_str(path)}),
        EUnit { .. } => json!({"k": "unit"}),
        EBool { value, .. } => json!({"k": "bool", "v": value}),
        EInt { value, .. } => lit("int", "", value),
        EInt8 { value, .. } => lit("int", "int8", value),
        EInt16 { value, .. } => lit("int", "int16", value),
        EInt32 { value, .. } => lit("int", "int32", value),
        EInt64 { value, .. } => lit("int", "int64", value),
        EUInt8 { value, .. } => lit("int", "uint8", value),
        EUInt16 { value, .. } => lit("int", "uint16", value),
        EUInt32 { value, .. } => lit("int", "uint32", value),
        EUInt64 { value, .. } => lit("int", "uint64", value),
        EFloat { value, .. } => json!({"k": "float", "ty": "", "v": format!("{:?}", value)}),
        EFloat32 { value, .. } => lit("float", "float32", value),
        EFloat64 { value, .. } => lit("float", "float64", value),
        EString { value, .. } => json!({"k": "str", "bytes": value.as_bytes()}),
        EConstr {
            constructor, args, ..
        } => json!({"k": "constr", "p": path_str(constructor), "as": args.iter().map(expr).collect::<Vec<_>>()}),
        EStructLiteral { name, fields, .. } => json!({"k": "struct", "p": path_str(name),
            "fs": fields.iter().map(|(f, e)| json!({"f": f.0, "e": expr(e)})).collect::<Vec<_>>()}),
        ETuple { items, .. } => json!({"k": "tuple", "es": items.iter().map(expr).collect::<Vec<_>>()}),
        EArray { items, .. } => json!({"k": "array", "es": items.iter().map(expr).collect::<Vec<_>>()}),
        ELet { pat, value, annotation, .. } => {
            json!({"k": "let", "p": pat_json(pat), "pt": pat_tree(pat), "ann": annotation.is_some(),
                "annt": annotation.as_ref().map(type_expr), "e": expr(value)})
        }
        EClosure { params, body, .. } => json!({"k": "lam",
            "ps": params.iter().map(|p| p.name.0.clone()).collect::<Vec<_>>(),
            "pts": params.iter().map(|p| p.ty.as_ref().map(type_expr)).collect::<Vec<_>>(), "b": expr(body)}),
        EMatch { expr: e, arms, .. } => json!({"k": "match", "e": expr(e),
            "arms": arms.iter().map(|a| json!({"p": pat_json(&a.pat), "pt": pat_tree(&a.pat), "b": expr(&a.body)})).collect::<Vec<_>>()}),
        EIf {
            cond,
            then_branch,
            else_branch,
            ..
        } => json!({"k": "if", "c": expr(cond), "t": expr(then_branch), "e": expr(else_branch)}),
        EWhile { cond, body, .. } => json!({"k": "while", "c": expr(cond), "b": expr(body)}),
        EGo { expr: e, .. } => json!({"k": "go", "e": expr(e)}),
        ECall { func, args, .. } => {
            json!({"k": "call", "f": expr(func), "as": args.iter().map(expr).collect::<Vec<_>>()})
        }
        EUnary { op, expr: e, .. } => json!({"k": "un", "op": op.symbol(), "e": expr(e)}),
        EBinary { op, lhs, rhs, .. } => {
            json!({"k": "bin", "op": op.symbol(), "l": expr(lhs), "r": expr(rhs)})
        }
        EProj { tuple, index, .. } => json!({"k": "proj", "e": expr(tuple), "i": index}),
        EField { expr: e, field, .. } => json!({"k": "field", "e": expr(e), "f": field.0}),
        EBlock { exprs, .. } => json!({"k": "block", "es": exprs.iter().map(expr).collect::<Vec<_>>()}),
    }
}

/// patterns as trees
pub fn pat_tree(p: &A::Pat) -> Value {
    use A::Pat::*;
    match p {
        PVar { name, .. } => json!({"k": "pvar", "n": name.0}),
        PUnit { .. } => json!({"k": "punit"}),
        PBool { value, .. } => json!({"k": "pbool", "v": value}),
        PInt { value, .. } => json!({"k": "pint", "ty": "", "v": value}),
        PInt8 { value, .. } => json!({"k": "pint", "ty": "int8", "v": value}),
        PInt16 { value, .. } => json!({"k": "pint", "ty": "int16", "v": value}),
        PInt32 { value, .. } => json!({"k": "pint", "ty": "int32", "v": value}),
        PInt64 { value, .. } => json!({"k": "pint", "ty": "int64", "v": value}),
        PUInt8 { value, .. } => json!({"k": "pint", "ty": "uint8", "v": value}),
        PUInt16 { value, .. } => json!({"k": "pint", "ty": "uint16", "v": value}),
        PUInt32 { value, .. } => json!({"k": "pint", "ty": "uint32", "v": value}),
        PUInt64 { value, .. } => json!({"k": "pint", "ty": "uint64", "v": value}),
        PString { value, .. } => json!({"k": "pstr", "bytes": value.as_bytes()}),
        PConstr { constructor, args, .. } => json!({"k": "pcon", "p": path_str(constructor), "as": args.iter().map(pat_tree).collect::<Vec<_>>()}),
        PStruct { name, fields, .. } => json!({"k": "pstruct", "p": path_str(name),
            "fs": fields.iter().map(|(f, q)| json!({"f": f.0, "p": pat_tree(q)})).collect::<Vec<_>>()}),
        PTuple { pats, .. } => json!({"k": "ptuple", "ps": pats.iter().map(pat_tree).collect::<Vec<_>>()}),
        PWild { .. } => json!({"k": "pwild"}),
    }
}

fn pat_json(p: &A::Pat) -> Value {
    // patterns are exported through their Debug rendering with syntax pointers removed (enough for equality checks)
    let s = format!("{:?}", p);
    let mut out = String::new();
    let mut rest = s.as_str();
    while let Some(i) = rest.find("astptr:") {
        out.push_str(&rest[..i]);
        // skip to the matching close of the pointer value: "astptr: SyntaxNodePtr { kind: .., range: a..b }"
        let tail = &rest[i..];
        let end = tail.find('}').map(|j| j + 1).unwrap_or(tail.len());
        rest = &tail[end..];
    }
    out.push_str(rest);
    Value::from(out)
}

