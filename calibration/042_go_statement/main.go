package main

import (
    "fmt"
)

func string_println(s string) struct{} {
    fmt.Println(s)
    return struct{}{}
}

type ref_int32_x struct {
    value int32
}

func ref__Ref_int32(value int32) *ref_int32_x {
    return &ref_int32_x{
        value: value,
    }
}

func ref_get__Ref_int32(reference *ref_int32_x) int32 {
    return reference.value
}

func ref_set__Ref_int32(reference *ref_int32_x, value int32) struct{} {
    reference.value = value
    return struct{}{}
}

type closure_env_main_0 struct {
    signal_0 *ref_int32_x
}

func child(signal__0 *ref_int32_x) struct{} {
    var ret6 struct{}
    ret6 = ref_set__Ref_int32(signal__0, 1)
    return ret6
}

func main0() struct{} {
    var ret7 struct{}
    var signal__1 *ref_int32_x = ref__Ref_int32(0)
    var t4 closure_env_main_0 = closure_env_main_0{
        signal_0: signal__1,
    }
    go _goml_inherent_closure_env_main_0_closure_env_main_0_apply(t4)
    var cond8 bool
    for {
        var t5 int32 = ref_get__Ref_int32(signal__1)
        cond8 = t5 < 1
        if !cond8 {
            break
        }
    }
    string_println("main")
    ret7 = struct{}{}
    return ret7
}

func _goml_inherent_closure_env_main_0_closure_env_main_0_apply(env3 closure_env_main_0) struct{} {
    var ret9 struct{}
    var signal__1 *ref_int32_x = env3.signal_0
    ret9 = child(signal__1)
    return ret9
}

func main() {
    main0()
}
