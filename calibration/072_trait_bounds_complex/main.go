package main

import (
    "fmt"
)

func int32_to_string(x int32) string {
    return fmt.Sprintf("%d", x)
}

func string_println(s string) struct{} {
    fmt.Println(s)
    return struct{}{}
}

type Boxed struct {
    value int32
}

func _goml_trait_impl_Display_int32_show(self__0 int32) string {
    var ret81 string
    ret81 = int32_to_string(self__0)
    return ret81
}

func _goml_trait_impl_Debug_int32_show(self__1 int32) string {
    var ret82 string
    var t5 string = int32_to_string(self__1)
    var t4 string = "i32(" + t5
    ret82 = t4 + ")"
    return ret82
}

func _goml_trait_impl_Eq_int32_eq(self__2 int32, other__3 int32) bool {
    var ret83 bool
    ret83 = self__2 == other__3
    return ret83
}

func _goml_trait_impl_Hash_int32_hash(self__4 int32) int32 {
    var ret84 int32
    var t6 int32 = self__4 * 16777619
    ret84 = t6 + 216613626
    return ret84
}

func _goml_trait_impl_Add_int32_add(self__5 int32, other__6 int32) int32 {
    var ret85 int32
    ret85 = self__5 + other__6
    return ret85
}

func _goml_trait_impl_Scale_int32_scale(self__7 int32, factor__8 int32) int32 {
    var ret86 int32
    ret86 = self__7 * factor__8
    return ret86
}

func _goml_trait_impl_Inspect_int32_inspect(self__9 int32) string {
    var ret87 string
    var t8 string = int32_to_string(self__9)
    var t7 string = "<" + t8
    ret87 = t7 + ">"
    return ret87
}

func _goml_trait_impl_Display_Boxed_show(self__10 Boxed) string {
    var ret88 string
    var t11 int32 = self__10.value
    var t10 string = int32_to_string(t11)
    var t9 string = "Boxed(" + t10
    ret88 = t9 + ")"
    return ret88
}

func _goml_trait_impl_Debug_Boxed_show(self__11 Boxed) string {
    var ret89 string
    var t14 int32 = self__11.value
    var t13 string = int32_to_string(t14)
    var t12 string = "Boxed{value=" + t13
    ret89 = t12 + "}"
    return ret89
}

func _goml_trait_impl_Eq_Boxed_eq(self__12 Boxed, other__13 Boxed) bool {
    var ret90 bool
    var t15 int32 = self__12.value
    var t16 int32 = other__13.value
    ret90 = t15 == t16
    return ret90
}

func _goml_trait_impl_Hash_Boxed_hash(self__14 Boxed) int32 {
    var ret91 int32
    var t19 int32 = self__14.value
    var t18 int32 = t19 * 31
    var t17 int32 = t18 + 7
    ret91 = t17 * 1315423911
    return ret91
}

func _goml_trait_impl_Add_Boxed_add(self__15 Boxed, other__16 Boxed) Boxed {
    var ret92 Boxed
    var t21 int32 = self__15.value
    var t22 int32 = other__16.value
    var t20 int32 = t21 + t22
    ret92 = Boxed{
        value: t20,
    }
    return ret92
}

func _goml_trait_impl_Scale_Boxed_scale(self__17 Boxed, factor__18 int32) Boxed {
    var ret93 Boxed
    var t24 int32 = self__17.value
    var t23 int32 = t24 * factor__18
    ret93 = Boxed{
        value: t23,
    }
    return ret93
}

func _goml_trait_impl_Inspect_Boxed_inspect(self__19 Boxed) string {
    var ret94 string
    var t27 int32 = self__19.value
    var t26 string = int32_to_string(t27)
    var t25 string = "[" + t26
    ret94 = t25 + "]"
    return ret94
}

func bool_text(x__20 bool) string {
    var ret95 string
    if x__20 {
        ret95 = "true"
    } else {
        ret95 = "false"
    }
    return ret95
}

func main0() struct{} {
    var ret96 struct{}
    var t28 string = full_report__Q_int32__T_int32(7, 10, 32)
    string_println(t28)
    var t30 Boxed = Boxed{
        value: 99,
    }
    var t31 Boxed = Boxed{
        value: 3,
    }
    var t32 Boxed = Boxed{
        value: 4,
    }
    var t29 string = full_report__Q_Boxed__T_Boxed(t30, t31, t32)
    string_println(t29)
    var t33 string = sum_and_tag__Q_int32__T_int32(0, 1, 2, 3)
    string_println(t33)
    var t35 Boxed = Boxed{
        value: 1,
    }
    var t36 Boxed = Boxed{
        value: 5,
    }
    var t37 Boxed = Boxed{
        value: 6,
    }
    var t38 Boxed = Boxed{
        value: 7,
    }
    var t34 string = sum_and_tag__Q_Boxed__T_Boxed(t35, t36, t37, t38)
    string_println(t34)
    ret96 = struct{}{}
    return ret96
}

func full_report__Q_int32__T_int32(tag__34 int32, a__35 int32, b__36 int32) string {
    var ret97 string
    var combined__37 int32 = combine_scaled__T_int32(a__35, b__36, 2)
    ret97 = report_pair__Q_int32__T_int32(tag__34, a__35, b__36, combined__37)
    return ret97
}

func full_report__Q_Boxed__T_Boxed(tag__34 Boxed, a__35 Boxed, b__36 Boxed) string {
    var ret98 string
    var combined__37 Boxed = combine_scaled__T_Boxed(a__35, b__36, 2)
    ret98 = report_pair__Q_Boxed__T_Boxed(tag__34, a__35, b__36, combined__37)
    return ret98
}

func sum_and_tag__Q_int32__T_int32(tag__38 int32, x__39 int32, y__40 int32, z__41 int32) string {
    var ret99 string
    var t39 int32 = _goml_trait_impl_Add_int32_add(x__39, y__40)
    var total__42 int32 = _goml_trait_impl_Add_int32_add(t39, z__41)
    var header__43 string = tag_text__Q_int32(tag__38)
    var h__44 int32 = _goml_trait_impl_Hash_int32_hash(total__42)
    var t41 string = header__43 + " "
    var t42 string = _goml_trait_impl_Inspect_int32_inspect(total__42)
    var t40 string = t41 + t42
    var t44 string = int32_to_string(h__44)
    var t43 string = " @" + t44
    ret99 = t40 + t43
    return ret99
}

func sum_and_tag__Q_Boxed__T_Boxed(tag__38 Boxed, x__39 Boxed, y__40 Boxed, z__41 Boxed) string {
    var ret100 string
    var t45 Boxed = _goml_trait_impl_Add_Boxed_add(x__39, y__40)
    var total__42 Boxed = _goml_trait_impl_Add_Boxed_add(t45, z__41)
    var header__43 string = tag_text__Q_Boxed(tag__38)
    var h__44 int32 = _goml_trait_impl_Hash_Boxed_hash(total__42)
    var t47 string = header__43 + " "
    var t48 string = _goml_trait_impl_Inspect_Boxed_inspect(total__42)
    var t46 string = t47 + t48
    var t50 string = int32_to_string(h__44)
    var t49 string = " @" + t50
    ret100 = t46 + t49
    return ret100
}

func combine_scaled__T_int32(a__23 int32, b__24 int32, factor__25 int32) int32 {
    var ret101 int32
    var t51 int32 = _goml_trait_impl_Add_int32_add(a__23, b__24)
    ret101 = _goml_trait_impl_Scale_int32_scale(t51, factor__25)
    return ret101
}

func report_pair__Q_int32__T_int32(tag__26 int32, a__27 int32, b__28 int32, combined__29 int32) string {
    var ret102 string
    var same__30 bool = _goml_trait_impl_Eq_int32_eq(a__27, b__28)
    var header__31 string = tag_text__Q_int32(tag__26)
    var repr__32 string = show_both__T_int32(combined__29)
    var h__33 int32 = _goml_trait_impl_Hash_int32_hash(combined__29)
    var t53 string = header__31 + " "
    var t52 string = t53 + repr__32
    var t56 string = bool_text(same__30)
    var t55 string = " | eq=" + t56
    var t58 string = int32_to_string(h__33)
    var t57 string = " | hash=" + t58
    var t54 string = t55 + t57
    ret102 = t52 + t54
    return ret102
}

func combine_scaled__T_Boxed(a__23 Boxed, b__24 Boxed, factor__25 int32) Boxed {
    var ret103 Boxed
    var t59 Boxed = _goml_trait_impl_Add_Boxed_add(a__23, b__24)
    ret103 = _goml_trait_impl_Scale_Boxed_scale(t59, factor__25)
    return ret103
}

func report_pair__Q_Boxed__T_Boxed(tag__26 Boxed, a__27 Boxed, b__28 Boxed, combined__29 Boxed) string {
    var ret104 string
    var same__30 bool = _goml_trait_impl_Eq_Boxed_eq(a__27, b__28)
    var header__31 string = tag_text__Q_Boxed(tag__26)
    var repr__32 string = show_both__T_Boxed(combined__29)
    var h__33 int32 = _goml_trait_impl_Hash_Boxed_hash(combined__29)
    var t61 string = header__31 + " "
    var t60 string = t61 + repr__32
    var t64 string = bool_text(same__30)
    var t63 string = " | eq=" + t64
    var t66 string = int32_to_string(h__33)
    var t65 string = " | hash=" + t66
    var t62 string = t63 + t65
    ret104 = t60 + t62
    return ret104
}

func tag_text__Q_int32(tag__22 int32) string {
    var ret105 string
    var t68 string = _goml_trait_impl_Debug_int32_show(tag__22)
    var t67 string = t68 + "#"
    var t70 int32 = _goml_trait_impl_Hash_int32_hash(tag__22)
    var t69 string = int32_to_string(t70)
    ret105 = t67 + t69
    return ret105
}

func tag_text__Q_Boxed(tag__22 Boxed) string {
    var ret106 string
    var t72 string = _goml_trait_impl_Debug_Boxed_show(tag__22)
    var t71 string = t72 + "#"
    var t74 int32 = _goml_trait_impl_Hash_Boxed_hash(tag__22)
    var t73 string = int32_to_string(t74)
    ret106 = t71 + t73
    return ret106
}

func show_both__T_int32(x__21 int32) string {
    var ret107 string
    var t76 string = _goml_trait_impl_Debug_int32_show(x__21)
    var t75 string = t76 + " / "
    var t77 string = _goml_trait_impl_Display_int32_show(x__21)
    ret107 = t75 + t77
    return ret107
}

func show_both__T_Boxed(x__21 Boxed) string {
    var ret108 string
    var t79 string = _goml_trait_impl_Debug_Boxed_show(x__21)
    var t78 string = t79 + " / "
    var t80 string = _goml_trait_impl_Display_Boxed_show(x__21)
    ret108 = t78 + t80
    return ret108
}

func main() {
    main0()
}
