package main

import (
    "fmt"
)

func int16_to_string(x int16) string {
    return fmt.Sprintf("%d", x)
}

func int32_to_string(x int32) string {
    return fmt.Sprintf("%d", x)
}

func int64_to_string(x int64) string {
    return fmt.Sprintf("%d", x)
}

func string_println(s string) struct{} {
    fmt.Println(s)
    return struct{}{}
}

func main0() struct{} {
    var ret13 struct{}
    var start16__0 int16 = 300
    var delta16__1 int16 = 45
    var sum16__2 int16 = start16__0 + delta16__1
    var flipped16__3 int16 = -start16__0
    var base32__4 int32 = 100000
    var more32__5 int32 = 200000
    var sum32__6 int32 = base32__4 + more32__5
    var diff32__7 int32 = sum32__6 - base32__4
    var big64__8 int64 = 5000000000
    var step64__9 int64 = 2000000000
    var remain64__10 int64 = big64__8 - step64__9
    var neg64__11 int64 = -step64__9
    var t8 string = int16_to_string(sum16__2)
    var t7 string = t8 + ", "
    var t9 string = int16_to_string(flipped16__3)
    var t6 string = t7 + t9
    var t5 string = t6 + "; "
    var t10 string = int32_to_string(diff32__7)
    var t4 string = t5 + t10
    var t3 string = t4 + "; "
    var t11 string = int64_to_string(remain64__10)
    var t2 string = t3 + t11
    var t1 string = t2 + "; "
    var t12 string = int64_to_string(neg64__11)
    var message__12 string = t1 + t12
    string_println(message__12)
    ret13 = struct{}{}
    return ret13
}

func main() {
    main0()
}
