package main

import (
    "fmt"
)

func bool_to_string(x bool) string {
    if x {
        return "true"
    } else {
        return "false"
    }
}

func int32_to_string(x int32) string {
    return fmt.Sprintf("%d", x)
}

func string_println(s string) struct{} {
    fmt.Println(s)
    return struct{}{}
}

type Tuple2_int32_int32 struct {
    _0 int32
    _1 int32
}

func _goml_trait_impl_ToString_int32_to_string(self__0 int32) string {
    var ret6 string
    ret6 = int32_to_string(self__0)
    return ret6
}

func _goml_trait_impl_ToString_bool_to_string(self__1 bool) string {
    var ret7 string
    ret7 = bool_to_string(self__1)
    return ret7
}

func _goml_trait_impl_ToString__x28_int32_x2c_int32_x29__to_string(self__2 Tuple2_int32_int32) string {
    var ret8 string
    ret8 = "(?, ?)"
    return ret8
}

func main0() struct{} {
    var ret9 struct{}
    var x__3 int32 = 123
    var t3 string = _goml_trait_impl_ToString_int32_to_string(x__3)
    string_println(t3)
    var x__4 bool = true
    var t4 string = _goml_trait_impl_ToString_bool_to_string(x__4)
    string_println(t4)
    var x__5 Tuple2_int32_int32 = Tuple2_int32_int32{
        _0: 3,
        _1: 4,
    }
    var t5 string = _goml_trait_impl_ToString__x28_int32_x2c_int32_x29__to_string(x__5)
    string_println(t5)
    ret9 = struct{}{}
    return ret9
}

func main() {
    main0()
}
