package main

import (
    "fmt"
)

func int32_to_string(x int32) string {
    return fmt.Sprintf("%d", x)
}

func string_println(s string) struct{} {
    fmt.Println(s)
    return struct{}{}
}

type Tuple2_int32_string struct {
    _0 int32
    _1 string
}

type Mixed interface {
    isMixed()
}

type OnlyInt struct {
    _0 int32
}

func (_ OnlyInt) isMixed() {}

type OnlyStr struct {
    _0 string
}

func (_ OnlyStr) isMixed() {}

type Both struct {
    _0 int32
    _1 string
}

func (_ Both) isMixed() {}

func match_mixed_pair(pair__0 Tuple2_int32_string) int32 {
    var ret57 int32
    var x0 int32 = pair__0._0
    var x1 string = pair__0._1
    switch x1 {
    case "zero":
        switch x0 {
        case 0:
            ret57 = 1
        default:
            ret57 = 4
        }
    case "one":
        switch x0 {
        case 0:
            ret57 = 2
        case 1:
            ret57 = 3
        default:
            ret57 = 5
        }
    default:
        switch x0 {
        case 0:
            ret57 = 2
        default:
            ret57 = 5
        }
    }
    return ret57
}

func match_mixed_enum(value__1 Mixed) int32 {
    var ret58 int32
    switch value__1 := value__1.(type) {
    case OnlyInt:
        var x2 int32 = value__1._0
        switch x2 {
        case 0:
            ret58 = 6
        default:
            ret58 = 7
        }
    case OnlyStr:
        var x3 string = value__1._0
        switch x3 {
        case "zero":
            ret58 = 8
        default:
            ret58 = 9
        }
    case Both:
        var x4 int32 = value__1._0
        var x5 string = value__1._1
        switch x5 {
        case "zero":
            switch x4 {
            case 0:
                ret58 = 10
            default:
                ret58 = 12
            }
        default:
            switch x4 {
            case 0:
                ret58 = 11
            default:
                ret58 = 13
            }
        }
    }
    return ret58
}

func main0() struct{} {
    var ret59 struct{}
    var t20 Tuple2_int32_string = Tuple2_int32_string{
        _0: 0,
        _1: "zero",
    }
    var t19 int32 = match_mixed_pair(t20)
    var t18 string = int32_to_string(t19)
    string_println(t18)
    var t23 Tuple2_int32_string = Tuple2_int32_string{
        _0: 0,
        _1: "other",
    }
    var t22 int32 = match_mixed_pair(t23)
    var t21 string = int32_to_string(t22)
    string_println(t21)
    var t26 Tuple2_int32_string = Tuple2_int32_string{
        _0: 1,
        _1: "one",
    }
    var t25 int32 = match_mixed_pair(t26)
    var t24 string = int32_to_string(t25)
    string_println(t24)
    var t29 Tuple2_int32_string = Tuple2_int32_string{
        _0: 2,
        _1: "zero",
    }
    var t28 int32 = match_mixed_pair(t29)
    var t27 string = int32_to_string(t28)
    string_println(t27)
    var t32 Tuple2_int32_string = Tuple2_int32_string{
        _0: 2,
        _1: "two",
    }
    var t31 int32 = match_mixed_pair(t32)
    var t30 string = int32_to_string(t31)
    string_println(t30)
    var t35 Mixed = OnlyInt{
        _0: 0,
    }
    var t34 int32 = match_mixed_enum(t35)
    var t33 string = int32_to_string(t34)
    string_println(t33)
    var t38 Mixed = OnlyInt{
        _0: 5,
    }
    var t37 int32 = match_mixed_enum(t38)
    var t36 string = int32_to_string(t37)
    string_println(t36)
    var t41 Mixed = OnlyStr{
        _0: "zero",
    }
    var t40 int32 = match_mixed_enum(t41)
    var t39 string = int32_to_string(t40)
    string_println(t39)
    var t44 Mixed = OnlyStr{
        _0: "hello",
    }
    var t43 int32 = match_mixed_enum(t44)
    var t42 string = int32_to_string(t43)
    string_println(t42)
    var t47 Mixed = Both{
        _0: 0,
        _1: "zero",
    }
    var t46 int32 = match_mixed_enum(t47)
    var t45 string = int32_to_string(t46)
    string_println(t45)
    var t50 Mixed = Both{
        _0: 0,
        _1: "hello",
    }
    var t49 int32 = match_mixed_enum(t50)
    var t48 string = int32_to_string(t49)
    string_println(t48)
    var t53 Mixed = Both{
        _0: 2,
        _1: "zero",
    }
    var t52 int32 = match_mixed_enum(t53)
    var t51 string = int32_to_string(t52)
    string_println(t51)
    var t56 Mixed = Both{
        _0: 3,
        _1: "three",
    }
    var t55 int32 = match_mixed_enum(t56)
    var t54 string = int32_to_string(t55)
    ret59 = string_println(t54)
    return ret59
}

func main() {
    main0()
}
