package main

import (
    "fmt"
)

func int32_to_string(x int32) string {
    return fmt.Sprintf("%d", x)
}

func string_print(s string) struct{} {
    fmt.Print(s)
    return struct{}{}
}

type Tuple2_bool_bool struct {
    _0 bool
    _1 bool
}

func main0() struct{} {
    var ret6 struct{}
    var a__0 Tuple2_bool_bool = Tuple2_bool_bool{
        _0: true,
        _1: true,
    }
    var x0 bool = a__0._0
    var x1 bool = a__0._1
    switch x1 {
    case true:
        switch x0 {
        case true:
            var t2 string = int32_to_string(789)
            ret6 = string_print(t2)
        case false:
            var t3 string = int32_to_string(456)
            ret6 = string_print(t3)
        }
    case false:
        switch x0 {
        case true:
            var t4 string = int32_to_string(123)
            ret6 = string_print(t4)
        case false:
            var t5 string = int32_to_string(789)
            ret6 = string_print(t5)
        }
    }
    return ret6
}

func main() {
    main0()
}
