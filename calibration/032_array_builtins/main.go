package main

import (
    "fmt"
)

func int32_to_string(x int32) string {
    return fmt.Sprintf("%d", x)
}

func string_println(s string) struct{} {
    fmt.Println(s)
    return struct{}{}
}

func array_get__Array_3_int32(arr [3]int32, index int32) int32 {
    return arr[index]
}

func array_set__Array_3_int32(arr [3]int32, index int32, value int32) [3]int32 {
    arr[index] = value
    return arr
}

func update_array(arr__0 [3]int32) [3]int32 {
    var ret2 [3]int32
    ret2 = array_set__Array_3_int32(arr__0, 1, 42)
    return ret2
}

func read_array(arr__1 [3]int32) int32 {
    var ret3 int32
    ret3 = array_get__Array_3_int32(arr__1, 1)
    return ret3
}

func main0() struct{} {
    var ret4 struct{}
    var arr__2 [3]int32 = [3]int32{1, 2, 3}
    var updated__3 [3]int32 = update_array(arr__2)
    var value__4 int32 = read_array(updated__3)
    var t1 string = int32_to_string(value__4)
    string_println(t1)
    ret4 = struct{}{}
    return ret4
}

func main() {
    main0()
}
