package main

type Point struct {
    x int32
    y int32
}

func make_point(base__0 int32) Point {
    var ret9 Point
    var t0 int32 = base__0 + 1
    ret9 = Point{
        x: base__0,
        y: t0,
    }
    return ret9
}

func sum_point(p__1 Point) int32 {
    var ret10 int32
    var t1 int32 = p__1.x
    var t2 int32 = p__1.y
    ret10 = t1 + t2
    return ret10
}

func main0() int32 {
    var ret11 int32
    var p__2 Point = make_point(5)
    var t4 int32 = p__2.x
    var t3 int32 = t4 + 1
    var t6 int32 = p__2.y
    var t5 int32 = t6 - 2
    var shifted__3 Point = Point{
        x: t3,
        y: t5,
    }
    var t7 int32 = shifted__3.x
    var t8 int32 = sum_point(shifted__3)
    ret11 = t7 + t8
    return ret11
}

func main() {
    main0()
}
