package main

import (
    "fmt"
)

func string_println(s string) struct{} {
    fmt.Println(s)
    return struct{}{}
}

type S struct {}

func _goml_trait_impl_A_S_foo(self__0 S) string {
    var ret4 string
    ret4 = "A"
    return ret4
}

func _goml_trait_impl_C_S_bar(self__2 S) string {
    var ret6 string
    ret6 = "C"
    return ret6
}

func main0() struct{} {
    var ret7 struct{}
    var s__5 S = S{}
    var t2 string = pick_a__T_S(s__5)
    string_println(t2)
    var t3 string = bar_it__T_S(s__5)
    string_println(t3)
    ret7 = struct{}{}
    return ret7
}

func pick_a__T_S(x__3 S) string {
    var ret8 string
    ret8 = _goml_trait_impl_A_S_foo(x__3)
    return ret8
}

func bar_it__T_S(x__4 S) string {
    var ret9 string
    ret9 = _goml_trait_impl_C_S_bar(x__4)
    return ret9
}

func main() {
    main0()
}
