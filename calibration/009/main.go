package main

import (
    "fmt"
)

func int32_to_string(x int32) string {
    return fmt.Sprintf("%d", x)
}

func string_print(s string) struct{} {
    fmt.Print(s)
    return struct{}{}
}

type T interface {
    isT()
}

type A struct {}

func (_ A) isT() {}

type B struct {
    _0 bool
    _1 bool
}

func (_ B) isT() {}

func test(t__0 T) struct{} {
    var ret15 struct{}
    switch t__0 := t__0.(type) {
    case A:
        var t6 string = int32_to_string(1)
        ret15 = string_print(t6)
    case B:
        var x0 bool = t__0._0
        var x1 bool = t__0._1
        switch x1 {
        case true:
            switch x0 {
            case true:
                var t7 string = int32_to_string(4)
                ret15 = string_print(t7)
            case false:
                var t8 string = int32_to_string(3)
                ret15 = string_print(t8)
            }
        case false:
            switch x0 {
            case true:
                var t9 string = int32_to_string(4)
                ret15 = string_print(t9)
            case false:
                var t10 string = int32_to_string(2)
                ret15 = string_print(t10)
            }
        }
    }
    return ret15
}

func main0() struct{} {
    var ret16 struct{}
    var t11 T = B{
        _0: true,
        _1: true,
    }
    test(t11)
    var t12 T = B{
        _0: false,
        _1: true,
    }
    test(t12)
    var t13 T = B{
        _0: false,
        _1: false,
    }
    test(t13)
    var t14 T = A{}
    test(t14)
    ret16 = struct{}{}
    return ret16
}

func main() {
    main0()
}
