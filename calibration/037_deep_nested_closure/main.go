package main

import (
    "fmt"
)

func int32_to_string(x int32) string {
    return fmt.Sprintf("%d", x)
}

func string_println(s string) struct{} {
    fmt.Println(s)
    return struct{}{}
}

type closure_env_f4_0 struct {
    a_0 int32
    b_1 int32
    c_2 int32
    d_3 int32
    x_4 int32
    y_5 int32
    z_6 int32
}

type closure_env_f3_1 struct {
    a_0 int32
    b_1 int32
    c_2 int32
    x_3 int32
    y_4 int32
}

type closure_env_f2_2 struct {
    a_0 int32
    b_1 int32
    x_2 int32
}

type closure_env_f1_3 struct {
    a_0 int32
}

func main0() struct{} {
    var ret11 struct{}
    var a__0 int32 = 10
    var f1__11 closure_env_f1_3 = closure_env_f1_3{
        a_0: a__0,
    }
    var result__12 int32 = _goml_inherent_closure_env_f1_3_closure_env_f1_3_apply(f1__11, 1)
    var t4 string = int32_to_string(result__12)
    ret11 = string_println(t4)
    return ret11
}

func _goml_inherent_closure_env_f4_0_closure_env_f4_0_apply(env0 closure_env_f4_0, w__7 int32) int32 {
    var ret12 int32
    var a__0 int32 = env0.a_0
    var b__2 int32 = env0.b_1
    var c__4 int32 = env0.c_2
    var d__6 int32 = env0.d_3
    var x__1 int32 = env0.x_4
    var y__3 int32 = env0.y_5
    var z__5 int32 = env0.z_6
    var t10 int32 = a__0 + b__2
    var t9 int32 = t10 + c__4
    var t8 int32 = t9 + d__6
    var t7 int32 = t8 + x__1
    var t6 int32 = t7 + y__3
    var t5 int32 = t6 + z__5
    ret12 = t5 + w__7
    return ret12
}

func _goml_inherent_closure_env_f3_1_closure_env_f3_1_apply(env1 closure_env_f3_1, z__5 int32) int32 {
    var ret13 int32
    var a__0 int32 = env1.a_0
    var b__2 int32 = env1.b_1
    var c__4 int32 = env1.c_2
    var x__1 int32 = env1.x_3
    var y__3 int32 = env1.y_4
    var d__6 int32 = 40
    var f4__8 closure_env_f4_0 = closure_env_f4_0{
        a_0: a__0,
        b_1: b__2,
        c_2: c__4,
        d_3: d__6,
        x_4: x__1,
        y_5: y__3,
        z_6: z__5,
    }
    ret13 = _goml_inherent_closure_env_f4_0_closure_env_f4_0_apply(f4__8, 4)
    return ret13
}

func _goml_inherent_closure_env_f2_2_closure_env_f2_2_apply(env2 closure_env_f2_2, y__3 int32) int32 {
    var ret14 int32
    var a__0 int32 = env2.a_0
    var b__2 int32 = env2.b_1
    var x__1 int32 = env2.x_2
    var c__4 int32 = 30
    var f3__9 closure_env_f3_1 = closure_env_f3_1{
        a_0: a__0,
        b_1: b__2,
        c_2: c__4,
        x_3: x__1,
        y_4: y__3,
    }
    ret14 = _goml_inherent_closure_env_f3_1_closure_env_f3_1_apply(f3__9, 3)
    return ret14
}

func _goml_inherent_closure_env_f1_3_closure_env_f1_3_apply(env3 closure_env_f1_3, x__1 int32) int32 {
    var ret15 int32
    var a__0 int32 = env3.a_0
    var b__2 int32 = 20
    var f2__10 closure_env_f2_2 = closure_env_f2_2{
        a_0: a__0,
        b_1: b__2,
        x_2: x__1,
    }
    ret15 = _goml_inherent_closure_env_f2_2_closure_env_f2_2_apply(f2__10, 2)
    return ret15
}

func main() {
    main0()
}
