package main

import (
    "fmt"
)

func bool_to_string(x bool) string {
    if x {
        return "true"
    } else {
        return "false"
    }
}

func string_print(s string) struct{} {
    fmt.Print(s)
    return struct{}{}
}

type Tuple2_bool_bool struct {
    _0 bool
    _1 bool
}

func main0() struct{} {
    var ret7 struct{}
    var a__0 Tuple2_bool_bool = Tuple2_bool_bool{
        _0: true,
        _1: false,
    }
    var x0 bool = a__0._0
    var x1 bool = a__0._1
    switch x0 {
    case true:
        var b__1 bool = x1
        var t5 string = bool_to_string(b__1)
        string_print(t5)
    case false:
    }
    var c__2 Tuple2_bool_bool = Tuple2_bool_bool{
        _0: true,
        _1: true,
    }
    var x3 bool = c__2._0
    var x4 bool = c__2._1
    switch x3 {
    case true:
        var d__3 bool = x4
        var t6 string = bool_to_string(d__3)
        ret7 = string_print(t6)
    case false:
        ret7 = struct{}{}
    }
    return ret7
}

func main() {
    main0()
}
