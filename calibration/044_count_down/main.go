package main

import (
    "fmt"
    "time"
)

func string_println(s string) struct{} {
    fmt.Println(s)
    return struct{}{}
}

type ref_int32_x struct {
    value int32
}

func ref__Ref_int32(value int32) *ref_int32_x {
    return &ref_int32_x{
        value: value,
    }
}

func ref_get__Ref_int32(reference *ref_int32_x) int32 {
    return reference.value
}

func ref_set__Ref_int32(reference *ref_int32_x, value int32) struct{} {
    reference.value = value
    return struct{}{}
}

type closure_env_main_0 struct {
    counter_0 *ref_int32_x
}

type Duration = time.Duration

func main0() struct{} {
    var ret11 struct{}
    var counter__0 *ref_int32_x = ref__Ref_int32(0)
    var t5 closure_env_main_0 = closure_env_main_0{
        counter_0: counter__0,
    }
    go _goml_inherent_closure_env_main_0_closure_env_main_0_apply(t5)
    var cond12 bool
    for {
        var t6 int32 = ref_get__Ref_int32(counter__0)
        cond12 = t6 < 10
        if !cond12 {
            break
        }
    }
    ret11 = struct{}{}
    return ret11
}

func _goml_inherent_closure_env_main_0_closure_env_main_0_apply(env4 closure_env_main_0) struct{} {
    var ret13 struct{}
    var counter__0 *ref_int32_x = env4.counter_0
    var cond14 bool
    for {
        var t7 int32 = ref_get__Ref_int32(counter__0)
        cond14 = t7 < 10
        if !cond14 {
            break
        }
        string_println("hello")
        var t8 Duration = time.Duration(1000)
        time.Sleep(t8)
        var t10 int32 = ref_get__Ref_int32(counter__0)
        var t9 int32 = t10 + 1
        ref_set__Ref_int32(counter__0, t9)
    }
    ret13 = struct{}{}
    return ret13
}

func main() {
    main0()
}
