package main

import (
    "fmt"
)

func bool_to_string(x bool) string {
    if x {
        return "true"
    } else {
        return "false"
    }
}

func string_println(s string) struct{} {
    fmt.Println(s)
    return struct{}{}
}

func test_int_comparisons() struct{} {
    var ret65 struct{}
    var a__0 int32 = 10
    var b__1 int32 = 20
    var c__2 int32 = 10
    var less__3 bool = a__0 < b__1
    var t26 string = bool_to_string(less__3)
    var t25 string = "10 < 20: " + t26
    string_println(t25)
    var greater__4 bool = b__1 > a__0
    var t28 string = bool_to_string(greater__4)
    var t27 string = "20 > 10: " + t28
    string_println(t27)
    var less_eq1__5 bool = a__0 <= b__1
    var t30 string = bool_to_string(less_eq1__5)
    var t29 string = "10 <= 20: " + t30
    string_println(t29)
    var less_eq2__6 bool = a__0 <= c__2
    var t32 string = bool_to_string(less_eq2__6)
    var t31 string = "10 <= 10: " + t32
    string_println(t31)
    var greater_eq1__7 bool = b__1 >= a__0
    var t34 string = bool_to_string(greater_eq1__7)
    var t33 string = "20 >= 10: " + t34
    string_println(t33)
    var greater_eq2__8 bool = c__2 >= a__0
    var t36 string = bool_to_string(greater_eq2__8)
    var t35 string = "10 >= 10: " + t36
    string_println(t35)
    var eq1__9 bool = a__0 == c__2
    var t38 string = bool_to_string(eq1__9)
    var t37 string = "10 == 10: " + t38
    string_println(t37)
    var eq2__10 bool = a__0 == b__1
    var t40 string = bool_to_string(eq2__10)
    var t39 string = "10 == 20: " + t40
    string_println(t39)
    var neq1__11 bool = a__0 != b__1
    var t42 string = bool_to_string(neq1__11)
    var t41 string = "10 != 20: " + t42
    string_println(t41)
    var neq2__12 bool = a__0 != c__2
    var t44 string = bool_to_string(neq2__12)
    var t43 string = "10 != 10: " + t44
    string_println(t43)
    ret65 = struct{}{}
    return ret65
}

func test_float_comparisons() struct{} {
    var ret66 struct{}
    var x__13 float64 = 3.14
    var y__14 float64 = 2.71
    var z__15 float64 = 3.14
    var less__16 bool = y__14 < x__13
    var t46 string = bool_to_string(less__16)
    var t45 string = "2.71 < 3.14: " + t46
    string_println(t45)
    var greater__17 bool = x__13 > y__14
    var t48 string = bool_to_string(greater__17)
    var t47 string = "3.14 > 2.71: " + t48
    string_println(t47)
    var less_eq1__18 bool = y__14 <= x__13
    var t50 string = bool_to_string(less_eq1__18)
    var t49 string = "2.71 <= 3.14: " + t50
    string_println(t49)
    var less_eq2__19 bool = x__13 <= z__15
    var t52 string = bool_to_string(less_eq2__19)
    var t51 string = "3.14 <= 3.14: " + t52
    string_println(t51)
    var greater_eq1__20 bool = x__13 >= y__14
    var t54 string = bool_to_string(greater_eq1__20)
    var t53 string = "3.14 >= 2.71: " + t54
    string_println(t53)
    var greater_eq2__21 bool = z__15 >= x__13
    var t56 string = bool_to_string(greater_eq2__21)
    var t55 string = "3.14 >= 3.14: " + t56
    string_println(t55)
    var eq1__22 bool = x__13 == z__15
    var t58 string = bool_to_string(eq1__22)
    var t57 string = "3.14 == 3.14: " + t58
    string_println(t57)
    var eq2__23 bool = x__13 == y__14
    var t60 string = bool_to_string(eq2__23)
    var t59 string = "3.14 == 2.71: " + t60
    string_println(t59)
    var neq1__24 bool = x__13 != y__14
    var t62 string = bool_to_string(neq1__24)
    var t61 string = "3.14 != 2.71: " + t62
    string_println(t61)
    var neq2__25 bool = x__13 != z__15
    var t64 string = bool_to_string(neq2__25)
    var t63 string = "3.14 != 3.14: " + t64
    string_println(t63)
    ret66 = struct{}{}
    return ret66
}

func main0() struct{} {
    var ret67 struct{}
    string_println("=== Integer Comparisons ===")
    test_int_comparisons()
    string_println("")
    string_println("=== Float Comparisons ===")
    test_float_comparisons()
    ret67 = struct{}{}
    return ret67
}

func main() {
    main0()
}
