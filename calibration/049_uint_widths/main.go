package main

import (
    "fmt"
)

func uint8_to_string(x uint8) string {
    return fmt.Sprintf("%d", x)
}

func uint16_to_string(x uint16) string {
    return fmt.Sprintf("%d", x)
}

func uint32_to_string(x uint32) string {
    return fmt.Sprintf("%d", x)
}

func uint64_to_string(x uint64) string {
    return fmt.Sprintf("%d", x)
}

func string_println(s string) struct{} {
    fmt.Println(s)
    return struct{}{}
}

func main0() struct{} {
    var ret13 struct{}
    var start8__0 uint8 = 200
    var add8__1 uint8 = 55
    var sum8__2 uint8 = start8__0 + add8__1
    var neg8__3 uint8 = -start8__0
    var start16__4 uint16 = 50000
    var add16__5 uint16 = 12000
    var sum16__6 uint16 = start16__4 + add16__5
    var diff16__7 uint16 = sum16__6 - start16__4
    var add32__9 uint32 = 123456789
    var neg32__11 uint32 = -add32__9
    var start64__12 uint64 = 6000000000
    var add64__13 uint64 = 4000000000
    var sum64__14 uint64 = start64__12 + add64__13
    var diff64__15 uint64 = sum64__14 - add64__13
    var t8 string = uint8_to_string(sum8__2)
    var t7 string = t8 + ", "
    var t9 string = uint8_to_string(neg8__3)
    var t6 string = t7 + t9
    var t5 string = t6 + "; "
    var t10 string = uint16_to_string(diff16__7)
    var t4 string = t5 + t10
    var t3 string = t4 + "; "
    var t11 string = uint32_to_string(neg32__11)
    var t2 string = t3 + t11
    var t1 string = t2 + "; "
    var t12 string = uint64_to_string(diff64__15)
    var message__16 string = t1 + t12
    string_println(message__16)
    ret13 = struct{}{}
    return ret13
}

func main() {
    main0()
}
