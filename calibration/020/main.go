package main

import (
    "fmt"
)

func unit_to_string(x struct{}) string {
    return "()"
}

func int32_to_string(x int32) string {
    return fmt.Sprintf("%d", x)
}

func string_println(s string) struct{} {
    fmt.Println(s)
    return struct{}{}
}

type Point struct {
    x int32
    y int32
}

type Wrapper__int32 struct {
    value int32
}

type Wrapper__unit struct {
    value struct{}
}

type Shape__int32 interface {
    isShape__int32()
}

type Shape__int32_Dot struct {
    _0 Point
}

func (_ Shape__int32_Dot) isShape__int32() {}

type Shape__int32_Wrapped struct {
    _0 Wrapper__int32
}

func (_ Shape__int32_Wrapped) isShape__int32() {}

type Shape__int32_Origin struct {}

func (_ Shape__int32_Origin) isShape__int32() {}

type Shape__unit interface {
    isShape__unit()
}

type Shape__unit_Dot struct {
    _0 Point
}

func (_ Shape__unit_Dot) isShape__unit() {}

type Shape__unit_Wrapped struct {
    _0 Wrapper__unit
}

func (_ Shape__unit_Wrapped) isShape__unit() {}

type Shape__unit_Origin struct {}

func (_ Shape__unit_Origin) isShape__unit() {}

func bounce_int(shape__0 Shape__int32) Shape__int32 {
    var ret57 Shape__int32
    switch shape__0 := shape__0.(type) {
    case Shape__int32_Dot:
        var x0 Point = shape__0._0
        var point__1 Point = x0
        ret57 = Shape__int32_Dot{
            _0: point__1,
        }
    case Shape__int32_Wrapped:
        var x1 Wrapper__int32 = shape__0._0
        var inner__2 Wrapper__int32 = x1
        ret57 = Shape__int32_Wrapped{
            _0: inner__2,
        }
    case Shape__int32_Origin:
        ret57 = Shape__int32_Origin{}
    }
    return ret57
}

func point32_to_string(point__8 Point) string {
    var ret60 string
    var mtmp4 Point = point__8
    var x5 int32 = mtmp4.x
    var x6 int32 = mtmp4.y
    var y__10 int32 = x6
    var x__9 int32 = x5
    var t25 string = int32_to_string(x__9)
    var with_x__11 string = "Point { x: " + t25
    var with_y_label__12 string = with_x__11 + ", y: "
    var t26 string = int32_to_string(y__10)
    var with_y__13 string = with_y_label__12 + t26
    ret60 = with_y__13 + " }"
    return ret60
}

func wrapper_int32_to_string(wrapper__14 Wrapper__int32) string {
    var ret61 string
    var mtmp7 Wrapper__int32 = wrapper__14
    var x8 int32 = mtmp7.value
    var value__15 int32 = x8
    var t27 string = int32_to_string(value__15)
    var prefix__16 string = "Wrapper[int32] { value: " + t27
    ret61 = prefix__16 + " }"
    return ret61
}

func wrapper_unit_to_string(wrapper__17 Wrapper__unit) string {
    var ret62 string
    var mtmp9 Wrapper__unit = wrapper__17
    var x10 struct{} = mtmp9.value
    var value__18 struct{} = x10
    var t28 string = unit_to_string(value__18)
    var prefix__19 string = "Wrapper[unit] { value: " + t28
    ret62 = prefix__19 + " }"
    return ret62
}

func shape_int32_to_string(shape__20 Shape__int32) string {
    var ret63 string
    switch shape__20 := shape__20.(type) {
    case Shape__int32_Dot:
        var x11 Point = shape__20._0
        var point__21 Point = x11
        var t29 string = point32_to_string(point__21)
        var prefix__22 string = "Shape::Dot(" + t29
        ret63 = prefix__22 + ")"
    case Shape__int32_Wrapped:
        var x12 Wrapper__int32 = shape__20._0
        var wrapper__23 Wrapper__int32 = x12
        var t30 string = wrapper_int32_to_string(wrapper__23)
        var prefix__24 string = "Shape::Wrapped(" + t30
        ret63 = prefix__24 + ")"
    case Shape__int32_Origin:
        ret63 = "Shape::Origin"
    }
    return ret63
}

func shape_unit_to_string(shape__25 Shape__unit) string {
    var ret64 string
    switch shape__25 := shape__25.(type) {
    case Shape__unit_Dot:
        var x13 Point = shape__25._0
        var point__26 Point = x13
        var t31 string = point32_to_string(point__26)
        var prefix__27 string = "Shape::Dot(" + t31
        ret64 = prefix__27 + ")"
    case Shape__unit_Wrapped:
        var x14 Wrapper__unit = shape__25._0
        var wrapper__28 Wrapper__unit = x14
        var t32 string = wrapper_unit_to_string(wrapper__28)
        var prefix__29 string = "Shape::Wrapped(" + t32
        ret64 = prefix__29 + ")"
    case Shape__unit_Origin:
        ret64 = "Shape::Origin"
    }
    return ret64
}

func main0() struct{} {
    var ret65 struct{}
    var t34 Point = Point{
        x: 3,
        y: 4,
    }
    var t33 string = point32_to_string(t34)
    string_println(t33)
    var t36 Wrapper__int32 = Wrapper__int32{
        value: 7,
    }
    var t35 string = wrapper_int32_to_string(t36)
    string_println(t35)
    var t38 Wrapper__unit = Wrapper__unit{
        value: struct{}{},
    }
    var t37 string = wrapper_unit_to_string(t38)
    string_println(t37)
    var t39 Shape__int32 = Shape__int32_Origin{}
    var bounced_origin__30 Shape__int32 = bounce_int(t39)
    var t42 Point = Point{
        x: 3,
        y: 4,
    }
    var t41 Shape__int32 = Shape__int32_Dot{
        _0: t42,
    }
    var t40 string = shape_int32_to_string(t41)
    string_println(t40)
    var t45 Wrapper__int32 = Wrapper__int32{
        value: 7,
    }
    var t44 Shape__int32 = Shape__int32_Wrapped{
        _0: t45,
    }
    var t43 string = shape_int32_to_string(t44)
    string_println(t43)
    var t46 string = shape_int32_to_string(bounced_origin__30)
    string_println(t46)
    var t49 Point = Point{
        x: 3,
        y: 4,
    }
    var t48 Shape__unit = Shape__unit_Dot{
        _0: t49,
    }
    var t47 string = shape_unit_to_string(t48)
    string_println(t47)
    var t52 Wrapper__unit = Wrapper__unit{
        value: struct{}{},
    }
    var t51 Shape__unit = Shape__unit_Wrapped{
        _0: t52,
    }
    var t50 string = shape_unit_to_string(t51)
    string_println(t50)
    var t54 Shape__unit = Shape__unit_Origin{}
    var t53 string = shape_unit_to_string(t54)
    string_println(t53)
    var t56 Shape__int32 = Shape__int32_Origin{}
    var t55 Shape__int32 = bounce_int(t56)
    describe__T_int32(t55)
    ret65 = string_println("struct enums!")
    return ret65
}

func describe__T_int32(shape__7 Shape__int32) int32 {
    var ret66 int32
    switch shape__7.(type) {
    case Shape__int32_Dot:
        ret66 = 1
    case Shape__int32_Wrapped:
        ret66 = 2
    case Shape__int32_Origin:
        ret66 = 0
    }
    return ret66
}

func main() {
    main0()
}
