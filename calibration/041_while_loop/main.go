package main

import (
    "fmt"
)

func int32_to_string(x int32) string {
    return fmt.Sprintf("%d", x)
}

func string_println(s string) struct{} {
    fmt.Println(s)
    return struct{}{}
}

type ref_int32_x struct {
    value int32
}

func ref__Ref_int32(value int32) *ref_int32_x {
    return &ref_int32_x{
        value: value,
    }
}

func ref_get__Ref_int32(reference *ref_int32_x) int32 {
    return reference.value
}

func ref_set__Ref_int32(reference *ref_int32_x, value int32) struct{} {
    reference.value = value
    return struct{}{}
}

type ref_bool_x struct {
    value bool
}

func ref__Ref_bool(value bool) *ref_bool_x {
    return &ref_bool_x{
        value: value,
    }
}

func ref_get__Ref_bool(reference *ref_bool_x) bool {
    return reference.value
}

func ref_set__Ref_bool(reference *ref_bool_x, value bool) struct{} {
    reference.value = value
    return struct{}{}
}

func sum_to(limit__0 int32) int32 {
    var ret21 int32
    var acc__1 *ref_int32_x = ref__Ref_int32(0)
    var i__2 *ref_int32_x = ref__Ref_int32(0)
    var cond22 bool
    for {
        var t8 int32 = ref_get__Ref_int32(i__2)
        cond22 = t8 < limit__0
        if !cond22 {
            break
        }
        var current__3 int32 = ref_get__Ref_int32(i__2)
        var t10 int32 = ref_get__Ref_int32(acc__1)
        var t9 int32 = t10 + current__3
        ref_set__Ref_int32(acc__1, t9)
        var t11 int32 = current__3 + 1
        ref_set__Ref_int32(i__2, t11)
    }
    ret21 = ref_get__Ref_int32(acc__1)
    return ret21
}

func sum_even(limit__4 int32) int32 {
    var ret23 int32
    var acc__5 *ref_int32_x = ref__Ref_int32(0)
    var i__6 *ref_int32_x = ref__Ref_int32(0)
    var is_even__7 *ref_bool_x = ref__Ref_bool(true)
    var cond24 bool
    for {
        var t12 int32 = ref_get__Ref_int32(i__6)
        cond24 = t12 < limit__4
        if !cond24 {
            break
        }
        var current__8 int32 = ref_get__Ref_int32(i__6)
        var t13 int32 = current__8 + 1
        ref_set__Ref_int32(i__6, t13)
        var add_now__9 bool = ref_get__Ref_bool(is_even__7)
        var t14 bool = !add_now__9
        ref_set__Ref_bool(is_even__7, t14)
        if add_now__9 {
            var t16 int32 = ref_get__Ref_int32(acc__5)
            var t15 int32 = t16 + current__8
            ref_set__Ref_int32(acc__5, t15)
        } else {}
    }
    ret23 = ref_get__Ref_int32(acc__5)
    return ret23
}

func main0() struct{} {
    var ret25 struct{}
    var first__10 int32 = sum_to(5)
    var evens__11 int32 = sum_even(6)
    var t18 string = int32_to_string(first__10)
    var t17 string = "sum_to(5)=" + t18
    string_println(t17)
    var t20 string = int32_to_string(evens__11)
    var t19 string = "sum_even(6)=" + t20
    string_println(t19)
    ret25 = struct{}{}
    return ret25
}

func main() {
    main0()
}
