package main

import (
    "fmt"
)

func int32_to_string(x int32) string {
    return fmt.Sprintf("%d", x)
}

func string_println(s string) struct{} {
    fmt.Println(s)
    return struct{}{}
}

type ref_int32_x struct {
    value int32
}

func ref__Ref_int32(value int32) *ref_int32_x {
    return &ref_int32_x{
        value: value,
    }
}

func ref_get__Ref_int32(reference *ref_int32_x) int32 {
    return reference.value
}

func ref_set__Ref_int32(reference *ref_int32_x, value int32) struct{} {
    reference.value = value
    return struct{}{}
}

type Point struct {
    x int32
    y int32
}

type Flag struct {
    value bool
}

type Counter struct {
    cell *ref_int32_x
}

type closure_env_f_0 struct {}

type closure_env_make_renderer_1 struct {
    tag_0 string
}

type dyn__Display_vtable struct {
    show func(any) string
    show_with func(any, string, string) string
    tick func(any) struct{}
    bump func(any, int32) int32
}

type dyn__Display struct {
    data any
    vtable *dyn__Display_vtable
}

func dyn__Display__wrap__Counter__show(self any) string {
    return _goml_trait_impl_Display_Counter_show(self.(Counter))
}

func dyn__Display__wrap__Counter__show_with(self any, p0 string, p1 string) string {
    return _goml_trait_impl_Display_Counter_show_with(self.(Counter), p0, p1)
}

func dyn__Display__wrap__Counter__tick(self any) struct{} {
    return _goml_trait_impl_Display_Counter_tick(self.(Counter))
}

func dyn__Display__wrap__Counter__bump(self any, p0 int32) int32 {
    return _goml_trait_impl_Display_Counter_bump(self.(Counter), p0)
}

func dyn__Display__vtable__Counter() *dyn__Display_vtable {
    return &dyn__Display_vtable{
        show: dyn__Display__wrap__Counter__show,
        show_with: dyn__Display__wrap__Counter__show_with,
        tick: dyn__Display__wrap__Counter__tick,
        bump: dyn__Display__wrap__Counter__bump,
    }
}

func dyn__Display__wrap__Flag__show(self any) string {
    return _goml_trait_impl_Display_Flag_show(self.(Flag))
}

func dyn__Display__wrap__Flag__show_with(self any, p0 string, p1 string) string {
    return _goml_trait_impl_Display_Flag_show_with(self.(Flag), p0, p1)
}

func dyn__Display__wrap__Flag__tick(self any) struct{} {
    return _goml_trait_impl_Display_Flag_tick(self.(Flag))
}

func dyn__Display__wrap__Flag__bump(self any, p0 int32) int32 {
    return _goml_trait_impl_Display_Flag_bump(self.(Flag), p0)
}

func dyn__Display__vtable__Flag() *dyn__Display_vtable {
    return &dyn__Display_vtable{
        show: dyn__Display__wrap__Flag__show,
        show_with: dyn__Display__wrap__Flag__show_with,
        tick: dyn__Display__wrap__Flag__tick,
        bump: dyn__Display__wrap__Flag__bump,
    }
}

func dyn__Display__wrap__Point__show(self any) string {
    return _goml_trait_impl_Display_Point_show(self.(Point))
}

func dyn__Display__wrap__Point__show_with(self any, p0 string, p1 string) string {
    return _goml_trait_impl_Display_Point_show_with(self.(Point), p0, p1)
}

func dyn__Display__wrap__Point__tick(self any) struct{} {
    return _goml_trait_impl_Display_Point_tick(self.(Point))
}

func dyn__Display__wrap__Point__bump(self any, p0 int32) int32 {
    return _goml_trait_impl_Display_Point_bump(self.(Point), p0)
}

func dyn__Display__vtable__Point() *dyn__Display_vtable {
    return &dyn__Display_vtable{
        show: dyn__Display__wrap__Point__show,
        show_with: dyn__Display__wrap__Point__show_with,
        tick: dyn__Display__wrap__Point__tick,
        bump: dyn__Display__wrap__Point__bump,
    }
}

func _goml_trait_impl_Display_Point_show(self__0 Point) string {
    var ret68 string
    var t17 int32 = self__0.x
    var t16 string = int32_to_string(t17)
    var t15 string = "Point(" + t16
    var t14 string = t15 + ","
    var t19 int32 = self__0.y
    var t18 string = int32_to_string(t19)
    var t13 string = t14 + t18
    ret68 = t13 + ")"
    return ret68
}

func _goml_trait_impl_Display_Point_show_with(self__1 Point, prefix__2 string, suffix__3 string) string {
    var ret69 string
    var t24 string = prefix__2 + "Point("
    var t26 int32 = self__1.x
    var t25 string = int32_to_string(t26)
    var t23 string = t24 + t25
    var t22 string = t23 + ","
    var t28 int32 = self__1.y
    var t27 string = int32_to_string(t28)
    var t21 string = t22 + t27
    var t20 string = t21 + ")"
    ret69 = t20 + suffix__3
    return ret69
}

func _goml_trait_impl_Display_Point_tick(self__4 Point) struct{} {
    var ret70 struct{}
    ret70 = struct{}{}
    return ret70
}

func _goml_trait_impl_Display_Point_bump(self__5 Point, delta__6 int32) int32 {
    var ret71 int32
    var t30 int32 = self__5.x
    var t31 int32 = self__5.y
    var t29 int32 = t30 + t31
    ret71 = t29 + delta__6
    return ret71
}

func _goml_trait_impl_Display_Flag_show(self__7 Flag) string {
    var ret72 string
    var t32 bool = self__7.value
    if t32 {
        ret72 = "Flag(true)"
    } else {
        ret72 = "Flag(false)"
    }
    return ret72
}

func _goml_trait_impl_Display_Flag_show_with(self__8 Flag, prefix__9 string, suffix__10 string) string {
    var ret73 string
    var t33 bool = self__8.value
    if t33 {
        var t34 string = prefix__9 + "Flag(true)"
        ret73 = t34 + suffix__10
    } else {
        var t35 string = prefix__9 + "Flag(false)"
        ret73 = t35 + suffix__10
    }
    return ret73
}

func _goml_trait_impl_Display_Flag_tick(self__11 Flag) struct{} {
    var ret74 struct{}
    ret74 = struct{}{}
    return ret74
}

func _goml_trait_impl_Display_Flag_bump(self__12 Flag, delta__13 int32) int32 {
    var ret75 int32
    var t36 bool = self__12.value
    if t36 {
        ret75 = delta__13
    } else {
        ret75 = -delta__13
    }
    return ret75
}

func _goml_trait_impl_Display_Counter_show(self__14 Counter) string {
    var ret76 string
    var t40 *ref_int32_x = self__14.cell
    var t39 int32 = ref_get__Ref_int32(t40)
    var t38 string = int32_to_string(t39)
    var t37 string = "Counter(" + t38
    ret76 = t37 + ")"
    return ret76
}

func _goml_trait_impl_Display_Counter_show_with(self__15 Counter, prefix__16 string, suffix__17 string) string {
    var ret77 string
    var t43 string = prefix__16 + "Counter("
    var t46 *ref_int32_x = self__15.cell
    var t45 int32 = ref_get__Ref_int32(t46)
    var t44 string = int32_to_string(t45)
    var t42 string = t43 + t44
    var t41 string = t42 + ")"
    ret77 = t41 + suffix__17
    return ret77
}

func _goml_trait_impl_Display_Counter_tick(self__18 Counter) struct{} {
    var ret78 struct{}
    var t48 *ref_int32_x = self__18.cell
    var t47 int32 = ref_get__Ref_int32(t48)
    var next__19 int32 = t47 + 1
    var t49 *ref_int32_x = self__18.cell
    ref_set__Ref_int32(t49, next__19)
    ret78 = struct{}{}
    return ret78
}

func _goml_trait_impl_Display_Counter_bump(self__20 Counter, delta__21 int32) int32 {
    var ret79 int32
    var t51 *ref_int32_x = self__20.cell
    var t50 int32 = ref_get__Ref_int32(t51)
    var next__22 int32 = t50 + delta__21
    var t52 *ref_int32_x = self__20.cell
    ref_set__Ref_int32(t52, next__22)
    ret79 = next__22
    return ret79
}

func show_dyn(x__23 dyn__Display) string {
    var ret80 string
    ret80 = x__23.vtable.show_with(x__23.data, "<", ">")
    return ret80
}

func call_via_closure(x__24 dyn__Display, tag__25 string) string {
    var ret81 string
    var f__28 closure_env_f_0 = closure_env_f_0{}
    ret81 = _goml_inherent_closure_env_f_0_closure_env_f_0_apply(f__28, x__24, tag__25)
    return ret81
}

func make_renderer(tag__29 string) closure_env_make_renderer_1 {
    var ret82 closure_env_make_renderer_1
    ret82 = closure_env_make_renderer_1{
        tag_0: tag__29,
    }
    return ret82
}

func bump_and_show(x__31 dyn__Display, delta__32 int32) string {
    var ret83 string
    x__31.vtable.tick(x__31.data)
    var t54 string = x__31.vtable.show_with(x__31.data, "[", "]")
    var t53 string = t54 + ":"
    var t56 int32 = x__31.vtable.bump(x__31.data, delta__32)
    var t55 string = int32_to_string(t56)
    ret83 = t53 + t55
    return ret83
}

func main0() struct{} {
    var ret84 struct{}
    var p1__33 Point = Point{
        x: 1,
        y: 2,
    }
    var p2__34 Point = Point{
        x: 3,
        y: 4,
    }
    var f1__35 Flag = Flag{
        value: true,
    }
    var f2__36 Flag = Flag{
        value: false,
    }
    var t57 *ref_int32_x = ref__Ref_int32(10)
    var c__37 Counter = Counter{
        cell: t57,
    }
    var dp1__38 dyn__Display = dyn__Display{
        data: p1__33,
        vtable: dyn__Display__vtable__Point(),
    }
    var dp2__39 dyn__Display = dyn__Display{
        data: p2__34,
        vtable: dyn__Display__vtable__Point(),
    }
    var df1__40 dyn__Display = dyn__Display{
        data: f1__35,
        vtable: dyn__Display__vtable__Flag(),
    }
    var df2__41 dyn__Display = dyn__Display{
        data: f2__36,
        vtable: dyn__Display__vtable__Flag(),
    }
    var dc__42 dyn__Display = dyn__Display{
        data: c__37,
        vtable: dyn__Display__vtable__Counter(),
    }
    var render_star__43 closure_env_make_renderer_1 = make_renderer("*")
    var render_angle__44 closure_env_make_renderer_1 = make_renderer("<")
    var s0__45 string = show_dyn(dp2__39)
    var s1__46 string = call_via_closure(df2__41, "*")
    var t59 string = _goml_inherent_closure_env_make_renderer_1_closure_env_make_renderer_1_apply(render_star__43, dp1__38)
    var t58 string = t59 + "|"
    var t60 string = _goml_inherent_closure_env_make_renderer_1_closure_env_make_renderer_1_apply(render_angle__44, df1__40)
    var s2__47 string = t58 + t60
    var v__48 []dyn__Display = nil
    var v__49 []dyn__Display = append(v__48, dp1__38)
    var v__50 []dyn__Display = append(v__49, df1__40)
    var v__51 []dyn__Display = append(v__50, dc__42)
    var vlen__52 int32 = int32(len(v__51))
    var delta__53 int32
    switch vlen__52 {
    case 2:
        delta__53 = 3
    default:
        delta__53 = 5
    }
    string_println(s0__45)
    string_println(s1__46)
    string_println(s2__47)
    var i__54 *ref_int32_x = ref__Ref_int32(0)
    var cond85 bool
    for {
        var t61 int32 = ref_get__Ref_int32(i__54)
        cond85 = t61 < 3
        if !cond85 {
            break
        }
        var line__55 string = bump_and_show(dc__42, delta__53)
        string_println(line__55)
        var t63 int32 = ref_get__Ref_int32(i__54)
        var t62 int32 = t63 + 1
        ref_set__Ref_int32(i__54, t62)
    }
    var t65 string = int32_to_string(vlen__52)
    var t64 string = "len:" + t65
    string_println(t64)
    var t67 string = int32_to_string(delta__53)
    var t66 string = "delta:" + t67
    string_println(t66)
    ret84 = struct{}{}
    return ret84
}

func _goml_inherent_closure_env_f_0_closure_env_f_0_apply(env11 closure_env_f_0, v__26 dyn__Display, t__27 string) string {
    var ret86 string
    ret86 = v__26.vtable.show_with(v__26.data, t__27, t__27)
    return ret86
}

func _goml_inherent_closure_env_make_renderer_1_closure_env_make_renderer_1_apply(env12 closure_env_make_renderer_1, x__30 dyn__Display) string {
    var ret87 string
    var tag__29 string = env12.tag_0
    ret87 = x__30.vtable.show_with(x__30.data, tag__29, tag__29)
    return ret87
}

func main() {
    main0()
}
