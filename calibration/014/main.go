package main

import (
    "fmt"
)

func string_println(s string) struct{} {
    fmt.Println(s)
    return struct{}{}
}

type Tuple2_bool_bool struct {
    _0 bool
    _1 bool
}

func test_nested_match(x__0 Tuple2_bool_bool, y__1 Tuple2_bool_bool) struct{} {
    var ret20 struct{}
    var x0 bool = x__0._0
    var x1 bool = x__0._1
    switch x1 {
    case true:
        var x2 bool = y__1._0
        var x3 bool = y__1._1
        switch x3 {
        case true:
            switch x2 {
            case true:
                ret20 = string_println("case4")
            case false:
                ret20 = string_println("case3")
            }
        case false:
            ret20 = string_println("case4")
        }
    case false:
        switch x0 {
        case true:
            var x4 bool = y__1._0
            var x5 bool = y__1._1
            switch x5 {
            case true:
                switch x4 {
                case true:
                    ret20 = string_println("case2")
                case false:
                    ret20 = string_println("case1")
                }
            case false:
                ret20 = string_println("case2")
            }
        case false:
            var x6 bool = y__1._0
            var x7 bool = y__1._1
            switch x7 {
            case true:
                switch x6 {
                case true:
                    ret20 = string_println("case4")
                case false:
                    ret20 = string_println("case3")
                }
            case false:
                ret20 = string_println("case4")
            }
        }
    }
    return ret20
}

func main0() struct{} {
    var ret21 struct{}
    var t12 Tuple2_bool_bool = Tuple2_bool_bool{
        _0: true,
        _1: false,
    }
    var t13 Tuple2_bool_bool = Tuple2_bool_bool{
        _0: false,
        _1: true,
    }
    test_nested_match(t12, t13)
    var t14 Tuple2_bool_bool = Tuple2_bool_bool{
        _0: true,
        _1: false,
    }
    var t15 Tuple2_bool_bool = Tuple2_bool_bool{
        _0: true,
        _1: false,
    }
    test_nested_match(t14, t15)
    var t16 Tuple2_bool_bool = Tuple2_bool_bool{
        _0: false,
        _1: true,
    }
    var t17 Tuple2_bool_bool = Tuple2_bool_bool{
        _0: false,
        _1: true,
    }
    test_nested_match(t16, t17)
    var t18 Tuple2_bool_bool = Tuple2_bool_bool{
        _0: false,
        _1: true,
    }
    var t19 Tuple2_bool_bool = Tuple2_bool_bool{
        _0: true,
        _1: false,
    }
    test_nested_match(t18, t19)
    ret21 = struct{}{}
    return ret21
}

func main() {
    main0()
}
