package main

import (
    "fmt"
)

func int32_to_string(x int32) string {
    return fmt.Sprintf("%d", x)
}

func string_println(s string) struct{} {
    fmt.Println(s)
    return struct{}{}
}

type Point struct {
    x int32
    y int32
}

type Wrapper__int32 struct {
    value int32
}

type Wrapper__Point struct {
    value Point
}

func make_point() Point {
    var ret55 Point
    ret55 = Point{
        x: 0,
        y: 0,
    }
    return ret55
}

func flip(point__0 Point) Point {
    var ret56 Point
    var mtmp0 Point = point__0
    var x1 int32 = mtmp0.x
    var x2 int32 = mtmp0.y
    var y__2 int32 = x2
    var x__1 int32 = x1
    ret56 = Point{
        x: y__2,
        y: x__1,
    }
    return ret56
}

func wrap_int(x__3 int32) Wrapper__int32 {
    var ret57 Wrapper__int32
    ret57 = Wrapper__int32{
        value: x__3,
    }
    return ret57
}

func x_add_1(p__4 Point) Point {
    var ret58 Point
    var mtmp3 Point = p__4
    var x4 int32 = mtmp3.x
    var x5 int32 = mtmp3.y
    var y__6 int32 = x5
    var x__5 int32 = x4
    var t28 int32 = x__5 + 1
    ret58 = Point{
        x: t28,
        y: y__6,
    }
    return ret58
}

func point32_to_string(p__13 Point) string {
    var ret61 string
    var mtmp12 Point = p__13
    var x13 int32 = mtmp12.x
    var x14 int32 = mtmp12.y
    var y__15 int32 = x14
    var x__14 int32 = x13
    var t32 string = int32_to_string(x__14)
    var t31 string = "Point { x: " + t32
    var t30 string = t31 + ", y: "
    var t33 string = int32_to_string(y__15)
    var t29 string = t30 + t33
    ret61 = t29 + "}"
    return ret61
}

func point32_to_string2(p__16 Point) string {
    var ret62 string
    var mtmp15 Point = p__16
    var x16 int32 = mtmp15.x
    var x17 int32 = mtmp15.y
    var y__18 int32 = x17
    var x__17 int32 = x16
    var t37 string = int32_to_string(x__17)
    var t36 string = "Point { x: " + t37
    var t35 string = t36 + ", y: "
    var t38 string = int32_to_string(y__18)
    var t34 string = t35 + t38
    ret62 = t34 + "}"
    return ret62
}

func point32_to_string3(p__19 Point) string {
    var ret63 string
    var mtmp18 Point = p__19
    var x19 int32 = mtmp18.x
    var x20 int32 = mtmp18.y
    var y__21 int32 = x20
    var x__20 int32 = x19
    var t42 string = int32_to_string(x__20)
    var t41 string = "Point { x: " + t42
    var t40 string = t41 + ", y: "
    var t43 string = int32_to_string(y__21)
    var t39 string = t40 + t43
    ret63 = t39 + "}"
    return ret63
}

func point32_to_string4(p__22 Point) string {
    var ret64 string
    var mtmp21 Point = p__22
    var x22 int32 = mtmp21.x
    var x23 int32 = mtmp21.y
    var y__24 int32 = x23
    var x__23 int32 = x22
    var t47 string = int32_to_string(x__23)
    var t46 string = "Point { x: " + t47
    var t45 string = t46 + ", y: "
    var t48 string = int32_to_string(y__24)
    var t44 string = t45 + t48
    ret64 = t44 + "}"
    return ret64
}

func main0() struct{} {
    var ret65 struct{}
    var start__25 Point = make_point()
    var t49 string = point32_to_string(start__25)
    string_println(t49)
    var t50 Point = Point{
        x: 1,
        y: 2,
    }
    var swapped__26 Point = flip(t50)
    var t51 string = point32_to_string2(swapped__26)
    string_println(t51)
    wrap_int(3)
    var a__29 Point = x_add_1(start__25)
    var t52 string = point32_to_string3(a__29)
    string_println(t52)
    var t53 Point = x_add_1(start__25)
    var a__30 Point = flip(t53)
    var t54 string = point32_to_string4(a__30)
    string_println(t54)
    ret65 = struct{}{}
    return ret65
}

func main() {
    main0()
}
