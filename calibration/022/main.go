package main

import (
    "fmt"
)

func int32_to_string(x int32) string {
    return fmt.Sprintf("%d", x)
}

func string_println(s string) struct{} {
    fmt.Println(s)
    return struct{}{}
}

func match_string(s__0 string) int32 {
    var ret17 int32
    switch s__0 {
    case "hello":
        ret17 = 1
    case "world":
        ret17 = 2
    default:
        ret17 = 3
    }
    return ret17
}

func wildcard_position(s__1 string) int32 {
    var ret18 int32
    ret18 = 4
    return ret18
}

func repeated_string(s__2 string) int32 {
    var ret19 int32
    switch s__2 {
    case "hello":
        ret19 = 6
    default:
        ret19 = 8
    }
    return ret19
}

func main0() struct{} {
    var ret20 struct{}
    var t6 int32 = match_string("hello")
    var t5 string = int32_to_string(t6)
    string_println(t5)
    var t8 int32 = match_string("planet")
    var t7 string = int32_to_string(t8)
    string_println(t7)
    var t10 int32 = wildcard_position("world")
    var t9 string = int32_to_string(t10)
    string_println(t9)
    var t12 int32 = wildcard_position("sun")
    var t11 string = int32_to_string(t12)
    string_println(t11)
    var t14 int32 = repeated_string("hello")
    var t13 string = int32_to_string(t14)
    string_println(t13)
    var t16 int32 = repeated_string("mars")
    var t15 string = int32_to_string(t16)
    ret20 = string_println(t15)
    return ret20
}

func main() {
    main0()
}
