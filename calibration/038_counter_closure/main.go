package main

import (
    "fmt"
)

func int32_to_string(x int32) string {
    return fmt.Sprintf("%d", x)
}

func string_println(s string) struct{} {
    fmt.Println(s)
    return struct{}{}
}

type ref_int32_x struct {
    value int32
}

func ref__Ref_int32(value int32) *ref_int32_x {
    return &ref_int32_x{
        value: value,
    }
}

func ref_get__Ref_int32(reference *ref_int32_x) int32 {
    return reference.value
}

func ref_set__Ref_int32(reference *ref_int32_x, value int32) struct{} {
    reference.value = value
    return struct{}{}
}

type Tuple2_closure_env_next_0_closure_env_reset_1 struct {
    _0 closure_env_next_0
    _1 closure_env_reset_1
}

type closure_env_next_0 struct {
    cell_0 *ref_int32_x
}

type closure_env_reset_1 struct {
    cell_0 *ref_int32_x
}

func make_counter() Tuple2_closure_env_next_0_closure_env_reset_1 {
    var ret20 Tuple2_closure_env_next_0_closure_env_reset_1
    var cell__0 *ref_int32_x = ref__Ref_int32(0)
    var next__2 closure_env_next_0 = closure_env_next_0{
        cell_0: cell__0,
    }
    var reset__3 closure_env_reset_1 = closure_env_reset_1{
        cell_0: cell__0,
    }
    ret20 = Tuple2_closure_env_next_0_closure_env_reset_1{
        _0: next__2,
        _1: reset__3,
    }
    return ret20
}

func main0() struct{} {
    var ret21 struct{}
    var counter__4 Tuple2_closure_env_next_0_closure_env_reset_1 = make_counter()
    var mtmp2 Tuple2_closure_env_next_0_closure_env_reset_1 = counter__4
    var x3 closure_env_next_0 = mtmp2._0
    var x4 closure_env_reset_1 = mtmp2._1
    var reset__6 closure_env_reset_1 = x4
    var next__5 closure_env_next_0 = x3
    var first__7 int32 = _goml_inherent_closure_env_next_0_closure_env_next_0_apply(next__5)
    var second__8 int32 = _goml_inherent_closure_env_next_0_closure_env_next_0_apply(next__5)
    _goml_inherent_closure_env_reset_1_closure_env_reset_1_apply(reset__6)
    var third__9 int32 = _goml_inherent_closure_env_next_0_closure_env_next_0_apply(next__5)
    var new_counter__10 Tuple2_closure_env_next_0_closure_env_reset_1 = make_counter()
    var mtmp6 Tuple2_closure_env_next_0_closure_env_reset_1 = new_counter__10
    var x7 closure_env_next_0 = mtmp6._0
    var new_next__11 closure_env_next_0 = x7
    var fourth__12 int32 = _goml_inherent_closure_env_next_0_closure_env_next_0_apply(new_next__11)
    var t15 string = int32_to_string(first__7)
    string_println(t15)
    var t16 string = int32_to_string(second__8)
    string_println(t16)
    var t17 string = int32_to_string(third__9)
    string_println(t17)
    var t18 string = int32_to_string(fourth__12)
    string_println(t18)
    ret21 = struct{}{}
    return ret21
}

func _goml_inherent_closure_env_next_0_closure_env_next_0_apply(env13 closure_env_next_0) int32 {
    var ret22 int32
    var cell__0 *ref_int32_x = env13.cell_0
    var t19 int32 = ref_get__Ref_int32(cell__0)
    var next__1 int32 = t19 + 1
    ref_set__Ref_int32(cell__0, next__1)
    ret22 = next__1
    return ret22
}

func _goml_inherent_closure_env_reset_1_closure_env_reset_1_apply(env14 closure_env_reset_1) struct{} {
    var ret23 struct{}
    var cell__0 *ref_int32_x = env14.cell_0
    ref_set__Ref_int32(cell__0, 0)
    ret23 = struct{}{}
    return ret23
}

func main() {
    main0()
}
