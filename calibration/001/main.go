package main

import (
    "fmt"
)

func bool_to_string(x bool) string {
    if x {
        return "true"
    } else {
        return "false"
    }
}

func string_print(s string) struct{} {
    fmt.Print(s)
    return struct{}{}
}

type Tuple2_bool_bool struct {
    _0 bool
    _1 bool
}

type Tuple3_bool_bool_Tuple2_bool_bool struct {
    _0 bool
    _1 bool
    _2 Tuple2_bool_bool
}

func main0() struct{} {
    var ret9 struct{}
    var t7 Tuple2_bool_bool = Tuple2_bool_bool{
        _0: true,
        _1: false,
    }
    var a__0 Tuple3_bool_bool_Tuple2_bool_bool = Tuple3_bool_bool_Tuple2_bool_bool{
        _0: true,
        _1: false,
        _2: t7,
    }
    var x3 Tuple2_bool_bool = a__0._2
    var x5 bool = x3._1
    var w__4 bool = x5
    var b__5 bool = w__4
    var t8 string = bool_to_string(b__5)
    string_print(t8)
    ret9 = struct{}{}
    return ret9
}

func main() {
    main0()
}
