package main

import (
    "fmt"
)

func bool_to_string(x bool) string {
    if x {
        return "true"
    } else {
        return "false"
    }
}

func string_println(s string) struct{} {
    fmt.Println(s)
    return struct{}{}
}

type Tuple2_int8_int16 struct {
    _0 int8
    _1 int16
}

type PairData struct {
    head int32
    tail int64
}

func is_special8(value__0 int8) bool {
    var ret22 bool
    switch value__0 {
    case 5:
        ret22 = true
    case 7:
        ret22 = true
    default:
        ret22 = false
    }
    return ret22
}

func is_special16(value__1 int16) bool {
    var ret23 bool
    switch value__1 {
    case 1024:
        ret23 = true
    case 2048:
        ret23 = true
    default:
        ret23 = false
    }
    return ret23
}

func is_special32(value__2 int32) bool {
    var ret24 bool
    switch value__2 {
    case 4096:
        ret24 = true
    case 8192:
        ret24 = true
    default:
        ret24 = false
    }
    return ret24
}

func is_special64(value__3 int64) bool {
    var ret25 bool
    switch value__3 {
    case 16384:
        ret25 = true
    case 32768:
        ret25 = true
    default:
        ret25 = false
    }
    return ret25
}

func match_tuple(values__4 Tuple2_int8_int16) bool {
    var ret26 bool
    var x0 int8 = values__4._0
    var x1 int16 = values__4._1
    switch x1 {
    case 2:
        switch x0 {
        case 1:
            ret26 = true
        default:
            ret26 = false
        }
    default:
        ret26 = false
    }
    return ret26
}

func match_struct(pair__5 PairData) bool {
    var ret27 bool
    var x2 int32 = pair__5.head
    var x3 int64 = pair__5.tail
    switch x3 {
    case 200:
        switch x2 {
        case 100:
            ret27 = true
        default:
            ret27 = false
        }
    case 300:
        ret27 = true
    default:
        ret27 = false
    }
    return ret27
}

func report(label__6 string, value__7 bool) string {
    var ret28 string
    var t5 string = bool_to_string(value__7)
    ret28 = label__6 + t5
    return ret28
}

func main0() struct{} {
    var ret29 struct{}
    var tuple_first__8 int8 = 1
    var tuple_second__9 int16 = 2
    var t6 Tuple2_int8_int16 = Tuple2_int8_int16{
        _0: tuple_first__8,
        _1: tuple_second__9,
    }
    var tuple_result_hit__10 bool = match_tuple(t6)
    var t7 Tuple2_int8_int16 = Tuple2_int8_int16{
        _0: 3,
        _1: 4,
    }
    var tuple_result_miss__11 bool = match_tuple(t7)
    var t8 PairData = PairData{
        head: 100,
        tail: 200,
    }
    var pair_first__12 bool = match_struct(t8)
    var t9 PairData = PairData{
        head: 10,
        tail: 300,
    }
    var pair_second__13 bool = match_struct(t9)
    var t10 bool = is_special8(5)
    var part1__14 string = report("int8=", t10)
    var t11 bool = is_special16(1024)
    var part2__15 string = report(",int16=", t11)
    var t12 bool = is_special32(8192)
    var part3__16 string = report(",int32=", t12)
    var t13 bool = is_special64(16384)
    var part4__17 string = report(",int64_a=", t13)
    var t14 bool = is_special64(32768)
    var part5__18 string = report(",int64_b=", t14)
    var part6__19 string = report(",tuple_hit=", tuple_result_hit__10)
    var part7__20 string = report(",tuple_miss=", tuple_result_miss__11)
    var part8__21 string = report(",struct_first=", pair_first__12)
    var part9__22 string = report(",struct_second=", pair_second__13)
    var t21 string = part1__14 + part2__15
    var t20 string = t21 + part3__16
    var t19 string = t20 + part4__17
    var t18 string = t19 + part5__18
    var t17 string = t18 + part6__19
    var t16 string = t17 + part7__20
    var t15 string = t16 + part8__21
    var message__23 string = t15 + part9__22
    string_println(message__23)
    ret29 = struct{}{}
    return ret29
}

func main() {
    main0()
}
