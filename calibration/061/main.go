package main

import (
    "fmt"
)

func int32_to_string(x int32) string {
    return fmt.Sprintf("%d", x)
}

func string_println(s string) struct{} {
    fmt.Println(s)
    return struct{}{}
}

type Point struct {
    x int32
    y int32
    color Color
}

type Line struct {
    from Point
    to Point
    color Color
}

type Color interface {
    isColor()
}

type Red struct {}

func (_ Red) isColor() {}

type Green struct {}

func (_ Green) isColor() {}

type Blue struct {}

func (_ Blue) isColor() {}

type LineList interface {
    isLineList()
}

type Nil struct {}

func (_ Nil) isLineList() {}

type Cons struct {
    _0 Line
    _1 LineList
}

func (_ Cons) isLineList() {}

func _goml_inherent_Color_Color_to_string(self__0 Color) string {
    var ret43 string
    switch self__0.(type) {
    case Red:
        ret43 = "Color::Red"
    case Green:
        ret43 = "Color::Green"
    case Blue:
        ret43 = "Color::Blue"
    }
    return ret43
}

func _goml_inherent_Point_Point_to_string(self__1 Point) string {
    var ret44 string
    var mtmp0 Point = self__1
    var x1 int32 = mtmp0.x
    var x2 int32 = mtmp0.y
    var x3 Color = mtmp0.color
    var color__4 Color = x3
    var y__3 int32 = x2
    var x__2 int32 = x1
    var t18 string = "Point { " + "x: "
    var t19 string = int32_to_string(x__2)
    var t17 string = t18 + t19
    var t16 string = t17 + ", "
    var t15 string = t16 + "y: "
    var t20 string = int32_to_string(y__3)
    var t14 string = t15 + t20
    var t13 string = t14 + ", "
    var t12 string = t13 + "color: "
    var t21 string = _goml_inherent_Color_Color_to_string(color__4)
    var t11 string = t12 + t21
    ret44 = t11 + " }"
    return ret44
}

func _goml_inherent_Point_Point_new(x__5 int32, y__6 int32, color__7 Color) Point {
    var ret45 Point
    ret45 = Point{
        x: x__5,
        y: y__6,
        color: color__7,
    }
    return ret45
}

func _goml_inherent_Line_Line_to_string(self__8 Line) string {
    var ret46 string
    var mtmp4 Line = self__8
    var x5 Point = mtmp4.from
    var x6 Point = mtmp4.to
    var x7 Color = mtmp4.color
    var color__11 Color = x7
    var to__10 Point = x6
    var from__9 Point = x5
    var t29 string = "Line { " + "from: "
    var t30 string = _goml_inherent_Point_Point_to_string(from__9)
    var t28 string = t29 + t30
    var t27 string = t28 + ", "
    var t26 string = t27 + "to: "
    var t31 string = _goml_inherent_Point_Point_to_string(to__10)
    var t25 string = t26 + t31
    var t24 string = t25 + ", "
    var t23 string = t24 + "color: "
    var t32 string = _goml_inherent_Color_Color_to_string(color__11)
    var t22 string = t23 + t32
    ret46 = t22 + " }"
    return ret46
}

func _goml_inherent_Line_Line_new(from__12 Point, to__13 Point, color__14 Color) Line {
    var ret47 Line
    ret47 = Line{
        from: from__12,
        to: to__13,
        color: color__14,
    }
    return ret47
}

func _goml_inherent_LineList_LineList_to_string(self__15 LineList) string {
    var ret48 string
    switch self__15 := self__15.(type) {
    case Nil:
        ret48 = "LineList::Nil"
    case Cons:
        var x8 Line = self__15._0
        var x9 LineList = self__15._1
        var __field1__17 LineList = x9
        var __field0__16 Line = x8
        var t36 string = _goml_inherent_Line_Line_to_string(__field0__16)
        var t35 string = "LineList::Cons(" + t36
        var t34 string = t35 + ", "
        var t37 string = _goml_inherent_LineList_LineList_to_string(__field1__17)
        var t33 string = t34 + t37
        ret48 = t33 + ")"
    }
    return ret48
}

func main0() struct{} {
    var ret49 struct{}
    var t38 Color = Red{}
    var from__18 Point = _goml_inherent_Point_Point_new(10, 20, t38)
    var t39 Color = Green{}
    var to__19 Point = _goml_inherent_Point_Point_new(30, 40, t39)
    var t40 Color = Blue{}
    var line__20 Line = _goml_inherent_Line_Line_new(from__18, to__19, t40)
    var t41 LineList = Nil{}
    var lines__21 LineList = Cons{
        _0: line__20,
        _1: t41,
    }
    var t42 string = _goml_inherent_LineList_LineList_to_string(lines__21)
    string_println(t42)
    ret49 = struct{}{}
    return ret49
}

func main() {
    main0()
}
