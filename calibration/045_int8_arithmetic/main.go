package main

import (
    "fmt"
)

func bool_to_string(x bool) string {
    if x {
        return "true"
    } else {
        return "false"
    }
}

func int8_to_string(x int8) string {
    return fmt.Sprintf("%d", x)
}

func string_println(s string) struct{} {
    fmt.Println(s)
    return struct{}{}
}

func a_value() int8 {
    var ret15 int8
    ret15 = 90
    return ret15
}

func b_value() int8 {
    var ret16 int8
    ret16 = -20
    return ret16
}

func c_value() int8 {
    var ret17 int8
    ret17 = 3
    return ret17
}

func show_int8(label__0 string, value__1 int8) struct{} {
    var ret18 struct{}
    var t12 string = int8_to_string(value__1)
    var t11 string = label__0 + t12
    string_println(t11)
    ret18 = struct{}{}
    return ret18
}

func show_bool(label__2 string, value__3 bool) struct{} {
    var ret19 struct{}
    var t14 string = bool_to_string(value__3)
    var t13 string = label__2 + t14
    string_println(t13)
    ret19 = struct{}{}
    return ret19
}

func main0() struct{} {
    var ret20 struct{}
    var a__4 int8 = a_value()
    var b__5 int8 = b_value()
    var c__6 int8 = c_value()
    var sum__7 int8 = a__4 + b__5
    var diff__8 int8 = a__4 - c__6
    var prod__9 int8 = b__5 * c__6
    var quot__10 int8 = a__4 / c__6
    var neg__11 int8 = -b__5
    var less__12 bool = b__5 < a__4
    show_int8("a=", a__4)
    show_int8("b=", b__5)
    show_int8("c=", c__6)
    show_int8("sum=", sum__7)
    show_int8("diff=", diff__8)
    show_int8("prod=", prod__9)
    show_int8("quot=", quot__10)
    show_int8("neg=", neg__11)
    show_bool("b<a=", less__12)
    ret20 = struct{}{}
    return ret20
}

func main() {
    main0()
}
