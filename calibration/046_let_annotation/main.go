package main

import (
    "fmt"
)

func int8_to_string(x int8) string {
    return fmt.Sprintf("%d", x)
}

func int32_to_string(x int32) string {
    return fmt.Sprintf("%d", x)
}

func string_println(s string) struct{} {
    fmt.Println(s)
    return struct{}{}
}

func main0() struct{} {
    var ret6 struct{}
    var x__0 int32 = 1
    var y__1 int8 = 1
    var t3 string = int32_to_string(x__0)
    var t2 string = "int32: " + t3
    string_println(t2)
    var t5 string = int8_to_string(y__1)
    var t4 string = "int8: " + t5
    string_println(t4)
    ret6 = struct{}{}
    return ret6
}

func main() {
    main0()
}
