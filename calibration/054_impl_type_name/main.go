package main

import (
    "fmt"
)

func int32_to_string(x int32) string {
    return fmt.Sprintf("%d", x)
}

func string_println(s string) struct{} {
    fmt.Println(s)
    return struct{}{}
}

type Point struct {
    x int32
    y int32
}

type Shape interface {
    isShape()
}

type Unit struct {}

func (_ Unit) isShape() {}

type Location struct {
    _0 Point
}

func (_ Location) isShape() {}

func _goml_trait_impl_TypeName_Point_type_name(self__0 Point) string {
    var ret16 string
    var mtmp0 Point = self__0
    var x1 int32 = mtmp0.x
    var x2 int32 = mtmp0.y
    var y__2 int32 = x2
    var x__1 int32 = x1
    var t7 string = int32_to_string(x__1)
    var prefix__3 string = "Point(" + t7
    var t9 string = prefix__3 + ", "
    var t10 string = int32_to_string(y__2)
    var t8 string = t9 + t10
    ret16 = t8 + ")"
    return ret16
}

func _goml_trait_impl_TypeName_Shape_type_name(self__4 Shape) string {
    var ret17 string
    switch self__4 := self__4.(type) {
    case Unit:
        ret17 = "Unit"
    case Location:
        var x3 Point = self__4._0
        var point__5 Point = x3
        var t11 string = _goml_trait_impl_TypeName_Point_type_name(point__5)
        ret17 = "Shape::" + t11
    }
    return ret17
}

func show_point(point__6 Point) string {
    var ret18 string
    ret18 = _goml_trait_impl_TypeName_Point_type_name(point__6)
    return ret18
}

func show_shape(shape__7 Shape) string {
    var ret19 string
    ret19 = _goml_trait_impl_TypeName_Shape_type_name(shape__7)
    return ret19
}

func main0() struct{} {
    var ret20 struct{}
    var point__8 Point = Point{
        x: 7,
        y: 9,
    }
    var t12 string = show_point(point__8)
    string_println(t12)
    var unit_shape__9 Shape = Unit{}
    var t13 string = show_shape(unit_shape__9)
    string_println(t13)
    var t14 Point = Point{
        x: 1,
        y: 2,
    }
    var location_shape__10 Shape = Location{
        _0: t14,
    }
    var t15 string = show_shape(location_shape__10)
    string_println(t15)
    ret20 = struct{}{}
    return ret20
}

func main() {
    main0()
}
