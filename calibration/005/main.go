package main

import (
    "fmt"
)

func int32_to_string(x int32) string {
    return fmt.Sprintf("%d", x)
}

func string_print(s string) struct{} {
    fmt.Print(s)
    return struct{}{}
}

type Tuple2_Color_Color struct {
    _0 Color
    _1 Color
}

type Color interface {
    isColor()
}

type Red struct {}

func (_ Red) isColor() {}

type Green struct {}

func (_ Green) isColor() {}

type Blue struct {}

func (_ Blue) isColor() {}

func main0() struct{} {
    var ret13 struct{}
    var t2 Color = Blue{}
    var t3 Color = Red{}
    var a__0 Tuple2_Color_Color = Tuple2_Color_Color{
        _0: t2,
        _1: t3,
    }
    var x0 Color = a__0._0
    var x1 Color = a__0._1
    switch x1.(type) {
    case Red:
        switch x0.(type) {
        case Red:
            var t4 string = int32_to_string(1)
            ret13 = string_print(t4)
        case Green:
            var t5 string = int32_to_string(3)
            ret13 = string_print(t5)
        case Blue:
            var t6 string = int32_to_string(3)
            ret13 = string_print(t6)
        }
    case Green:
        switch x0.(type) {
        case Red:
            var t7 string = int32_to_string(0)
            ret13 = string_print(t7)
        case Green:
            var t8 string = int32_to_string(3)
            ret13 = string_print(t8)
        case Blue:
            var t9 string = int32_to_string(3)
            ret13 = string_print(t9)
        }
    case Blue:
        switch x0.(type) {
        case Red:
            var t10 string = int32_to_string(3)
            ret13 = string_print(t10)
        case Green:
            var t11 string = int32_to_string(3)
            ret13 = string_print(t11)
        case Blue:
            var t12 string = int32_to_string(2)
            ret13 = string_print(t12)
        }
    }
    return ret13
}

func main() {
    main0()
}
