package main

import (
    "fmt"
)

func string_print(s string) struct{} {
    fmt.Print(s)
    return struct{}{}
}

func string_println(s string) struct{} {
    fmt.Println(s)
    return struct{}{}
}

func main0() struct{} {
    var ret2 struct{}
    var s__0 string = "abcde"
    string_println(s__0)
    string_print(s__0)
    ret2 = struct{}{}
    return ret2
}

func main() {
    main0()
}
