package main

import (
    "fmt"
)

func bool_to_string(x bool) string {
    if x {
        return "true"
    } else {
        return "false"
    }
}

func int32_to_string(x int32) string {
    return fmt.Sprintf("%d", x)
}

func string_println(s string) struct{} {
    fmt.Println(s)
    return struct{}{}
}

func array_get__Array_2_Fn_int32_to_int32(arr [2]func(int32) int32, index int32) func(int32) int32 {
    return arr[index]
}

func array_get__Array_2_int32(arr [2]int32, index int32) int32 {
    return arr[index]
}

func array_set__Array_2_int32(arr [2]int32, index int32, value int32) [2]int32 {
    arr[index] = value
    return arr
}

type ref_int32_x struct {
    value int32
}

func ref__Ref_int32(value int32) *ref_int32_x {
    return &ref_int32_x{
        value: value,
    }
}

func ref_get__Ref_int32(reference *ref_int32_x) int32 {
    return reference.value
}

func ref_set__Ref_int32(reference *ref_int32_x, value int32) struct{} {
    reference.value = value
    return struct{}{}
}

type ref_bool_x struct {
    value bool
}

func ref__Ref_bool(value bool) *ref_bool_x {
    return &ref_bool_x{
        value: value,
    }
}

func ref_get__Ref_bool(reference *ref_bool_x) bool {
    return reference.value
}

func ref_set__Ref_bool(reference *ref_bool_x, value bool) struct{} {
    reference.value = value
    return struct{}{}
}

type Tuple2_string_string struct {
    _0 string
    _1 string
}

type Tuple4_Tracker_closure_env_snapshot_0_closure_env_bump_1_closure_env_flip_2 struct {
    _0 Tracker
    _1 closure_env_snapshot_0
    _2 closure_env_bump_1
    _3 closure_env_flip_2
}

type Tracker struct {
    label string
    count *ref_int32_x
    toggled *ref_bool_x
}

type closure_env_snapshot_0 struct {
    count_0 *ref_int32_x
}

type closure_env_bump_1 struct {
    count_0 *ref_int32_x
}

type closure_env_flip_2 struct {
    toggled_0 *ref_bool_x
}

type Record__int32 interface {
    isRecord__int32()
}

type Record__int32_Value struct {
    _0 int32
}

func (_ Record__int32_Value) isRecord__int32() {}

type Record__int32_Pair struct {
    _0 int32
    _1 int32
}

func (_ Record__int32_Pair) isRecord__int32() {}

type Record__int32_Empty struct {}

func (_ Record__int32_Empty) isRecord__int32() {}

type Record__string interface {
    isRecord__string()
}

type Record__string_Value struct {
    _0 string
}

func (_ Record__string_Value) isRecord__string() {}

type Record__string_Pair struct {
    _0 string
    _1 string
}

func (_ Record__string_Pair) isRecord__string() {}

type Record__string_Empty struct {}

func (_ Record__string_Empty) isRecord__string() {}

type Maybe__int32 interface {
    isMaybe__int32()
}

type Maybe__int32_Some struct {
    _0 int32
}

func (_ Maybe__int32_Some) isMaybe__int32() {}

type Maybe__int32_None struct {}

func (_ Maybe__int32_None) isMaybe__int32() {}

type Maybe__string interface {
    isMaybe__string()
}

type Maybe__string_Some struct {
    _0 string
}

func (_ Maybe__string_Some) isMaybe__string() {}

type Maybe__string_None struct {}

func (_ Maybe__string_None) isMaybe__string() {}

func _goml_trait_impl_Describe_Tracker_describe(self__0 Tracker) string {
    var ret61 string
    var mtmp0 Tracker = self__0
    var x1 string = mtmp0.label
    var x2 *ref_int32_x = mtmp0.count
    var x3 *ref_bool_x = mtmp0.toggled
    var toggled__3 *ref_bool_x = x3
    var count__2 *ref_int32_x = x2
    var label__1 string = x1
    var current__4 int32 = ref_get__Ref_int32(count__2)
    var flag__5 bool = ref_get__Ref_bool(toggled__3)
    var with_label__6 string = "Tracker(" + label__1
    var with_count_label__7 string = with_label__6 + ", count: "
    var t35 string = int32_to_string(current__4)
    var with_count__8 string = with_count_label__7 + t35
    var with_flag_label__9 string = with_count__8 + ", toggled: "
    var t37 string = bool_to_string(flag__5)
    var t36 string = with_flag_label__9 + t37
    ret61 = t36 + ")"
    return ret61
}

func _goml_trait_impl_Describe_Record_x5b_int32_x5d__describe(self__10 Record__int32) string {
    var ret62 string
    switch self__10 := self__10.(type) {
    case Record__int32_Value:
        var x4 int32 = self__10._0
        var value__11 int32 = x4
        var t39 string = int32_to_string(value__11)
        var t38 string = "Value(" + t39
        ret62 = t38 + ")"
    case Record__int32_Pair:
        var x5 int32 = self__10._0
        var x6 int32 = self__10._1
        var after__13 int32 = x6
        var before__12 int32 = x5
        var t40 string = int32_to_string(before__12)
        var prefix__14 string = "Pair(" + t40
        var t42 string = prefix__14 + ", "
        var t43 string = int32_to_string(after__13)
        var t41 string = t42 + t43
        ret62 = t41 + ")"
    case Record__int32_Empty:
        ret62 = "Empty"
    }
    return ret62
}

func _goml_trait_impl_Describe_Record_x5b_string_x5d__describe(self__15 Record__string) string {
    var ret63 string
    switch self__15 := self__15.(type) {
    case Record__string_Value:
        var x7 string = self__15._0
        var text__16 string = x7
        var t44 string = "Value(" + text__16
        ret63 = t44 + ")"
    case Record__string_Pair:
        var x8 string = self__15._0
        var x9 string = self__15._1
        var after__18 string = x9
        var before__17 string = x8
        var prefix__19 string = "Pair(" + before__17
        var t46 string = prefix__19 + ", "
        var t45 string = t46 + after__18
        ret63 = t45 + ")"
    case Record__string_Empty:
        ret63 = "Empty"
    }
    return ret63
}

func format_total(total__26 int32) string {
    var ret64 string
    var t47 string = int32_to_string(total__26)
    ret64 = "total: " + t47
    return ret64
}

func increment(value__27 int32) int32 {
    var ret65 int32
    ret65 = value__27 + 1
    return ret65
}

func triple(value__28 int32) int32 {
    var ret66 int32
    ret66 = value__28 * 3
    return ret66
}

func pair_join(parts__29 Tuple2_string_string) string {
    var ret67 string
    var mtmp11 Tuple2_string_string = parts__29
    var x12 string = mtmp11._0
    var x13 string = mtmp11._1
    var right__31 string = x13
    var left__30 string = x12
    var t48 string = left__30 + " -> "
    ret67 = t48 + right__31
    return ret67
}

func run_transforms(value__32 int32, transforms__33 [2]func(int32) int32) [2]int32 {
    var ret68 [2]int32
    var first__34 func(int32) int32 = array_get__Array_2_Fn_int32_to_int32(transforms__33, 0)
    var second__35 func(int32) int32 = array_get__Array_2_Fn_int32_to_int32(transforms__33, 1)
    var first_result__36 int32 = first__34(value__32)
    var second_result__37 int32 = second__35(first_result__36)
    var t49 [2]int32 = [2]int32{first_result__36, value__32}
    ret68 = array_set__Array_2_int32(t49, 1, second_result__37)
    return ret68
}

func gather(record__38 Record__int32) Maybe__int32 {
    var ret69 Maybe__int32
    switch record__38 := record__38.(type) {
    case Record__int32_Value:
        var x14 int32 = record__38._0
        var value__39 int32 = x14
        ret69 = Maybe__int32_Some{
            _0: value__39,
        }
    case Record__int32_Pair:
        var x16 int32 = record__38._1
        var after__40 int32 = x16
        ret69 = Maybe__int32_Some{
            _0: after__40,
        }
    case Record__int32_Empty:
        ret69 = Maybe__int32_None{}
    }
    return ret69
}

func build_counter(label__41 string, start__42 int32) Tuple4_Tracker_closure_env_snapshot_0_closure_env_bump_1_closure_env_flip_2 {
    var ret70 Tuple4_Tracker_closure_env_snapshot_0_closure_env_bump_1_closure_env_flip_2
    var count__43 *ref_int32_x = ref__Ref_int32(start__42)
    var toggled__44 *ref_bool_x = ref__Ref_bool(false)
    var tracker__45 Tracker = Tracker{
        label: label__41,
        count: count__43,
        toggled: toggled__44,
    }
    var snapshot__46 closure_env_snapshot_0 = closure_env_snapshot_0{
        count_0: count__43,
    }
    var bump__49 closure_env_bump_1 = closure_env_bump_1{
        count_0: count__43,
    }
    var flip__52 closure_env_flip_2 = closure_env_flip_2{
        toggled_0: toggled__44,
    }
    ret70 = Tuple4_Tracker_closure_env_snapshot_0_closure_env_bump_1_closure_env_flip_2{
        _0: tracker__45,
        _1: snapshot__46,
        _2: bump__49,
        _3: flip__52,
    }
    return ret70
}

func main0() struct{} {
    var ret71 struct{}
    var mtmp19 Tuple4_Tracker_closure_env_snapshot_0_closure_env_bump_1_closure_env_flip_2 = build_counter("goml", 2)
    var x20 Tracker = mtmp19._0
    var x21 closure_env_snapshot_0 = mtmp19._1
    var x22 closure_env_bump_1 = mtmp19._2
    var x23 closure_env_flip_2 = mtmp19._3
    var flip__56 closure_env_flip_2 = x23
    var bump__55 closure_env_bump_1 = x22
    var snapshot__54 closure_env_snapshot_0 = x21
    var tracker__53 Tracker = x20
    var tracker_info__57 string = _goml_trait_impl_Describe_Tracker_describe(tracker__53)
    var first_record__58 Record__int32 = _goml_inherent_closure_env_snapshot_0_closure_env_snapshot_0_apply(snapshot__54)
    var bumped_record__59 Record__int32 = _goml_inherent_closure_env_bump_1_closure_env_bump_1_apply(bump__55, 5)
    var flipped_record__60 Record__string = _goml_inherent_closure_env_flip_2_closure_env_flip_2_apply(flip__56)
    var maybe_first__61 Maybe__int32 = gather(first_record__58)
    var maybe_second__62 Maybe__int32 = gather(bumped_record__59)
    var chosen__63 Maybe__int32 = _goml_choose__T_Maybe_x5b_int32_x5d_(true, maybe_second__62, maybe_first__61)
    var stringified__64 Maybe__string = map_maybe__T_int32__U_string(chosen__63, format_total)
    var transforms__65 [2]func(int32) int32 = [2]func(int32) int32{increment, triple}
    var results__66 [2]int32 = run_transforms(4, transforms__65)
    var first_result__67 int32 = array_get__Array_2_int32(results__66, 0)
    var second_result__68 int32 = array_get__Array_2_int32(results__66, 1)
    var t50 bool = first_result__67 < second_result__68
    var order_check__69 bool = t50 && true
    var first_text__70 string = _goml_trait_impl_Describe_Record_x5b_int32_x5d__describe(first_record__58)
    var bumped_text__71 string = _goml_trait_impl_Describe_Record_x5b_int32_x5d__describe(bumped_record__59)
    var flipped_text__72 string = _goml_trait_impl_Describe_Record_x5b_string_x5d__describe(flipped_record__60)
    var summary__74 string
    switch stringified__64 := stringified__64.(type) {
    case Maybe__string_Some:
        var x24 string = stringified__64._0
        var text__73 string = x24
        summary__74 = "Snapshot: " + text__73
    case Maybe__string_None:
        summary__74 = "Snapshot: none"
    }
    var t52 string = int32_to_string(first_result__67)
    var t53 string = int32_to_string(second_result__68)
    var t51 Tuple2_string_string = Tuple2_string_string{
        _0: t52,
        _1: t53,
    }
    var pair_text__75 string = pair_join(t51)
    var bool_text__76 string = bool_to_string(order_check__69)
    string_println(tracker_info__57)
    string_println(first_text__70)
    string_println(bumped_text__71)
    string_println(flipped_text__72)
    string_println(summary__74)
    string_println(pair_text__75)
    string_println(bool_text__76)
    ret71 = struct{}{}
    return ret71
}

func _goml_choose__T_Maybe_x5b_int32_x5d_(flag__20 bool, when_true__21 Maybe__int32, when_false__22 Maybe__int32) Maybe__int32 {
    var ret72 Maybe__int32
    if flag__20 {
        ret72 = when_true__21
    } else {
        ret72 = when_false__22
    }
    return ret72
}

func map_maybe__T_int32__U_string(value__23 Maybe__int32, f__24 func(int32) string) Maybe__string {
    var ret73 Maybe__string
    switch value__23 := value__23.(type) {
    case Maybe__int32_Some:
        var x10 int32 = value__23._0
        var inner__25 int32 = x10
        var t54 string = f__24(inner__25)
        ret73 = Maybe__string_Some{
            _0: t54,
        }
    case Maybe__int32_None:
        ret73 = Maybe__string_None{}
    }
    return ret73
}

func _goml_inherent_closure_env_snapshot_0_closure_env_snapshot_0_apply(env32 closure_env_snapshot_0) Record__int32 {
    var ret74 Record__int32
    var count__43 *ref_int32_x = env32.count_0
    var t55 int32 = ref_get__Ref_int32(count__43)
    ret74 = Record__int32_Value{
        _0: t55,
    }
    return ret74
}

func _goml_inherent_closure_env_bump_1_closure_env_bump_1_apply(env33 closure_env_bump_1, delta__47 int32) Record__int32 {
    var ret75 Record__int32
    var count__43 *ref_int32_x = env33.count_0
    var before__48 int32 = ref_get__Ref_int32(count__43)
    var t56 int32 = before__48 + delta__47
    ref_set__Ref_int32(count__43, t56)
    var t57 int32 = ref_get__Ref_int32(count__43)
    ret75 = Record__int32_Pair{
        _0: before__48,
        _1: t57,
    }
    return ret75
}

func _goml_inherent_closure_env_flip_2_closure_env_flip_2_apply(env34 closure_env_flip_2) Record__string {
    var ret76 Record__string
    var toggled__44 *ref_bool_x = env34.toggled_0
    var before__50 bool = ref_get__Ref_bool(toggled__44)
    var t58 bool = !before__50
    ref_set__Ref_bool(toggled__44, t58)
    var after__51 bool = ref_get__Ref_bool(toggled__44)
    var t59 string = bool_to_string(before__50)
    var t60 string = bool_to_string(after__51)
    ret76 = Record__string_Pair{
        _0: t59,
        _1: t60,
    }
    return ret76
}

func main() {
    main0()
}
