package main

import (
    "fmt"
)

func int32_to_string(x int32) string {
    return fmt.Sprintf("%d", x)
}

func string_println(s string) struct{} {
    fmt.Println(s)
    return struct{}{}
}

func match_int(n__0 int32) int32 {
    var ret23 int32
    switch n__0 {
    case 0:
        ret23 = 10
    case 1:
        ret23 = 20
    default:
        ret23 = 30
    }
    return ret23
}

func wildcard_first(n__1 int32) int32 {
    var ret24 int32
    ret24 = 40
    return ret24
}

func wildcard_middle(n__2 int32) int32 {
    var ret25 int32
    switch n__2 {
    case 2:
        ret25 = 90
    case 3:
        ret25 = 100
    default:
        ret25 = 100
    }
    return ret25
}

func repeated(n__3 int32) int32 {
    var ret26 int32
    switch n__3 {
    case 1:
        ret26 = 60
    default:
        ret26 = 80
    }
    return ret26
}

func main0() struct{} {
    var ret27 struct{}
    var t8 int32 = match_int(0)
    var t7 string = int32_to_string(t8)
    string_println(t7)
    var t10 int32 = match_int(5)
    var t9 string = int32_to_string(t10)
    string_println(t9)
    var t12 int32 = wildcard_first(0)
    var t11 string = int32_to_string(t12)
    string_println(t11)
    var t14 int32 = wildcard_first(2)
    var t13 string = int32_to_string(t14)
    string_println(t13)
    var t16 int32 = wildcard_middle(2)
    var t15 string = int32_to_string(t16)
    string_println(t15)
    var t18 int32 = wildcard_middle(3)
    var t17 string = int32_to_string(t18)
    string_println(t17)
    var t20 int32 = repeated(1)
    var t19 string = int32_to_string(t20)
    string_println(t19)
    var t22 int32 = repeated(3)
    var t21 string = int32_to_string(t22)
    ret27 = string_println(t21)
    return ret27
}

func main() {
    main0()
}
