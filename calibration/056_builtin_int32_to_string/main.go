package main

import (
    "fmt"
)

func int32_to_string(x int32) string {
    return fmt.Sprintf("%d", x)
}

func string_println(s string) struct{} {
    fmt.Println(s)
    return struct{}{}
}

func main0() struct{} {
    var ret1 struct{}
    var value__0 int32 = 42
    var text__1 string = int32_to_string(value__0)
    string_println(text__1)
    ret1 = struct{}{}
    return ret1
}

func main() {
    main0()
}
