package main

import (
    "fmt"
)

func int32_to_string(x int32) string {
    return fmt.Sprintf("%d", x)
}

func string_print(s string) struct{} {
    fmt.Print(s)
    return struct{}{}
}

type Expr interface {
    isExpr()
}

type Zero struct {}

func (_ Zero) isExpr() {}

type Succ struct {
    _0 Expr
}

func (_ Succ) isExpr() {}

type Add struct {
    _0 Expr
    _1 Expr
}

func (_ Add) isExpr() {}

type Mul struct {
    _0 Expr
    _1 Expr
}

func (_ Mul) isExpr() {}

func main0() struct{} {
    var ret85 struct{}
    var t51 Expr = Zero{}
    var t52 Expr = Zero{}
    var t50 Expr = Add{
        _0: t51,
        _1: t52,
    }
    var t53 Expr = Zero{}
    var a__0 Expr = Mul{
        _0: t50,
        _1: t53,
    }
    switch a__0 := a__0.(type) {
    case Zero:
        var t54 string = int32_to_string(6)
        ret85 = string_print(t54)
    case Succ:
        var t55 string = int32_to_string(6)
        ret85 = string_print(t55)
    case Add:
        var x1 Expr = a__0._0
        var x2 Expr = a__0._1
        switch x2.(type) {
        case Zero:
            switch x1.(type) {
            case Zero:
                var t56 string = int32_to_string(0)
                ret85 = string_print(t56)
            case Succ:
                var t57 string = int32_to_string(2)
                ret85 = string_print(t57)
            case Add:
                var t58 string = int32_to_string(5)
                ret85 = string_print(t58)
            case Mul:
                var t59 string = int32_to_string(5)
                ret85 = string_print(t59)
            }
        case Succ:
            switch x1.(type) {
            case Zero:
                var t60 string = int32_to_string(6)
                ret85 = string_print(t60)
            case Succ:
                var t61 string = int32_to_string(2)
                ret85 = string_print(t61)
            case Add:
                var t62 string = int32_to_string(6)
                ret85 = string_print(t62)
            case Mul:
                var t63 string = int32_to_string(6)
                ret85 = string_print(t63)
            }
        case Add:
            switch x1.(type) {
            case Zero:
                var t64 string = int32_to_string(6)
                ret85 = string_print(t64)
            case Succ:
                var t65 string = int32_to_string(2)
                ret85 = string_print(t65)
            case Add:
                var t66 string = int32_to_string(6)
                ret85 = string_print(t66)
            case Mul:
                var t67 string = int32_to_string(6)
                ret85 = string_print(t67)
            }
        case Mul:
            switch x1.(type) {
            case Zero:
                var t68 string = int32_to_string(6)
                ret85 = string_print(t68)
            case Succ:
                var t69 string = int32_to_string(2)
                ret85 = string_print(t69)
            case Add:
                var t70 string = int32_to_string(6)
                ret85 = string_print(t70)
            case Mul:
                var t71 string = int32_to_string(6)
                ret85 = string_print(t71)
            }
        }
    case Mul:
        var x3 Expr = a__0._0
        var x4 Expr = a__0._1
        switch x3.(type) {
        case Zero:
            var t72 string = int32_to_string(1)
            ret85 = string_print(t72)
        case Succ:
            switch x4.(type) {
            case Zero:
                var t73 string = int32_to_string(3)
                ret85 = string_print(t73)
            case Succ:
                var t74 string = int32_to_string(6)
                ret85 = string_print(t74)
            case Add:
                var t75 string = int32_to_string(6)
                ret85 = string_print(t75)
            case Mul:
                var t76 string = int32_to_string(6)
                ret85 = string_print(t76)
            }
        case Add:
            switch x4.(type) {
            case Zero:
                var t77 string = int32_to_string(3)
                ret85 = string_print(t77)
            case Succ:
                var t78 string = int32_to_string(4)
                ret85 = string_print(t78)
            case Add:
                var t79 string = int32_to_string(4)
                ret85 = string_print(t79)
            case Mul:
                var t80 string = int32_to_string(4)
                ret85 = string_print(t80)
            }
        case Mul:
            switch x4.(type) {
            case Zero:
                var t81 string = int32_to_string(3)
                ret85 = string_print(t81)
            case Succ:
                var t82 string = int32_to_string(6)
                ret85 = string_print(t82)
            case Add:
                var t83 string = int32_to_string(6)
                ret85 = string_print(t83)
            case Mul:
                var t84 string = int32_to_string(6)
                ret85 = string_print(t84)
            }
        }
    }
    return ret85
}

func main() {
    main0()
}
