package main

import (
    "fmt"
)

func bool_to_string(x bool) string {
    if x {
        return "true"
    } else {
        return "false"
    }
}

func int32_to_string(x int32) string {
    return fmt.Sprintf("%d", x)
}

func string_println(s string) struct{} {
    fmt.Println(s)
    return struct{}{}
}

func main0() struct{} {
    var ret11 struct{}
    var vi__0 []int32 = nil
    var vi__1 []int32 = append(vi__0, 42)
    var val_i__2 int32 = vi__1[0]
    var len_i__3 int32 = int32(len(vi__1))
    var vs__4 []string = nil
    var vs__5 []string = append(vs__4, "hello")
    var vs__6 []string = append(vs__5, "world")
    var val_s__7 string = vs__6[1]
    var len_s__8 int32 = int32(len(vs__6))
    var vb__9 []bool = nil
    var vb__10 []bool = append(vb__9, true)
    var vb__11 []bool = append(vb__10, false)
    var val_b__12 bool = vb__11[0]
    var len_b__13 int32 = int32(len(vb__11))
    var t6 string = int32_to_string(val_i__2)
    string_println(t6)
    var t7 string = int32_to_string(len_i__3)
    string_println(t7)
    string_println(val_s__7)
    var t8 string = int32_to_string(len_s__8)
    string_println(t8)
    var t9 string = bool_to_string(val_b__12)
    string_println(t9)
    var t10 string = int32_to_string(len_b__13)
    string_println(t10)
    ret11 = struct{}{}
    return ret11
}

func main() {
    main0()
}
