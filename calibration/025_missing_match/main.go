package main

func missing(s string) struct{} {
    println("missing: " + s)
    panic("")
    return struct{}{}
}

type Point struct {
    x int32
    y int32
}

func main0() struct{} {
    var ret3 struct{}
    var p0__0 Point = Point{
        x: 0,
        y: 0,
    }
    var mtmp0 Point = p0__0
    var x1 int32 = mtmp0.x
    var x2 int32 = mtmp0.y
    switch x2 {
    case 8:
        switch x1 {
        case 10:
            ret3 = struct{}{}
        default:
            ret3 = missing("")
        }
    default:
        ret3 = missing("")
    }
    return ret3
}

func main() {
    main0()
}
