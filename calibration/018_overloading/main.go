package main

import (
    "fmt"
)

func bool_to_string(x bool) string {
    if x {
        return "true"
    } else {
        return "false"
    }
}

func int32_to_string(x int32) string {
    return fmt.Sprintf("%d", x)
}

func string_println(s string) struct{} {
    fmt.Println(s)
    return struct{}{}
}

func _goml_trait_impl_Arith_int32_add(self__0 int32, other__1 int32) int32 {
    var ret6 int32
    ret6 = self__0 + other__1
    return ret6
}

func _goml_trait_impl_Arith_int32_less(self__2 int32, other__3 int32) bool {
    var ret7 bool
    ret7 = self__2 < other__3
    return ret7
}

func _goml_trait_impl_ToString_int32_to_string(self__4 int32) string {
    var ret8 string
    ret8 = int32_to_string(self__4)
    return ret8
}

func _goml_trait_impl_ToString_bool_to_string(self__5 bool) string {
    var ret9 string
    ret9 = bool_to_string(self__5)
    return ret9
}

func _goml_trait_impl_Output_int32_output(self__6 int32) struct{} {
    var ret10 struct{}
    var t4 string = _goml_trait_impl_ToString_int32_to_string(self__6)
    ret10 = string_println(t4)
    return ret10
}

func _goml_trait_impl_Output_bool_output(self__7 bool) struct{} {
    var ret11 struct{}
    var t5 string = _goml_trait_impl_ToString_bool_to_string(self__7)
    ret11 = string_println(t5)
    return ret11
}

func main0() struct{} {
    var ret12 struct{}
    var a__9 int32 = id__T_int32(1)
    var b__10 int32 = id__T_int32(2)
    var c__11 int32 = _goml_trait_impl_Arith_int32_add(a__9, b__10)
    _goml_trait_impl_Output_int32_output(c__11)
    var a__12 int32 = id__T_int32(3)
    var b__13 int32 = id__T_int32(4)
    var c__14 bool = _goml_trait_impl_Arith_int32_less(a__12, b__13)
    _goml_trait_impl_Output_bool_output(c__14)
    id__T_string("abc")
    id__T_bool(true)
    ret12 = struct{}{}
    return ret12
}

func id__T_int32(x__8 int32) int32 {
    var ret13 int32
    ret13 = x__8
    return ret13
}

func id__T_string(x__8 string) string {
    var ret14 string
    ret14 = x__8
    return ret14
}

func id__T_bool(x__8 bool) bool {
    var ret15 bool
    ret15 = x__8
    return ret15
}

func main() {
    main0()
}
