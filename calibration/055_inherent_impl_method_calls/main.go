package main

import (
    "fmt"
)

func string_println(s string) struct{} {
    fmt.Println(s)
    return struct{}{}
}

type Shape struct {}

func _goml_inherent_Shape_Shape_name(self__0 Shape) string {
    var ret5 string
    ret5 = "Shape"
    return ret5
}

func _goml_inherent_Shape_Shape_rename(self__1 Shape, suffix__2 string) string {
    var ret6 string
    var t2 string = _goml_inherent_Shape_Shape_name(self__1)
    ret6 = t2 + suffix__2
    return ret6
}

func _goml_inherent_Shape_Shape_join(self__3 Shape, left__4 string, right__5 string) string {
    var ret7 string
    var t4 string = _goml_inherent_Shape_Shape_name(self__3)
    var t3 string = left__4 + t4
    ret7 = t3 + right__5
    return ret7
}

func announce(shape__6 Shape) struct{} {
    var ret8 struct{}
    var base__7 string = _goml_inherent_Shape_Shape_name(shape__6)
    var with_suffix__8 string = _goml_inherent_Shape_Shape_rename(shape__6, "!")
    var combined__9 string = _goml_inherent_Shape_Shape_join(shape__6, base__7, with_suffix__8)
    string_println(combined__9)
    ret8 = struct{}{}
    return ret8
}

func main0() struct{} {
    var ret9 struct{}
    var shape__10 Shape = Shape{}
    announce(shape__10)
    ret9 = struct{}{}
    return ret9
}

func main() {
    main0()
}
