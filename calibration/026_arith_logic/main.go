package main

import (
    "fmt"
)

func bool_to_string(x bool) string {
    if x {
        return "true"
    } else {
        return "false"
    }
}

func int32_to_string(x int32) string {
    return fmt.Sprintf("%d", x)
}

func string_println(s string) struct{} {
    fmt.Println(s)
    return struct{}{}
}

func show_int(label__0 string, value__1 int32) struct{} {
    var ret27 struct{}
    var t13 string = int32_to_string(value__1)
    var t12 string = label__0 + t13
    string_println(t12)
    ret27 = struct{}{}
    return ret27
}

func show_bool(label__2 string, value__3 bool) struct{} {
    var ret28 struct{}
    var t15 string = bool_to_string(value__3)
    var t14 string = label__2 + t15
    string_println(t14)
    ret28 = struct{}{}
    return ret28
}

func main0() struct{} {
    var ret29 struct{}
    var base__4 int32 = 10
    var sum__5 int32 = base__4 + 5
    var diff__6 int32 = sum__5 - 3
    var prod__7 int32 = diff__6 * 2
    var quot__8 int32 = prod__7 / 4
    show_int("sum=", sum__5)
    show_int("diff=", diff__6)
    show_int("prod=", prod__7)
    show_int("quot=", quot__8)
    var and_result__9 bool = true && false
    var or_result__10 bool = true || false
    var not_result__11 bool = !false
    var t17 bool = !and_result__9
    var t20 int32 = prod__7 * base__4
    var t19 int32 = sum__5 + t20
    var t21 int32 = prod__7 / 2
    var mtmp6 int32 = t19 - t21
    var t18 bool
    switch mtmp6 {
    case 0:
        t18 = false
    default:
        t18 = true
    }
    var t16 bool = t17 && t18
    var t25 int32 = diff__6 - quot__8
    var t24 int32 = t25 + base__4
    var t26 int32 = sum__5 / 2
    var mtmp7 int32 = t24 - t26
    var t23 bool
    switch mtmp7 {
    case 0:
        t23 = false
    default:
        t23 = true
    }
    var t22 bool = !t23
    var mixed__12 bool = t16 || t22
    show_bool("and=", and_result__9)
    show_bool("or=", or_result__10)
    show_bool("not=", not_result__11)
    show_bool("mixed=", mixed__12)
    ret29 = struct{}{}
    return ret29
}

func main() {
    main0()
}
