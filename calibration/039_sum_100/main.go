package main

import (
    "fmt"
)

func int32_to_string(x int32) string {
    return fmt.Sprintf("%d", x)
}

func string_println(s string) struct{} {
    fmt.Println(s)
    return struct{}{}
}

func my_int_equal(x__0 int32, y__1 int32) bool {
    var ret9 bool
    var t1 bool = x__0 < y__1
    var t0 bool = !t1
    var t3 bool = y__1 < x__0
    var t2 bool = !t3
    ret9 = t0 && t2
    return ret9
}

func sum(n__2 int32) int32 {
    var ret10 int32
    var t4 bool = my_int_equal(n__2, 1)
    if t4 {
        ret10 = 1
    } else {
        var t6 int32 = n__2 - 1
        var t5 int32 = sum(t6)
        ret10 = n__2 + t5
    }
    return ret10
}

func main0() struct{} {
    var ret11 struct{}
    var t8 int32 = sum(100)
    var t7 string = int32_to_string(t8)
    ret11 = string_println(t7)
    return ret11
}

func main() {
    main0()
}
