package main

import (
    "fmt"
)

func int32_to_string(x int32) string {
    return fmt.Sprintf("%d", x)
}

func string_println(s string) struct{} {
    fmt.Println(s)
    return struct{}{}
}

type closure_env_closure_apply_0 struct {}

type closure_env_global_invoker_1 struct {}

type closure_env_composer_closure_2 struct {}

func double(x__0 int32) int32 {
    var ret12 int32
    ret12 = x__0 * 2
    return ret12
}

func increment(x__1 int32) int32 {
    var ret13 int32
    ret13 = x__1 + 1
    return ret13
}

func apply_once(f__2 func(int32) int32, value__3 int32) int32 {
    var ret14 int32
    ret14 = f__2(value__3)
    return ret14
}

func compose(f__4 func(int32) int32, g__5 func(int32) int32, value__6 int32) int32 {
    var ret15 int32
    var t7 int32 = g__5(value__6)
    ret15 = f__4(t7)
    return ret15
}

func main0() struct{} {
    var ret16 struct{}
    var local__7 func(int32) int32 = double
    var first__8 int32 = apply_once(local__7, 4)
    var composed__9 int32 = compose(double, increment, first__8)
    var closure_apply__11 closure_env_closure_apply_0 = closure_env_closure_apply_0{}
    var closure_result__12 int32 = _goml_inherent_closure_env_closure_apply_0_closure_env_closure_apply_0_apply(closure_apply__11, composed__9)
    var global_invoker__15 closure_env_global_invoker_1 = closure_env_global_invoker_1{}
    var invoked_with_global__16 int32 = _goml_inherent_closure_env_global_invoker_1_closure_env_global_invoker_1_apply(global_invoker__15, double, 3)
    var composer_closure__18 closure_env_composer_closure_2 = closure_env_composer_closure_2{}
    var composed_by_closure__19 int32 = _goml_inherent_closure_env_composer_closure_2_closure_env_composer_closure_2_apply(composer_closure__18, 5)
    var printer__20 func(string) struct{} = string_println
    var t8 string = int32_to_string(composed__9)
    printer__20(t8)
    var t9 string = int32_to_string(closure_result__12)
    printer__20(t9)
    var t10 string = int32_to_string(invoked_with_global__16)
    printer__20(t10)
    var t11 string = int32_to_string(composed_by_closure__19)
    printer__20(t11)
    ret16 = struct{}{}
    return ret16
}

func _goml_inherent_closure_env_closure_apply_0_closure_env_closure_apply_0_apply(env4 closure_env_closure_apply_0, value__10 int32) int32 {
    var ret17 int32
    ret17 = apply_once(increment, value__10)
    return ret17
}

func _goml_inherent_closure_env_global_invoker_1_closure_env_global_invoker_1_apply(env5 closure_env_global_invoker_1, func_to_call__13 func(int32) int32, value__14 int32) int32 {
    var ret18 int32
    ret18 = apply_once(func_to_call__13, value__14)
    return ret18
}

func _goml_inherent_closure_env_composer_closure_2_closure_env_composer_closure_2_apply(env6 closure_env_composer_closure_2, value__17 int32) int32 {
    var ret19 int32
    ret19 = compose(double, increment, value__17)
    return ret19
}

func main() {
    main0()
}
