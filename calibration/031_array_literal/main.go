package main

import (
    "fmt"
)

func string_print(s string) struct{} {
    fmt.Print(s)
    return struct{}{}
}

func make_array() [3]int32 {
    var ret3 [3]int32
    ret3 = [3]int32{1, 2, 3}
    return ret3
}

func main0() struct{} {
    var ret4 struct{}
    make_array()
    string_print("array literal")
    ret4 = struct{}{}
    return ret4
}

func main() {
    main0()
}
