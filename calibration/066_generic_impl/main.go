package main

import (
    "fmt"
)

func int32_to_string(x int32) string {
    return fmt.Sprintf("%d", x)
}

func string_println(s string) struct{} {
    fmt.Println(s)
    return struct{}{}
}

type Point__int32__string struct {
    x int32
    y string
}

type Point__string__string struct {
    x string
    y string
}

type Point__string__int32 struct {
    x string
    y int32
}

func main0() struct{} {
    var ret4 struct{}
    var p1__4 Point__int32__string = _goml_inherent_Point_Point_x5b_U_x2c_V_x5d__new__U_int32__V_string(10, "hello")
    var p2__5 Point__string__string = _goml_inherent_Point_Point_x5b_U_x2c_V_x5d__new__U_string__V_string("goml", "lang")
    var p3__6 Point__string__int32 = _goml_inherent_Point_Point_x5b_U_x2c_V_x5d__swap__U_int32__V_string(p1__4)
    var x__7 int32 = p3__6.y
    var t1 string = int32_to_string(x__7)
    string_println(t1)
    var x2__8 string = _goml_inherent_Point_Point_x5b_U_x2c_V_x5d__get_x__U_string__V_string(p2__5)
    ret4 = string_println(x2__8)
    return ret4
}

func _goml_inherent_Point_Point_x5b_U_x2c_V_x5d__new__U_int32__V_string(x__0 int32, y__1 string) Point__int32__string {
    var ret5 Point__int32__string
    ret5 = Point__int32__string{
        x: x__0,
        y: y__1,
    }
    return ret5
}

func _goml_inherent_Point_Point_x5b_U_x2c_V_x5d__new__U_string__V_string(x__0 string, y__1 string) Point__string__string {
    var ret6 Point__string__string
    ret6 = Point__string__string{
        x: x__0,
        y: y__1,
    }
    return ret6
}

func _goml_inherent_Point_Point_x5b_U_x2c_V_x5d__swap__U_int32__V_string(self__2 Point__int32__string) Point__string__int32 {
    var ret7 Point__string__int32
    var t2 string = self__2.y
    var t3 int32 = self__2.x
    ret7 = Point__string__int32{
        x: t2,
        y: t3,
    }
    return ret7
}

func _goml_inherent_Point_Point_x5b_U_x2c_V_x5d__get_x__U_string__V_string(self__3 Point__string__string) string {
    var ret8 string
    ret8 = self__3.x
    return ret8
}

func main() {
    main0()
}
