package main

import (
    "fmt"
)

func bool_to_string(x bool) string {
    if x {
        return "true"
    } else {
        return "false"
    }
}

func string_println(s string) struct{} {
    fmt.Println(s)
    return struct{}{}
}

type Counter struct {
    start uint32
    end uint64
}

func is_flag8(value__0 uint8) bool {
    var ret32 bool
    switch value__0 {
    case 0:
        ret32 = true
    case 200:
        ret32 = true
    default:
        ret32 = false
    }
    return ret32
}

func is_flag16(value__1 uint16) bool {
    var ret33 bool
    switch value__1 {
    case 1024:
        ret33 = true
    case 65000:
        ret33 = true
    default:
        ret33 = false
    }
    return ret33
}

func is_flag32(value__2 uint32) bool {
    var ret34 bool
    switch value__2 {
    case 4000000000:
        ret34 = true
    case 1234567890:
        ret34 = true
    default:
        ret34 = false
    }
    return ret34
}

func is_flag64(value__3 uint64) bool {
    var ret35 bool
    switch value__3 {
    case 900000000:
        ret35 = true
    case 600000000:
        ret35 = true
    default:
        ret35 = false
    }
    return ret35
}

func match_struct(counter__4 Counter) bool {
    var ret36 bool
    var x0 uint32 = counter__4.start
    var x1 uint64 = counter__4.end
    switch x1 {
    case 900000000:
        switch x0 {
        case 4000000000:
            ret36 = true
        default:
            ret36 = false
        }
    case 600000000:
        ret36 = true
    default:
        ret36 = false
    }
    return ret36
}

func report(label__5 string, value__6 bool) string {
    var ret37 string
    var t3 string = bool_to_string(value__6)
    ret37 = label__5 + t3
    return ret37
}

func main0() struct{} {
    var ret38 struct{}
    var counter__7 Counter = Counter{
        start: 4000000000,
        end: 900000000,
    }
    var alt_counter__8 Counter = Counter{
        start: 12,
        end: 600000000,
    }
    var t13 bool = is_flag8(200)
    var t12 string = report("u8_hit=", t13)
    var t15 bool = is_flag8(15)
    var t14 string = report(",u8_miss=", t15)
    var t11 string = t12 + t14
    var t17 bool = is_flag16(65000)
    var t16 string = report(",u16_hit=", t17)
    var t10 string = t11 + t16
    var t19 bool = is_flag16(42)
    var t18 string = report(",u16_miss=", t19)
    var t9 string = t10 + t18
    var t21 bool = is_flag32(1234567890)
    var t20 string = report(",u32_hit=", t21)
    var t8 string = t9 + t20
    var t23 bool = is_flag32(99)
    var t22 string = report(",u32_miss=", t23)
    var t7 string = t8 + t22
    var t25 bool = is_flag64(900000000)
    var t24 string = report(",u64_hit=", t25)
    var t6 string = t7 + t24
    var t27 bool = is_flag64(700000000)
    var t26 string = report(",u64_miss=", t27)
    var t5 string = t6 + t26
    var t29 bool = match_struct(counter__7)
    var t28 string = report(",struct_first=", t29)
    var t4 string = t5 + t28
    var t31 bool = match_struct(alt_counter__8)
    var t30 string = report(",struct_second=", t31)
    var message__9 string = t4 + t30
    string_println(message__9)
    ret38 = struct{}{}
    return ret38
}

func main() {
    main0()
}
