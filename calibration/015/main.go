package main

import (
    "fmt"
)

func int32_to_string(x int32) string {
    return fmt.Sprintf("%d", x)
}

func string_print(s string) struct{} {
    fmt.Print(s)
    return struct{}{}
}

func string_println(s string) struct{} {
    fmt.Println(s)
    return struct{}{}
}

type IntList interface {
    isIntList()
}

type Nil struct {}

func (_ Nil) isIntList() {}

type Cons struct {
    _0 int32
    _1 IntList
}

func (_ Cons) isIntList() {}

func print_int_list(xs__0 IntList) struct{} {
    var ret35 struct{}
    switch xs__0 := xs__0.(type) {
    case Nil:
        ret35 = string_print("Nil")
    case Cons:
        var x0 int32 = xs__0._0
        var x1 IntList = xs__0._1
        var xs__2 IntList = x1
        var x__1 int32 = x0
        string_print("Cons")
        string_print("(")
        var t25 string = int32_to_string(x__1)
        string_print(t25)
        string_print(", ")
        print_int_list(xs__2)
        string_print(")")
        ret35 = struct{}{}
    }
    return ret35
}

func int_list_rev_aux(xs__3 IntList, acc__4 IntList) IntList {
    var ret36 IntList
    switch xs__3 := xs__3.(type) {
    case Nil:
        ret36 = acc__4
    case Cons:
        var x8 int32 = xs__3._0
        var x9 IntList = xs__3._1
        var tail__6 IntList = x9
        var head__5 int32 = x8
        var t26 IntList = Cons{
            _0: head__5,
            _1: acc__4,
        }
        ret36 = int_list_rev_aux(tail__6, t26)
    }
    return ret36
}

func int_list_rev(xs__7 IntList) IntList {
    var ret37 IntList
    var t27 IntList = Nil{}
    ret37 = int_list_rev_aux(xs__7, t27)
    return ret37
}

func int_list_length(xs__8 IntList) int32 {
    var ret38 int32
    switch xs__8 := xs__8.(type) {
    case Nil:
        ret38 = 0
    case Cons:
        var x11 IntList = xs__8._1
        var xs__9 IntList = x11
        var t28 int32 = int_list_length(xs__9)
        ret38 = 1 + t28
    }
    return ret38
}

func print_int_list_length(xs__10 IntList) struct{} {
    var ret39 struct{}
    string_print("Length: ")
    var t30 int32 = int_list_length(xs__10)
    var t29 string = int32_to_string(t30)
    string_println(t29)
    ret39 = struct{}{}
    return ret39
}

func main0() struct{} {
    var ret40 struct{}
    var x__11 IntList = Nil{}
    print_int_list(x__11)
    string_println("")
    print_int_list_length(x__11)
    var t31 IntList = Nil{}
    var x__12 IntList = Cons{
        _0: 1,
        _1: t31,
    }
    print_int_list(x__12)
    string_println("")
    print_int_list_length(x__12)
    var t34 IntList = Nil{}
    var t33 IntList = Cons{
        _0: 3,
        _1: t34,
    }
    var t32 IntList = Cons{
        _0: 2,
        _1: t33,
    }
    var x__13 IntList = Cons{
        _0: 1,
        _1: t32,
    }
    print_int_list(x__13)
    string_println("")
    print_int_list_length(x__13)
    var y__14 IntList = int_list_rev(x__13)
    print_int_list(y__14)
    string_println("")
    ret40 = struct{}{}
    return ret40
}

func main() {
    main0()
}
