package main

import (
    "fmt"
)

func int32_to_string(x int32) string {
    return fmt.Sprintf("%d", x)
}

func string_print(s string) struct{} {
    fmt.Print(s)
    return struct{}{}
}

func fib(x__0 int32) int32 {
    var ret7 int32
    var mtmp0 bool = x__0 < 2
    switch mtmp0 {
    case true:
        ret7 = 1
    case false:
        var t2 int32 = x__0 - 1
        var t1 int32 = fib(t2)
        var t4 int32 = x__0 - 2
        var t3 int32 = fib(t4)
        ret7 = t1 + t3
    }
    return ret7
}

func main0() struct{} {
    var ret8 struct{}
    var t6 int32 = fib(10)
    var t5 string = int32_to_string(t6)
    ret8 = string_print(t5)
    return ret8
}

func main() {
    main0()
}
