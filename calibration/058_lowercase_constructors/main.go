package main

func missing(s string) struct{} {
    println("missing: " + s)
    panic("")
    return struct{}{}
}

type point struct {
    x int32
    y int32
}

type option__int32 interface {
    isoption__int32()
}

type some struct {
    _0 int32
}

func (_ some) isoption__int32() {}

type none struct {}

func (_ none) isoption__int32() {}

func make_some(value__0 int32) option__int32 {
    var ret9 option__int32
    ret9 = some{
        _0: value__0,
    }
    return ret9
}

func build_point(x__1 int32, y__2 int32) point {
    var ret10 point
    ret10 = point{
        x: x__1,
        y: y__2,
    }
    return ret10
}

func magnitude(p__3 point) int32 {
    var ret11 int32
    var mtmp0 point = p__3
    var x1 int32 = mtmp0.x
    var x2 int32 = mtmp0.y
    var y__5 int32 = x2
    var x__4 int32 = x1
    ret11 = x__4 + y__5
    return ret11
}

func main0() int32 {
    var ret12 int32
    var mtmp3 option__int32 = make_some(5)
    switch mtmp3 := mtmp3.(type) {
    case some:
        var x4 int32 = mtmp3._0
        var result__6 int32 = x4
        var pt__7 point = build_point(result__6, 7)
        var t7 int32 = pt__7.x
        var mtmp5 option__int32 = some{
            _0: t7,
        }
        switch mtmp5 := mtmp5.(type) {
        case some:
            var x6 int32 = mtmp5._0
            var value__8 int32 = x6
            var t8 int32 = magnitude(pt__7)
            ret12 = value__8 + t8
        case none:
            ret12 = 0
        }
    case none:
        ret12 = missing("")
    }
    return ret12
}

func main() {
    main0()
}
