package main

import (
    "fmt"
)

func int32_to_string(x int32) string {
    return fmt.Sprintf("%d", x)
}

func string_println(s string) struct{} {
    fmt.Println(s)
    return struct{}{}
}

type Point struct {
    x int32
    y int32
}

type Flag struct {
    value bool
}

type dyn__Display_vtable struct {
    show func(any) string
}

type dyn__Display struct {
    data any
    vtable *dyn__Display_vtable
}

func dyn__Display__wrap__Flag__show(self any) string {
    return _goml_trait_impl_Display_Flag_show(self.(Flag))
}

func dyn__Display__vtable__Flag() *dyn__Display_vtable {
    return &dyn__Display_vtable{
        show: dyn__Display__wrap__Flag__show,
    }
}

func dyn__Display__wrap__Point__show(self any) string {
    return _goml_trait_impl_Display_Point_show(self.(Point))
}

func dyn__Display__vtable__Point() *dyn__Display_vtable {
    return &dyn__Display_vtable{
        show: dyn__Display__wrap__Point__show,
    }
}

func _goml_trait_impl_Display_Point_show(self__0 Point) string {
    var ret12 string
    var t6 int32 = self__0.x
    var t5 string = int32_to_string(t6)
    var t4 string = "Point(" + t5
    var t3 string = t4 + ","
    var t8 int32 = self__0.y
    var t7 string = int32_to_string(t8)
    var t2 string = t3 + t7
    ret12 = t2 + ")"
    return ret12
}

func _goml_trait_impl_Display_Flag_show(self__1 Flag) string {
    var ret13 string
    var t9 bool = self__1.value
    if t9 {
        ret13 = "Flag(true)"
    } else {
        ret13 = "Flag(false)"
    }
    return ret13
}

func main0() struct{} {
    var ret14 struct{}
    var p__2 Point = Point{
        x: 1,
        y: 2,
    }
    var t__3 Flag = Flag{
        value: true,
    }
    var dp__4 dyn__Display = dyn__Display{
        data: p__2,
        vtable: dyn__Display__vtable__Point(),
    }
    var dt__5 dyn__Display = dyn__Display{
        data: t__3,
        vtable: dyn__Display__vtable__Flag(),
    }
    var t10 string = dp__4.vtable.show(dp__4.data)
    string_println(t10)
    var t11 string = dt__5.vtable.show(dt__5.data)
    string_println(t11)
    ret14 = struct{}{}
    return ret14
}

func main() {
    main0()
}
