package main

import (
    "fmt"
)

func string_println(s string) struct{} {
    fmt.Println(s)
    return struct{}{}
}

func main0() struct{} {
    var ret2 struct{}
    var poem__0 string = "roses are red\nviolets are blue\n\"quotes\" stay quoted\nbackslash \\\\\\\\ stays too"
    var trailing_blank__1 string = "line one\n\nline three"
    string_println(poem__0)
    string_println(trailing_blank__1)
    ret2 = struct{}{}
    return ret2
}

func main() {
    main0()
}
