package main

import (
    "fmt"
)

func int32_to_string(x int32) string {
    return fmt.Sprintf("%d", x)
}

func string_println(s string) struct{} {
    fmt.Println(s)
    return struct{}{}
}

type Point struct {
    x int32
    y int32
}

type closure_env_f_0 struct {
    y_0 int32
    z_1 int32
}

type closure_env_add_base_1 struct {
    base_0 int32
}

type closure_env_printer_2 struct {}

type closure_env_unused_3 struct {
    result_0 int32
}

type closure_env_no_capture_4 struct {}

type closure_env_play_list_and_point_5 struct {
    list123_0 IntList
    point_1 Point
}

type IntList interface {
    isIntList()
}

type Nil struct {}

func (_ Nil) isIntList() {}

type Cons struct {
    _0 int32
    _1 IntList
}

func (_ Cons) isIntList() {}

func test() struct{} {
    var ret34 struct{}
    var y__0 int32 = 3
    var z__1 int32 = 5
    var f__3 closure_env_f_0 = closure_env_f_0{
        y_0: y__0,
        z_1: z__1,
    }
    var t18 int32 = _goml_inherent_closure_env_f_0_closure_env_f_0_apply(f__3, 2)
    var t17 string = int32_to_string(t18)
    string_println(t17)
    var t20 int32 = _goml_inherent_closure_env_f_0_closure_env_f_0_apply(f__3, 3)
    var t19 string = int32_to_string(t20)
    ret34 = string_println(t19)
    return ret34
}

func main0() struct{} {
    var ret36 struct{}
    var base__6 int32 = 5
    var add_base__8 closure_env_add_base_1 = closure_env_add_base_1{
        base_0: base__6,
    }
    var result__9 int32 = _goml_inherent_closure_env_add_base_1_closure_env_add_base_1_apply(add_base__8, 7)
    var printer__13 closure_env_printer_2 = closure_env_printer_2{}
    _goml_inherent_closure_env_printer_2_closure_env_printer_2_apply(printer__13, "result: ", result__9)
    var no_capture__17 closure_env_no_capture_4 = closure_env_no_capture_4{}
    var doubled__18 int32 = _goml_inherent_closure_env_no_capture_4_closure_env_no_capture_4_apply(no_capture__17, 3)
    var t21 string = int32_to_string(doubled__18)
    string_println(t21)
    test()
    var t24 IntList = Nil{}
    var t23 IntList = Cons{
        _0: 3,
        _1: t24,
    }
    var t22 IntList = Cons{
        _0: 2,
        _1: t23,
    }
    var list123__19 IntList = Cons{
        _0: 1,
        _1: t22,
    }
    var point__20 Point = Point{
        x: 10,
        y: 20,
    }
    var play_list_and_point__25 closure_env_play_list_and_point_5 = closure_env_play_list_and_point_5{
        list123_0: list123__19,
        point_1: point__20,
    }
    _goml_inherent_closure_env_play_list_and_point_5_closure_env_play_list_and_point_5_apply(play_list_and_point__25)
    ret36 = struct{}{}
    return ret36
}

func _goml_inherent_closure_env_f_0_closure_env_f_0_apply(env11 closure_env_f_0, x__2 int32) int32 {
    var ret37 int32
    var y__0 int32 = env11.y_0
    var z__1 int32 = env11.z_1
    var t25 int32 = x__2 * y__0
    ret37 = t25 * z__1
    return ret37
}

func _goml_inherent_closure_env_add_base_1_closure_env_add_base_1_apply(env12 closure_env_add_base_1, x__7 int32) int32 {
    var ret38 int32
    var base__6 int32 = env12.base_0
    ret38 = x__7 + base__6
    return ret38
}

func _goml_inherent_closure_env_printer_2_closure_env_printer_2_apply(env13 closure_env_printer_2, prefix__10 string, value__11 int32) struct{} {
    var ret39 struct{}
    var t26 string = int32_to_string(value__11)
    var message__12 string = prefix__10 + t26
    ret39 = string_println(message__12)
    return ret39
}

func _goml_inherent_closure_env_no_capture_4_closure_env_no_capture_4_apply(env15 closure_env_no_capture_4, z__16 int32) int32 {
    var ret41 int32
    ret41 = z__16 * 2
    return ret41
}

func _goml_inherent_closure_env_play_list_and_point_5_closure_env_play_list_and_point_5_apply(env16 closure_env_play_list_and_point_5) struct{} {
    var ret42 struct{}
    var list123__19 IntList = env16.list123_0
    var point__20 Point = env16.point_1
    switch list123__19 := list123__19.(type) {
    case Nil:
        ret42 = string_println("Empty list")
    case Cons:
        var x4 int32 = list123__19._0
        var head__21 int32 = x4
        var t27 string = int32_to_string(head__21)
        string_println(t27)
        var x7 int32 = point__20.x
        var x8 int32 = point__20.y
        var y__24 int32 = x8
        var x__23 int32 = x7
        var t32 string = int32_to_string(x__23)
        var t31 string = "Point: (" + t32
        var t30 string = t31 + ", "
        var t33 string = int32_to_string(y__24)
        var t29 string = t30 + t33
        var t28 string = t29 + ")"
        string_println(t28)
        ret42 = struct{}{}
    }
    return ret42
}

func main() {
    main0()
}
