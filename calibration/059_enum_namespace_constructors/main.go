package main

type Color interface {
    isColor()
}

type Color_Red struct {}

func (_ Color_Red) isColor() {}

type Green struct {}

func (_ Green) isColor() {}

type Signal interface {
    isSignal()
}

type Signal_Red struct {}

func (_ Signal_Red) isSignal() {}

type Yellow struct {}

func (_ Yellow) isSignal() {}

func color_is_red(color__0 Color) bool {
    var ret2 bool
    switch color__0.(type) {
    case Color_Red:
        ret2 = true
    case Green:
        ret2 = false
    }
    return ret2
}

func toggle_signal(signal__1 Signal) Signal {
    var ret3 Signal
    switch signal__1.(type) {
    case Signal_Red:
        ret3 = Yellow{}
    case Yellow:
        ret3 = Signal_Red{}
    }
    return ret3
}

func main0() Signal {
    var ret4 Signal
    var current__2 Color = Color_Red{}
    color_is_red(current__2)
    var t1 Signal = Signal_Red{}
    ret4 = toggle_signal(t1)
    return ret4
}

func main() {
    main0()
}
