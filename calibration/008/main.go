package main

import (
    "fmt"
)

func int32_to_string(x int32) string {
    return fmt.Sprintf("%d", x)
}

func string_print(s string) struct{} {
    fmt.Print(s)
    return struct{}{}
}

type T interface {
    isT()
}

type A struct {}

func (_ A) isT() {}

type B struct {
    _0 bool
    _1 struct{}
}

func (_ B) isT() {}

func main0() struct{} {
    var ret5 struct{}
    var t__0 T = B{
        _0: true,
        _1: struct{}{},
    }
    switch t__0 := t__0.(type) {
    case A:
        var t2 string = int32_to_string(1)
        ret5 = string_print(t2)
    case B:
        var x0 bool = t__0._0
        switch x0 {
        case true:
            var t3 string = int32_to_string(2)
            ret5 = string_print(t3)
        case false:
            var t4 string = int32_to_string(3)
            ret5 = string_print(t4)
        }
    }
    return ret5
}

func main() {
    main0()
}
