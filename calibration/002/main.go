package main

import (
    "fmt"
)

func unit_to_string(x struct{}) string {
    return "()"
}

func int32_to_string(x int32) string {
    return fmt.Sprintf("%d", x)
}

func string_print(s string) struct{} {
    fmt.Print(s)
    return struct{}{}
}

type Tuple2_bool_bool struct {
    _0 bool
    _1 bool
}

func main0() struct{} {
    var ret12 struct{}
    var a__0 Tuple2_bool_bool = Tuple2_bool_bool{
        _0: true,
        _1: false,
    }
    var x0 bool = a__0._0
    var x1 bool = a__0._1
    var b__1 Tuple2_bool_bool
    switch x1 {
    case true:
        switch x0 {
        case true:
            b__1 = Tuple2_bool_bool{
                _0: false,
                _1: false,
            }
        case false:
            b__1 = Tuple2_bool_bool{
                _0: true,
                _1: false,
            }
        }
    case false:
        switch x0 {
        case true:
            b__1 = Tuple2_bool_bool{
                _0: false,
                _1: true,
            }
        case false:
            b__1 = Tuple2_bool_bool{
                _0: true,
                _1: true,
            }
        }
    }
    var x3 bool = b__1._1
    var w__2 bool = x3
    var b_1__3 bool = w__2
    var mtmp4 Tuple2_bool_bool = Tuple2_bool_bool{
        _0: true,
        _1: b_1__3,
    }
    var x5 bool = mtmp4._0
    var x6 bool = mtmp4._1
    var c__4 struct{}
    switch x6 {
    case true:
        switch x5 {
        case true:
            var t7 string = int32_to_string(3)
            c__4 = string_print(t7)
        case false:
            var t8 string = int32_to_string(1)
            c__4 = string_print(t8)
        }
    case false:
        switch x5 {
        case true:
            var t9 string = int32_to_string(2)
            c__4 = string_print(t9)
        case false:
            var t10 string = int32_to_string(0)
            c__4 = string_print(t10)
        }
    }
    var t11 string = unit_to_string(c__4)
    ret12 = string_print(t11)
    return ret12
}

func main() {
    main0()
}
