package main

import (
    "fmt"
)

func unit_to_string(x struct{}) string {
    return "()"
}

func bool_to_string(x bool) string {
    if x {
        return "true"
    } else {
        return "false"
    }
}

func int32_to_string(x int32) string {
    return fmt.Sprintf("%d", x)
}

func string_print(s string) struct{} {
    fmt.Print(s)
    return struct{}{}
}

func main0() struct{} {
    var ret8 struct{}
    var t4 string = unit_to_string(struct{}{})
    string_print(t4)
    var t5 string = bool_to_string(true)
    string_print(t5)
    var t6 string = bool_to_string(false)
    string_print(t6)
    var t7 string = int32_to_string(123)
    string_print(t7)
    ret8 = struct{}{}
    return ret8
}

func main() {
    main0()
}
