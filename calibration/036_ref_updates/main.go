package main

import (
    "fmt"
)

func bool_to_string(x bool) string {
    if x {
        return "true"
    } else {
        return "false"
    }
}

func int32_to_string(x int32) string {
    return fmt.Sprintf("%d", x)
}

func string_println(s string) struct{} {
    fmt.Println(s)
    return struct{}{}
}

type ref_int32_x struct {
    value int32
}

func ref__Ref_int32(value int32) *ref_int32_x {
    return &ref_int32_x{
        value: value,
    }
}

func ref_get__Ref_int32(reference *ref_int32_x) int32 {
    return reference.value
}

func ref_set__Ref_int32(reference *ref_int32_x, value int32) struct{} {
    reference.value = value
    return struct{}{}
}

type ref_bool_x struct {
    value bool
}

func ref__Ref_bool(value bool) *ref_bool_x {
    return &ref_bool_x{
        value: value,
    }
}

func ref_get__Ref_bool(reference *ref_bool_x) bool {
    return reference.value
}

func ref_set__Ref_bool(reference *ref_bool_x, value bool) struct{} {
    reference.value = value
    return struct{}{}
}

type ref_ref_int32_x struct {
    value *ref_int32_x
}

func ref__Ref_Ref_int32(value *ref_int32_x) *ref_ref_int32_x {
    return &ref_ref_int32_x{
        value: value,
    }
}

func ref_get__Ref_Ref_int32(reference *ref_ref_int32_x) *ref_int32_x {
    return reference.value
}

func bump(cell__0 *ref_int32_x) int32 {
    var ret38 int32
    var t12 int32 = ref_get__Ref_int32(cell__0)
    var t11 int32 = t12 + 1
    ref_set__Ref_int32(cell__0, t11)
    ret38 = ref_get__Ref_int32(cell__0)
    return ret38
}

func flip(flag__1 *ref_bool_x) bool {
    var ret39 bool
    var current__2 bool = ref_get__Ref_bool(flag__1)
    var t13 bool = !current__2
    ref_set__Ref_bool(flag__1, t13)
    ret39 = ref_get__Ref_bool(flag__1)
    return ret39
}

func nested_total(cell__3 *ref_ref_int32_x) int32 {
    var ret40 int32
    var inner__4 *ref_int32_x = ref_get__Ref_Ref_int32(cell__3)
    var before__5 int32 = ref_get__Ref_int32(inner__4)
    var t14 int32 = before__5 + 2
    ref_set__Ref_int32(inner__4, t14)
    var t15 int32 = ref_get__Ref_int32(inner__4)
    ret40 = before__5 + t15
    return ret40
}

func alias_bump(cell__6 *ref_int32_x) int32 {
    var ret41 int32
    var alias__7 *ref_int32_x = cell__6
    var t17 int32 = ref_get__Ref_int32(alias__7)
    var t16 int32 = t17 + 5
    ref_set__Ref_int32(alias__7, t16)
    ret41 = ref_get__Ref_int32(alias__7)
    return ret41
}

func pair_sum() int32 {
    var ret42 int32
    var first__8 *ref_int32_x = ref__Ref_int32(4)
    var second__9 *ref_int32_x = ref__Ref_int32(6)
    var t19 int32 = ref_get__Ref_int32(first__8)
    var t20 int32 = ref_get__Ref_int32(second__9)
    var t18 int32 = t19 + t20
    ref_set__Ref_int32(first__8, t18)
    var t21 int32 = ref_get__Ref_int32(first__8)
    var t22 int32 = ref_get__Ref_int32(second__9)
    ret42 = t21 + t22
    return ret42
}

func reassign_nested(nested__10 *ref_ref_int32_x) int32 {
    var ret43 int32
    var inner__11 *ref_int32_x = ref_get__Ref_Ref_int32(nested__10)
    var t24 int32 = ref_get__Ref_int32(inner__11)
    var t23 int32 = t24 + 7
    ref_set__Ref_int32(inner__11, t23)
    ret43 = ref_get__Ref_int32(inner__11)
    return ret43
}

func main0() struct{} {
    var ret44 struct{}
    var counter__12 *ref_int32_x = ref__Ref_int32(39)
    var toggler__13 *ref_bool_x = ref__Ref_bool(false)
    var t25 *ref_int32_x = ref__Ref_int32(3)
    var nested__14 *ref_ref_int32_x = ref__Ref_Ref_int32(t25)
    var bumped__15 int32 = bump(counter__12)
    var flipped__16 bool = flip(toggler__13)
    var flipped_again__17 bool = flip(toggler__13)
    var inner__18 *ref_int32_x = ref_get__Ref_Ref_int32(nested__14)
    var t27 int32 = ref_get__Ref_int32(inner__18)
    var t26 int32 = t27 + bumped__15
    ref_set__Ref_int32(inner__18, t26)
    var nested_total_val__19 int32 = nested_total(nested__14)
    var alias_total__20 int32 = alias_bump(counter__12)
    var pair_total__21 int32 = pair_sum()
    var reassigned__22 int32 = reassign_nested(nested__14)
    var bool_check__23 bool = !false
    var t30 int32 = ref_get__Ref_int32(counter__12)
    var t29 int32 = bumped__15 + t30
    var t28 string = int32_to_string(t29)
    string_println(t28)
    var t33 int32 = nested_total_val__19 + alias_total__20
    var t32 int32 = t33 + reassigned__22
    var t31 string = int32_to_string(t32)
    string_println(t31)
    var t34 string = int32_to_string(pair_total__21)
    string_println(t34)
    var t37 bool = flipped__16 && flipped_again__17
    var t36 bool = t37 && bool_check__23
    var t35 string = bool_to_string(t36)
    string_println(t35)
    ret44 = struct{}{}
    return ret44
}

func main() {
    main0()
}
