package main

import (
    "fmt"
)

func int32_to_string(x int32) string {
    return fmt.Sprintf("%d", x)
}

func string_print(s string) struct{} {
    fmt.Print(s)
    return struct{}{}
}

func main0() struct{} {
    var ret1 struct{}
    var a__0 int32 = 1
    var a__1 int32 = a__0 + 2
    var a__2 int32 = a__1 + 3
    var a__3 int32 = a__2 + 4
    var t0 string = int32_to_string(a__3)
    ret1 = string_print(t0)
    return ret1
}

func main() {
    main0()
}
