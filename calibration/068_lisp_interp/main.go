package main

import (
    "fmt"
)

func bool_to_string(x bool) string {
    if x {
        return "true"
    } else {
        return "false"
    }
}

func string_len(s string) int32 {
    return int32(len(s))
}

func string_get(s string, i int32) string {
    return string(s[i])
}

func int32_to_string(x int32) string {
    return fmt.Sprintf("%d", x)
}

func string_println(s string) struct{} {
    fmt.Println(s)
    return struct{}{}
}

type ref_int32_x struct {
    value int32
}

func ref__Ref_int32(value int32) *ref_int32_x {
    return &ref_int32_x{
        value: value,
    }
}

func ref_get__Ref_int32(reference *ref_int32_x) int32 {
    return reference.value
}

func ref_set__Ref_int32(reference *ref_int32_x, value int32) struct{} {
    reference.value = value
    return struct{}{}
}

type ref_bool_x struct {
    value bool
}

func ref__Ref_bool(value bool) *ref_bool_x {
    return &ref_bool_x{
        value: value,
    }
}

func ref_get__Ref_bool(reference *ref_bool_x) bool {
    return reference.value
}

func ref_set__Ref_bool(reference *ref_bool_x, value bool) struct{} {
    reference.value = value
    return struct{}{}
}

type ref_string_x struct {
    value string
}

func ref__Ref_string(value string) *ref_string_x {
    return &ref_string_x{
        value: value,
    }
}

func ref_get__Ref_string(reference *ref_string_x) string {
    return reference.value
}

func ref_set__Ref_string(reference *ref_string_x, value string) struct{} {
    reference.value = value
    return struct{}{}
}

type ref_vec_token_x struct {
    value []Token
}

func ref__Ref_Vec_Token(value []Token) *ref_vec_token_x {
    return &ref_vec_token_x{
        value: value,
    }
}

func ref_get__Ref_Vec_Token(reference *ref_vec_token_x) []Token {
    return reference.value
}

func ref_set__Ref_Vec_Token(reference *ref_vec_token_x, value []Token) struct{} {
    reference.value = value
    return struct{}{}
}

type ref_value_x struct {
    value Value
}

func ref__Ref_Value(value Value) *ref_value_x {
    return &ref_value_x{
        value: value,
    }
}

func ref_get__Ref_Value(reference *ref_value_x) Value {
    return reference.value
}

func ref_set__Ref_Value(reference *ref_value_x, value Value) struct{} {
    reference.value = value
    return struct{}{}
}

type ref_vec_sexpr_x struct {
    value []SExpr
}

func ref__Ref_Vec_SExpr(value []SExpr) *ref_vec_sexpr_x {
    return &ref_vec_sexpr_x{
        value: value,
    }
}

func ref_get__Ref_Vec_SExpr(reference *ref_vec_sexpr_x) []SExpr {
    return reference.value
}

func ref_set__Ref_Vec_SExpr(reference *ref_vec_sexpr_x, value []SExpr) struct{} {
    reference.value = value
    return struct{}{}
}

type ref_vec_binding_x struct {
    value []Binding
}

func ref__Ref_Vec_Binding(value []Binding) *ref_vec_binding_x {
    return &ref_vec_binding_x{
        value: value,
    }
}

func ref_get__Ref_Vec_Binding(reference *ref_vec_binding_x) []Binding {
    return reference.value
}

func ref_set__Ref_Vec_Binding(reference *ref_vec_binding_x, value []Binding) struct{} {
    reference.value = value
    return struct{}{}
}

type ref_vec_string_x struct {
    value []string
}

func ref__Ref_Vec_string(value []string) *ref_vec_string_x {
    return &ref_vec_string_x{
        value: value,
    }
}

func ref_get__Ref_Vec_string(reference *ref_vec_string_x) []string {
    return reference.value
}

func ref_set__Ref_Vec_string(reference *ref_vec_string_x, value []string) struct{} {
    reference.value = value
    return struct{}{}
}

type ref_vec_value_x struct {
    value []Value
}

func ref__Ref_Vec_Value(value []Value) *ref_vec_value_x {
    return &ref_vec_value_x{
        value: value,
    }
}

func ref_get__Ref_Vec_Value(reference *ref_vec_value_x) []Value {
    return reference.value
}

func ref_set__Ref_Vec_Value(reference *ref_vec_value_x, value []Value) struct{} {
    reference.value = value
    return struct{}{}
}

type Tuple2_bool_string struct {
    _0 bool
    _1 string
}

type Tuple2_Token_int32 struct {
    _0 Token
    _1 int32
}

type Tuple2_Vec_SExpr_int32 struct {
    _0 []SExpr
    _1 int32
}

type Tuple2_SExpr_int32 struct {
    _0 SExpr
    _1 int32
}

type Tuple2_Value_Value struct {
    _0 Value
    _1 Value
}

type Binding struct {
    name string
    value Value
}

type Lambda struct {
    params []string
    body SExpr
    env []Binding
    global *ref_vec_binding_x
}

type Token interface {
    isToken()
}

type LParen struct {}

func (_ LParen) isToken() {}

type RParen struct {}

func (_ RParen) isToken() {}

type Token_Sym struct {
    _0 string
}

func (_ Token_Sym) isToken() {}

type Token_Int struct {
    _0 int32
}

func (_ Token_Int) isToken() {}

type Token_Bool struct {
    _0 bool
}

func (_ Token_Bool) isToken() {}

type Value interface {
    isValue()
}

type Value_Int struct {
    _0 int32
}

func (_ Value_Int) isValue() {}

type Value_Bool struct {
    _0 bool
}

func (_ Value_Bool) isValue() {}

type Func struct {
    _0 Lambda
}

func (_ Func) isValue() {}

type Nil struct {}

func (_ Nil) isValue() {}

type SExpr interface {
    isSExpr()
}

type SExpr_Int struct {
    _0 int32
}

func (_ SExpr_Int) isSExpr() {}

type SExpr_Bool struct {
    _0 bool
}

func (_ SExpr_Bool) isSExpr() {}

type SExpr_Sym struct {
    _0 string
}

func (_ SExpr_Sym) isSExpr() {}

type List struct {
    _0 []SExpr
}

func (_ List) isSExpr() {}

func is_digit(ch__0 string) bool {
    var ret391 bool
    switch ch__0 {
    case "0":
        ret391 = true
    case "1":
        ret391 = true
    case "2":
        ret391 = true
    case "3":
        ret391 = true
    case "4":
        ret391 = true
    case "5":
        ret391 = true
    case "6":
        ret391 = true
    case "7":
        ret391 = true
    case "8":
        ret391 = true
    case "9":
        ret391 = true
    default:
        ret391 = false
    }
    return ret391
}

func digit_value(ch__1 string) int32 {
    var ret392 int32
    switch ch__1 {
    case "0":
        ret392 = 0
    case "1":
        ret392 = 1
    case "2":
        ret392 = 2
    case "3":
        ret392 = 3
    case "4":
        ret392 = 4
    case "5":
        ret392 = 5
    case "6":
        ret392 = 6
    case "7":
        ret392 = 7
    case "8":
        ret392 = 8
    case "9":
        ret392 = 9
    default:
        ret392 = 0
    }
    return ret392
}

func is_int_text(text__2 string) bool {
    var ret393 bool
    var len__3 int32 = string_len(text__2)
    var mtmp0 bool = len__3 == 0
    switch mtmp0 {
    case true:
        ret393 = false
    case false:
        var i__4 *ref_int32_x = ref__Ref_int32(0)
        var saw_digit__5 *ref_bool_x = ref__Ref_bool(false)
        var ok__6 *ref_bool_x = ref__Ref_bool(true)
        var started__7 *ref_bool_x = ref__Ref_bool(false)
        var cond394 bool
        for {
            var t170 bool = ref_get__Ref_bool(ok__6)
            var t172 int32 = ref_get__Ref_int32(i__4)
            var t171 bool = t172 < len__3
            cond394 = t170 && t171
            if !cond394 {
                break
            }
            var t173 int32 = ref_get__Ref_int32(i__4)
            var ch__8 string = string_get(text__2, t173)
            var t174 bool = ref_get__Ref_bool(started__7)
            var mtmp1 Tuple2_bool_string = Tuple2_bool_string{
                _0: t174,
                _1: ch__8,
            }
            var x2 bool = mtmp1._0
            var x3 string = mtmp1._1
            switch x3 {
            case "-":
                switch x2 {
                case true:
                    var mtmp4 bool = is_digit(ch__8)
                    switch mtmp4 {
                    case true:
                        ref_set__Ref_bool(started__7, true)
                        ref_set__Ref_bool(saw_digit__5, true)
                        var t176 int32 = ref_get__Ref_int32(i__4)
                        var t175 int32 = t176 + 1
                        ref_set__Ref_int32(i__4, t175)
                    case false:
                        ref_set__Ref_bool(ok__6, false)
                    }
                case false:
                    ref_set__Ref_bool(started__7, true)
                    var t178 int32 = ref_get__Ref_int32(i__4)
                    var t177 int32 = t178 + 1
                    ref_set__Ref_int32(i__4, t177)
                }
            default:
                var mtmp8 bool = is_digit(ch__8)
                switch mtmp8 {
                case true:
                    ref_set__Ref_bool(started__7, true)
                    ref_set__Ref_bool(saw_digit__5, true)
                    var t180 int32 = ref_get__Ref_int32(i__4)
                    var t179 int32 = t180 + 1
                    ref_set__Ref_int32(i__4, t179)
                case false:
                    ref_set__Ref_bool(ok__6, false)
                }
            }
        }
        var t181 bool = ref_get__Ref_bool(ok__6)
        var t182 bool = ref_get__Ref_bool(saw_digit__5)
        ret393 = t181 && t182
    }
    return ret393
}

func parse_int32(text__9 string) int32 {
    var ret395 int32
    var len__10 int32 = string_len(text__9)
    var i__11 *ref_int32_x = ref__Ref_int32(0)
    var negative__12 *ref_bool_x = ref__Ref_bool(false)
    var started__13 *ref_bool_x = ref__Ref_bool(false)
    var acc__14 *ref_int32_x = ref__Ref_int32(0)
    var cond396 bool
    for {
        var t183 int32 = ref_get__Ref_int32(i__11)
        cond396 = t183 < len__10
        if !cond396 {
            break
        }
        var t184 int32 = ref_get__Ref_int32(i__11)
        var ch__15 string = string_get(text__9, t184)
        var t185 bool = ref_get__Ref_bool(started__13)
        var mtmp12 Tuple2_bool_string = Tuple2_bool_string{
            _0: t185,
            _1: ch__15,
        }
        var x13 bool = mtmp12._0
        var x14 string = mtmp12._1
        switch x14 {
        case "-":
            switch x13 {
            case true:
                ref_set__Ref_bool(started__13, true)
                var d__16 int32 = digit_value(ch__15)
                var t188 int32 = ref_get__Ref_int32(acc__14)
                var t187 int32 = t188 * 10
                var t186 int32 = t187 + d__16
                ref_set__Ref_int32(acc__14, t186)
                var t190 int32 = ref_get__Ref_int32(i__11)
                var t189 int32 = t190 + 1
                ref_set__Ref_int32(i__11, t189)
            case false:
                ref_set__Ref_bool(started__13, true)
                ref_set__Ref_bool(negative__12, true)
                var t192 int32 = ref_get__Ref_int32(i__11)
                var t191 int32 = t192 + 1
                ref_set__Ref_int32(i__11, t191)
            }
        default:
            ref_set__Ref_bool(started__13, true)
            var d__16 int32 = digit_value(ch__15)
            var t195 int32 = ref_get__Ref_int32(acc__14)
            var t194 int32 = t195 * 10
            var t193 int32 = t194 + d__16
            ref_set__Ref_int32(acc__14, t193)
            var t197 int32 = ref_get__Ref_int32(i__11)
            var t196 int32 = t197 + 1
            ref_set__Ref_int32(i__11, t196)
        }
    }
    var mtmp22 bool = ref_get__Ref_bool(negative__12)
    switch mtmp22 {
    case true:
        var t198 int32 = ref_get__Ref_int32(acc__14)
        ret395 = 0 - t198
    case false:
        ret395 = ref_get__Ref_int32(acc__14)
    }
    return ret395
}

func is_delim(ch__17 string) bool {
    var ret397 bool
    switch ch__17 {
    case "(":
        ret397 = true
    case ")":
        ret397 = true
    case " ":
        ret397 = true
    default:
        ret397 = false
    }
    return ret397
}

func lex_atom(source__18 string, start__19 int32) Tuple2_Token_int32 {
    var ret398 Tuple2_Token_int32
    var len__20 int32 = string_len(source__18)
    var text__21 *ref_string_x = ref__Ref_string("")
    var i__22 *ref_int32_x = ref__Ref_int32(start__19)
    var done__23 *ref_bool_x = ref__Ref_bool(false)
    var cond399 bool
    for {
        var t200 bool = ref_get__Ref_bool(done__23)
        var t199 bool = !t200
        var t202 int32 = ref_get__Ref_int32(i__22)
        var t201 bool = t202 < len__20
        cond399 = t199 && t201
        if !cond399 {
            break
        }
        var t203 int32 = ref_get__Ref_int32(i__22)
        var ch__24 string = string_get(source__18, t203)
        var mtmp23 bool = is_delim(ch__24)
        switch mtmp23 {
        case true:
            ref_set__Ref_bool(done__23, true)
        case false:
            var t205 string = ref_get__Ref_string(text__21)
            var t204 string = t205 + ch__24
            ref_set__Ref_string(text__21, t204)
            var t207 int32 = ref_get__Ref_int32(i__22)
            var t206 int32 = t207 + 1
            ref_set__Ref_int32(i__22, t206)
        }
    }
    var atom__25 string = ref_get__Ref_string(text__21)
    var token__26 Token
    switch atom__25 {
    case "true":
        token__26 = Token_Bool{
            _0: true,
        }
    case "false":
        token__26 = Token_Bool{
            _0: false,
        }
    default:
        var mtmp26 bool = is_int_text(atom__25)
        switch mtmp26 {
        case true:
            var t208 int32 = parse_int32(atom__25)
            token__26 = Token_Int{
                _0: t208,
            }
        case false:
            token__26 = Token_Sym{
                _0: atom__25,
            }
        }
    }
    var t209 int32 = ref_get__Ref_int32(i__22)
    ret398 = Tuple2_Token_int32{
        _0: token__26,
        _1: t209,
    }
    return ret398
}

func lex(source__27 string) []Token {
    var ret400 []Token
    var len__28 int32 = string_len(source__27)
    var toks0__29 []Token = nil
    var toks__30 *ref_vec_token_x = ref__Ref_Vec_Token(toks0__29)
    var i__31 *ref_int32_x = ref__Ref_int32(0)
    var cond401 bool
    for {
        var t210 int32 = ref_get__Ref_int32(i__31)
        cond401 = t210 < len__28
        if !cond401 {
            break
        }
        var t211 int32 = ref_get__Ref_int32(i__31)
        var ch__32 string = string_get(source__27, t211)
        switch ch__32 {
        case "(":
            var t213 []Token = ref_get__Ref_Vec_Token(toks__30)
            var t214 Token = LParen{}
            var t212 []Token = append(t213, t214)
            ref_set__Ref_Vec_Token(toks__30, t212)
            var t216 int32 = ref_get__Ref_int32(i__31)
            var t215 int32 = t216 + 1
            ref_set__Ref_int32(i__31, t215)
        case ")":
            var t218 []Token = ref_get__Ref_Vec_Token(toks__30)
            var t219 Token = RParen{}
            var t217 []Token = append(t218, t219)
            ref_set__Ref_Vec_Token(toks__30, t217)
            var t221 int32 = ref_get__Ref_int32(i__31)
            var t220 int32 = t221 + 1
            ref_set__Ref_int32(i__31, t220)
        case " ":
            var t223 int32 = ref_get__Ref_int32(i__31)
            var t222 int32 = t223 + 1
            ref_set__Ref_int32(i__31, t222)
        default:
            var t224 int32 = ref_get__Ref_int32(i__31)
            var mtmp29 Tuple2_Token_int32 = lex_atom(source__27, t224)
            var x30 Token = mtmp29._0
            var x31 int32 = mtmp29._1
            var next__34 int32 = x31
            var tok__33 Token = x30
            var t226 []Token = ref_get__Ref_Vec_Token(toks__30)
            var t225 []Token = append(t226, tok__33)
            ref_set__Ref_Vec_Token(toks__30, t225)
            ref_set__Ref_int32(i__31, next__34)
        }
    }
    ret400 = ref_get__Ref_Vec_Token(toks__30)
    return ret400
}

func env_lookup(env__35 []Binding, name__36 string) Value {
    var ret402 Value
    var t228 int32 = int32(len(env__35))
    var t227 int32 = t228 - 1
    var i__37 *ref_int32_x = ref__Ref_int32(t227)
    var t229 Value = Nil{}
    var result__38 *ref_value_x = ref__Ref_Value(t229)
    var done__39 *ref_bool_x = ref__Ref_bool(false)
    var cond403 bool
    for {
        var t231 bool = ref_get__Ref_bool(done__39)
        var t230 bool = !t231
        var t233 int32 = ref_get__Ref_int32(i__37)
        var t232 bool = t233 >= 0
        cond403 = t230 && t232
        if !cond403 {
            break
        }
        var t234 int32 = ref_get__Ref_int32(i__37)
        var binding__40 Binding = env__35[t234]
        var t236 string = binding__40.name
        var t235 bool = t236 == name__36
        if t235 {
            var t237 Value = binding__40.value
            ref_set__Ref_Value(result__38, t237)
            ref_set__Ref_bool(done__39, true)
        } else {
            var t239 int32 = ref_get__Ref_int32(i__37)
            var t238 int32 = t239 - 1
            ref_set__Ref_int32(i__37, t238)
        }
    }
    ret402 = ref_get__Ref_Value(result__38)
    return ret402
}

func lookup(local__41 []Binding, global__42 []Binding, name__43 string) Value {
    var ret404 Value
    var mtmp36 Value = env_lookup(local__41, name__43)
    switch mtmp36 := mtmp36.(type) {
    case Value_Int:
        var other__44 Value = mtmp36
        ret404 = other__44
    case Value_Bool:
        var other__44 Value = mtmp36
        ret404 = other__44
    case Func:
        var other__44 Value = mtmp36
        ret404 = other__44
    case Nil:
        ret404 = env_lookup(global__42, name__43)
    }
    return ret404
}

func parse_list(tokens__45 []Token, start__46 int32) Tuple2_Vec_SExpr_int32 {
    var ret405 Tuple2_Vec_SExpr_int32
    var acc__47 []SExpr = nil
    var exprs__48 *ref_vec_sexpr_x = ref__Ref_Vec_SExpr(acc__47)
    var i__49 *ref_int32_x = ref__Ref_int32(start__46)
    var done__50 *ref_bool_x = ref__Ref_bool(false)
    var cond406 bool
    for {
        var t241 bool = ref_get__Ref_bool(done__50)
        var t240 bool = !t241
        var t243 int32 = ref_get__Ref_int32(i__49)
        var t244 int32 = int32(len(tokens__45))
        var t242 bool = t243 < t244
        cond406 = t240 && t242
        if !cond406 {
            break
        }
        var t245 int32 = ref_get__Ref_int32(i__49)
        var mtmp40 Token = tokens__45[t245]
        switch mtmp40.(type) {
        case LParen:
            var t246 int32 = ref_get__Ref_int32(i__49)
            var mtmp44 Tuple2_SExpr_int32 = parse_expr(tokens__45, t246)
            var x45 SExpr = mtmp44._0
            var x46 int32 = mtmp44._1
            var next__52 int32 = x46
            var expr__51 SExpr = x45
            var t248 []SExpr = ref_get__Ref_Vec_SExpr(exprs__48)
            var t247 []SExpr = append(t248, expr__51)
            ref_set__Ref_Vec_SExpr(exprs__48, t247)
            ref_set__Ref_int32(i__49, next__52)
        case RParen:
            ref_set__Ref_bool(done__50, true)
            var t250 int32 = ref_get__Ref_int32(i__49)
            var t249 int32 = t250 + 1
            ref_set__Ref_int32(i__49, t249)
        case Token_Sym:
            var t251 int32 = ref_get__Ref_int32(i__49)
            var mtmp49 Tuple2_SExpr_int32 = parse_expr(tokens__45, t251)
            var x50 SExpr = mtmp49._0
            var x51 int32 = mtmp49._1
            var next__52 int32 = x51
            var expr__51 SExpr = x50
            var t253 []SExpr = ref_get__Ref_Vec_SExpr(exprs__48)
            var t252 []SExpr = append(t253, expr__51)
            ref_set__Ref_Vec_SExpr(exprs__48, t252)
            ref_set__Ref_int32(i__49, next__52)
        case Token_Int:
            var t254 int32 = ref_get__Ref_int32(i__49)
            var mtmp53 Tuple2_SExpr_int32 = parse_expr(tokens__45, t254)
            var x54 SExpr = mtmp53._0
            var x55 int32 = mtmp53._1
            var next__52 int32 = x55
            var expr__51 SExpr = x54
            var t256 []SExpr = ref_get__Ref_Vec_SExpr(exprs__48)
            var t255 []SExpr = append(t256, expr__51)
            ref_set__Ref_Vec_SExpr(exprs__48, t255)
            ref_set__Ref_int32(i__49, next__52)
        case Token_Bool:
            var t257 int32 = ref_get__Ref_int32(i__49)
            var mtmp57 Tuple2_SExpr_int32 = parse_expr(tokens__45, t257)
            var x58 SExpr = mtmp57._0
            var x59 int32 = mtmp57._1
            var next__52 int32 = x59
            var expr__51 SExpr = x58
            var t259 []SExpr = ref_get__Ref_Vec_SExpr(exprs__48)
            var t258 []SExpr = append(t259, expr__51)
            ref_set__Ref_Vec_SExpr(exprs__48, t258)
            ref_set__Ref_int32(i__49, next__52)
        }
    }
    var t260 []SExpr = ref_get__Ref_Vec_SExpr(exprs__48)
    var t261 int32 = ref_get__Ref_int32(i__49)
    ret405 = Tuple2_Vec_SExpr_int32{
        _0: t260,
        _1: t261,
    }
    return ret405
}

func parse_expr(tokens__53 []Token, start__54 int32) Tuple2_SExpr_int32 {
    var ret407 Tuple2_SExpr_int32
    var mtmp62 Token = tokens__53[start__54]
    switch mtmp62 := mtmp62.(type) {
    case LParen:
        var t262 int32 = start__54 + 1
        var mtmp66 Tuple2_Vec_SExpr_int32 = parse_list(tokens__53, t262)
        var x67 []SExpr = mtmp66._0
        var x68 int32 = mtmp66._1
        var next__56 int32 = x68
        var items__55 []SExpr = x67
        var t263 SExpr = List{
            _0: items__55,
        }
        ret407 = Tuple2_SExpr_int32{
            _0: t263,
            _1: next__56,
        }
    case RParen:
        var t264 SExpr = SExpr_Sym{
            _0: ")",
        }
        var t265 int32 = start__54 + 1
        ret407 = Tuple2_SExpr_int32{
            _0: t264,
            _1: t265,
        }
    case Token_Sym:
        var x63 string = mtmp62._0
        var name__59 string = x63
        var t266 SExpr = SExpr_Sym{
            _0: name__59,
        }
        var t267 int32 = start__54 + 1
        ret407 = Tuple2_SExpr_int32{
            _0: t266,
            _1: t267,
        }
    case Token_Int:
        var x64 int32 = mtmp62._0
        var n__58 int32 = x64
        var t268 SExpr = SExpr_Int{
            _0: n__58,
        }
        var t269 int32 = start__54 + 1
        ret407 = Tuple2_SExpr_int32{
            _0: t268,
            _1: t269,
        }
    case Token_Bool:
        var x65 bool = mtmp62._0
        var b__57 bool = x65
        var t270 SExpr = SExpr_Bool{
            _0: b__57,
        }
        var t271 int32 = start__54 + 1
        ret407 = Tuple2_SExpr_int32{
            _0: t270,
            _1: t271,
        }
    }
    return ret407
}

func parse_program(tokens__60 []Token) []SExpr {
    var ret408 []SExpr
    var i__61 *ref_int32_x = ref__Ref_int32(0)
    var acc__62 []SExpr = nil
    var exprs__63 *ref_vec_sexpr_x = ref__Ref_Vec_SExpr(acc__62)
    var cond409 bool
    for {
        var t272 int32 = ref_get__Ref_int32(i__61)
        var t273 int32 = int32(len(tokens__60))
        cond409 = t272 < t273
        if !cond409 {
            break
        }
        var t274 int32 = ref_get__Ref_int32(i__61)
        var mtmp69 Tuple2_SExpr_int32 = parse_expr(tokens__60, t274)
        var x70 SExpr = mtmp69._0
        var x71 int32 = mtmp69._1
        var next__65 int32 = x71
        var expr__64 SExpr = x70
        var t276 []SExpr = ref_get__Ref_Vec_SExpr(exprs__63)
        var t275 []SExpr = append(t276, expr__64)
        ref_set__Ref_Vec_SExpr(exprs__63, t275)
        ref_set__Ref_int32(i__61, next__65)
    }
    ret408 = ref_get__Ref_Vec_SExpr(exprs__63)
    return ret408
}

func value_to_string(value__66 Value) string {
    var ret410 string
    switch value__66 := value__66.(type) {
    case Value_Int:
        var x74 int32 = value__66._0
        var n__67 int32 = x74
        ret410 = int32_to_string(n__67)
    case Value_Bool:
        var x75 bool = value__66._0
        var b__68 bool = x75
        ret410 = bool_to_string(b__68)
    case Func:
        ret410 = "<lambda>"
    case Nil:
        ret410 = "nil"
    }
    return ret410
}

func truthy(value__69 Value) bool {
    var ret411 bool
    switch value__69 := value__69.(type) {
    case Value_Int:
        var x77 int32 = value__69._0
        var n__71 int32 = x77
        ret411 = n__71 != 0
    case Value_Bool:
        var x78 bool = value__69._0
        var b__70 bool = x78
        ret411 = b__70
    case Func:
        ret411 = true
    case Nil:
        ret411 = false
    }
    return ret411
}

func eval(expr__72 SExpr, local__73 []Binding, global__74 *ref_vec_binding_x) Value {
    var ret412 Value
    switch expr__72 := expr__72.(type) {
    case SExpr_Int:
        var x80 int32 = expr__72._0
        var n__75 int32 = x80
        ret412 = Value_Int{
            _0: n__75,
        }
    case SExpr_Bool:
        var x81 bool = expr__72._0
        var b__76 bool = x81
        ret412 = Value_Bool{
            _0: b__76,
        }
    case SExpr_Sym:
        var x82 string = expr__72._0
        var name__77 string = x82
        var t277 []Binding = ref_get__Ref_Vec_Binding(global__74)
        ret412 = lookup(local__73, t277, name__77)
    case List:
        var x83 []SExpr = expr__72._0
        var items__78 []SExpr = x83
        ret412 = eval_list(items__78, local__73, global__74)
    }
    return ret412
}

func eval_list(items__79 []SExpr, local__80 []Binding, global__81 *ref_vec_binding_x) Value {
    var ret413 Value
    var t279 int32 = int32(len(items__79))
    var t278 bool = t279 == 0
    if t278 {
        ret413 = Nil{}
    } else {
        var head__82 SExpr = items__79[0]
        switch head__82 := head__82.(type) {
        case SExpr_Int:
            var f__84 Value = eval(head__82, local__80, global__81)
            var args__85 []Value = eval_args(items__79, 1, local__80, global__81)
            ret413 = apply(f__84, args__85, global__81)
        case SExpr_Bool:
            var f__84 Value = eval(head__82, local__80, global__81)
            var args__85 []Value = eval_args(items__79, 1, local__80, global__81)
            ret413 = apply(f__84, args__85, global__81)
        case SExpr_Sym:
            var x86 string = head__82._0
            var name__83 string = x86
            ret413 = eval_list_sym(name__83, items__79, local__80, global__81)
        case List:
            var f__84 Value = eval(head__82, local__80, global__81)
            var args__85 []Value = eval_args(items__79, 1, local__80, global__81)
            ret413 = apply(f__84, args__85, global__81)
        }
    }
    return ret413
}

func eval_list_sym(name__86 string, items__87 []SExpr, local__88 []Binding, global__89 *ref_vec_binding_x) Value {
    var ret414 Value
    switch name__86 {
    case "begin":
        ret414 = eval_begin(items__87, 1, local__88, global__89)
    case "define":
        var t280 int32 = int32(len(items__87))
        var mtmp88 bool = t280 == 3
        switch mtmp88 {
        case true:
            var mtmp89 SExpr = items__87[1]
            switch mtmp89 := mtmp89.(type) {
            case SExpr_Int:
                ret414 = Nil{}
            case SExpr_Bool:
                ret414 = Nil{}
            case SExpr_Sym:
                var x92 string = mtmp89._0
                var var__90 string = x92
                var t281 SExpr = items__87[2]
                var value__91 Value = eval(t281, local__88, global__89)
                var env__92 []Binding = ref_get__Ref_Vec_Binding(global__89)
                var t282 Binding = Binding{
                    name: var__90,
                    value: value__91,
                }
                var updated__93 []Binding = append(env__92, t282)
                ref_set__Ref_Vec_Binding(global__89, updated__93)
                ret414 = value__91
            case List:
                ret414 = Nil{}
            }
        case false:
            ret414 = Nil{}
        }
    case "if":
        var t283 int32 = int32(len(items__87))
        var mtmp95 bool = t283 == 4
        switch mtmp95 {
        case true:
            var t284 SExpr = items__87[1]
            var cond__94 Value = eval(t284, local__88, global__89)
            var mtmp96 bool = truthy(cond__94)
            switch mtmp96 {
            case true:
                var t285 SExpr = items__87[2]
                ret414 = eval(t285, local__88, global__89)
            case false:
                var t286 SExpr = items__87[3]
                ret414 = eval(t286, local__88, global__89)
            }
        case false:
            ret414 = Nil{}
        }
    case "lambda":
        var t287 int32 = int32(len(items__87))
        var mtmp97 bool = t287 == 3
        switch mtmp97 {
        case true:
            var mtmp98 SExpr = items__87[1]
            switch mtmp98 := mtmp98.(type) {
            case SExpr_Int:
                ret414 = Nil{}
            case SExpr_Bool:
                ret414 = Nil{}
            case SExpr_Sym:
                ret414 = Nil{}
            case List:
                var x102 []SExpr = mtmp98._0
                var params_exprs__95 []SExpr = x102
                var params__96 []string = params_from_sexprs(params_exprs__95)
                var body__97 SExpr = items__87[2]
                var t288 Lambda = Lambda{
                    params: params__96,
                    body: body__97,
                    env: local__88,
                    global: global__89,
                }
                ret414 = Func{
                    _0: t288,
                }
            }
        case false:
            ret414 = Nil{}
        }
    case "+":
        var t289 []Value = eval_args(items__87, 1, local__88, global__89)
        ret414 = apply_builtin("+", t289)
    case "-":
        var t290 []Value = eval_args(items__87, 1, local__88, global__89)
        ret414 = apply_builtin("-", t290)
    case "*":
        var t291 []Value = eval_args(items__87, 1, local__88, global__89)
        ret414 = apply_builtin("*", t291)
    case "/":
        var t292 []Value = eval_args(items__87, 1, local__88, global__89)
        ret414 = apply_builtin("/", t292)
    case "=":
        var t293 []Value = eval_args(items__87, 1, local__88, global__89)
        ret414 = apply_builtin("=", t293)
    default:
        var t294 SExpr = SExpr_Sym{
            _0: name__86,
        }
        var f__98 Value = eval(t294, local__88, global__89)
        var args__99 []Value = eval_args(items__87, 1, local__88, global__89)
        ret414 = apply(f__98, args__99, global__89)
    }
    return ret414
}

func eval_begin(items__100 []SExpr, start__101 int32, local__102 []Binding, global__103 *ref_vec_binding_x) Value {
    var ret415 Value
    var i__104 *ref_int32_x = ref__Ref_int32(start__101)
    var t295 Value = Nil{}
    var last__105 *ref_value_x = ref__Ref_Value(t295)
    var cond416 bool
    for {
        var t296 int32 = ref_get__Ref_int32(i__104)
        var t297 int32 = int32(len(items__100))
        cond416 = t296 < t297
        if !cond416 {
            break
        }
        var t299 int32 = ref_get__Ref_int32(i__104)
        var t298 SExpr = items__100[t299]
        var v__106 Value = eval(t298, local__102, global__103)
        ref_set__Ref_Value(last__105, v__106)
        var t301 int32 = ref_get__Ref_int32(i__104)
        var t300 int32 = t301 + 1
        ref_set__Ref_int32(i__104, t300)
    }
    ret415 = ref_get__Ref_Value(last__105)
    return ret415
}

func params_from_sexprs(items__107 []SExpr) []string {
    var ret417 []string
    var i__108 *ref_int32_x = ref__Ref_int32(0)
    var acc__109 []string = nil
    var params__110 *ref_vec_string_x = ref__Ref_Vec_string(acc__109)
    var cond418 bool
    for {
        var t302 int32 = ref_get__Ref_int32(i__108)
        var t303 int32 = int32(len(items__107))
        cond418 = t302 < t303
        if !cond418 {
            break
        }
        var t304 int32 = ref_get__Ref_int32(i__108)
        var mtmp105 SExpr = items__107[t304]
        switch mtmp105 := mtmp105.(type) {
        case SExpr_Int:
            var t306 int32 = ref_get__Ref_int32(i__108)
            var t305 int32 = t306 + 1
            ref_set__Ref_int32(i__108, t305)
        case SExpr_Bool:
            var t308 int32 = ref_get__Ref_int32(i__108)
            var t307 int32 = t308 + 1
            ref_set__Ref_int32(i__108, t307)
        case SExpr_Sym:
            var x108 string = mtmp105._0
            var name__111 string = x108
            var t310 []string = ref_get__Ref_Vec_string(params__110)
            var t309 []string = append(t310, name__111)
            ref_set__Ref_Vec_string(params__110, t309)
            var t312 int32 = ref_get__Ref_int32(i__108)
            var t311 int32 = t312 + 1
            ref_set__Ref_int32(i__108, t311)
        case List:
            var t314 int32 = ref_get__Ref_int32(i__108)
            var t313 int32 = t314 + 1
            ref_set__Ref_int32(i__108, t313)
        }
    }
    ret417 = ref_get__Ref_Vec_string(params__110)
    return ret417
}

func eval_args(items__112 []SExpr, start__113 int32, local__114 []Binding, global__115 *ref_vec_binding_x) []Value {
    var ret419 []Value
    var i__116 *ref_int32_x = ref__Ref_int32(start__113)
    var acc__117 []Value = nil
    var args__118 *ref_vec_value_x = ref__Ref_Vec_Value(acc__117)
    var cond420 bool
    for {
        var t315 int32 = ref_get__Ref_int32(i__116)
        var t316 int32 = int32(len(items__112))
        cond420 = t315 < t316
        if !cond420 {
            break
        }
        var t318 int32 = ref_get__Ref_int32(i__116)
        var t317 SExpr = items__112[t318]
        var v__119 Value = eval(t317, local__114, global__115)
        var t320 []Value = ref_get__Ref_Vec_Value(args__118)
        var t319 []Value = append(t320, v__119)
        ref_set__Ref_Vec_Value(args__118, t319)
        var t322 int32 = ref_get__Ref_int32(i__116)
        var t321 int32 = t322 + 1
        ref_set__Ref_int32(i__116, t321)
    }
    ret419 = ref_get__Ref_Vec_Value(args__118)
    return ret419
}

func apply_builtin(name__120 string, args__121 []Value) Value {
    var ret421 Value
    switch name__120 {
    case "=":
        var t323 int32 = int32(len(args__121))
        var mtmp114 bool = t323 == 2
        switch mtmp114 {
        case true:
            var t324 Value = args__121[0]
            var t325 Value = args__121[1]
            var mtmp115 Tuple2_Value_Value = Tuple2_Value_Value{
                _0: t324,
                _1: t325,
            }
            var x116 Value = mtmp115._0
            var x117 Value = mtmp115._1
            switch x117 := x117.(type) {
            case Value_Int:
                var x118 int32 = x117._0
                switch x116 := x116.(type) {
                case Value_Int:
                    var x121 int32 = x116._0
                    var a__122 int32 = x121
                    var b__123 int32 = x118
                    var t326 bool = a__122 == b__123
                    ret421 = Value_Bool{
                        _0: t326,
                    }
                case Value_Bool:
                    ret421 = Value_Bool{
                        _0: false,
                    }
                case Func:
                    ret421 = Value_Bool{
                        _0: false,
                    }
                case Nil:
                    ret421 = Value_Bool{
                        _0: false,
                    }
                }
            case Value_Bool:
                var x119 bool = x117._0
                switch x116 := x116.(type) {
                case Value_Int:
                    ret421 = Value_Bool{
                        _0: false,
                    }
                case Value_Bool:
                    var x125 bool = x116._0
                    var a__124 bool = x125
                    var b__125 bool = x119
                    var t327 bool = a__124 == b__125
                    ret421 = Value_Bool{
                        _0: t327,
                    }
                case Func:
                    ret421 = Value_Bool{
                        _0: false,
                    }
                case Nil:
                    ret421 = Value_Bool{
                        _0: false,
                    }
                }
            case Func:
                ret421 = Value_Bool{
                    _0: false,
                }
            case Nil:
                ret421 = Value_Bool{
                    _0: false,
                }
            }
        case false:
            ret421 = Value_Bool{
                _0: false,
            }
        }
    case "+":
        var i__126 *ref_int32_x = ref__Ref_int32(0)
        var acc__127 *ref_int32_x = ref__Ref_int32(0)
        var cond422 bool
        for {
            var t328 int32 = ref_get__Ref_int32(i__126)
            var t329 int32 = int32(len(args__121))
            cond422 = t328 < t329
            if !cond422 {
                break
            }
            var t330 int32 = ref_get__Ref_int32(i__126)
            var mtmp127 Value = args__121[t330]
            switch mtmp127 := mtmp127.(type) {
            case Value_Int:
                var x128 int32 = mtmp127._0
                var n__128 int32 = x128
                var t332 int32 = ref_get__Ref_int32(acc__127)
                var t331 int32 = t332 + n__128
                ref_set__Ref_int32(acc__127, t331)
                var t334 int32 = ref_get__Ref_int32(i__126)
                var t333 int32 = t334 + 1
                ref_set__Ref_int32(i__126, t333)
            case Value_Bool:
                var t336 int32 = ref_get__Ref_int32(i__126)
                var t335 int32 = t336 + 1
                ref_set__Ref_int32(i__126, t335)
            case Func:
                var t338 int32 = ref_get__Ref_int32(i__126)
                var t337 int32 = t338 + 1
                ref_set__Ref_int32(i__126, t337)
            case Nil:
                var t340 int32 = ref_get__Ref_int32(i__126)
                var t339 int32 = t340 + 1
                ref_set__Ref_int32(i__126, t339)
            }
        }
        var t341 int32 = ref_get__Ref_int32(acc__127)
        ret421 = Value_Int{
            _0: t341,
        }
    case "*":
        var i__129 *ref_int32_x = ref__Ref_int32(0)
        var acc__130 *ref_int32_x = ref__Ref_int32(1)
        var cond423 bool
        for {
            var t342 int32 = ref_get__Ref_int32(i__129)
            var t343 int32 = int32(len(args__121))
            cond423 = t342 < t343
            if !cond423 {
                break
            }
            var t344 int32 = ref_get__Ref_int32(i__129)
            var mtmp133 Value = args__121[t344]
            switch mtmp133 := mtmp133.(type) {
            case Value_Int:
                var x134 int32 = mtmp133._0
                var n__131 int32 = x134
                var t346 int32 = ref_get__Ref_int32(acc__130)
                var t345 int32 = t346 * n__131
                ref_set__Ref_int32(acc__130, t345)
                var t348 int32 = ref_get__Ref_int32(i__129)
                var t347 int32 = t348 + 1
                ref_set__Ref_int32(i__129, t347)
            case Value_Bool:
                var t350 int32 = ref_get__Ref_int32(i__129)
                var t349 int32 = t350 + 1
                ref_set__Ref_int32(i__129, t349)
            case Func:
                var t352 int32 = ref_get__Ref_int32(i__129)
                var t351 int32 = t352 + 1
                ref_set__Ref_int32(i__129, t351)
            case Nil:
                var t354 int32 = ref_get__Ref_int32(i__129)
                var t353 int32 = t354 + 1
                ref_set__Ref_int32(i__129, t353)
            }
        }
        var t355 int32 = ref_get__Ref_int32(acc__130)
        ret421 = Value_Int{
            _0: t355,
        }
    case "-":
        var mtmp139 int32 = int32(len(args__121))
        switch mtmp139 {
        case 1:
            var mtmp140 Value = args__121[0]
            switch mtmp140 := mtmp140.(type) {
            case Value_Int:
                var x141 int32 = mtmp140._0
                var n__132 int32 = x141
                var t356 int32 = 0 - n__132
                ret421 = Value_Int{
                    _0: t356,
                }
            case Value_Bool:
                ret421 = Nil{}
            case Func:
                ret421 = Nil{}
            case Nil:
                ret421 = Nil{}
            }
        case 2:
            var t357 Value = args__121[0]
            var t358 Value = args__121[1]
            var mtmp144 Tuple2_Value_Value = Tuple2_Value_Value{
                _0: t357,
                _1: t358,
            }
            var x145 Value = mtmp144._0
            var x146 Value = mtmp144._1
            switch x146 := x146.(type) {
            case Value_Int:
                var x147 int32 = x146._0
                switch x145 := x145.(type) {
                case Value_Int:
                    var x150 int32 = x145._0
                    var a__133 int32 = x150
                    var b__134 int32 = x147
                    var t359 int32 = a__133 - b__134
                    ret421 = Value_Int{
                        _0: t359,
                    }
                case Value_Bool:
                    ret421 = Nil{}
                case Func:
                    ret421 = Nil{}
                case Nil:
                    ret421 = Nil{}
                }
            case Value_Bool:
                ret421 = Nil{}
            case Func:
                ret421 = Nil{}
            case Nil:
                ret421 = Nil{}
            }
        default:
            ret421 = Nil{}
        }
    case "/":
        var t360 int32 = int32(len(args__121))
        var mtmp153 bool = t360 == 2
        switch mtmp153 {
        case true:
            var t361 Value = args__121[0]
            var t362 Value = args__121[1]
            var mtmp154 Tuple2_Value_Value = Tuple2_Value_Value{
                _0: t361,
                _1: t362,
            }
            var x155 Value = mtmp154._0
            var x156 Value = mtmp154._1
            switch x156 := x156.(type) {
            case Value_Int:
                var x157 int32 = x156._0
                switch x155 := x155.(type) {
                case Value_Int:
                    var x160 int32 = x155._0
                    var a__135 int32 = x160
                    var b__136 int32 = x157
                    var t363 int32 = a__135 / b__136
                    ret421 = Value_Int{
                        _0: t363,
                    }
                case Value_Bool:
                    ret421 = Nil{}
                case Func:
                    ret421 = Nil{}
                case Nil:
                    ret421 = Nil{}
                }
            case Value_Bool:
                ret421 = Nil{}
            case Func:
                ret421 = Nil{}
            case Nil:
                ret421 = Nil{}
            }
        case false:
            ret421 = Nil{}
        }
    default:
        ret421 = Nil{}
    }
    return ret421
}

func apply(func__137 Value, args__138 []Value, global__139 *ref_vec_binding_x) Value {
    var ret424 Value
    switch func__137 := func__137.(type) {
    case Value_Int:
        ret424 = Nil{}
    case Value_Bool:
        ret424 = Nil{}
    case Func:
        var x165 Lambda = func__137._0
        var fun__140 Lambda = x165
        ret424 = apply_lambda(fun__140, args__138)
    case Nil:
        ret424 = Nil{}
    }
    return ret424
}

func apply_lambda(lambda__141 Lambda, args__142 []Value) Value {
    var ret425 Value
    var t364 []Binding = lambda__141.env
    var env__143 *ref_vec_binding_x = ref__Ref_Vec_Binding(t364)
    var i__144 *ref_int32_x = ref__Ref_int32(0)
    var cond426 bool
    for {
        var t366 int32 = ref_get__Ref_int32(i__144)
        var t368 []string = lambda__141.params
        var t367 int32 = int32(len(t368))
        var t365 bool = t366 < t367
        var t370 int32 = ref_get__Ref_int32(i__144)
        var t371 int32 = int32(len(args__142))
        var t369 bool = t370 < t371
        cond426 = t365 && t369
        if !cond426 {
            break
        }
        var t372 []string = lambda__141.params
        var t373 int32 = ref_get__Ref_int32(i__144)
        var name__145 string = t372[t373]
        var t374 int32 = ref_get__Ref_int32(i__144)
        var value__146 Value = args__142[t374]
        var t375 []Binding = ref_get__Ref_Vec_Binding(env__143)
        var t376 Binding = Binding{
            name: name__145,
            value: value__146,
        }
        var updated__147 []Binding = append(t375, t376)
        ref_set__Ref_Vec_Binding(env__143, updated__147)
        var t378 int32 = ref_get__Ref_int32(i__144)
        var t377 int32 = t378 + 1
        ref_set__Ref_int32(i__144, t377)
    }
    var t379 SExpr = lambda__141.body
    var t380 []Binding = ref_get__Ref_Vec_Binding(env__143)
    var t381 *ref_vec_binding_x = lambda__141.global
    ret425 = eval(t379, t380, t381)
    return ret425
}

func main0() struct{} {
    var ret427 struct{}
    var t382 []Binding = nil
    var global__148 *ref_vec_binding_x = ref__Ref_Vec_Binding(t382)
    var program__149 string = "(begin (define fact (lambda (n) (if (= n 0) 1 (* n (fact (- n 1)))))) (define add3 (lambda (a b c) (+ a (+ b c)))) (fact 6))"
    var t383 []Token = lex(program__149)
    var exprs__150 []SExpr = parse_program(t383)
    var t384 SExpr = exprs__150[0]
    var t385 []Binding = nil
    var result__151 Value = eval(t384, t385, global__148)
    var t386 string = value_to_string(result__151)
    string_println(t386)
    var t387 []Token = lex("(add3 10 20 30)")
    var exprs2__152 []SExpr = parse_program(t387)
    var t388 SExpr = exprs2__152[0]
    var t389 []Binding = nil
    var result2__153 Value = eval(t388, t389, global__148)
    var t390 string = value_to_string(result2__153)
    string_println(t390)
    ret427 = struct{}{}
    return ret427
}

func main() {
    main0()
}
