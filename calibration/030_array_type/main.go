package main

import (
    "fmt"
)

func string_print(s string) struct{} {
    fmt.Print(s)
    return struct{}{}
}

type Buffer struct {
    values [3]int32
}

func main0() struct{} {
    var ret1 struct{}
    ret1 = string_print("array")
    return ret1
}

func main() {
    main0()
}
