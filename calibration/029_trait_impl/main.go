package main

import (
    "fmt"
)

func int32_to_string(x int32) string {
    return fmt.Sprintf("%d", x)
}

func string_println(s string) struct{} {
    fmt.Println(s)
    return struct{}{}
}

type Point struct {
    x int32
    y int32
}

type Maybe__int32 interface {
    isMaybe__int32()
}

type Just struct {
    _0 int32
}

func (_ Just) isMaybe__int32() {}

type Nothing struct {}

func (_ Nothing) isMaybe__int32() {}

func _goml_trait_impl_Display_Point_show(self__0 Point) string {
    var ret9 string
    ret9 = "Point"
    return ret9
}

func _goml_trait_impl_Display_Maybe_x5b_int32_x5d__show(self__1 Maybe__int32) string {
    var ret10 string
    switch self__1 := self__1.(type) {
    case Just:
        var x0 int32 = self__1._0
        var value__2 int32 = x0
        var t5 string = int32_to_string(value__2)
        var t4 string = "Just(" + t5
        ret10 = t4 + ")"
    case Nothing:
        ret10 = "Nothing"
    }
    return ret10
}

func make_maybe(flag__3 bool) Maybe__int32 {
    var ret11 Maybe__int32
    if flag__3 {
        ret11 = Just{
            _0: 42,
        }
    } else {
        ret11 = Nothing{}
    }
    return ret11
}

func main0() struct{} {
    var ret12 struct{}
    var point__4 Point = Point{
        x: 1,
        y: 2,
    }
    var some_number__5 Maybe__int32 = make_maybe(true)
    var none_number__6 Maybe__int32 = make_maybe(false)
    var t6 string = _goml_trait_impl_Display_Point_show(point__4)
    string_println(t6)
    var t7 string = _goml_trait_impl_Display_Maybe_x5b_int32_x5d__show(some_number__5)
    string_println(t7)
    var t8 string = _goml_trait_impl_Display_Maybe_x5b_int32_x5d__show(none_number__6)
    string_println(t8)
    ret12 = struct{}{}
    return ret12
}

func main() {
    main0()
}
