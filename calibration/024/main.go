package main

import (
    "fmt"
)

func int32_to_string(x int32) string {
    return fmt.Sprintf("%d", x)
}

func string_println(s string) struct{} {
    fmt.Println(s)
    return struct{}{}
}

type Point struct {
    x int32
    y int32
}

type Line struct {
    from Point
    to Point
    color Color
}

type Color interface {
    isColor()
}

type Red struct {}

func (_ Red) isColor() {}

type Green struct {}

func (_ Green) isColor() {}

type Blue struct {}

func (_ Blue) isColor() {}

func point32_to_string(p__0 Point) string {
    var ret27 string
    var mtmp0 Point = p__0
    var x1 int32 = mtmp0.x
    var x2 int32 = mtmp0.y
    var y__2 int32 = x2
    var x__1 int32 = x1
    var t14 string = int32_to_string(x__1)
    var t13 string = "Point { x: " + t14
    var t12 string = t13 + ", y: "
    var t15 string = int32_to_string(y__2)
    var t11 string = t12 + t15
    ret27 = t11 + " }"
    return ret27
}

func color_to_string(c__3 Color) string {
    var ret28 string
    switch c__3.(type) {
    case Red:
        ret28 = "Red"
    case Green:
        ret28 = "Green"
    case Blue:
        ret28 = "Blue"
    }
    return ret28
}

func line_to_string(l__4 Line) string {
    var ret29 string
    var mtmp3 Line = l__4
    var x4 Point = mtmp3.from
    var x5 Point = mtmp3.to
    var x6 Color = mtmp3.color
    var color__7 Color = x6
    var to__6 Point = x5
    var from__5 Point = x4
    var t21 string = point32_to_string(from__5)
    var t20 string = "Line { from: " + t21
    var t19 string = t20 + ", to: "
    var t22 string = point32_to_string(to__6)
    var t18 string = t19 + t22
    var t17 string = t18 + ", color: "
    var t23 string = color_to_string(color__7)
    var t16 string = t17 + t23
    ret29 = t16 + " }"
    return ret29
}

func point_type(p__8 Point) string {
    var ret30 string
    var x7 int32 = p__8.x
    var x8 int32 = p__8.y
    switch x7 {
    case 0:
        switch x8 {
        case 0:
            ret30 = "origin"
        case 1:
            ret30 = "up"
        default:
            var y__9 int32 = x8
            var mtmp9 bool = 0 < y__9
            switch mtmp9 {
            case true:
                ret30 = "above"
            case false:
                ret30 = "below"
            }
        }
    case 1:
        switch x8 {
        case 0:
            ret30 = "right"
        default:
            ret30 = "unknown"
        }
    default:
        ret30 = "unknown"
    }
    return ret30
}

func main0() struct{} {
    var ret31 struct{}
    var p0__10 Point = Point{
        x: 0,
        y: 0,
    }
    var t24 string = point_type(p0__10)
    string_println(t24)
    var p1__11 Point = Point{
        x: 10,
        y: 10,
    }
    var t25 Color = Red{}
    var line__12 Line = Line{
        from: p0__10,
        to: p1__11,
        color: t25,
    }
    var t26 string = line_to_string(line__12)
    ret31 = string_println(t26)
    return ret31
}

func main() {
    main0()
}
