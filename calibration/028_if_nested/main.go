package main

import (
    "fmt"
)

func string_println(s string) struct{} {
    fmt.Println(s)
    return struct{}{}
}

func classify(x__0 int32) string {
    var ret12 string
    var t6 bool = x__0 < 0
    if t6 {
        ret12 = "negative"
    } else {
        var t7 bool = 0 < x__0
        if t7 {
            ret12 = "positive"
        } else {
            ret12 = "zero"
        }
    }
    return ret12
}

func triangle_type(a__1 int32, b__2 int32, c__3 int32) string {
    var ret13 string
    var t8 bool = a__1 < b__2
    if t8 {
        var t9 bool = b__2 < c__3
        if t9 {
            ret13 = "ascending"
        } else {
            ret13 = "peak"
        }
    } else {
        var t10 bool = a__1 < c__3
        if t10 {
            ret13 = "valley"
        } else {
            ret13 = "flat"
        }
    }
    return ret13
}

func main0() struct{} {
    var ret14 struct{}
    var t11 int32 = -42
    var first__4 string = classify(t11)
    var second__5 string = classify(0)
    var third__6 string = classify(17)
    var shape1__7 string = triangle_type(1, 2, 3)
    var shape2__8 string = triangle_type(3, 2, 1)
    var shape3__9 string = triangle_type(2, 3, 2)
    string_println(first__4)
    string_println(second__5)
    string_println(third__6)
    string_println(shape1__7)
    string_println(shape2__8)
    string_println(shape3__9)
    ret14 = struct{}{}
    return ret14
}

func main() {
    main0()
}
