package main

import (
    "fmt"
)

func int32_to_string(x int32) string {
    return fmt.Sprintf("%d", x)
}

func string_println(s string) struct{} {
    fmt.Println(s)
    return struct{}{}
}

type _goml_Lib_x3a__x3a_Color interface {
    is_goml_Lib_x3a__x3a_Color()
}

type Red struct {}

func (_ Red) is_goml_Lib_x3a__x3a_Color() {}

type Green struct {}

func (_ Green) is_goml_Lib_x3a__x3a_Color() {}

func main0() struct{} {
    var ret3 struct{}
    var t2 _goml_Lib_x3a__x3a_Color = Red{}
    var t1 int32 = _goml_Lib_x3a__x3a_color_to_int(t2)
    var t0 string = int32_to_string(t1)
    ret3 = string_println(t0)
    return ret3
}

func _goml_Lib_x3a__x3a_color_to_int(c__0 _goml_Lib_x3a__x3a_Color) int32 {
    var ret4 int32
    switch c__0.(type) {
    case Red:
        ret4 = 1
    case Green:
        ret4 = 2
    }
    return ret4
}

func main() {
    main0()
}
