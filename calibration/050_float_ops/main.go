package main

import (
    "fmt"
)

func bool_to_string(x bool) string {
    if x {
        return "true"
    } else {
        return "false"
    }
}

func float32_to_string(x float32) string {
    return fmt.Sprintf("%d", x)
}

func float64_to_string(x float64) string {
    return fmt.Sprintf("%d", x)
}

func string_println(s string) struct{} {
    fmt.Println(s)
    return struct{}{}
}

func show32(label__0 string, value__1 float32) struct{} {
    var ret21 struct{}
    var t10 string = float32_to_string(value__1)
    var message__2 string = label__0 + t10
    string_println(message__2)
    ret21 = struct{}{}
    return ret21
}

func show64(label__3 string, value__4 float64) struct{} {
    var ret22 struct{}
    var t11 string = float64_to_string(value__4)
    var message__5 string = label__3 + t11
    string_println(message__5)
    ret22 = struct{}{}
    return ret22
}

func lerp32(a__6 float32, b__7 float32, weight__8 float32) float32 {
    var ret23 float32
    var delta__9 float32 = b__7 - a__6
    var t12 float32 = delta__9 * weight__8
    ret23 = a__6 + t12
    return ret23
}

func midpoint_energy(x__10 float64, y__11 float64) float64 {
    var ret24 float64
    var t13 float64 = x__10 * x__10
    var t14 float64 = y__11 * y__11
    var sum__12 float64 = t13 + t14
    ret24 = sum__12 / 2
    return ret24
}

func main0() struct{} {
    var ret25 struct{}
    var start32__13 float32 = 1.25
    var end32__14 float32 = 5.75
    var half__15 float32 = 0.5
    var scale__16 float32 = 2
    var mid32__17 float32 = lerp32(start32__13, end32__14, half__15)
    var neg_end32__18 float32 = -end32__14
    var ratio32__19 float32 = end32__14 / scale__16
    var less32__20 bool = start32__13 < end32__14
    var dx__21 float64 = 6.5
    var dy__22 float64 = 3.5
    var quarter__23 float64 = 0.25
    var energy__24 float64 = midpoint_energy(dx__21, dy__22)
    var neg_dx__25 float64 = -dx__21
    var t15 float64 = energy__24 + dy__22
    var t16 float64 = dx__21 * quarter__23
    var adjusted__26 float64 = t15 - t16
    var threshold__27 float64 = 4
    var less64__28 bool = adjusted__26 < threshold__27
    show32("mid32=", mid32__17)
    show32("neg_end32=", neg_end32__18)
    show32("ratio32=", ratio32__19)
    var t18 string = bool_to_string(less32__20)
    var t17 string = "less32=" + t18
    string_println(t17)
    show64("energy=", energy__24)
    show64("neg_dx=", neg_dx__25)
    show64("adjusted=", adjusted__26)
    var t20 string = bool_to_string(less64__28)
    var t19 string = "less64=" + t20
    string_println(t19)
    ret25 = struct{}{}
    return ret25
}

func main() {
    main0()
}
