package main

import (
    "fmt"
)

func int32_to_string(x int32) string {
    return fmt.Sprintf("%d", x)
}

func string_println(s string) struct{} {
    fmt.Println(s)
    return struct{}{}
}

func choose(flag__0 bool, x__1 int32, y__2 int32) int32 {
    var ret6 int32
    if flag__0 {
        ret6 = x__1
    } else {
        ret6 = y__2
    }
    return ret6
}

func main0() struct{} {
    var ret7 struct{}
    var yes__3 int32 = choose(true, 10, 99)
    var no__4 int32 = choose(false, 10, 99)
    var t3 string = int32_to_string(yes__3)
    var t2 string = "yes=" + t3
    string_println(t2)
    var t5 string = int32_to_string(no__4)
    var t4 string = "no=" + t5
    string_println(t4)
    ret7 = struct{}{}
    return ret7
}

func main() {
    main0()
}
