package main

import (
    "fmt"
)

func int32_to_string(x int32) string {
    return fmt.Sprintf("%d", x)
}

func string_println(s string) struct{} {
    fmt.Println(s)
    return struct{}{}
}

func array_get__Array_2_Fn_int32_to_int32(arr [2]func(int32) int32, index int32) func(int32) int32 {
    return arr[index]
}

func double(x__0 int32) int32 {
    var ret9 int32
    ret9 = x__0 * 2
    return ret9
}

func increment(x__1 int32) int32 {
    var ret10 int32
    ret10 = x__1 + 1
    return ret10
}

func chooser(flag__2 bool) func(int32) int32 {
    var ret11 func(int32) int32
    if flag__2 {
        ret11 = double
    } else {
        ret11 = increment
    }
    return ret11
}

func main0() struct{} {
    var ret12 struct{}
    var xs__3 [2]func(int32) int32 = [2]func(int32) int32{double, increment}
    var f__4 func(int32) int32 = array_get__Array_2_Fn_int32_to_int32(xs__3, 0)
    var g__5 func(int32) int32 = array_get__Array_2_Fn_int32_to_int32(xs__3, 1)
    var t5 int32 = f__4(10)
    var t4 int32 = g__5(t5)
    var t3 string = int32_to_string(t4)
    string_println(t3)
    var chosen__6 func(int32) int32 = chooser(true)
    var applied__7 int32 = chosen__6(5)
    var t6 func(int32) int32 = chooser(false)
    var direct__8 int32 = t6(5)
    var printer__9 func(string) struct{} = string_println
    var t7 string = int32_to_string(applied__7)
    printer__9(t7)
    var t8 string = int32_to_string(direct__8)
    printer__9(t8)
    ret12 = struct{}{}
    return ret12
}

func main() {
    main0()
}
