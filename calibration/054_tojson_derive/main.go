package main

import (
    "fmt"
)

func bool_to_json(x bool) string {
    if x {
        return "true"
    } else {
        return "false"
    }
}

func json_escape_string(s string) string {
    return fmt.Sprintf("%q", s)
}

func int32_to_string(x int32) string {
    return fmt.Sprintf("%d", x)
}

func string_println(s string) struct{} {
    fmt.Println(s)
    return struct{}{}
}

type Point struct {
    x int32
    y int32
}

type Person struct {
    name string
    age int32
    active bool
}

type Color interface {
    isColor()
}

type Red struct {}

func (_ Red) isColor() {}

type Green struct {}

func (_ Green) isColor() {}

type Blue struct {}

func (_ Blue) isColor() {}

type Rgb struct {
    _0 int32
    _1 int32
    _2 int32
}

func (_ Rgb) isColor() {}

func _goml_inherent_Point_Point_to_json(self__0 Point) string {
    var ret44 string
    var mtmp0 Point = self__0
    var x1 int32 = mtmp0.x
    var x2 int32 = mtmp0.y
    var y__2 int32 = x2
    var x__1 int32 = x1
    var t18 string = "{" + "\"x\":"
    var t19 string = int32_to_string(x__1)
    var t17 string = t18 + t19
    var t16 string = t17 + ","
    var t15 string = t16 + "\"y\":"
    var t20 string = int32_to_string(y__2)
    var t14 string = t15 + t20
    ret44 = t14 + "}"
    return ret44
}

func _goml_inherent_Person_Person_to_json(self__3 Person) string {
    var ret45 string
    var mtmp3 Person = self__3
    var x4 string = mtmp3.name
    var x5 int32 = mtmp3.age
    var x6 bool = mtmp3.active
    var active__6 bool = x6
    var age__5 int32 = x5
    var name__4 string = x4
    var t28 string = "{" + "\"name\":"
    var t29 string = json_escape_string(name__4)
    var t27 string = t28 + t29
    var t26 string = t27 + ","
    var t25 string = t26 + "\"age\":"
    var t30 string = int32_to_string(age__5)
    var t24 string = t25 + t30
    var t23 string = t24 + ","
    var t22 string = t23 + "\"active\":"
    var t31 string = bool_to_json(active__6)
    var t21 string = t22 + t31
    ret45 = t21 + "}"
    return ret45
}

func _goml_inherent_Color_Color_to_json(self__7 Color) string {
    var ret46 string
    switch self__7 := self__7.(type) {
    case Red:
        ret46 = "{\"tag\":\"Red\"}"
    case Green:
        ret46 = "{\"tag\":\"Green\"}"
    case Blue:
        ret46 = "{\"tag\":\"Blue\"}"
    case Rgb:
        var x7 int32 = self__7._0
        var x8 int32 = self__7._1
        var x9 int32 = self__7._2
        var __field2__10 int32 = x9
        var __field1__9 int32 = x8
        var __field0__8 int32 = x7
        var t37 string = int32_to_string(__field0__8)
        var t36 string = "{\"tag\":\"Rgb\",\"fields\":[" + t37
        var t35 string = t36 + ","
        var t38 string = int32_to_string(__field1__9)
        var t34 string = t35 + t38
        var t33 string = t34 + ","
        var t39 string = int32_to_string(__field2__10)
        var t32 string = t33 + t39
        ret46 = t32 + "]}"
    }
    return ret46
}

func main0() struct{} {
    var ret47 struct{}
    var p__11 Point = Point{
        x: 10,
        y: 20,
    }
    var person__12 Person = Person{
        name: "Alice",
        age: 30,
        active: true,
    }
    var c1__13 Color = Red{}
    var c2__14 Color = Rgb{
        _0: 255,
        _1: 128,
        _2: 0,
    }
    var t40 string = _goml_inherent_Point_Point_to_json(p__11)
    string_println(t40)
    var t41 string = _goml_inherent_Person_Person_to_json(person__12)
    string_println(t41)
    var t42 string = _goml_inherent_Color_Color_to_json(c1__13)
    string_println(t42)
    var t43 string = _goml_inherent_Color_Color_to_json(c2__14)
    string_println(t43)
    ret47 = struct{}{}
    return ret47
}

func main() {
    main0()
}
