package main

import (
    "fmt"
)

func int32_to_string(x int32) string {
    return fmt.Sprintf("%d", x)
}

func string_println(s string) struct{} {
    fmt.Println(s)
    return struct{}{}
}

type List__int32 interface {
    isList__int32()
}

type List__int32_Nil struct {}

func (_ List__int32_Nil) isList__int32() {}

type List__int32_Cons struct {
    _0 int32
    _1 List__int32
}

func (_ List__int32_Cons) isList__int32() {}

type List__unit interface {
    isList__unit()
}

type List__unit_Nil struct {}

func (_ List__unit_Nil) isList__unit() {}

type List__unit_Cons struct {
    _0 struct{}
    _1 List__unit
}

func (_ List__unit_Cons) isList__unit() {}

type List__bool interface {
    isList__bool()
}

type List__bool_Nil struct {}

func (_ List__bool_Nil) isList__bool() {}

type List__bool_Cons struct {
    _0 bool
    _1 List__bool
}

func (_ List__bool_Cons) isList__bool() {}

func int_list_length(xs__2 List__int32) int32 {
    var ret31 int32
    switch xs__2 := xs__2.(type) {
    case List__int32_Nil:
        ret31 = 0
    case List__int32_Cons:
        var x3 List__int32 = xs__2._1
        var tail__3 List__int32 = x3
        var t10 int32 = int_list_length(tail__3)
        ret31 = 1 + t10
    }
    return ret31
}

func main0() struct{} {
    var ret32 struct{}
    var t11 List__int32 = List__int32_Nil{}
    var x__4 List__int32 = List__int32_Cons{
        _0: 1,
        _1: t11,
    }
    var length__5 int32 = list_length__T_int32(x__4)
    var t12 string = int32_to_string(length__5)
    string_println(t12)
    var t14 List__int32 = List__int32_Nil{}
    var t13 List__int32 = List__int32_Cons{
        _0: 2,
        _1: t14,
    }
    var x__6 List__int32 = List__int32_Cons{
        _0: 1,
        _1: t13,
    }
    var length__7 int32 = list_length__T_int32(x__6)
    var t15 string = int32_to_string(length__7)
    string_println(t15)
    var t18 List__int32 = List__int32_Nil{}
    var t17 List__int32 = List__int32_Cons{
        _0: 2,
        _1: t18,
    }
    var t16 List__int32 = List__int32_Cons{
        _0: 1,
        _1: t17,
    }
    var x__8 List__int32 = List__int32_Cons{
        _0: 0,
        _1: t16,
    }
    var length__9 int32 = int_list_length(x__8)
    var t19 string = int32_to_string(length__9)
    string_println(t19)
    var t20 List__unit = List__unit_Nil{}
    var x__10 List__unit = List__unit_Cons{
        _0: struct{}{},
        _1: t20,
    }
    var length__11 int32 = list_length__T_unit(x__10)
    var t21 string = int32_to_string(length__11)
    string_println(t21)
    var t23 List__unit = List__unit_Nil{}
    var t22 List__unit = List__unit_Cons{
        _0: struct{}{},
        _1: t23,
    }
    var x__12 List__unit = List__unit_Cons{
        _0: struct{}{},
        _1: t22,
    }
    var length__13 int32 = list_length__T_unit(x__12)
    var t24 string = int32_to_string(length__13)
    string_println(t24)
    var t26 List__bool = List__bool_Nil{}
    var t25 List__bool = List__bool_Cons{
        _0: false,
        _1: t26,
    }
    var x__14 List__bool = List__bool_Cons{
        _0: true,
        _1: t25,
    }
    var length__15 int32 = list_length__T_bool(x__14)
    var t27 string = int32_to_string(length__15)
    string_println(t27)
    ret32 = struct{}{}
    return ret32
}

func list_length__T_int32(xs__0 List__int32) int32 {
    var ret33 int32
    switch xs__0 := xs__0.(type) {
    case List__int32_Nil:
        ret33 = 0
    case List__int32_Cons:
        var x1 List__int32 = xs__0._1
        var tail__1 List__int32 = x1
        var t28 int32 = list_length__T_int32(tail__1)
        ret33 = 1 + t28
    }
    return ret33
}

func list_length__T_unit(xs__0 List__unit) int32 {
    var ret34 int32
    switch xs__0 := xs__0.(type) {
    case List__unit_Nil:
        ret34 = 0
    case List__unit_Cons:
        var x1 List__unit = xs__0._1
        var tail__1 List__unit = x1
        var t29 int32 = list_length__T_unit(tail__1)
        ret34 = 1 + t29
    }
    return ret34
}

func list_length__T_bool(xs__0 List__bool) int32 {
    var ret35 int32
    switch xs__0 := xs__0.(type) {
    case List__bool_Nil:
        ret35 = 0
    case List__bool_Cons:
        var x1 List__bool = xs__0._1
        var tail__1 List__bool = x1
        var t30 int32 = list_length__T_bool(tail__1)
        ret35 = 1 + t30
    }
    return ret35
}

func main() {
    main0()
}
