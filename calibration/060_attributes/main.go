package main

import (
    "fmt"
)

func int32_to_string(x int32) string {
    return fmt.Sprintf("%d", x)
}

func string_println(s string) struct{} {
    fmt.Println(s)
    return struct{}{}
}

type Point struct {
    x int32
    y int32
}

type Message interface {
    isMessage()
}

type Quit struct {}

func (_ Quit) isMessage() {}

type Move struct {
    _0 int32
    _1 int32
}

func (_ Move) isMessage() {}

type Write struct {
    _0 string
}

func (_ Write) isMessage() {}

func _goml_inherent_Point_Point_to_string(self__0 Point) string {
    var ret26 string
    var mtmp0 Point = self__0
    var x1 int32 = mtmp0.x
    var x2 int32 = mtmp0.y
    var y__2 int32 = x2
    var x__1 int32 = x1
    var t14 string = "Point { " + "x: "
    var t15 string = int32_to_string(x__1)
    var t13 string = t14 + t15
    var t12 string = t13 + ", "
    var t11 string = t12 + "y: "
    var t16 string = int32_to_string(y__2)
    var t10 string = t11 + t16
    ret26 = t10 + " }"
    return ret26
}

func _goml_inherent_Message_Message_to_string(self__3 Message) string {
    var ret27 string
    switch self__3 := self__3.(type) {
    case Quit:
        ret27 = "Message::Quit"
    case Move:
        var x3 int32 = self__3._0
        var x4 int32 = self__3._1
        var __field1__5 int32 = x4
        var __field0__4 int32 = x3
        var t20 string = int32_to_string(__field0__4)
        var t19 string = "Message::Move(" + t20
        var t18 string = t19 + ", "
        var t21 string = int32_to_string(__field1__5)
        var t17 string = t18 + t21
        ret27 = t17 + ")"
    case Write:
        var x5 string = self__3._0
        var __field0__6 string = x5
        var t22 string = "Message::Write(" + __field0__6
        ret27 = t22 + ")"
    }
    return ret27
}

func main0() struct{} {
    var ret28 struct{}
    var point__7 Point = Point{
        x: 4,
        y: 7,
    }
    var summary__8 string = _goml_inherent_Point_Point_to_string(point__7)
    var t23 Message = Move{
        _0: 1,
        _1: 2,
    }
    var mv__9 string = _goml_inherent_Message_Message_to_string(t23)
    var t24 Message = Write{
        _0: "done",
    }
    var text__10 string = _goml_inherent_Message_Message_to_string(t24)
    var t25 Message = Quit{}
    var exit__11 string = _goml_inherent_Message_Message_to_string(t25)
    string_println(summary__8)
    string_println(mv__9)
    string_println(text__10)
    string_println(exit__11)
    ret28 = struct{}{}
    return ret28
}

func main() {
    main0()
}
