package main

import (
    "fmt"
)

func int32_to_string(x int32) string {
    return fmt.Sprintf("%d", x)
}

func string_println(s string) struct{} {
    fmt.Println(s)
    return struct{}{}
}

func main0() struct{} {
    var ret8 struct{}
    var v__0 []int32 = nil
    var v__1 []int32 = append(v__0, 10)
    var v__2 []int32 = append(v__1, 20)
    var v__3 []int32 = append(v__2, 30)
    var first__4 int32 = v__3[0]
    var second__5 int32 = v__3[1]
    var third__6 int32 = v__3[2]
    var len__7 int32 = int32(len(v__3))
    var t4 string = int32_to_string(first__4)
    string_println(t4)
    var t5 string = int32_to_string(second__5)
    string_println(t5)
    var t6 string = int32_to_string(third__6)
    string_println(t6)
    var t7 string = int32_to_string(len__7)
    string_println(t7)
    ret8 = struct{}{}
    return ret8
}

func main() {
    main0()
}
