package main

import (
    "fmt"
)

func bool_to_string(x bool) string {
    if x {
        return "true"
    } else {
        return "false"
    }
}

func string_print(s string) struct{} {
    fmt.Print(s)
    return struct{}{}
}

type Tuple2_Color_Color struct {
    _0 Color
    _1 Color
}

type Color interface {
    isColor()
}

type Red struct {}

func (_ Red) isColor() {}

type Green struct {}

func (_ Green) isColor() {}

type Blue struct {}

func (_ Blue) isColor() {}

func main0() bool {
    var ret6 bool
    var t3 Color = Blue{}
    var t4 Color = Blue{}
    var a__0 Tuple2_Color_Color = Tuple2_Color_Color{
        _0: t3,
        _1: t4,
    }
    var x0 Color = a__0._0
    var x1 Color = a__0._1
    switch x1.(type) {
    case Red:
        switch x0.(type) {
        case Red:
            ret6 = true
        case Green:
            ret6 = false
        case Blue:
            ret6 = false
        }
    case Green:
        switch x0.(type) {
        case Red:
            ret6 = true
        case Green:
            ret6 = false
        case Blue:
            ret6 = false
        }
    case Blue:
        switch x0.(type) {
        case Red:
            ret6 = false
        case Green:
            ret6 = false
        case Blue:
            var t5 string = bool_to_string(true)
            string_print(t5)
            ret6 = false
        }
    }
    return ret6
}

func main() {
    main0()
}
