package main

import (
    "fmt"
)

func bool_to_string(x bool) string {
    if x {
        return "true"
    } else {
        return "false"
    }
}

func float32_to_string(x float32) string {
    return fmt.Sprintf("%d", x)
}

func float64_to_string(x float64) string {
    return fmt.Sprintf("%d", x)
}

func string_println(s string) struct{} {
    fmt.Println(s)
    return struct{}{}
}

type Tuple2_float32_float64 struct {
    _0 float32
    _1 float64
}

type FloatEvent interface {
    isFloatEvent()
}

type Sample32 struct {
    _0 string
    _1 float32
}

func (_ Sample32) isFloatEvent() {}

type Sample64 struct {
    _0 string
    _1 float64
}

func (_ Sample64) isFloatEvent() {}

func summarize(event__0 FloatEvent) string {
    var ret21 string
    switch event__0 := event__0.(type) {
    case Sample32:
        var x0 string = event__0._0
        var x1 float32 = event__0._1
        var value__2 float32 = x1
        var label__1 string = x0
        var t7 string = float32_to_string(value__2)
        ret21 = label__1 + t7
    case Sample64:
        var x2 string = event__0._0
        var x3 float64 = event__0._1
        var value__4 float64 = x3
        var label__3 string = x2
        var t8 string = float64_to_string(value__4)
        ret21 = label__3 + t8
    }
    return ret21
}

func compare(values__5 Tuple2_float32_float64) string {
    var ret22 string
    var x4 float32 = values__5._0
    var x5 float64 = values__5._1
    var right__7 float64 = x5
    var left__6 float32 = x4
    var limit32__8 float32 = 1
    var limit64__9 float64 = 5
    var less_left__10 bool = left__6 < limit32__8
    var less_right__11 bool = right__7 < limit64__9
    var t11 string = bool_to_string(less_left__10)
    var t10 string = "left<1?=" + t11
    var t9 string = t10 + ",right<5?="
    var t12 string = bool_to_string(less_right__11)
    ret22 = t9 + t12
    return ret22
}

func main0() struct{} {
    var ret23 struct{}
    var first_value__12 float32 = 0.5
    var second_value__13 float32 = 2.25
    var third_value__14 float64 = 9.5
    var first__15 FloatEvent = Sample32{
        _0: "f32=",
        _1: first_value__12,
    }
    var second__16 FloatEvent = Sample32{
        _0: "f32_b=",
        _1: second_value__13,
    }
    var third__17 FloatEvent = Sample64{
        _0: "f64=",
        _1: third_value__14,
    }
    var tuple__18 Tuple2_float32_float64 = Tuple2_float32_float64{
        _0: 0.75,
        _1: 4,
    }
    var tuple_other__19 Tuple2_float32_float64 = Tuple2_float32_float64{
        _0: 1.5,
        _1: 7.25,
    }
    var t16 string = summarize(first__15)
    var t17 string = summarize(second__16)
    var t15 string = t16 + t17
    var t18 string = summarize(third__17)
    var t14 string = t15 + t18
    var t19 string = compare(tuple__18)
    var t13 string = t14 + t19
    var t20 string = compare(tuple_other__19)
    var message__20 string = t13 + t20
    string_println(message__20)
    ret23 = struct{}{}
    return ret23
}

func main() {
    main0()
}
