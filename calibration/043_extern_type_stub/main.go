package main

import (
    "fmt"
    "time"
)

func string_println(s string) struct{} {
    fmt.Println(s)
    return struct{}{}
}

type Time = time.Time

type Duration = time.Duration

func describe_epoch() string {
    var ret6 string
    var epoch__0 Time = time.Unix(946684800, 500000000)
    ret6 = fmt.Sprintf("epoch snapshot => %v", epoch__0)
    return ret6
}

func describe_planned_launch() string {
    var ret7 string
    var launch__1 Time = time.Unix(1709294730, 250000000)
    ret7 = fmt.Sprintf("planned launch => %v", launch__1)
    return ret7
}

func describe_duration() string {
    var ret8 string
    var parsed__2 Duration = time.Duration(1500000000)
    ret8 = fmt.Sprintf("parsed duration => %v", parsed__2)
    return ret8
}

func main0() struct{} {
    var ret9 struct{}
    var t3 string = describe_epoch()
    string_println(t3)
    var t4 string = describe_planned_launch()
    string_println(t4)
    var t5 string = describe_duration()
    string_println(t5)
    ret9 = struct{}{}
    return ret9
}

func main() {
    main0()
}
