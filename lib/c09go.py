"""`go e` part of C09: exactly one concurrent activation is started, the spawner continues, and every interleaving of
the activation with the spawner at Ref operations and prints that the source meaning allows is an interleaving of the
emitted Go, and vice versa.

GomlSem.tla and GoSem.tla carry the parked activations / goroutines in `par`; the scheduler (`Switch`) may run another
one at any step, an activation that ends hands over to another one, and the program ends when main returns.  For each
program TLC explores the whole state graph of both machines (fingerprint without the step counter, so spin loops close
into cycles); the sets of terminal outcomes (status, output) must be equal."""
import os
from common import *
from gast import *
import gopipe, gohoist, tv, engine

RI = TRef(INT32)


def Go(e):
    return {"k": "go", "e": e}


def rget(r):
    return Call("ref_get", Var(r))


def rset(r, e):
    return Do(Call("ref_set", Var(r), e))


def spin_until(r, n):
    return Stmt(While(Bin("<", rget(r), Int(n)), Block([], Unit)))


def pr(s):
    return println(Str(s))


def programs(tier="thorough"):
    out = []

    def add(name, stmts, fns=()):
        p = Program("c09go_" + name)
        for f in fns:
            p.fn(*f)
        p.fn("main", [], UNIT, Block(stmts, Unit))
        out.append({"prog": p, "family": "c09go", "ident": "c09go:" + name})

    child = ("child", [("sig", RI)], UNIT, Call("ref_set", Var("sig"), Int(1)))
    # the corpus shape: child signals, main waits, then prints
    add("signal-then-print", [Let("s", Call("ref", Int(0))), Stmt(Go(Lam([], Call("child", Var("s"))))), spin_until("s", 1), pr("main")], [child])
    # the spawner continues: it can print before, between and after the child's prints
    add("spawner-continues", [Let("d", Call("ref", Int(0))), Stmt(Go(Lam([], Block([pr("c1"), pr("c2"), rset("d", Int(1))], Unit)))),
                              pr("m1"), spin_until("d", 1), pr("m2")])
    # racy read: main may see the old or the new value
    add("racy-read", [Let("r", Call("ref", Int(0))), Let("d", Call("ref", Int(0))),
                      Stmt(Go(Lam([], Block([rset("r", Int(7)), rset("d", Int(1))], Unit)))),
                      Let("seen", rget("r")), spin_until("d", 1), println(show_int(Var("seen")))])
    # exactly one activation: the counter is bumped once
    add("exactly-one", [Let("c", Call("ref", Int(0))), Let("d", Call("ref", Int(0))),
                        Stmt(Go(Lam([], Block([rset("c", Bin("+", rget("c"), Int(1))), rset("d", Int(1))], Unit)))),
                        spin_until("d", 1), println(show_int(rget("c")))])
    # two children, non-atomic increments: 1 or 2
    bump = Lam([], Block([Let("t", rget("c")), rset("c", Bin("+", Var("t"), Int(1))), rset("d", Bin("+", rget("d"), Int(1)))], Unit))
    add("lost-update", [Let("c", Call("ref", Int(0))), Let("d", Call("ref", Int(0))), Stmt(Go(bump)), Stmt(Go(bump)),
                        Stmt(While(Bin("<", rget("c"), Int(1)), Block([], Unit))), println(show_int(rget("c")))])
    # captures are taken when the closure is created, not when the activation runs
    add("capture-at-spawn", [Let("x", Int(5)), Let("d", Call("ref", Int(0))),
                             Stmt(Go(Lam([], Block([println(show_int(Var("x"))), rset("d", Int(1))], Unit)))),
                             Let("x", Int(9)), spin_until("d", 1), println(show_int(Var("x")))])
    # main returns while the child is still running: its print may or may not appear
    add("main-returns-first", [Stmt(Go(Lam([], Block([pr("child")], Unit)))), pr("main")])
    # the operand of go is evaluated by the spawner (its effects happen before the spawner's next statement)
    mk = ("mk", [("tag", STRING)], TFn([], UNIT), Block([println(Var("tag"))], Lam([], Block([println(Str("run"))], Unit))))
    add("operand-evaluated-by-spawner", [Stmt(Go(Call("mk", Str("made")))), pr("after")], [mk])
    # the operand is a plain function value: a top-level function, and a parameter of function type (no closure environment)
    worker = ("worker", [], UNIT, Block([println(Str("w"))], Unit))
    spawn = ("spawn", [("f", TFn([], UNIT))], UNIT, Block([Stmt(Go(Var("f")))], Unit))
    add("plain-function-operand", [Stmt(Go(FnRef("worker"))), pr("m")], [worker])
    add("function-parameter-operand", [Stmt(Call("spawn", FnRef("worker"))), pr("m")], [worker, spawn])
    # go inside a loop: three activations
    add("three-activations", [Let("c", Call("ref", Int(0))), Let("i", Call("ref", Int(0))),
                              Stmt(While(Bin("<", rget("i"), Int(3)), Block([Stmt(Go(Lam([], Block([rset("c", Bin("+", rget("c"), Int(1)))], Unit)))),
                                                                               rset("i", Bin("+", rget("i"), Int(1)))], Unit))),
                              Stmt(While(Bin("<", rget("c"), Int(2)), Block([], Unit))), pr("done")])
    # `go e` where it is the VALUE of something (no statement follows it): the last expression of a loop body, of a branch that ends a
    # loop body, of a function body, of a branch whose value is bound, and the whole body of a closure - each must still start
    # exactly one activation (the child's signal is awaited, so a spawn that got lost never terminates)
    sig = Lam([], Block([rset("d", Bin("+", rget("d"), Int(1)))], Unit))
    wait = lambda n: Stmt(While(Bin("<", rget("d"), Int(n)), Block([], Unit)))
    add("go-as-tail-of-loop-body", [Let("d", Call("ref", Int(0))), Let("i", Call("ref", Int(0))),
                                    Stmt(While(Bin("<", rget("i"), Int(1)), Block([rset("i", Bin("+", rget("i"), Int(1)))], Go(sig)))), wait(1), pr("done")])
    add("go-as-tail-of-branch-ending-loop-body", [Let("d", Call("ref", Int(0))), Let("i", Call("ref", Int(0))),
                                                  Stmt(While(Bin("<", rget("i"), Int(1)), Block([rset("i", Bin("+", rget("i"), Int(1)))],
                                                                                                 If(Bin("==", rget("i"), Int(1)), Go(sig), Unit)))), wait(1), pr("done")])
    spawn_tail = ("spawn_tail", [("d", RI)], UNIT, Block([pr("spawning")], Go(sig)))
    add("go-as-tail-of-function", [Let("d", Call("ref", Int(0))), Stmt(Call("spawn_tail", Var("d"))), wait(1), pr("done")], [spawn_tail])
    add("go-as-tail-of-bound-branch", [Let("d", Call("ref", Int(0))), Let("u", If(Bin("==", rget("d"), Int(0)), Go(sig), Unit)), wait(1), pr("done")])
    add("go-as-body-of-closure", [Let("d", Call("ref", Int(0))), Let("f", Lam([], Go(sig))), Stmt(CallV(Var("f"))), wait(1), pr("done")])
    if tier == "quick":          # the two largest state graphs (0.5 M and 3 M states) are explored in the thorough tier
        out = [x for x in out if x["ident"] not in ("c09go:three-activations", "c09go:lost-update")]
    return out


def outcomes(reports):
    return sorted({(r["status"], r.get("why", "") if r["status"] != "ok" else "", bytes(r["out"]).decode("utf-8", "replace")) for r in reports})


def explore(module, cfg, rec, name):
    d = os.path.join(WORK, "c09go-in")
    os.makedirs(d, exist_ok=True)
    f = f"{d}/{name}.ndjson"
    write_lines(f, [rec])
    r = run_tlc(module, cfg, env={"PROGS": f, "MAXSTEPS": 200000, "THREADS": 1}, workers=4, xmx="6g", timeout=1500, xss="512m", name="c09go-" + name)
    if r.rc != 0:
        raise ToolError(f"{module} failed on {name}: " + (r.error or r.stdout[-1500:]))
    return r.json_prints("REPORT"), r.distinct


def run(tier, rep, only=None, floor=5):
    """only: prefix of the program identities to take (C08 takes the spawned closures in value position)"""
    build_harness()
    progs = [m for m in programs(tier) if only is None or m["ident"].startswith(only)]
    cases = tv.prepare_cases(progs, workdir("c09go" if only is None else "c09go-sub"))
    answers = gv_parallel("compile", [{"id": c["id"], "path": c["path"]} for c in cases])
    checked = 0
    states = 0
    summary = {}
    from concurrent.futures import ThreadPoolExecutor

    def both(ca):
        c, a = ca
        if a["verdict"] != "ok":
            return None
        rec, err = gopipe.go_record(c["id"], a["go"])
        if err:
            raise ToolError("go parse: " + err)
        rec = dict(rec, ast=gohoist.hoist(rec["ast"]))
        return explore("GomlSem", "GomlSem_go.cfg", c["prog"].sem_record(), c["id"] + "-goml"), explore("GoSem", "GoSem_go.cfg", rec, c["id"] + "-go")
    with ThreadPoolExecutor(max_workers=4) as ex:
        explored = list(ex.map(both, zip(cases, answers)))
    for (c, a), ex_ in zip(zip(cases, answers), explored):
        ident = c["ident"]
        if a["verdict"] != "ok":
            rep.violation(ident + ":rejected", {"verdict": a["verdict"], "diagnostics": [d["msg"] for d in a.get("diags", [])][:3], "source": c["text"]})
            continue
        (src_reports, n1), (go_reports, n2) = ex_
        states += n1 + n2
        so, go_ = outcomes(src_reports), outcomes(go_reports)
        summary[ident] = {"source_outcomes": [o[2] if o[0] == "ok" else o[0] + ":" + o[1] for o in so], "source_states": n1, "go_states": n2}
        if any(o[0] in ("unsupported", "inconclusive") for o in so + go_):
            summary[ident]["note"] = "left the modelled subset"
            continue
        checked += 1
        if so != go_:
            rep.violation(ident, {"source_outcomes": so, "go_outcomes": go_, "only_source": [o for o in so if o not in go_], "only_go": [o for o in go_ if o not in so],
                                  "source": c["text"]}, replay={"path": c["path"]})
    rep.coverage["go_schedules_checked"] = checked
    rep.coverage["go_programs"] = summary
    rep.coverage["go_states"] = states
    if checked < floor:
        raise ToolError(f"vacuity: only {checked} go programs compared")
