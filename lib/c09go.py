"""`go e` part of C09 (threads): placeholder until the threaded machines are in place."""
def run(tier, rep):
    rep.coverage["go_schedules_checked"] = 0
