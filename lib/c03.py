"""C03 — acceptance is type-sound: every stage output is well-typed and closed; ill-typed programs are rejected.

Positive half (the specification): spec/IRTyping.tla is the typing judgment of goml's intermediate representations
(scoping, signatures, constructors, field reads, operators, branches, closedness after mono, ANF immediacy).  Every program
the compiler accepts — the recorded corpus, all generated families of the other checks and a family of generic / closure /
container programs made for this check — is compiled by the real pipeline, its four IRs are exported structurally
(`gv compile` with ir_json; the same data the --dump-* flags print) and TLC evaluates the judgment on them
(spec/IRTypingCheck.tla).  Every broken rule is a violation.

Negative half: lib/mutants.py derives from each accepted generated program variants with exactly one type error (a value of
another type in a slot whose type is fixed by a declaration; wrong arity; unknown field; array literal of another length;
dropped payload; literal pattern of another type).  Each must be rejected by the typer; an accepted variant is a violation,
and its IR is additionally put through the judgment (reported in the evidence).

Self-test: recorded IR of accepted programs is corrupted in known ways (a use's type changed, a binder renamed, a type
parameter left in Mono, a non-immediate operand in ANF, a wrong field index) and the judgment must reject each."""
import copy, json, os, random
from collections import Counter
from concurrent.futures import ThreadPoolExecutor
from common import *
import corpus, families, mutants, tv, fam_c03
from gast import TextProgram

LEVEL = "model_checking"


# ---------------------------------------------------------------- IR export
def _names(v, out):
    if isinstance(v, dict):
        if v.get("k") == "var":
            out.add(v["n"]); out.add(v.get("res", v["n"]))
        for x in v.values():
            _names(x, out)
    elif isinstance(v, list):
        for x in v:
            _names(x, out)


def flatten_lets(v):
    """let x1 = v1 in (let x2 = v2 in b)  ->  {k: lets, bs: [{n, v}..], b}: the JSON reader of TLC limits nesting to 255"""
    if isinstance(v, list):
        return [flatten_lets(x) for x in v]
    if not isinstance(v, dict):
        return v
    if v.get("k") == "let":
        bs = []
        cur = v
        while isinstance(cur, dict) and cur.get("k") == "let":
            bs.append({"n": cur["n"], "v": flatten_lets(cur["v"])})
            cur = cur["b"]
        return {"k": "lets", "bs": bs, "b": flatten_lets(cur)}
    return {k: flatten_lets(x) for k, x in v.items()}


def depth(v):
    if isinstance(v, dict):
        return 1 + max([depth(x) for x in v.values()] or [0])
    if isinstance(v, list):
        return 1 + max([depth(x) for x in v] or [0])
    return 0


def prune(ir):
    """keep only the ambient functions a stage's terms mention (the builtin table is large and the same for every program)"""
    for st in ("core", "mono", "lift", "anf"):
        ir[st]["fns"] = flatten_lets(ir[st]["fns"])
        used = set()
        _names(ir[st]["fns"], used)
        fs = ir[st]["env"]["funcs"]
        ir[st]["env"]["funcs"] = {n: f for n, f in fs.items() if n in used}
        ir[st]["env"]["funcs"]["·"] = {"gens": [], "ty": {"t": "unit"}, "origin": "-"}
        for key in ("structs", "enums", "traits"):
            ir[st]["env"][key]["·"] = {"gens": [], "fields": [], "variants": []} if key != "traits" else {"·": {"gens": [], "ty": {"t": "unit"}}}
    return ir


def export_ir(paths_by_id):
    reqs = [{"id": i, "path": p, "ir_json": True} for i, p in paths_by_id.items()]
    res = gv_parallel("compile", reqs, extra=["--limit-ms", "30000"])
    return {r["id"]: r for r in res}


def judge(items, name):
    """items: list of (id, ir) -> {id: [errors]} via TLC (chunks in parallel)"""
    d = workdir(name)
    chunks = [items[i:i + 60] for i in range(0, len(items), 60)]
    files = []
    for k, ch in enumerate(chunks):
        f = f"{d}/ir{k}.ndjson"
        write_lines(f, [{"id": i, "ir": ir} for i, ir in ch])
        files.append(f)

    def one(k):
        c = run_tlc("IRTypingCheck", "IRTypingCheck.cfg", env={"IRFILE": files[k]}, workers=1, xmx="3g", timeout=3000, xss="1g",
                    name=f"{name}-{k}")
        if c.rc != 0:
            raise ToolError(f"IRTypingCheck failed on chunk {k}: " + (c.error or c.stdout[-1500:]))
        done = c.json_prints("IRDONE")
        if not done or done[0]["n"] != len(chunks[k]):
            raise ToolError("IRTypingCheck did not read the whole chunk")
        return c
    out = {}
    states = 0
    with ThreadPoolExecutor(max_workers=8) as ex:
        for c in ex.map(one, range(len(chunks))):
            states += c.distinct or 0
            for r in c.json_prints("IRCHECK"):
                out[r["id"]] = r["errors"]
    for f in files:
        os.remove(f)
    return out, states


# ---------------------------------------------------------------- classification of broken rules
def eq_mod_closure(a, b, lifted):
    """a = b except that a closure environment struct stands where the other side has a function type"""
    if a == b:
        return True
    if a.get("t") == "struct" and a.get("n") in lifted and b.get("t") == "fn":
        return True
    if b.get("t") == "struct" and b.get("n") in lifted and a.get("t") == "fn":
        return True
    if a.get("t") != b.get("t"):
        return False
    t = a["t"]
    if t == "tuple":
        return len(a["ts"]) == len(b["ts"]) and all(eq_mod_closure(x, y, lifted) for x, y in zip(a["ts"], b["ts"]))
    if t == "fn":
        return len(a["ps"]) == len(b["ps"]) and all(eq_mod_closure(x, y, lifted) for x, y in zip(a["ps"], b["ps"])) and eq_mod_closure(a["r"], b["r"], lifted)
    if t in ("vec", "ref"):
        return eq_mod_closure(a["e"], b["e"], lifted)
    if t == "array":
        return a["len"] == b["len"] and eq_mod_closure(a["e"], b["e"], lifted)
    return False


def instance_mod_closure(sig, act, lifted, env):
    """act is an instance of the generic signature sig, except that closure environment structs stand for function types"""
    if sig.get("t") == "param":
        if sig["n"] in env:
            return eq_mod_closure(env[sig["n"]], act, lifted)
        env[sig["n"]] = act
        return True
    if act.get("t") == "struct" and act.get("n") in lifted and sig.get("t") == "fn":
        return True
    if sig.get("t") != act.get("t"):
        return False
    t = sig["t"]
    if t == "tuple":
        return len(sig["ts"]) == len(act["ts"]) and all(instance_mod_closure(x, y, lifted, env) for x, y in zip(sig["ts"], act["ts"]))
    if t == "fn":
        return len(sig["ps"]) == len(act["ps"]) and all(instance_mod_closure(x, y, lifted, env) for x, y in zip(sig["ps"], act["ps"])) \
            and instance_mod_closure(sig["r"], act["r"], lifted, env)
    if t in ("vec", "ref"):
        return instance_mod_closure(sig["e"], act["e"], lifted, env)
    if t == "array":
        return sig["len"] == act["len"] and instance_mod_closure(sig["e"], act["e"], lifted, env)
    return sig == act


def identity_of(err, lifted, prog):
    return _identity_of(err, lifted) + ":" + prog


def _identity_of(err, lifted):
    if err["stage"] in ("lift", "anf") and err["a"].get("t") != "-" and err["b"].get("t") != "-" and err["a"] != err["b"] \
            and eq_mod_closure(err["a"], err["b"], lifted):
        return "ir:closure-environment-struct-where-function-type-is-declared"
    # a generic builtin (ref, vec_push, ..) applied to a closure: the type parameter stands for the environment struct in the
    # argument and for the declared function type in the result
    if err["stage"] in ("lift", "anf") and err["rule"] == "call-not-an-instance-of-signature" and err["a"].get("t") == "fn" \
            and err["b"].get("t") == "fn" and instance_mod_closure(err["a"], err["b"], lifted, {}):
        return "ir:closure-environment-struct-where-function-type-is-declared"
    return f"ir:{err['stage']}:{err['rule']}"


# ---------------------------------------------------------------- self-test of the judgment on corrupted IR
def corruptions(ir):
    """(name, corrupted copy, rule expected) — each applies to the first place that fits"""
    out = []

    def first(v, pred, path=()):
        if isinstance(v, dict):
            if pred(v):
                return v
            for k, x in v.items():
                r = first(x, pred)
                if r is not None:
                    return r
        elif isinstance(v, list):
            for x in v:
                r = first(x, pred)
                if r is not None:
                    return r
        return None
    # a local variable use with another type
    c = copy.deepcopy(ir)
    n = first(c["core"]["fns"], lambda v: v.get("k") == "var" and "/" in v.get("n", "") and v["ty"] == {"t": "int32"})
    if n:
        n["ty"] = {"t": "string"}
        out.append(("use-type-changed", c, "variable-use-type-differs-from-binder"))
    # a binder renamed: its uses are unbound
    c = copy.deepcopy(ir)
    n = first(c["mono"]["fns"], lambda v: v.get("k") == "lets" and "/" in v["bs"][0]["n"])
    if n:
        n["bs"][0]["n"] = n["bs"][0]["n"] + "_renamed"
        out.append(("binder-renamed", c, "unbound-variable"))
    # a type parameter left in mono
    c = copy.deepcopy(ir)
    n = first(c["mono"]["fns"], lambda v: v.get("k") == "prim")
    if n:
        n["ty"] = {"t": "param", "n": "T"}
        out.append(("type-parameter-left", c, "type-not-closed-after-mono"))
    # a non-immediate operand in ANF
    c = copy.deepcopy(ir)
    n = first(c["anf"]["fns"], lambda v: v.get("k") == "call" and len(v.get("as", [])) >= 1)
    if n:
        a = n["as"][0]
        n["as"][0] = {"k": "tuple", "es": [a], "ty": {"t": "tuple", "ts": [a["ty"]]}}
        out.append(("anf-operand-compound", c, "anf-operand-not-immediate"))
    # a call with an argument of another type
    c = copy.deepcopy(ir)
    n = first(c["lift"]["fns"], lambda v: v.get("k") == "call" and len(v.get("as", [])) >= 1 and v["as"][0].get("k") == "prim")
    if n:
        n["as"][0] = {"k": "prim", "pk": "unit", "ty": {"t": "unit"}} if n["as"][0]["pk"] != "unit" else {"k": "prim", "pk": "string", "ty": {"t": "string"}}
        out.append(("argument-type-changed", c, "call-"))
    # a field read with an index the constructor does not have
    c = copy.deepcopy(ir)
    n = first(c["core"]["fns"], lambda v: v.get("k") == "get")
    if n:
        n["fi"] = n["fi"] + 7
        out.append(("field-index-out-of-range", c, "unknown-field"))
    # if branches of different types
    c = copy.deepcopy(ir)
    n = first(c["core"]["fns"], lambda v: v.get("k") == "if")
    if n:
        n["e"] = {"k": "tuple", "es": [], "ty": {"t": "tuple", "ts": []}}
        out.append(("branch-type-changed", c, "branch-type"))
    return out


def run(tier, rep):
    build_harness()
    sd = seed()
    # ---------------- programs
    cs = corpus.single_file_cases() + corpus.package_cases()
    paths = {"corpus:" + c["name"]: c["src"] for c in cs}
    fam = families.all_families(tier, sd)
    root = workdir("c03-fam")
    cases = tv.prepare_cases([m for m in fam], root)
    meta = {}
    for c in cases:
        paths["fam:" + c["id"]] = c["path"]
        meta["fam:" + c["id"]] = c
    # ---- type-parameter names of a generic struct reused by the function around it (fam_c03.names_cases): the well-typed
    # programs that are not part of the shared families, and the variants with one wrong annotation.  All of them go through
    # the compiler here; whatever is accepted is judged like every other program, and an accepted ill-typed one is a violation.
    # (with them: `Self` below function types in impl method headers - closures flowing into function-typed positions hit a
    # known open defect in the emitted Go, so those programs are not in the families shared with C01 / C02)
    ncases = tv.prepare_cases([c for c in fam_c03.names_cases(tier) if not c.get("runnable")] + fam_c03.self_programs_c03_only(tier), workdir("c03-names"))
    for c in ncases:
        paths["names:" + c["id"]] = c["path"]
        meta["names:" + c["id"]] = c
    res = export_ir(paths)
    names_verdicts = Counter()
    names_rejected_welltyped = []
    for key, c in meta.items():
        if not c["ident"].startswith("c03:type-parameter-names:"):
            continue
        r = res[key]
        names_verdicts[("well-typed:" if c["welltyped"] else "ill-typed:") + r["verdict"]] += 1
        detail = {"verdict": r["verdict"], "diagnostics": [d["msg"] for d in r.get("diags", [])][:4], "panic": r.get("msg"), "source": c["text"][-2500:]}
        if c["welltyped"]:
            if r["verdict"] != "ok":
                names_rejected_welltyped.append({"program": c["ident"], **detail})
        elif r["verdict"] == "ok":
            rep.violation("ill-typed-accepted:" + c["ident"][4:], detail, replay={"source": c["text"], "program": c["ident"]})
        elif r["verdict"] != "typer":
            rep.violation(f"ill-typed-not-rejected-by-typer:{r['verdict']}:" + c["ident"][4:], detail, replay={"source": c["text"], "program": c["ident"]})
    # well-typed programs generated only for this check that the compiler did not take to the end (nobody else looks at them)
    rep.coverage["programs_generated_for_c03_only_not_compiled"] = {c["ident"]: res["names:" + c["id"]]["verdict"] for c in ncases
                                                                   if c.get("welltyped", True) and res["names:" + c["id"]]["verdict"] != "ok"}
    nwell = sum(n for k, n in names_verdicts.items() if k.startswith("well-typed:"))
    if not rep.violations and len(names_rejected_welltyped) * 2 > nwell:
        raise ToolError(f"type-parameter-names family: {len(names_rejected_welltyped)} of {nwell} well-typed programs rejected, e.g. {names_rejected_welltyped[0]}")
    if names_verdicts.get("ill-typed:typer", 0) + names_verdicts.get("ill-typed:ok", 0) < 300:
        raise ToolError(f"vacuity: type-parameter-names family has only {dict(names_verdicts)}")
    rep.coverage["type_parameter_names"] = {"verdicts": dict(names_verdicts), "well_typed_rejected": names_rejected_welltyped[:20]}
    accepted = [(i, prune(r["ir"])) for i, r in res.items() if r["verdict"] == "ok"]
    too_deep = [i for i, ir in accepted if depth(ir) > 240]
    accepted = [(i, ir) for i, ir in accepted if i not in too_deep]
    rep.coverage["programs_nested_too_deep_for_the_json_reader"] = too_deep
    verdicts = Counter(r["verdict"] for r in res.values())
    if len(accepted) < 150:
        raise ToolError(f"vacuity: only {len(accepted)} programs accepted")
    lifted_of = {i: set(ir["lift"]["env"]["lifted"]) for i, ir in accepted}
    errs, states = judge(accepted, "c03-judge")
    if set(errs) != {i for i, _ in accepted}:
        raise ToolError("judgment did not answer for every program")
    rule_hits = Counter()
    nodes = 0
    for i, ir in accepted:
        for e in errs[i]:
            pid_ = meta[i]["ident"] if i in meta else i
            # a program that packs many generated functions names the one the error is in (instances: name__T_string)
            sub = meta[i].get("fn_idents") if i in meta else None
            if sub and e["fn"].split("#")[-1].split("__")[0] in sub:
                pid_ += ":" + sub[e["fn"].split("#")[-1].split("__")[0]]
            ident = identity_of(e, lifted_of[i], pid_)
            rule_hits[_identity_of(e, lifted_of[i])] += 1
            src = open(paths[i]).read()
            rep.violation(ident, {"program": i, "function": e["fn"], "stage": e["stage"], "rule": e["rule"], "name": e["n"], "a": e["a"], "b": e["b"],
                                  "source": src[-2500:]}, replay={"path": paths[i], "program": i, "error": e})
    rep.coverage.update({"programs_compiled": len(res), "programs_accepted_and_judged": len(accepted), "verdicts": dict(verdicts),
                         "stages_per_program": 4, "judgment_states": states, "states": max(1, states), "transitions": max(1, states),
                         "traces_validated_against_impl": len(accepted),
                         "families": dict(Counter((meta[i]["family"] if i in meta else "corpus") for i, _ in accepted)),
                         "rule_hits": dict(rule_hits)})
    rep.sample({"program": accepted[0][0], "core_functions": [f["name"] for f in accepted[0][1]["core"]["fns"]][:8]})

    # ---------------- self-test: the judgment rejects corrupted IR
    rng_ = random.Random(sd + 3)
    pick = [x for x in accepted if x[0].startswith("corpus:")]
    rng_.shuffle(pick)
    tests = []
    for i, ir in pick[: (6 if tier == "quick" else 40)]:
        for name, c, rule in corruptions(ir):
            tests.append((f"{i}#{name}", c, rule))
    if tests:
        terr, _ = judge([(n, c) for n, c, _ in tests], "c03-selftest")
        kinds = Counter()
        for n, c, rule in tests:
            if not any(e["rule"].startswith(rule) for e in terr[n]):
                raise ToolError(f"self-test: corrupted IR {n} not rejected with {rule}: {terr[n][:3]}")
            kinds[n.split("#")[1]] += 1
        if len(kinds) < 6:
            raise ToolError(f"self-test exercised only {dict(kinds)}")
        rep.coverage["selftest_corruptions_rejected"] = dict(kinds)

    # ---------------- negative half: one injected type error must be rejected
    # (a program given as text has no tree to inject an error into: its `prog` only records what it prints)
    base = [meta[i] for i, _ in accepted if i in meta and not meta[i].get("extra_files") and meta[i].get("welltyped", True)
            and not isinstance(meta[i]["prog"], TextProgram)]
    allm = []
    for c in base:
        try:
            for m in mutants.enumerate_mutations(c["prog"]):
                allm.append((c, m))
        except Exception as ex:          # a generator construct the walker does not know: skip that program
            rep.coverage.setdefault("mutation_walker_skipped", 0)
            rep.coverage["mutation_walker_skipped"] += 1
    n = 1200 if tier == "quick" else 40000
    rng_ = random.Random(sd + 7)
    sel = allm if len(allm) <= n else rng_.sample(allm, n)
    mroot = workdir("c03-mut")
    reqs, info = [], {}
    for k, (c, m) in enumerate(sel):
        q = mutants.apply(c["prog"], m)
        if q is None:
            continue
        text = q.render()
        dd = f"{mroot}/m{k}"
        os.makedirs(dd, exist_ok=True)
        with open(dd + "/main.gom", "w") as f:
            f.write(text)
        reqs.append({"id": k, "path": dd + "/main.gom", "ir_json": True})
        info[k] = (c, m, text)
    mres = gv_parallel("compile", reqs, extra=["--limit-ms", "30000"])
    kinds = Counter()
    mverd = Counter()
    acc = []
    for r in mres:
        c, m, text = info[r["id"]]
        kind = mutants.describe(m)
        kinds[kind] += 1
        mverd[r["verdict"]] += 1
        if r["verdict"] == "typer":
            continue
        detail = {"base": c["ident"], "mutation": kind, "verdict": r["verdict"], "diagnostics": [d["msg"] for d in r.get("diags", [])][:4],
                  "panic": r.get("msg"), "source": text[-2500:]}
        if r["verdict"] == "ok":
            ir_ = prune(r["ir"])
            if depth(ir_) <= 240:
                acc.append((r["id"], ir_))
            rep.violation(f"ill-typed-accepted:{kind}", detail, replay={"source": text, "mutation": kind})
        else:
            rep.violation(f"ill-typed-not-rejected-by-typer:{r['verdict']}:{kind}", detail, replay={"source": text, "mutation": kind})
    # ---- a type argument that does not satisfy the trait bound of the generic function it is passed to
    head = ("trait Show { fn show(Self) -> string; }\nimpl Show for int32 { fn show(self: int32) -> string { \"i\" } }\n"
            "struct Pt { x: int32 }\nenum Opt[T] { Non, Som(T) }\n")
    gen = {"bound-used": "fn f[T: Show](x: T) -> string { Show::show(x) }\n", "bound-unused": "fn f[T: Show](x: T) -> string { \"k\" }\n",
           "second-of-two-bounds": "trait Other { fn o(Self) -> int32; }\nimpl Other for bool { fn o(self: bool) -> int32 { 1 } }\nfn f[T: Other + Show](x: T) -> string { \"k\" }\n"}
    args = {"bool": "true", "string": '"s"', "struct": "Pt { x: 1 }", "tuple": "(1, 2)", "generic-instance": "Opt::Som(1)", "closure": "|a: int32| a"}
    breqs = []
    for gname, gtext in gen.items():
        for aname, atext in args.items():
            if gname == "second-of-two-bounds" and aname != "bool":
                continue
            text = head + gtext + "fn main() -> unit {\n    let _ = string_println(f(" + atext + "));\n    ()\n}\n"
            breqs.append({"id": f"{gname}:{aname}", "text": text, "dir": mroot})
        breqs.append({"id": f"{gname}:control-int32", "text": head + gtext.replace("impl Other for bool { fn o(self: bool)", "impl Other for int32 { fn o(self: int32)") + "fn main() -> unit {\n    let _ = string_println(f(1));\n    ()\n}\n", "dir": mroot})
    for q, r in zip(breqs, gv_parallel("compile", breqs, extra=["--limit-ms", "30000"])):
        if q["id"].endswith("control-int32"):
            if r["verdict"] != "ok":
                raise ToolError(f"trait-bound control program rejected: {[d['msg'] for d in r.get('diags', [])][:2]}")
            continue
        mverd[r["verdict"]] += 1
        if r["verdict"] == "typer":
            continue
        detail = {"mutation": "unsatisfied-trait-bound", "verdict": r["verdict"], "diagnostics": [d["msg"] for d in r.get("diags", [])][:4], "panic": r.get("msg"), "source": q["text"]}
        if r["verdict"] == "ok":
            rep.violation(f"ill-typed-accepted:unsatisfied-trait-bound:{q['id']}", detail, replay={"source": q["text"]})
        else:
            rep.violation(f"ill-typed-not-rejected-by-typer:{r['verdict']}:unsatisfied-trait-bound:{q['id']}", detail, replay={"source": q["text"]})
    # ---- a wrongly typed (or missing / extra) argument in every call form of a method: inherent, trait on a concrete receiver,
    # through a bound, through dyn
    chead = ("trait Shape { fn scale(Self, int32) -> int32; }\nstruct Sq { s: int32 }\nimpl Shape for Sq { fn scale(self: Sq, k: int32) -> int32 { self.s * k } }\n"
             "impl Sq { fn grow(self: Sq, k: int32) -> int32 { self.s + k } }\n")
    forms = {
        "dyn-ufcs": ("", "let d: dyn Shape = Sq { s: 1 };\n    let r = Shape::scale(d, {A});"),
        "concrete-ufcs": ("", "let r = Shape::scale(Sq { s: 1 }, {A});"),
        "bound-ufcs": ("fn gen[T: Shape](x: T) -> int32 { Shape::scale(x, {A}) }\n", "let r = gen(Sq { s: 1 });"),
        "bound-method": ("fn gen[T: Shape](x: T) -> int32 { x.scale({A}) }\n", "let r = gen(Sq { s: 1 });"),
        "inherent-method": ("", "let q = Sq { s: 1 };\n    let r = q.grow({A});"),
        "inherent-ufcs": ("", "let r = Sq::grow(Sq { s: 1 }, {A});"),
        "dyn-in-function": ("fn via(d: dyn Shape) -> int32 { Shape::scale(d, {A}) }\n", "let r = via(Sq { s: 1 });"),
    }
    wrong = {"string-for-int32": '"two"', "bool-for-int32": "true", "tuple-for-int32": "(1, 2)", "missing-argument": None, "extra-argument": "1, 2"}
    creqs = []
    for fname, (decl, stmt) in forms.items():
        for wname, w in [("control", "2")] + list(wrong.items()):
            if w is None:
                d2, s2 = decl.replace(", {A}", "").replace("({A})", "()"), stmt.replace(", {A}", "").replace("({A})", "()")
            else:
                d2, s2 = decl.replace("{A}", w), stmt.replace("{A}", w)
            text = chead + d2 + "fn main() -> unit {\n    " + s2 + "\n    let _ = string_println(int32_to_string(r));\n    ()\n}\n"
            creqs.append({"id": f"{fname}:{wname}", "text": text, "dir": mroot})
    for q, r in zip(creqs, gv_parallel("compile", creqs, extra=["--limit-ms", "30000"])):
        if q["id"].endswith(":control"):
            if r["verdict"] != "ok":
                raise ToolError(f"call-form control program {q['id']} rejected: {[d['msg'] for d in r.get('diags', [])][:2]}")
            continue
        mverd[r["verdict"]] += 1
        if r["verdict"] == "typer":
            continue
        detail = {"mutation": "wrong-argument-in-call-form", "verdict": r["verdict"], "diagnostics": [d["msg"] for d in r.get("diags", [])][:4], "panic": r.get("msg"), "source": q["text"]}
        if r["verdict"] == "ok":
            rep.violation(f"ill-typed-accepted:call-form:{q['id']}", detail, replay={"source": q["text"]})
        else:
            rep.violation(f"ill-typed-not-rejected-by-typer:{r['verdict']}:call-form:{q['id']}", detail, replay={"source": q["text"]})
    # ---- the type of a field read from a generic struct, inside generic code whose type parameters are spelled like the struct's
    # own (swapped, rotated, partly instantiated): the declared result type is once the field's type (control, must be accepted) and
    # once another parameter / a concrete type (ill-typed by the declarations, must be rejected by the typer)
    fhead = "struct Pair[T, U] { first: T, second: U }\nstruct Tri[T, U, V] { a: T, b: U, c: V }\n"
    fcases = {   # name: (generics, parameter type, field, its type, wrong result types)
        "swapped-first": ("[T, U]", "Pair[U, T]", "first", "U", ["T", "int32"]),
        "swapped-second": ("[T, U]", "Pair[U, T]", "second", "T", ["U", "string"]),
        "swapped-other-names": ("[A, B]", "Pair[B, A]", "first", "B", ["A"]),
        "later-name-first-position": ("[U]", "Pair[U, int32]", "first", "U", ["int32"]),
        "later-name-first-position-second": ("[U]", "Pair[U, int32]", "second", "int32", ["U"]),
        "earlier-name-second-position": ("[T]", "Pair[int32, T]", "second", "T", ["int32"]),
        "rotated-a": ("[T, U, V]", "Tri[U, V, T]", "a", "U", ["T", "V"]),
        "rotated-b": ("[T, U, V]", "Tri[U, V, T]", "b", "V", ["T", "U"]),
        "rotated-c": ("[T, U, V]", "Tri[U, V, T]", "c", "T", ["U", "V"]),
        "same-order": ("[T, U]", "Pair[T, U]", "first", "T", ["U"]),
    }
    freqs = []
    for fname, (gens, pty, field, fty, wrongs) in fcases.items():
        for wname, rty in [("control", fty)] + [("declared-" + w, w) for w in wrongs]:
            text = fhead + f"fn f{gens}(p: {pty}) -> {rty} {{ p.{field} }}\nfn main() -> unit {{ () }}\n"
            freqs.append({"id": f"{fname}:{wname}", "text": text, "dir": mroot})
    for q, r in zip(freqs, gv_parallel("compile", freqs, extra=["--limit-ms", "30000"])):
        detail = {"mutation": "field-type-of-generic-struct", "verdict": r["verdict"], "diagnostics": [d["msg"] for d in r.get("diags", [])][:4], "panic": r.get("msg"), "source": q["text"]}
        if q["id"].endswith(":control"):
            if r["verdict"] != "ok":
                rep.violation(f"well-typed-rejected:generic-field-type:{q['id']}", detail, replay={"source": q["text"]})
            continue
        mverd[r["verdict"]] += 1
        if r["verdict"] == "typer":
            continue
        if r["verdict"] == "ok":
            rep.violation(f"ill-typed-accepted:generic-field-type:{q['id']}", detail, replay={"source": q["text"]})
        else:
            rep.violation(f"ill-typed-not-rejected-by-typer:{r['verdict']}:generic-field-type:{q['id']}", detail, replay={"source": q["text"]})
    rep.coverage["generic_field_type_programs"] = len(freqs)
    if acc:
        aerr, _ = judge(acc[:50], "c03-accepted-mutants")
        rep.coverage["accepted_mutants_also_flagged_by_judgment"] = sum(1 for i, _ in acc[:50] if aerr.get(i))
    rep.coverage.update({"mutation_sites": len(allm), "mutants_compiled": len(mres), "mutant_kinds": len(kinds),
                         "mutant_verdicts": dict(mverd), "mutant_kind_counts": dict(kinds.most_common(40))})
    if mverd.get("typer", 0) < 300:
        raise ToolError("vacuity: fewer than 300 ill-typed variants rejected")

    # ---------------- the unifier itself: every TypeEqual constraint the real solver handed to Typer::unify while it checked the
    # programs above (accepted or not) and the ill-typed variants (whose refused calls are the interesting ones) is a call of
    # Unify.tla with the model's verdict and the model's most general result (UnifyTrace.tla).  Design side: TLC checks Unify.tla
    # itself on every pair of types of a small universe (acyclic store, unified sides, refusal only without solution, most general).
    import unifytrace
    ucases = [{"id": "p:" + k, "path": v, "ident": (meta[k]["ident"] if k in meta else k)} for k, v in paths.items()]
    ucases += [{"id": f"m:{k}", "path": f"{mroot}/m{k}/main.gom", "ident": "mutant:" + mutants.describe(info[k][1])} for k in info]
    ucases += [{"id": "b:" + q["id"], "text": q["text"], "dir": q["dir"], "ident": "bound:" + q["id"]} for q in breqs]
    ucases += [{"id": "c:" + q["id"], "text": q["text"], "dir": q["dir"], "ident": "call-form:" + q["id"]} for q in creqs]
    ust = unifytrace.validate(ucases, rep, "c03", limit_ms=30000)
    if ust["unify_calls"] < 20000 or ust["refused_calls"] < 50:
        raise ToolError(f"vacuity: unifier trace too small: {ust}")
    rep.coverage["unifier_trace_validation"] = ust
    rep.coverage["unifier_design_model"] = unifytrace.design_model(tier)
    rep.coverage["traces_validated_against_impl"] += ust["programs"]
    rep.assumptions += [
        "IRTyping.tla is my statement of type consistency for goml's IRs; deviations the code makes on purpose are named in it "
        "(let annotations are not the node's type; the callee of a lifted closure call is annotated with the environment struct; "
        "`missing` is typed by its context; Core names instances of generic inherent methods, resolved with mono's rule by the exporter)",
        "an ill-typed variant is ill-typed by construction: the slot's type is fixed by a declaration (non-generic signature, field, payload, "
        "annotation, condition) and the value written there is a literal or operator expression of another type",
    ]
