"""Hoisting pass between goparse and GoSem.tla.

GoSem executes one Go statement per TLC step and evaluates expressions by a pure recursive operator, so every
effectful sub-expression (user call, call through a function value, `&T{..}` allocation, append) that is not
already the root of its statement is moved, in Go's lexical left-to-right evaluation order, into a fresh
`hoist` statement just before it.  `a && f()` / `a || f()` with an effectful right operand become an `if`, which is
exactly Go's short-circuit meaning.  The statement a program point belongs to is unchanged otherwise."""
import copy

PURE_BUILTINS = {"len", "string", "int", "int8", "int16", "int32", "int64", "uint", "uint8", "uint16", "uint32",
                 "uint64", "byte", "float32", "float64"}
EFFECT_BUILTINS = {"append", "panic", "println"}


class Hoister:
    def __init__(self, ast):
        self.ast = ast
        self.funcs = set(ast["funcs"].keys())
        self.blocks = ast["blocks"]
        self.n = 0

    def fresh(self):
        self.n += 1
        return f"·h{self.n}"

    def is_pure_builtin_call(self, e):
        f = e["f"]
        if f["k"] == "id" and f["n"] in PURE_BUILTINS and f["n"] not in self.funcs:
            return True
        if f["k"] == "sel" and f["e"]["k"] == "id" and f["e"]["n"] == "fmt" and f["f"] == "Sprintf":
            return True
        return False

    def effectful_root(self, e):
        if e["k"] == "call":
            return not self.is_pure_builtin_call(e)
        if e["k"] == "un" and e["op"] == "&":
            return True
        return False

    def has_effect(self, e):
        if isinstance(e, dict):
            if "k" in e and e["k"] in ("call", "un") and self.effectful_root(e):
                return True
            return any(self.has_effect(v) for v in e.values())
        if isinstance(e, list):
            return any(self.has_effect(v) for v in e)
        return False

    def hoist_expr(self, e, pre, root=False):
        """Returns expression with every effectful proper sub-expression replaced by a temp; appends hoist stmts to pre."""
        k = e.get("k")
        if k == "bin" and e["op"] in ("&&", "||") and self.has_effect(e["r"]):
            l = self.hoist_expr(e["l"], pre)
            t = self.fresh()
            pre.append({"k": "hoist", "n": t, "init": l})
            inner = []
            r = self.hoist_expr(e["r"], inner)
            inner.append({"k": "assign", "n": t, "v": r})
            bid = len(self.blocks)
            self.blocks.append(inner)
            cond = {"k": "id", "n": t} if e["op"] == "&&" else {"k": "un", "op": "!", "e": {"k": "id", "n": t}}
            pre.append({"k": "if", "c": cond, "then": bid, "else": []})
            return {"k": "id", "n": t}
        out = {}
        for key, v in e.items():
            if isinstance(v, dict) and "k" in v and key not in ("t",):
                out[key] = self.hoist_expr(v, pre)
            elif isinstance(v, list) and key in ("a", "es"):
                out[key] = [self.hoist_expr(x, pre) for x in v]
            elif isinstance(v, list) and key == "fs":
                out[key] = [{"n": f["n"], "e": self.hoist_expr(f["e"], pre)} for f in v]
            else:
                out[key] = v
        if not root and k in ("call", "un") and self.effectful_root(out):
            t = self.fresh()
            pre.append({"k": "hoist", "n": t, "init": out})
            return {"k": "id", "n": t}
        return out

    def stmt(self, s):
        pre = []
        k = s["k"]
        s = dict(s)
        if k == "var":
            if s["init"]:
                s["init"] = [self.hoist_expr(s["init"][0], pre, root=True)]
        elif k == "assign":
            s["v"] = self.hoist_expr(s["v"], pre, root=True)
        elif k == "expr":
            s["e"] = self.hoist_expr(s["e"], pre, root=True)
        elif k == "go":
            # go f(args): callee and arguments are evaluated by the spawner, the call itself runs in the new goroutine
            e = s["e"]
            if e["k"] == "call":
                s["e"] = dict(e, f=self.hoist_expr(e["f"], pre), a=[self.hoist_expr(x, pre) for x in e["a"]])
        elif k == "return":
            if s["e"]:
                s["e"] = [self.hoist_expr(s["e"][0], pre, root=True)]
        elif k == "fassign":
            s["o"] = self.hoist_expr(s["o"], pre)
            s["v"] = self.hoist_expr(s["v"], pre)
        elif k == "passign":
            s["p"] = self.hoist_expr(s["p"], pre)
            s["v"] = self.hoist_expr(s["v"], pre)
        elif k == "iassign":
            s["a"] = self.hoist_expr(s["a"], pre)
            s["i"] = self.hoist_expr(s["i"], pre)
            s["v"] = self.hoist_expr(s["v"], pre)
        elif k == "if":
            s["c"] = self.hoist_expr(s["c"], pre)
        elif k == "switch":
            s["e"] = self.hoist_expr(s["e"], pre)
            # case expressions are evaluated lazily, top to bottom, in Go; only constants are emitted by goml
            for c in s["cases"]:
                if self.has_effect(c["v"]):
                    raise ValueError("effectful case expression")
        elif k == "tswitch":
            s["e"] = self.hoist_expr(s["e"], pre)
        return pre + [s]

    def run(self):
        i = 0
        while i < len(self.blocks):      # blocks appended while hoisting are already hoisted, but re-running is idempotent
            b = self.blocks[i]
            nb = []
            for s in b:
                nb.extend(self.stmt(s))
            self.blocks[i] = nb
            i += 1
        return self.ast


def hoist(ast):
    a = copy.deepcopy(ast)
    return Hoister(a).run()
