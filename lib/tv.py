"""Translation validation core: GAST programs -> (GomlSem meaning) vs (real compiler -> emitted Go -> GoStatic, GoSem)."""
import os
from common import *
import engine, gopipe


def run_gomlsem(progs, maxsteps=20000, name="gomlsem"):
    """progs: list of gast.Program; returns ({name: {status, why, out(bytes), steps}}, stats)"""
    recs = [p.sem_record() for p in progs]
    res, st = gopipe.run_sharded("GomlSem", "GomlSem.cfg", recs, extra_env={"MAXSTEPS": maxsteps}, name=name)
    out = {}
    for k, r in res.items():
        out[k] = {"status": r["status"], "why": r["why"], "out": bytes(r["out"]), "steps": r["steps"]}
    return out, st


def prepare_cases(progs_with_meta, root):
    """progs_with_meta: list of dicts {prog: Program, family, ident?}; writes one directory per program."""
    cases = []
    for m in progs_with_meta:
        p = m["prog"]
        text = p.render()
        path = engine.write_case(root, p.name, text, m.get("extra_files"))
        c = dict(m)
        c.update({"id": p.name, "path": path, "text": text})
        c.setdefault("ident", p.name)
        cases.append(c)
    return cases


def classify(c):
    """Outcome class of one case after evaluate() + oracle: returns (cls, detail)
       cls in: agree | differ | rejected | go-invalid | unsupported | inconclusive | crash"""
    v = c["compile"]["verdict"]
    if v in ("panic", "timeout"):
        return "crash", f"{v} at {c['compile'].get('at')}: {c['compile'].get('msg', '')[:200]}"
    if v != "ok":
        msgs = "; ".join(d["msg"] for d in c["compile"].get("diags", []))[:300]
        return "rejected", f"{v}: {msgs}"
    sv = engine.static_verdict(c)
    if sv == "reject":
        return "go-invalid", engine.static_reason(c)
    o, g = c.get("oracle"), c.get("sem")
    if o is None or g is None:
        return "unsupported", "no oracle/sem result"
    if o["status"] in ("unsupported",) or g["status"] in ("unsupported",):
        return "unsupported", f"goml:{o['status']}:{o['why']} go:{g['status']}:{g['why']}"
    if g["status"] == "inconclusive" and o["status"] in ("ok", "failed") and g.get("why") == "step bound" \
            and o.get("steps", 10 ** 9) * 100 + 5000 < c.get("go_maxsteps", 0):
        # the source meaning ends after o.steps steps; the emitted Go is still running after more than 100 times as many
        return "differ", {"expected_status": o["status"], "expected_why": o["why"], "go_status": "does not terminate", "go_why": f"still running after {c['go_maxsteps']} steps (the source takes {o['steps']})",
                          "expected_out": o["out"].decode("utf-8", "replace")[:600], "go_out": g["out"].decode("utf-8", "replace")[:600]}
    if o["status"] == "inconclusive" or g["status"] == "inconclusive":
        return "inconclusive", ""
    if o["status"] == g["status"] and o["out"] == g["out"]:
        return "agree", ""
    return "differ", {"expected_status": o["status"], "expected_why": o["why"], "go_status": g["status"], "go_why": g["why"],
                      "expected_out": o["out"].decode("utf-8", "replace")[:600], "go_out": g["out"].decode("utf-8", "replace")[:600]}


def validate(cases, maxsteps=20000, name="tv", static=True):
    """cases from prepare_cases; adds oracle + compile + static + sem; returns stats"""
    oracle, st1 = run_gomlsem([c["prog"] for c in cases], maxsteps=maxsteps, name=name + "-goml")
    for c in cases:
        c["oracle"] = oracle.get(c["id"])
    for c in cases:
        c["go_maxsteps"] = maxsteps * 3
    st2 = engine.evaluate(cases, static=static, sem=True, maxsteps=maxsteps * 3, name=name)
    return {"states": st1["states"] + st2["states"], "transitions": st1["transitions"] + st2["transitions"]}


def summarize(cases):
    counts = {}
    for c in cases:
        cls, d = classify(c)
        c["cls"], c["cls_detail"] = cls, d
        counts[cls] = counts.get(cls, 0) + 1
    return counts
