"""Ill-typed variants of well-typed GAST programs (C03, negative half).

A *slot* is a position whose type is fixed by a declaration, independently of what is written there: an argument of a
non-generic function or builtin, a field of a non-generic struct literal, the payload of a non-generic enum constructor,
the value of an annotated let, a condition, an operand of && || !, the tail of a function with a declared result type
(and whatever those positions hand down: branches, arms, block tails, operands of arithmetic, tuple and array items).
Writing a literal of another type into a slot gives a program with exactly one type error, by construction.

Other variants: a call with one argument too few / too many, a field name that does not exist (read, literal), an array
literal one element shorter / longer than its annotation, a constructor with a payload dropped, a literal pattern of
another type."""
import copy
from gast import *

NUMERIC = {"int8", "int16", "int32", "int64", "uint8", "uint16", "uint32", "uint64", "float32", "float64"}

BUILTIN_SIGS = {
    "string_println": ([STRING], UNIT), "string_print": ([STRING], UNIT), "string_len": ([STRING], INT32),
    "int32_to_string": ([INT32], STRING), "int64_to_string": ([INT64], STRING), "int8_to_string": ([INT8], STRING),
    "uint8_to_string": ([UINT8], STRING), "bool_to_string": ([BOOL], STRING),
    "float64_to_string": ([F64], STRING), "float32_to_string": ([F32], STRING),
}


def closed(t):
    k = t["t"]
    if k in ("param", "dyn", "?"):
        return False
    if k == "adt" and t["n"] == "Self":      # stands for the impl's for-type: not a fixed type unless substituted (self_inst)
        return False
    if k == "tuple":
        return all(closed(x) for x in t["ts"])
    if k == "adt":
        return all(closed(x) for x in t["as"])
    if k in ("vec", "ref", "array"):
        return closed(t["e"])
    if k == "fn":
        return all(closed(x) for x in t["ps"]) and closed(t["r"])
    return True


def self_inst(t, for_ty):
    """t with `Self` replaced by the impl's for-type"""
    k = t["t"]
    if k == "adt":
        return for_ty if t["n"] == "Self" and not t["as"] else dict(t, **{"as": [self_inst(x, for_ty) for x in t["as"]]})
    if k == "tuple":
        return dict(t, ts=[self_inst(x, for_ty) for x in t["ts"]])
    if k in ("vec", "ref", "array"):
        return dict(t, e=self_inst(t["e"], for_ty))
    if k == "fn":
        return dict(t, ps=[self_inst(x, for_ty) for x in t["ps"]], r=self_inst(t["r"], for_ty))
    return t


class Ctx:
    def __init__(self, prog):
        self.sigs = dict(BUILTIN_SIGS)
        for name, gens, params, ret, body in prog.fns:
            if not gens:
                self.sigs[name] = ([t for _, t in params], ret)
        for trait, ty, methods, gens in prog.impls:
            if trait is None and not gens:
                for m, params, ret, body in methods:
                    self.sigs[f"inherent#{tykey(ty).lstrip('%')}#{m}"] = ([self_inst(t, ty) for _, t in params], self_inst(ret, ty))
        self.structs = {n: fields for n, gens, fields, _ in prog.structs if not gens}
        self.enums = {n: dict(variants) for n, gens, variants, _ in prog.enums if not gens}
        self.traits = {n: {m: (ps, r) for m, ps, r in methods} for n, methods in prog.traits}
        self.slots = []       # (root, path, expected type)
        self.others = []      # (root, path, kind)


def walk(cx, root, path, e, exp):
    k = e["k"]
    if exp is not None and closed(exp):
        cx.slots.append((root, list(path), exp))
    sub = lambda key, x, t: walk(cx, root, path + [key], x, t)
    subl = lambda key, i, x, t: walk(cx, root, path + [key, i], x, t)
    if k == "call":
        sig = cx.sigs.get(e["f"]) if not e.get("targs") else None
        for i, a in enumerate(e["as"]):
            subl("as", i, a, sig[0][i] if sig and len(sig[0]) == len(e["as"]) else None)
        if sig and len(sig[0]) == len(e["as"]) and not e["f"].startswith("inherent#"):
            cx.others.append((root, list(path), "arity-less" if e["as"] else "arity-more"))
            cx.others.append((root, list(path), "arity-more"))
    elif k == "tcall":
        tr = cx.traits.get(e["trait"], {}).get(e["m"])
        for i, a in enumerate(e["as"]):
            t = tr[0][i - 1] if tr and i >= 1 and len(tr[0]) == len(e["as"]) - 1 else None
            subl("as", i, a, t if t and closed(t) else None)
    elif k in ("callv",):
        sub("f", e["f"], None)
        for i, a in enumerate(e["as"]):
            subl("as", i, a, None)
    elif k == "derived":
        subl("as", 0, e["as"][0], None)
    elif k == "bin":
        if e["op"] in ("&&", "||"):
            sub("l", e["l"], BOOL); sub("r", e["r"], BOOL)
        elif e["op"] in ("+", "-", "*", "/") and exp is not None and (exp["t"] in NUMERIC or exp["t"] == "string"):
            sub("l", e["l"], exp); sub("r", e["r"], exp)
        else:
            sub("l", e["l"], None); sub("r", e["r"], None)
    elif k == "un":
        sub("e", e["e"], BOOL if e["op"] == "!" else (exp if exp is not None and exp["t"] in NUMERIC else None))
    elif k == "if":
        sub("c", e["c"], BOOL); sub("t", e["t"], exp); sub("e", e["e"], exp)
    elif k == "while":
        sub("c", e["c"], BOOL); sub("b", e["b"], None)
    elif k == "match":
        sub("e", e["e"], None)
        for i, a in enumerate(e["arms"]):
            walk(cx, root, path + ["arms", i, "b"], a["b"], exp)
            if a["p"]["k"] in ("pint", "pbool", "pstr"):
                for alt in ("pint", "pbool", "pstr", "punit"):
                    if alt != a["p"]["k"]:
                        cx.others.append((root, path + ["arms", i, "p"], "pattern-" + alt[1:] + "-for-" + a["p"]["k"][1:]))
    elif k == "block":
        for i, st in enumerate(e["stmts"]):
            if st["k"] == "let":
                ann = st["ty"][0] if st["ty"] else None
                walk(cx, root, path + ["stmts", i, "e"], st["e"], ann)
                if ann is not None and ann["t"] == "array" and st["e"]["k"] == "array" and len(st["e"]["es"]) >= 1:
                    cx.others.append((root, path + ["stmts", i, "e"], "array-shorter"))
                    cx.others.append((root, path + ["stmts", i, "e"], "array-longer"))
            else:
                walk(cx, root, path + ["stmts", i, "e"], st["e"], None)
        if e["tail"]:
            walk(cx, root, path + ["tail", 0], e["tail"][0], exp)
    elif k == "struct":
        fields = dict(cx.structs.get(e["ty"]["n"], [])) if not e["ty"]["as"] else {}
        for i, f in enumerate(e["fs"]):
            walk(cx, root, path + ["fs", i, "e"], f["e"], fields.get(f["f"]))
        if e["fs"] and e["ty"]["n"] in cx.structs:
            cx.others.append((root, list(path), "literal-unknown-field"))
    elif k == "ctor":
        ts = cx.enums.get(e["ty"]["n"], {}).get(e["variant"]) if not e["ty"]["as"] else None
        for i, a in enumerate(e["as"]):
            subl("as", i, a, ts[i] if ts and len(ts) == len(e["as"]) else None)
        if ts and e["as"] and exp is not None and closed(exp):
            cx.others.append((root, list(path), "payload-dropped"))
    elif k == "tuple":
        ts = exp["ts"] if exp is not None and exp["t"] == "tuple" and len(exp["ts"]) == len(e["es"]) else None
        for i, a in enumerate(e["es"]):
            subl("es", i, a, ts[i] if ts else None)
    elif k == "array":
        t = exp["e"] if exp is not None and exp["t"] == "array" else None
        for i, a in enumerate(e["es"]):
            subl("es", i, a, t)
    elif k == "lam":
        sub("b", e["b"], exp["r"] if exp is not None and exp["t"] == "fn" else None)
    elif k == "field":
        sub("e", e["e"], None)
        cx.others.append((root, list(path), "read-unknown-field"))
    elif k == "proj":
        sub("e", e["e"], None)
    elif k == "todyn":
        sub("e", e["e"], None)
    elif k == "go":
        sub("e", e["e"], None)


def wrong_values(t):
    """expressions whose type is certainly not t: literals and operator expressions over literals"""
    out = []
    if t["t"] != "bool":
        out += [("bool", Bool(True)), ("comparison", Bin("<", Int(1), Int(2))), ("equality", Bin("==", Str("a"), Str("b"))),
                ("logic", Bin("&&", Bool(True), Bool(False))), ("negation", Un("!", Bool(False)))]
    if t["t"] != "string":
        out += [("string", Str("q")), ("concat", Bin("+", Str("a"), Str("b")))]
    if t["t"] not in NUMERIC:
        out += [("int", Int(1)), ("arith", Bin("*", Int(2), Int(3))), ("float", Float(3, 2))]
    else:
        other = "int64" if t["t"] != "int64" else "int8"
        out.append((other, Int(1, other, suffix=True)))
        if t["t"] not in ("float32", "float64"):
            out.append(("float", Float(3, 2)))
    if t["t"] != "unit":
        out.append(("unit", Unit))
    if t["t"] != "tuple":
        out.append(("tuple", Tuple(Int(1), Bool(False))))
    if t["t"] != "fn":
        out.append(("lambda", Lam([("z_", INT32)], Var("z_"))))
    return out


def roots(prog):
    for i, (name, gens, params, ret, body) in enumerate(prog.fns):
        yield ("fn", i), body, ret
    for i, (trait, ty, methods, gens) in enumerate(prog.impls):
        for j, (m, params, ret, body) in enumerate(methods):
            yield ("impl", i, j), body, self_inst(ret, ty)


def enumerate_mutations(prog):
    """-> list of (root, path, kind, detail)"""
    cx = Ctx(prog)
    for root, body, ret in roots(prog):
        walk(cx, root, [], body, ret)
    out = []
    for root, path, exp in cx.slots:
        for name, v in wrong_values(exp):
            out.append((root, path, "slot", (tystr(exp), name, v)))
    for root, path, kind in cx.others:
        out.append((root, path, kind, None))
    return out


def _body(prog, root):
    if root[0] == "fn":
        return prog.fns[root[1]], 4
    return prog.impls[root[1]][2][root[2]], 3


def apply(prog, mutation):
    """a deep copy of prog with the mutation applied (None if it does not apply)"""
    root, path, kind, detail = mutation
    p = copy.deepcopy(prog)
    holder, idx = _body(p, root)
    holder = list(holder)

    def get(node, path):
        for key in path:
            node = node[key]
        return node

    body = holder[idx]
    if kind == "slot":
        new = copy.deepcopy(detail[2])
        if not path:
            holder[idx] = new
        else:
            parent = get(body, path[:-1])
            parent[path[-1]] = new
    else:
        node = get(body, path)
        if kind == "arity-less":
            node["as"] = node["as"][:-1]
        elif kind == "arity-more":
            node["as"] = node["as"] + [Int(0)]
        elif kind == "read-unknown-field":
            node["f"] = node["f"] + "_zz"
        elif kind == "literal-unknown-field":
            node["fs"][0]["f"] = node["fs"][0]["f"] + "_zz"
        elif kind == "array-shorter":
            node["es"] = node["es"][:-1]
        elif kind == "array-longer":
            node["es"] = node["es"] + [copy.deepcopy(node["es"][-1])]
        elif kind == "payload-dropped":
            node["as"] = node["as"][:-1]
        elif kind.startswith("pattern-"):
            parent = get(body, path[:-1])
            alt = kind.split("-")[1]
            parent[path[-1]] = {"int": PInt(7), "bool": PBool(True), "str": PStr("q"), "unit": PUnit}[alt]
        else:
            return None
    if root[0] == "fn":
        p.fns[root[1]] = tuple(holder)
    else:
        p.impls[root[1]][2][root[2]] = tuple(holder)
    return p


def describe(mutation):
    root, path, kind, detail = mutation
    if kind == "slot":
        return f"{detail[1]}-where-{detail[0]}"
    return kind
