"""C19 — generated names are unique and never capture Go or runtime names.

spec/Names.tla generates the universe (internal names over the separators the compiler uses, hostile identifiers, types
to depth 2); the real naming functions (go_ident, encode_ty, go_type_name_for, ty_compact, trait_impl_fn_name,
inherent_method_fn_name, ref_struct_name, array/ref helper names) are applied to all of it by the harness, and the recorded
table is validated by NamesCheck.tla: injectivity per name space, legality of every output as a Go identifier, and no
user-legal identifier mapped onto a reserved name.  End to end: one base program is alpha-renamed, every identifier kind
to every hostile name; behaviour (GomlSem vs GoSem) and Go validity (GoStatic) must not change."""
import json
from common import *
import famcheck, fam_c19

LEVEL = "model_checking"


def collision_class(a, b):
    """what distinguishes two inputs that got the same name (the identity of a non-injectivity finding)"""
    def split(x):
        i = x.rfind("|")
        pre, body = (x[:i], x[i + 1:]) if i >= 0 and x[i + 1:].startswith(("{", "[")) else ("", x)
        try:
            return pre, json.loads(body)
        except ValueError:
            return pre, None
    pa, ta = split(a)
    pb, tb = split(b)
    if ta is None or tb is None:
        if a.replace("#", "_") == b.replace("#", "_"):
            return "hash-vs-underscore"
        return "names"
    if pa != pb:
        return "prefix"

    def diff(x, y, under_fn=False):
        if not isinstance(x, dict) or not isinstance(y, dict):
            return ("function-type-shape" if under_fn else "leaf") if x != y else None
        kx, ky = str(x.get("k")), str(y.get("k"))
        fn = under_fn or kx in ("fn", "func") or ky in ("fn", "func")
        if kx != ky:
            return "function-type-shape" if fn else "/".join(sorted([kx, ky]))
        if kx == "array" and x.get("len") != y.get("len"):
            return "array-length"
        for key in sorted(set(x) | set(y)):
            u, v = x.get(key), y.get(key)
            if isinstance(u, list) and isinstance(v, list):
                if len(u) != len(v):
                    return "function-type-shape" if fn else f"{kx}-arity"
                for p_, q_ in zip(u, v):
                    d_ = diff(p_, q_, fn)
                    if d_:
                        return d_
            elif isinstance(u, dict) or isinstance(v, dict):
                d_ = diff(u, v, fn)
                if d_:
                    return d_
            elif u != v:
                return "function-type-shape" if fn else f"{kx}-{key}"
        return None
    return diff(ta, tb) or "equal-inputs"


def serde(t):
    k = t["k"]
    if k == "prim":
        return t["n"]
    if k == "struct":
        return {"TStruct": {"name": t["n"]}}
    if k == "enum":
        return {"TEnum": {"name": t["n"]}}
    if k == "tuple":
        return {"TTuple": {"typs": [serde(x) for x in t["typs"]]}}
    if k == "vec":
        return {"TVec": {"elem": serde(t["elem"])}}
    if k == "ref":
        return {"TRef": {"elem": serde(t["elem"])}}
    if k == "array":
        return {"TArray": {"len": t["len"], "elem": serde(t["elem"])}}
    if k == "func":
        return {"TFunc": {"params": [serde(x) for x in t["params"]], "ret_ty": serde(t["ret"])}}
    if k == "app":
        return {"TApp": {"ty": serde(t["base"]), "args": [serde(x) for x in t["args"]]}}
    raise ValueError(k)


def run(tier, rep):
    build_harness()
    g = run_tlc("NamesGen", "NamesGen.cfg", workers=1, xmx="4g", timeout=900)
    if g.rc != 0:
        raise ToolError("NamesGen failed: " + (g.error or g.stdout[-1000:]))
    idents = g.json_prints("IDENTS")[0]
    mono = g.json_prints("MONOTYPES")[0]
    allt = g.json_prints("ALLTYPES")[0]
    if tier == "quick":      # the full type universe (4425 types, 64k table rows) is for the thorough tier
        mono = [t for t in mono if len(json.dumps(t)) < 150]
        allt = [t for t in allt if len(json.dumps(t)) < 150]
    reqs = []
    for s in idents:
        reqs.append({"fn": "go_ident", "s": s, "inp": s})
    for t in mono:
        key = json.dumps(t, sort_keys=True)
        for f in ("go_type_name_for", "ref_struct_name"):
            reqs.append({"fn": f, "ty": serde(t), "inp": key})
        for prefix in ("array_get", "array_set"):
            reqs.append({"fn": "array_helper_fn_name", "ty": serde(t), "prefix": prefix, "inp": prefix + "|" + key})
        for prefix in ("ref", "ref_get", "ref_set"):
            reqs.append({"fn": "ref_helper_fn_name", "ty": serde(t), "prefix": prefix, "inp": prefix + "|" + key})
    for t in allt:
        key = json.dumps(t, sort_keys=True)
        for f in ("encode_ty", "ty_compact"):
            reqs.append({"fn": f, "ty": serde(t), "inp": key})
        for tr in ("Tr", "A::Tr"):
            for m in ("m", "show"):
                reqs.append({"fn": "trait_impl_fn_name", "ty": serde(t), "trait": tr, "method": m, "inp": tr + "|" + m + "|" + key})
        for m in ("m", "new"):
            reqs.append({"fn": "inherent_method_fn_name", "ty": serde(t), "method": m, "inp": m + "|" + key})
    for i, r in enumerate(reqs):
        r["id"] = i
    ans = gv_parallel("names", reqs, shards=NCPU)
    table = []
    for r, a in zip(reqs, ans):
        if "out" not in a:
            rep.violation(f"naming-function-failed:{r['fn']}", {"request": {k: r[k] for k in r if k != 'id'}, "answer": a})
            continue
        table.append({"f": r["fn"], "inp": r["inp"], "inb": list(r["inp"].encode()), "out": a["out"], "outb": list(a["out"].encode())})
    d = workdir("c19-names")
    write_lines(d + "/table.ndjson", table)
    c = run_tlc("NamesCheck", "NamesCheck.cfg", env={"TABLE": d + "/table.ndjson"}, workers=1, xmx="8g", timeout=2400, xss="512m")
    if c.rc != 0:
        raise ToolError("NamesCheck failed: " + (c.error or c.stdout[-1500:]))
    res = c.json_prints("NAMES")[0]
    if res["rows"] != len(table):
        raise ToolError("NamesCheck did not read the whole table")
    for f, ok in res["injective"].items():
        if not ok:
            cols = res["collisions"][f]
            seen_cls = set()
            for a_, b_, out in cols:
                cls = collision_class(a_, b_)
                if cls in seen_cls:
                    continue
                seen_cls.add(cls)
                rep.violation(f"not-injective:{f}:{cls}", {"inputs": [a_, b_], "same_output": out, "collisions": len(cols)})
    for f, ok in res["legal"].items():
        if not ok:
            bad = [t for t in table if t["f"] == f and not (t["out"][:1].isalpha() or t["out"][:1] == "_") ][:3]
            rep.violation(f"illegal-go-identifier:{f}", {"examples": bad})
    for name in res["capturing"]:
        rep.violation(f"user-identifier-maps-to-reserved-name:{name}", {"identifier": name})
    # ---- alpha-renaming end to end
    progs = fam_c19.programs(tier)
    cases, counts = famcheck.run_families("C19", rep, progs, "c19", goinvalid_is_violation=True, crash_is_violation=True, maxsteps=20000)
    # ---- the name supply itself, at its linearization point (hook in Gensym::gensym): one shared counter that never goes back
    # (Gensym.tla), and for every run the names issued although the user had given a function that name (GensymTrace.tla)
    import gensymtrace, corpus
    gcases = [{"id": c["id"], "path": c["path"], "ident": c["ident"]} for c in cases]
    gcases += [{"id": "corpus:" + c["name"], "path": c["src"], "ident": "corpus:" + c["name"]} for c in corpus.single_file_cases() + corpus.package_cases()]
    for cfg, want in (("Gensym_small.cfg", None), ("Gensym_reset.cfg", "Unique"), ("Gensym_capture.cfg", "NoCapture")):
        g = run_tlc("MCGensym", cfg, workers=2, xmx="2g", timeout=300)
        if g.violated != want:
            if want is None:
                rep.violation(f"model:{cfg}:{g.violated}", {"trace": g.trace[-3:]})
            else:
                raise ToolError(f"model self-test: {cfg} should violate {want}, got {g.violated}")
    gst = gensymtrace.validate(gcases, rep, "c19")
    rep.coverage["gensym_trace"] = gst
    if gst["programs"] < 200 or gst["names_issued"] < 5000 or gst["programs_with_a_function_named_like_a_temporary"] < 5:
        raise ToolError(f"vacuity: gensym traces too thin: {gst}")
    base = next(c for c in cases if c["ident"] == "c19:base")
    if base["cls"] != "agree":
        raise ToolError("the base program of the renaming family does not agree: " + str(base["cls_detail"])[:300])
    rep.coverage["states"] += g.distinct + c.distinct
    rep.coverage["transitions"] += g.generated + c.generated
    rep.coverage["traces_validated_against_impl"] = len(table) + counts.get("agree", 0) + counts.get("differ", 0)
    rep.coverage["name_table_rows"] = len(table)
    rep.coverage["identifiers"] = len(idents)
    rep.coverage["types"] = len(allt)
    rep.assumptions += famcheck.STD_ASSUMPTIONS + ["identifier alphabet {a, B, _, 1, ::, #, [, ], ,} up to length 3 plus hostile names; types to nesting depth 2",
                                                   "renamings goml itself refuses (type names are keywords) are counted as rejected, not compared"]
