"""Lexer.tla bound to crates/lexer: TLC lexes every generated text with the specification's scanner (one action per token;
Tiles, Stable, termination checked on the model) and prints the token stream it predicts; the real lexer must produce exactly
that stream - kinds and byte ranges - for every text.  Three input sets: all texts of <= N characters over a 33-character
alphabet, all texts of <= M pieces (keywords and near-keywords, numbers and suffixes, string and multi-line string fragments,
operators and their prefixes), and whole files (the corpus, family programs) handed to TLC as code points."""
import json, os
from common import *


def _tlc(cfg, name, consts, env=None, workers=8, timeout=3000):
    cfgp = os.path.join(SPEC, cfg)
    text = open(cfgp).read()
    tmp = os.path.join(SPEC, f".{name}-{os.getpid()}.cfg")
    for k, v in consts.items():
        text = re.sub(rf"{k} = \d+", f"{k} = {v}", text)
    open(tmp, "w").write(text)
    try:
        r = run_tlc("MCLexer", os.path.basename(tmp), env=env, workers=workers, xmx="6g", xss="512m", timeout=timeout, name="lexer-" + name)
    finally:
        os.remove(tmp)
    if not tlc_ok(r, cfg):
        raise ToolError(f"Lexer.tla: {r.violated} is violated on the model itself ({cfg}): the specification is wrong, nothing was compared")
    return r


def _significant(toks):
    """What the properties speak about: which significant token every stretch of the text is, and where.  How a run of blanks and
    comments is cut into trivia tokens, and how a stretch nothing matches is cut into error tokens, is the lexer's own business:
    adjacent trivia tokens are one stretch of trivia, adjacent error tokens one erroneous stretch (the specification predicts the
    cuts too - Tiles and Stable are checked on them - but a lexer that cuts them differently reads the same program)."""
    out = []
    for k, s_, e in toks:
        k = "Trivia" if k in ("Whitespace", "Comment") else k
        if out and k in ("Trivia", "Error") and out[-1][0] == k and out[-1][2] == s_:
            out[-1] = (k, out[-1][1], e)
        else:
            out.append((k, s_, e))
    return out


def _compare(r, rep, label, stats):
    preds = r.json_prints("LEX")
    if not preds:
        raise ToolError(f"lexer {label}: TLC printed no token streams")
    reqs = [{"id": i, "text": "".join(chr(c) for c in p["text"]), "mode": "cst"} for i, p in enumerate(preds)]
    answers = gv_parallel("parse", reqs)
    for p, q, a in zip(preds, reqs, answers):
        stats["texts"] += 1
        if a.get("verdict") in ("panic", "timeout", "abort"):
            continue            # C04 / C12 report crashes; nothing to compare here
        real = _significant([(t["k"], t["s"], t["e"]) for t in a["tokens"]])
        want = _significant([(t["k"], t["s"], t["e"]) for t in p["toks"]])
        stats["tokens"] += len(want)
        for t in want:
            stats["kinds"][t[0]] = stats["kinds"].get(t[0], 0) + 1
        if real != want:
            j = next((i for i in range(min(len(real), len(want))) if real[i] != want[i]), min(len(real), len(want)))
            w = want[j] if j < len(want) else None
            g = real[j] if j < len(real) else None
            kind = "kind" if w and g and (w[1], w[2]) == (g[1], g[2]) else "extent"
            rep.violation(f"lexer:{label}:{kind}:spec={w[0] if w else 'end'}:impl={g[0] if g else 'end'}",
                          {"text": q["text"], "first_difference_at_token": j, "specification": w, "lexer": g, "specification_tokens": want[:12], "lexer_tokens": real[:12]},
                          replay={"text": q["text"]})


def run(tier, rep, files=(), parts=("chars", "pieces", "files")):
    """files: [(name, text)] whole programs to lex both ways.  Both tiers enumerate the same bounds (33^3 and 39^3 texts): one more
    character or piece is 1.2 M / 2.3 M texts, whose predicted token streams no longer fit the driver; the thorough tier adds files instead."""
    build_harness()
    stats = {"texts": 0, "tokens": 0, "kinds": {}, "states": 0}
    quick = tier == "quick"
    if "chars" in parts:
        r = _tlc("Lexer_chars.cfg", "chars", {"MaxChars": 3}, workers=8 if quick else NCPU)
        stats["states"] += r.distinct
        _compare(r, rep, "chars", stats)
    if "pieces" in parts:
        r = _tlc("Lexer_pieces.cfg", "pieces", {"MaxPieces": 3}, workers=8 if quick else NCPU)
        stats["states"] += r.distinct
        _compare(r, rep, "pieces", stats)
    if "pieces" in parts:
        r = _tlc("Lexer_ml.cfg", "ml", {}, workers=8 if quick else NCPU)
        stats["states"] += r.distinct
        _compare(r, rep, "multiline", stats)
    if files and "files" in parts:
        d = workdir("lexer-files")
        path = os.path.join(d, "texts.ndjson")
        write_lines(path, [{"cps": [ord(c) for c in text]} for _, text in files])
        r = _tlc("Lexer_files.cfg", "files", {}, env={"LEXTEXTS": path}, workers=8)
        stats["states"] += r.distinct
        stats["files"] = len(files)
        _compare(r, rep, "files", stats)
    need = {"Error", "Str", "MultilineStr", "Float32Lit", "Int16Lit", "UInt64Lit", "Trivia", "Ident", "FnKeyword", "WildcardKeyword", "AndAnd", "FatArrow"}
    if need - set(stats["kinds"]):
        raise ToolError(f"vacuity: the generated texts never produce {sorted(need - set(stats['kinds']))}")
    return stats
