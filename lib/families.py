"""Registry of generated program families shared by the translation-validation checks."""
import fam_c09, fam_random


def all_families(tier, seed_base):
    """list of {prog, family, ident} over every family that exists (used by C01 and C02)."""
    out = []
    out += fam_c09.programs(tier)
    for modname in ("fam_c03", "fam_c06", "fam_c07", "fam_c08", "fam_c10", "fam_c17", "fam_c18", "fam_c19", "fam_found"):
        try:
            mod = __import__(modname)
        except ImportError:
            continue
        out += mod.programs(tier)
    n = 120 if tier == "quick" else 3000
    out += fam_random.programs(n, seed_base + 101, depth=3 if tier == "quick" else 4, with_hof=False)
    return out
