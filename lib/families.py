"""Generated program families shared by the translation-validation checks (filled in incrementally)."""

def cases_for(prop, tier, root):
    return []
