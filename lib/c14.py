"""C14 — separate compilation is equivalent to whole-program compilation.

spec/BuildOrder.tla enumerates four dependency DAG shapes (chain, fan-in, diamond, a package imported both directly and
transitively) x all 24 orders of `goml build` invocations and predicts which builds succeed and whether link can; TLC checks
that exactly the topological orders build everything.  Each (shape, order) is executed on real files through the CLI
(`build` per package against the interfaces written so far, then `link`), every verdict compared with the model.  The
project content crosses package boundaries in every way the language allows (generic functions instantiated in
dependents, traits with impls in other packages, bounded generics, enums and structs matched across packages).  For every
successful link: the linked Go must be valid (GoStatic) and behave exactly (GoSem) like the Go of compiling the whole
project at once; `check` and `build` must write the same interface; a project accepted one way must be accepted the other."""
import json, os, shutil, subprocess
from common import *
import gopipe, gohoist, engine

LEVEL = "model_checking"


def pkg_source(p, deps, flavour):
    lo = p.lower()
    L = [f"package {p}"] + [f"import {d}" for d in sorted(deps)]
    Sp, Ep, Tp = f"{p}S", f"{p}E", f"{p}T"
    L += [f"struct {Sp} {{ v: int32 }}",
          f"enum {Ep} {{ K(int32), N }}",
          f"trait {Tp} {{ fn show(Self) -> string; }}",
          f"impl {Tp} for {Sp} {{ fn show(self: {Sp}) -> string {{ \"{p}S(\" + int32_to_string(self.v) + \")\" }} }}",
          f"fn {lo}_id[T](x: T) -> T {{ x }}",
          f"fn {lo}_pair[T, U](x: T, y: U) -> (U, T) {{ (y, x) }}",
          f"fn {lo}_show[T: {Tp}](x: T) -> string {{ \"<\" + {Tp}::show(x) + \">\" }}",
          f"fn {lo}_pick(e: {Ep}) -> int32 {{ match e {{ K(n) => n + {ord(p[0]) % 7}, N => 0 }} }}"]
    for d in sorted(deps):
        dl = d.lower()
        # implement the dependency's trait for the local struct (trait foreign, type local)
        L.append(f"impl {d}::{d}T for {Sp} {{ fn show(self: {Sp}) -> string {{ \"{p}as{d}(\" + int32_to_string(self.v) + \")\" }} }}")
    body = [f"    let own = {lo}_show({Sp} {{ v: x }});",
            f"    let (sw, _) = {lo}_pair(x, \"{lo}\");",
            f"    let acc0 = own + sw + int32_to_string({lo}_pick(K(x))) + int32_to_string({lo}_id(x + 1));"]
    acc = "acc0"
    for k, d in enumerate(sorted(deps)):
        dl = d.lower()
        parts = [f"{d}::{dl}_f(x + {k + 1})",
                 f"int32_to_string({d}::{dl}_id(x * 2))",
                 f"{d}::{dl}_id(\"s{k}\")",
                 f"{d}::{dl}_show({d}::{d}S {{ v: x + 10 }})",
                 f"{d}::{dl}_show({Sp} {{ v: x + 20 }})",
                 f"int32_to_string({d}::{dl}_pick({d}::{d}E::K(x)))",
                 f"int32_to_string({d}::{dl}_pick({d}::{d}E::N))"]
        if flavour >= 1:
            parts.append(f"{d}::{d}T::show({d}::{d}S {{ v: 7 }})")
        if flavour >= 2:
            parts.append(f"{lo}_show({lo}_id({Sp} {{ v: {k} }}))")
        body.append(f"    let acc{k + 1} = {acc} + \"|\" + " + " + ".join(parts) + ";")
        acc = f"acc{k + 1}"
    body.append(f"    {acc}")
    L.append(f"fn {lo}_f(x: int32) -> string {{")
    L += body
    L.append("}")
    if p == "Main":
        L += ["fn main() {", "    let _ = string_println(main_f(1));", "    let _ = string_println(main_f(5));", "    ()", "}"]
    return "\n".join(L) + "\n"


def cli(args):
    r = subprocess.run([CLI] + args, stdout=subprocess.PIPE, stderr=subprocess.PIPE, text=True, timeout=120)
    return r.returncode == 0, r.stderr.strip()[:600], "panicked at" in r.stderr


def run(tier, rep):
    build_cli()
    build_harness()
    r = run_tlc("BuildOrder", "BuildOrder.cfg", workers=4, xmx="4g", timeout=900, coverage=True)
    if not tlc_ok(r, "BuildOrder"):
        rep.violation(f"model:BuildOrder:{r.violated}", {"trace": r.trace[-2:]})
    orders = r.json_prints("ORDER")
    if len(orders) != 79 * 24:
        raise ToolError(f"expected 1896 (shape, order) pairs (79 dependency DAGs x 24 orders), got {len(orders)}")
    NAMED = {"A>;B>A;C>B;Main>C": "chain", "A>;B>;C>;Main>ABC": "fanin", "A>;B>A;C>A;Main>BC": "diamond", "A>;B>;C>AB;Main>AC": "vee",
             "A>;B>;C>B;Main>ABC": "tee"}
    for o in orders:
        key = ";".join(f"{q}>{''.join(sorted(o['deps'][q]))}" for q in sorted(o["deps"]))
        o["shape"] = NAMED.get(key, key)
    all_shapes = sorted({o["shape"] for o in orders})
    rnd = rng(14)
    if tier == "quick":
        topo = [o for o in orders if o["linkable"]]
        non = [o for o in orders if not o["linkable"]]
        rnd.shuffle(topo); rnd.shuffle(non)
        # every shape with two topological orders and two non-topological ones
        sel = []
        # the named shapes, every shape in which Main imports all three libraries and one of them imports another (a direct import
        # that is also an indirect one, under every naming), and a seeded sample of the others
        wide = [sh for sh in all_shapes if sh not in NAMED.values() and sh.endswith("Main>ABC") and sh.count(">;") == 2]
        others = [sh for sh in all_shapes if sh not in NAMED.values() and sh not in wide]
        rnd.shuffle(others)
        for sh in list(NAMED.values()) + wide + others[:6]:
            k = 2 if sh in NAMED.values() else 1
            sel += [o for o in topo if o["shape"] == sh][:k] + [o for o in non if o["shape"] == sh][:k]
        orders = sel
    else:
        # thorough: every shape with up to four topological and four non-topological build orders (seeded choice among the 24)
        topo = [o for o in orders if o["linkable"]]
        non = [o for o in orders if not o["linkable"]]
        rnd.shuffle(topo); rnd.shuffle(non)
        orders = [o for sh in all_shapes for o in [x for x in topo if x["shape"] == sh][:4] + [x for x in non if x["shape"] == sh][:4]]
    root = workdir("c14")
    whole_cache = {}
    go_recs = []
    links = 0
    steps = 0
    for oi, o in enumerate(orders):
        shape, deps = o["shape"], o["deps"]
        flavour = oi % 3
        proj = os.path.join(root, f"o{oi}")
        os.makedirs(os.path.join(proj, "out"))
        paths = {}
        inputs = {}
        for p in deps:
            d = proj if p == "Main" else os.path.join(proj, p)
            os.makedirs(d, exist_ok=True)
            paths[p] = os.path.join(d, "main.gom" if p == "Main" else "lib.gom")
            src = pkg_source(p, deps[p], flavour)
            inputs[p] = [paths[p]]
            if p != "Main" and oi % 2 == 1:
                # multi-file package: the import-free helpers live in a second file that sorts *after* the first one
                lines = src.split("\n")
                moved = [l for l in lines if l.startswith(f"fn {p.lower()}_id[") or l.startswith(f"fn {p.lower()}_pair[") or l.startswith(f"fn {p.lower()}_pick(") or l.startswith(f"enum {p}E")]
                rest = [l for l in lines if l not in moved]
                src = "\n".join(rest)
                second = os.path.join(d, "zz_misc.gom")
                open(second, "w").write(f"package {p}\n" + "\n".join(moved) + "\n")
                inputs[p].append(second)
            open(paths[p], "w").write(src)
        ident = f"{shape}:{'>'.join(o['order'])}"
        bad = False
        for st in o["log"]:
            p = st["p"]
            ok, err, pan = cli(["build", "--package", p, "--input"] + inputs[p] + ["--interface-path", f"{proj}/out", "--output", f"{proj}/out/{p}"])
            steps += 1
            if pan:
                rep.violation(f"panic:build:{shape}", {"order": o["order"], "package": p, "stderr": err}); bad = True; break
            if ok != st["ok"]:
                rep.violation(f"build-verdict:{shape}:expected-{'ok' if st['ok'] else 'fail'}", {"order": o["order"], "package": p, "stderr": err}, replay={"order": o}); bad = True; break
            if ok:
                # check and build of the same sources emit the same interface
                # (the files of a package are a set: `check` is given them in the opposite order and must emit the same interface)
                ok2, err2, _ = cli(["check", "--package", p, "--input"] + inputs[p][::-1] + ["--interface-path", f"{proj}/out", "--output", f"{proj}/chk/{p}"])
                if not ok2:
                    rep.violation(f"check-rejects-what-build-accepts:{shape}", {"package": p, "stderr": err2}, replay={"order": o}); bad = True; break
                if open(f"{proj}/chk/{p}.interface").read() != open(f"{proj}/out/{p}.interface").read():
                    rep.violation(f"check-build-interface-differs:{shape}", {"package": p}, replay={"order": o}); bad = True; break
        if bad:
            continue
        cores = [f"{proj}/out/{p}.core" for p in sorted(deps) if os.path.exists(f"{proj}/out/{p}.core")]
        ok, err, pan = cli(["link", "--input"] + (cores or [f"{proj}/out/none.core"]) + ["--output", f"{proj}/out/linked.go"])
        steps += 1
        if pan:
            rep.violation(f"panic:link:{shape}", {"order": o["order"], "stderr": err}); continue
        if ok != o["linkable"]:
            rep.violation(f"link-verdict:{shape}:expected-{'ok' if o['linkable'] else 'fail'}", {"order": o["order"], "stderr": err}, replay={"order": o}); continue
        if not ok:
            continue
        links += 1
        linked = open(f"{proj}/out/linked.go").read()
        key = (shape, flavour)
        if key not in whole_cache:
            a = gv("compile", [{"id": "w", "path": paths["Main"]}])[0]
            whole_cache[key] = a
            if a["verdict"] != "ok":
                rep.violation(f"whole-program-rejects-what-separate-accepts:{shape}", {"verdict": a["verdict"], "diags": [d["msg"] for d in a.get("diags", [])][:3]}, replay={"order": o})
            else:
                rec, e = gopipe.go_record(f"whole:{shape}:{flavour}", a["go"])
                if e:
                    rep.violation(f"whole-program-go-syntax:{shape}", {"error": e})
                else:
                    go_recs.append(rec)
        rec, e = gopipe.go_record(f"linked:{oi}:{shape}:{flavour}:{ident}", linked)
        if e:
            rep.violation(f"linked-go-syntax:{shape}", {"error": e, "order": o["order"]})
        else:
            go_recs.append(rec)
    # ---- a project accepted one way must be accepted the other: Main uses an item of a package it reaches only transitively
    A_SRC = "package A\nstruct S { v: int32 }\nimpl S { fn name(self: S) -> string { \"s\" } }\ntrait Sh { fn sh(Self) -> string; }\nimpl Sh for S { fn sh(self: S) -> string { \"sh\" } }\nfn mk() -> S { S { v: 1 } }\nfn k() -> float64 { 123456789.123456789123456789 }\n"
    B_SRC = "package B\nimport A\nstruct Holder { s: A::S }\nfn hold() -> Holder { Holder { s: A::mk() } }\nfn kk() -> float64 { A::k() }\n"
    uses = {
        "legal-through-b": "let h = B::hold(); let _ = h; let _ = string_println(float64_to_string(B::kk())); ()",
        "qualified-fn-of-transitive-package": "let s = A::mk(); let _ = s; ()",
        "type-annotation-of-transitive-package": "let h = B::hold(); let B::Holder { s: s } = h; let t: A::S = s; let _ = t; ()",
        "inherent-method-on-transitive-type": "let h = B::hold(); let B::Holder { s: s } = h; let _ = string_println(s.name()); ()",
        "trait-method-of-transitive-package": "let h = B::hold(); let B::Holder { s: s } = h; let _ = string_println(A::Sh::sh(s)); ()",
        "field-of-transitive-type": "let h = B::hold(); let B::Holder { s: s } = h; let _ = string_println(int32_to_string(s.v)); ()",
    }
    equiv = 0
    for name, body in uses.items():
        proj = os.path.join(root, "iso_" + name)
        os.makedirs(proj + "/A"); os.makedirs(proj + "/B"); os.makedirs(proj + "/out")
        open(proj + "/A/lib.gom", "w").write(A_SRC)
        open(proj + "/B/lib.gom", "w").write(B_SRC)
        open(proj + "/main.gom", "w").write("package Main\nimport B\nfn main() { " + body + " }\n")
        whole = gv("compile", [{"id": name, "path": proj + "/main.gom"}])[0]
        sep_ok = True
        for p2, f2 in (("A", proj + "/A/lib.gom"), ("B", proj + "/B/lib.gom"), ("Main", proj + "/main.gom")):
            ok, err, pan = cli(["build", "--package", p2, "--input", f2, "--interface-path", f"{proj}/out", "--output", f"{proj}/out/{p2}"])
            if pan:
                rep.violation(f"panic:build:isolation:{name}", {"stderr": err})
            sep_ok = sep_ok and ok
        if whole["verdict"] in ("panic", "timeout"):
            rep.violation(f"crash:whole:isolation:{name}", {"at": whole.get("at")})
        elif (whole["verdict"] == "ok") != sep_ok:
            rep.violation(f"accepted-one-way-only:{name}", {"whole_program": whole["verdict"], "separate": "ok" if sep_ok else "rejected",
                                                           "whole_diags": [d["msg"] for d in whole.get("diags", [])][:3]})
        else:
            equiv += 1
        if name == "legal-through-b" and sep_ok and whole["verdict"] == "ok":
            # numeric literals must survive the trip through the JSON artifacts unchanged
            ok, err, _ = cli(["link", "--input", f"{proj}/out/A.core", f"{proj}/out/B.core", f"{proj}/out/Main.core", "--output", f"{proj}/out/linked.go"])
            import re as _re
            fl = lambda t: sorted(_re.findall(r"\b\d+\.\d+(?:[eE][-+]?\d+)?\b", t))
            if ok and fl(open(f"{proj}/out/linked.go").read()) != fl(whole["go"]):
                rep.violation("float-literal-changes-through-artifacts", {"whole": fl(whole["go"]), "linked": fl(open(f"{proj}/out/linked.go").read())})
    rep.coverage["isolation_projects_equivalent"] = equiv
    # ---- packages without any function body (types only, traits only, externs only): they still take part in linking
    specials = {
        "types-only": {
            "Model": "package Model\n\nstruct Pt { x: int32, y: int32 }\nenum Shape { Circle(int32), Rect(int32, int32) }\nstruct Wrap[T] { v: T }\n",
            "Main": "package Main\nimport Model\n\nfn area(s: Model::Shape) -> int32 { match s { Model::Shape::Circle(r) => r * r * 3, Model::Shape::Rect(w, h) => w * h } }\n"
                    "fn main() {\n    let p = Model::Pt { x: 3, y: 4 };\n    let w = Model::Wrap { v: p.x + p.y };\n"
                    "    let _ = string_println(int32_to_string(area(Model::Shape::Circle(2)) + area(Model::Shape::Rect(2, 5)) + w.v));\n    ()\n}\n"},
        "traits-only": {
            "Api": "package Api\n\ntrait Named { fn name(Self) -> string; }\ntrait Sized { fn size(Self) -> int32; }\n",
            "Main": "package Main\nimport Api\n\nstruct It { n: int32 }\nimpl Api::Named for It { fn name(self: It) -> string { \"it\" + int32_to_string(self.n) } }\n"
                    "impl Api::Sized for It { fn size(self: It) -> int32 { self.n } }\nfn via(d: dyn Api::Named) -> string { Api::Named::name(d) }\n"
                    "fn total[T: Api::Sized](x: T) -> int32 { Api::Sized::size(x) + 1 }\n"
                    "fn main() {\n    let i = It { n: 4 };\n    let _ = string_println(via(i) + int32_to_string(total(i)));\n    ()\n}\n"},
        "externs-only": {
            "Strs": "package Strs\n\nextern \"go\" \"strings\" \"ToUpper\" to_upper(s: string) -> string\nextern \"go\" \"strings\" \"Repeat\" repeat(s: string, n: int32) -> string\n",
            "Main": "package Main\nimport Strs\n\nfn main() {\n    let _ = string_println(Strs::to_upper(\"abc\") + Strs::repeat(\"ab\", 3));\n    ()\n}\n"},
    }
    # a long function: the core artifact nests one level per statement
    long_lets = "\n".join(f"    let a{i} = a{i - 1} + {i % 7};" for i in range(1, 160))
    specials["long-function"] = {
        "Long": "package Long\n\nfn run(a0: int32) -> int32 {\n" + long_lets + "\n    a159\n}\n",
        "Main": "package Main\nimport Long\n\nfn main() {\n    let _ = string_println(int32_to_string(Long::run(1)));\n    ()\n}\n"}
    # extern types bound to Go packages, declared in a dependency and in the root package
    specials["extern-types"] = {
        "Tm": "package Tm\n\nextern type Time\nextern \"go\" \"time\" unix(secs: int32, nanos: int32) -> Time\nextern \"go\" \"fmt\" \"Sprintf\" show(f: string, v: Time) -> string\n",
        "Main": "package Main\nimport Tm\n\nextern type Duration\nextern \"go\" \"time\" duration(nanos: int32) -> Duration\nextern \"go\" \"fmt\" \"Sprintf\" showd(f: string, v: Duration) -> string\n"
                "fn main() {\n    let _ = string_println(Tm::show(\"%v\", Tm::unix(1, 2)) + showd(\"%v\", duration(5)));\n    ()\n}\n"}
    # ---- projects the whole-program route rejects: the separate route must not produce a linked program either
    rejects = {
        "match-compilation-error-in-dependency": {
            "Codes": "package Codes\n\nfn name(c: int32) -> string {\n    match c { 0 => \"zero\", 1 => \"one\" }\n}\n",
            "Main": "package Main\nimport Codes\n\nfn main() {\n    let _ = string_println(Codes::name(1));\n    ()\n}\n"},
        "match-compilation-error-in-root": {
            "Codes": "package Codes\n\nfn one() -> int32 { 1 }\n",
            "Main": "package Main\nimport Codes\n\nfn main() {\n    let _ = string_println(match Codes::one() { 0 => \"zero\", 1 => \"one\" });\n    ()\n}\n"},
        "type-error-in-dependency": {
            "Codes": "package Codes\n\nfn name(c: int32) -> string { c }\n",
            "Main": "package Main\nimport Codes\n\nfn main() {\n    let _ = string_println(Codes::name(1));\n    ()\n}\n"},
        "derive-error-in-dependency": {
            "Codes": "package Codes\n\n#[derive(ToString)]\nstruct Bx[T] { v: T }\nfn one() -> int32 { 1 }\n",
            "Main": "package Main\nimport Codes\n\nfn main() {\n    let _ = string_println(int32_to_string(Codes::one()));\n    ()\n}\n"},
        "unresolved-name-in-dependency": {
            "Codes": "package Codes\n\nfn one() -> int32 { nowhere }\n",
            "Main": "package Main\nimport Codes\n\nfn main() {\n    let _ = string_println(int32_to_string(Codes::one()));\n    ()\n}\n"},
    }
    for rname, pk in rejects.items():
        proj = os.path.join(root, "reject_" + rname)
        os.makedirs(f"{proj}/Codes"); os.makedirs(proj + "/out")
        open(f"{proj}/Codes/lib.gom", "w").write(pk["Codes"])
        open(f"{proj}/main.gom", "w").write(pk["Main"])
        whole = gv("compile", [{"id": rname, "path": proj + "/main.gom"}])[0]
        if whole["verdict"] == "ok":
            raise ToolError(f"project {rname} was expected to be rejected by the whole-program route")
        if whole["verdict"] in ("panic", "timeout"):
            continue          # C04's business
        chain_ok = True
        for p2, f2 in (("Codes", f"{proj}/Codes/lib.gom"), ("Main", proj + "/main.gom")):
            ok, err, pan = cli(["build", "--package", p2, "--input", f2, "--interface-path", f"{proj}/out", "--output", f"{proj}/out/{p2}"])
            steps += 1
            if pan:
                rep.violation(f"panic:build:reject:{rname}", {"package": p2, "stderr": err})
            if not ok:
                chain_ok = False
                break
        if chain_ok:
            ok, err, pan = cli(["link", "--input", f"{proj}/out/Codes.core", f"{proj}/out/Main.core", "--output", f"{proj}/out/linked.go"])
            steps += 1
            if ok:
                rep.violation(f"accepted-one-way-only:separate:{rname}", {"whole_program": whole["verdict"], "whole_diagnostics": [d_["msg"] for d_ in whole.get("diags", [])][:2],
                                                                          "separate": "build, build and link all succeeded"})
    rep.coverage["projects_rejected_both_ways"] = len(rejects)
    # ---- packages of two files whose declarations depend on the order of the files (a trait must be declared before its impl):
    # under every pair of file names - plain, mixed case, names that sort differently with and without case, digits, underscores -
    # and with the dependent declaration in the first or the second file, both routes must give the same verdict (and the same
    # program when they accept)
    decl = "struct Sq { side: int32 }\ntrait Show { fn show(Self) -> string; }\nfn area(s: Sq) -> int32 { s.side * s.side }\n"
    impl = "impl Show for Sq { fn show(self: Sq) -> string { \"Sq(\" + int32_to_string(self.side) + \")\" } }\nfn label(s: Sq) -> string { Show::show(s) }\n"
    fmain = "package Main\nimport Shapes\n\nfn main() {\n    let s = Shapes::Sq { side: 3 };\n    let _ = string_println(Shapes::label(s) + int32_to_string(Shapes::area(s)));\n    ()\n}\n"
    name_pairs = [("a.gom", "b.gom"), ("Types.gom", "impls.gom"), ("types.gom", "Impls.gom"), ("Zeta.gom", "alpha.gom"), ("_x.gom", "A.gom"),
                  ("B2.gom", "b10.gom"), ("lib.gom", "Lib_impl.gom"), ("M.gom", "m.gom")]
    forder_n = 0
    for ni, (n1, n2) in enumerate(name_pairs):
        for which in ("decl-in-" + n1, "decl-in-" + n2):
            proj = os.path.join(root, f"forder_{ni}_{0 if which.endswith(n1) else 1}")
            os.makedirs(f"{proj}/Shapes"); os.makedirs(proj + "/out")
            first, second = (decl, impl) if which.endswith(n1) else (impl, decl)
            open(f"{proj}/Shapes/{n1}", "w").write("package Shapes\n\n" + first)
            open(f"{proj}/Shapes/{n2}", "w").write("package Shapes\n\n" + second)
            open(f"{proj}/main.gom", "w").write(fmain)
            whole = gv("compile", [{"id": which, "path": proj + "/main.gom"}])[0]
            if whole["verdict"] in ("panic", "timeout"):
                continue
            forder_n += 1
            sep_ok = True
            for p2, fs in (("Shapes", [f"{proj}/Shapes/{n1}", f"{proj}/Shapes/{n2}"]), ("Main", [proj + "/main.gom"])):
                ok, err, pan = cli(["build", "--package", p2, "--input"] + fs + ["--interface-path", f"{proj}/out", "--output", f"{proj}/out/{p2}"])
                steps += 1
                sep_ok = sep_ok and ok and not pan
                if not sep_ok:
                    break
            if sep_ok:
                ok, err, pan = cli(["link", "--input", f"{proj}/out/Shapes.core", f"{proj}/out/Main.core", "--output", f"{proj}/out/linked.go"])
                steps += 1
                sep_ok = ok and not pan
            ident = f"file-order:{n1}+{n2}:{'declaration-first' if which.endswith(n1) else 'declaration-second'}"
            if (whole["verdict"] == "ok") != sep_ok:
                rep.violation(f"accepted-one-way-only:{ident}", {"whole_program": whole["verdict"], "whole_diagnostics": [d_["msg"] for d_ in whole.get("diags", [])][:2],
                                                                "separate": "ok" if sep_ok else "rejected: " + err[:300]})
            elif sep_ok:
                shape_ = f"forder{ni}{'a' if which.endswith(n1) else 'b'}"
                for nm, text in ((f"whole:{shape_}:0", whole["go"]), (f"linked:f:{shape_}:0:{ident}", open(f"{proj}/out/linked.go").read())):
                    rec, e = gopipe.go_record(nm, text)
                    if e:
                        rep.violation(f"go-syntax:{ident}", {"error": e, "which": nm})
                    else:
                        go_recs.append(rec)
    rep.coverage["file_order_projects"] = forder_n
    forder_acc = len([1 for rc in go_recs if rc["name"].startswith("whole:forder")])
    rep.coverage["file_order_projects_accepted"] = forder_acc
    if forder_acc < 4:
        raise ToolError(f"vacuity: only {forder_acc} of the file-order projects are accepted")
    for sname, pk in specials.items():
        proj = os.path.join(root, "special_" + sname)
        dep = [p_ for p_ in pk if p_ != "Main"][0]
        os.makedirs(f"{proj}/{dep}"); os.makedirs(proj + "/out")
        open(f"{proj}/{dep}/lib.gom", "w").write(pk[dep])
        open(f"{proj}/main.gom", "w").write(pk["Main"])
        whole = gv("compile", [{"id": sname, "path": proj + "/main.gom"}])[0]
        if whole["verdict"] != "ok":
            if sname == "externs-only":
                continue          # extern syntax differs between versions of the language: only exercised when it compiles
            raise ToolError(f"special project {sname} does not compile as a whole: " + str([d_["msg"] for d_ in whole.get("diags", [])][:3]))
        sep_ok = True
        for p2, f2 in ((dep, f"{proj}/{dep}/lib.gom"), ("Main", proj + "/main.gom")):
            ok, err, pan = cli(["build", "--package", p2, "--input", f2, "--interface-path", f"{proj}/out", "--output", f"{proj}/out/{p2}"])
            steps += 1
            if pan:
                rep.violation(f"panic:build:special:{sname}", {"package": p2, "stderr": err})
            sep_ok = sep_ok and ok
        if not sep_ok:
            rep.violation(f"accepted-one-way-only:special:{sname}", {"whole_program": "ok", "separate": "rejected", "stderr": err})
            continue
        ok, err, pan = cli(["link", "--input", f"{proj}/out/{dep}.core", f"{proj}/out/Main.core", "--output", f"{proj}/out/linked.go"])
        steps += 1
        if pan:
            rep.violation(f"panic:link:special:{sname}", {"stderr": err})
            continue
        if not ok:
            rep.violation(f"link-verdict:special:{sname}:expected-ok", {"stderr": err})
            continue
        links += 1
        for nm, text in ((f"whole:special-{sname}:0", whole["go"]), (f"linked:s:special-{sname}:0:declaration-only-package", open(f"{proj}/out/linked.go").read())):
            rec, e = gopipe.go_record(nm, text)
            if e:
                rep.violation(f"go-syntax:special:{sname}", {"error": e, "which": nm})
            else:
                go_recs.append(rec)
        # the linked text imports what the whole-program text imports (extern packages)
        import re as _re2
        imps = lambda t: sorted(_re2.findall(r'^\s+"([\w/]+)"$', t, _re2.M))
        tdecls = lambda t: sorted(_re2.findall(r"^type (\w+ =? ?[\w.]*)", t, _re2.M))
        if tdecls(open(f"{proj}/out/linked.go").read()) != tdecls(whole["go"]):
            rep.violation(f"linked-type-declarations-differ:special:{sname}", {"whole": tdecls(whole["go"]), "linked": tdecls(open(f"{proj}/out/linked.go").read())})
        if imps(open(f"{proj}/out/linked.go").read()) != imps(whole["go"]):
            rep.violation(f"linked-imports-differ:special:{sname}", {"whole": imps(whole["go"]), "linked": imps(open(f"{proj}/out/linked.go").read())})
    # ---- what a package EXPORTS in unusual sizes: a type nested 70 deep, a 40-tuple, a signature of 60 parameters, 300 functions - the
    # dependent reads all of it back from the interface file; both routes must give the same verdict
    def nestt(w, d):
        t = "int32"
        for _ in range(d):
            t = f"Vec[{t}]" if w == "vec" else f"Ref[{t}]" if w == "ref" else f"({t}, bool)"
        return t
    big = {"type-nested-70-vec": f"fn deep(v: {nestt('vec', 70)}) -> int32 {{ 7 }}\n", "type-nested-70-ref": f"fn deep(v: {nestt('ref', 70)}) -> int32 {{ 7 }}\n",
           "type-nested-45-pairs": f"fn deep(v: {nestt('pair', 45)}) -> int32 {{ 7 }}\n",
           "result-type-nested-70": f"fn deep(v: int32) -> {nestt('vec', 70)} {{ " + "vec_push(" * 70 + "v" + ", ".join([""] + ["vec_new())"] * 0) + " }\n",
           "tuple-of-40": "fn deep(v: (" + ", ".join(["int32"] * 40) + ")) -> int32 { 7 }\n",
           "sixty-parameters": "fn deep(" + ", ".join(f"p{i}: int32" for i in range(60)) + ") -> int32 { p0 + p59 }\n",
           "three-hundred-functions": "".join(f"fn g{i}(x: int32) -> int32 {{ x + {i} }}\n" for i in range(300)) + "fn deep(v: int32) -> int32 { g299(v) }\n",
           "struct-field-nested-70": f"struct Deep {{ f: {nestt('vec', 70)} }}\nfn deep(v: int32) -> int32 {{ v }}\n"}
    big.pop("result-type-nested-70")       # (a value of that type cannot be written without 70 nested calls: the parameter form covers the reader)
    exported = 0
    for bn, decl in big.items():
        bp = os.path.join(root, "exports-" + bn)
        os.makedirs(bp + "/Lib"); os.makedirs(bp + "/out")
        open(bp + "/Lib/lib.gom", "w").write("package Lib\n\n" + decl + "fn one() -> int32 { 1 }\n")
        open(bp + "/main.gom", "w").write("package Main\nimport Lib\n\nfn main() {\n    let _ = string_println(int32_to_string(Lib::one()));\n    ()\n}\n")
        a = gv("compile", [{"id": "w", "path": bp + "/main.gom"}])[0]
        sep_ok, why = True, ""
        for q, sp in (("Lib", bp + "/Lib/lib.gom"), ("Main", bp + "/main.gom")):
            ok, err, pan = cli(["build", "--package", q, "--input", sp, "--interface-path", f"{bp}/out", "--output", f"{bp}/out/{q}"])
            steps += 1
            if pan:
                rep.violation(f"panic:build:exports:{bn}", {"package": q, "stderr": err})
            if not ok:
                sep_ok, why = False, f"build {q}: {err}"
                break
        if sep_ok:
            ok, err, pan = cli(["link", "--input", f"{bp}/out/Lib.core", f"{bp}/out/Main.core", "--output", f"{bp}/out/linked.go"])
            steps += 1
            if pan:
                rep.violation(f"panic:link:exports:{bn}", {"stderr": err})
            if not ok:
                sep_ok, why = False, "link: " + err
        exported += 1
        if (a["verdict"] == "ok") != sep_ok:
            rep.violation(f"accepted-one-way-only:exports:{bn}", {"whole_program": a["verdict"], "whole_diagnostics": [d["msg"] for d in a.get("diags", [])][:2], "separate": "ok" if sep_ok else why})
    rep.coverage["unusual_exports_compared"] = exported
    # ---- histories: Lib and Main are built; Lib is edited in a way that changes what Main was compiled against WITHOUT changing any
    # name or type (same-typed fields swapped, variants reordered, same-typed parameters swapped) or with it (field retyped); only Lib
    # is rebuilt; everything is linked.  Either link refuses, or what it links behaves like the whole-program compilation of the
    # sources as they are now.
    lib0 = ("package Lib\n\nstruct Acct { id: int32, balance: int32, tag: string }\nenum Kind { Small, Big(int32), Huge(int32) }\n"
            "fn open(i: int32, b: int32) -> Acct { Acct { id: i, balance: b, tag: \"t\" } }\nfn kind(b: int32) -> Kind { if b > 50 { Kind::Big(b) } else { Kind::Small } }\n"
            "fn sub(a: int32, b: int32) -> int32 { a - b }\n")
    main0 = ("package Main\nimport Lib\n\nfn show(k: Lib::Kind) -> string { match k { Lib::Kind::Small => \"small\", Lib::Kind::Big(n) => \"big \" + int32_to_string(n), Lib::Kind::Huge(n) => \"huge \" + int32_to_string(n) } }\n"
             "fn main() {\n    let a = Lib::open(7, 100);\n    let _ = string_println(int32_to_string(a.balance) + \" \" + int32_to_string(a.id) + \" \" + show(Lib::kind(a.balance)) + \" \" + show(Lib::Kind::Huge(3)) + \" \" + int32_to_string(Lib::sub(9, 2)));\n"
             "    let b = Lib::Acct { id: 1, balance: 2, tag: \"u\" };\n    let _ = string_println(int32_to_string(b.id) + b.tag);\n    ()\n}\n")
    hedits = {"same-typed-fields-swapped": lib0.replace("id: int32, balance: int32, tag: string", "balance: int32, id: int32, tag: string"),
              "fields-rotated": lib0.replace("id: int32, balance: int32, tag: string", "tag: string, id: int32, balance: int32"),
              "variants-reordered": lib0.replace("Small, Big(int32), Huge(int32)", "Huge(int32), Small, Big(int32)"),
              "same-typed-parameters-swapped": lib0.replace("fn sub(a: int32, b: int32) -> int32 { a - b }", "fn sub(b: int32, a: int32) -> int32 { a - b }"),
              "function-body-only": lib0.replace("{ a - b }", "{ a - b + 0 }"),
              "unused-function-added": lib0 + "fn extra() -> int32 { 1 }\n"}
    stale_links = stale_refused = 0
    for hn, newlib in hedits.items():
        for rebuilt in (("Lib",), ("Lib", "Main")):
            hp = os.path.join(root, f"hist-{hn}-{len(rebuilt)}")
            os.makedirs(hp + "/Lib"); os.makedirs(hp + "/out")
            open(hp + "/Lib/lib.gom", "w").write(lib0); open(hp + "/main.gom", "w").write(main0)
            src_of = {"Lib": hp + "/Lib/lib.gom", "Main": hp + "/main.gom"}
            for q in ("Lib", "Main"):
                ok, err, pan = cli(["build", "--package", q, "--input", src_of[q], "--interface-path", f"{hp}/out", "--output", f"{hp}/out/{q}"])
                if not ok:
                    raise ToolError(f"history family: initial build of {q} failed: {err}")
            open(hp + "/Lib/lib.gom", "w").write(newlib)
            okb = True
            for q in rebuilt:
                ok, err, pan = cli(["build", "--package", q, "--input", src_of[q], "--interface-path", f"{hp}/out", "--output", f"{hp}/out/{q}"])
                steps += 1
                if pan:
                    rep.violation(f"panic:build:history:{hn}", {"package": q, "stderr": err})
                okb = okb and ok
            if not okb:
                continue
            ok, err, pan = cli(["link", "--input", f"{hp}/out/Lib.core", f"{hp}/out/Main.core", "--output", f"{hp}/out/linked.go"])
            steps += 1
            if pan:
                rep.violation(f"panic:link:history:{hn}", {"rebuilt": list(rebuilt), "stderr": err}); continue
            if not ok:
                stale_refused += 1
                if len(rebuilt) == 2:
                    rep.violation(f"link-verdict:history:{hn}:everything-rebuilt:expected-ok", {"stderr": err})
                continue
            stale_links += 1
            a = gv("compile", [{"id": "w", "path": hp + "/main.gom"}])[0]
            if a["verdict"] != "ok":
                rep.violation(f"whole-program-rejects-what-separate-accepts:history:{hn}", {"verdict": a["verdict"], "diags": [d["msg"] for d in a.get("diags", [])][:3]}); continue
            shape_ = f"history-{hn}-rebuilt-{'+'.join(rebuilt)}"
            for nm, text in ((f"whole:{shape_}:0", a["go"]), (f"linked:900:{shape_}:0:{hn}", open(f"{hp}/out/linked.go").read())):
                rec, e = gopipe.go_record(nm, text)
                if e:
                    rep.violation(f"go-syntax:history:{hn}", {"error": e})
                else:
                    go_recs.append(rec)
    rep.coverage["histories_linked"] = stale_links
    rep.coverage["histories_refused_by_link"] = stale_refused
    # ---- GoStatic + GoSem over all Go texts; linked outcome must equal the whole-program outcome of the same (shape, flavour)
    static, st1 = gopipe.run_sharded("GoStatic", "GoStatic.cfg", go_recs, name="c14-static")
    sem_recs = [dict(rc, ast=gohoist.hoist(rc["ast"])) for rc in go_recs]
    sem, st2 = gopipe.run_sharded("GoSem", "GoSem.cfg", sem_recs, extra_env={"MAXSTEPS": 40000}, name="c14-sem")
    compared = 0
    for name, res in sem.items():
        s = static[name]
        errs = [e for e in s["errs"] if not any(e["why"].startswith(u) for u in engine.STATIC_UNSUPPORTED)]
        kind = name.split(":")[0]
        if errs:
            rep.violation(f"{kind}-go-invalid:{name.split(':')[2] if kind == 'linked' else name.split(':')[1]}:{errs[0]['why'][:40]}", {"program": name, "error": errs[0]})
            continue
        if kind != "linked":
            continue
        _, oi, shape, flavour, ident = name.split(":", 4)
        w = sem.get(f"whole:{shape}:{flavour}")
        if w is None or res["status"] in ("unsupported", "inconclusive") or w["status"] in ("unsupported", "inconclusive"):
            continue
        compared += 1
        if (res["status"], res["out"]) != (w["status"], w["out"]):
            rep.violation(f"separate-differs-from-whole:{shape}:flavour{flavour}", {"order": ident, "separate": bytes(res["out"]).decode("utf-8", "replace")[:500], "separate_status": res["status"],
                                                                                  "whole": bytes(w["out"]).decode("utf-8", "replace")[:500], "whole_status": w["status"]})
    for o in orders[:2]:
        rep.sample({"shape": o["shape"], "order": o["order"], "expected_build_verdicts": o["log"], "linkable": o["linkable"]})
    rep.coverage.update({"states": r.distinct + st1["states"] + st2["states"], "transitions": r.generated + st1["transitions"] + st2["transitions"],
                         "traces_validated_against_impl": len(orders), "cli_steps": steps, "successful_links": links, "linked_vs_whole_compared": compared,
                         "action_coverage": r.coverage, "exhaustive": tier == "thorough"})
    rep.assumptions += ["four DAG shapes over four packages; all 24 build orders each (thorough) or 4 per shape (quick); three content flavours"]
    if compared < 4:
        raise ToolError("vacuity: fewer than 4 linked programs compared with their whole-program compilation")
    if not rep.violations and (stale_links < 6 or stale_refused < 3):
        raise ToolError(f"vacuity: history family linked {stale_links}, refused {stale_refused}")
