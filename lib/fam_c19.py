"""C19 family: alpha-renaming.  One base program exercising functions, parameters, locals, a struct with fields, an enum with
variants, a trait with a method, an inherent method, a closure, a generic function, refs, vecs and arrays; every user
identifier kind is renamed, one at a time, to each hostile name (Go keywords that goml accepts as identifiers, predeclared
Go identifiers, runtime helper names, compiler temporaries, helper type names).  Behaviour and Go validity must not change."""
from gast import *

GOML_KEYWORDS = {"fn", "let", "if", "else", "match", "while", "struct", "enum", "trait", "impl", "for", "package", "import", "extern", "go",
                 "true", "false", "return", "dyn", "Self", "self", "in", "as"}
GO_KEYWORDS = ["break", "default", "func", "interface", "select", "case", "defer", "map", "chan", "goto", "switch", "const", "fallthrough",
               "range", "type", "continue", "var"]
PREDECLARED = ["len", "append", "cap", "copy", "new", "make", "panic", "print", "println", "string", "int", "int32", "bool", "byte", "error", "any", "nil", "iota"]
RUNTIME = ["fmt", "main0", "init", "missing", "os", "strconv", "domain", "my_main", "main1"]    # Go-level helper names that are not goml builtins (those would clash at the goml level)
TEMPS = ["t0", "t5", "ret3", "mtmp0", "x1", "env3", "a__1"]
TYPEISH = ["Tuple2_int32_bool", "closure_env_adder_0", "dyn__Show", "ref_int32_x", "ref__Ref_int32", "ref_get__Ref_int32", "array_get__Array_3_int32",
           "describe__T_int32", "ident__T_string", "int", "uint", "rune", "MyTParamBox", "TParam_T"]
# names shaped like the runtime helpers the compiler generates (int32_to_string, bool_to_json, ...): a user entity may carry them
HELPERISH = ["audit_to_string", "emit_to_json", "to_string", "to_json"]
HOSTILE = GO_KEYWORDS + PREDECLARED + RUNTIME + TEMPS + TYPEISH + HELPERISH

BASE = {"fn": "helper", "param": "count", "local": "total", "struct": "Point", "field": "xs", "enum": "Shape", "variant": "Circle",
        "trait": "Show", "method": "show", "inherent": "norm", "closure": "adder", "generic": "ident", "field2": "ys", "variant2": "Square", "local2": "acc",
        "effectfn": "record", "effmethod": "touch"}


def base_program(name, N):
    p = Program(name)
    St = TAdt(N["struct"])
    En = TAdt(N["enum"])
    p.struct(N["struct"], [(N["field"], INT32), (N["field2"], INT32)])
    p.enum(N["enum"], [(N["variant"], [INT32]), (N["variant2"], [INT32, INT32])])
    p.trait(N["trait"], [(N["method"], [], STRING)])
    p.impl(N["trait"], St, [(N["method"], [("self", St)], STRING, Bin("+", Str("P"), show_int(Field(Var("self"), N["field"]))))])
    p.impl(N["trait"], INT32, [(N["method"], [("self", INT32)], STRING, Bin("+", Str("i"), show_int(Var("self"))))])
    p.impl(None, St, [(N["inherent"], [("self", St), ("k", INT32)], INT32, Bin("+", Bin("*", Field(Var("self"), N["field"]), Var("k")), Field(Var("self"), N["field2"])))])
    # a function and an inherent method that are called only for their effect (their results are discarded)
    p.fn(N["effectfn"], [("k", INT32)], INT32, Block([println(Bin("+", Str("rec"), show_int(Var("k"))))], Var("k")))
    p.impl(None, St, [(N["effmethod"], [("self", St)], INT32, Block([println(Bin("+", Str("touch"), show_int(Field(Var("self"), N["field2"]))))], Int(0)))])
    p.fn(N["generic"], [("v", TParam("T"))], TParam("T"), Var("v"), gens=["T"])
    p.fn("describe", [("v", TParam("T"))], STRING, TCall(N["trait"], N["method"], Var("v")), gens=[("T", [N["trait"]])])
    p.fn("area", [("s", En)], INT32, Match(Var("s"), [(PCtor(N["variant"], PVar("r")), Bin("*", Var("r"), Var("r"))), (PCtor(N["variant2"], PVar("w"), PVar("h")), Bin("*", Var("w"), Var("h")))]))
    pa, lo, lo2 = N["param"], N["local"], N["local2"]
    p.fn(N["fn"], [(pa, INT32)], INT32, Block([
        Let(lo, Bin("+", Var(pa), Int(1))),
        Let(lo2, Call("ref", Int(0))),
        Do(Call("ref_set", Var(lo2), Bin("+", Call("ref_get", Var(lo2)), Var(lo)))),
        Let("vv", Call("vec_push", Call("vec_push", Call("vec_new", targs=[INT32]), Var(lo)), Var(pa)), ty=TVec(INT32)),
        Let("ar", Array(Var(lo), Var(pa), Int(3))),
    ], Bin("+", Bin("+", Call("ref_get", Var(lo2)), Call("vec_len", Var("vv"))), Call("array_get", Var("ar"), Int(1)))))
    inh = Call(f"inherent#{N['struct']}#{N['inherent']}", Var("pt"), Int(3)); inh["form"] = "method"
    touch = Call(f"inherent#{N['struct']}#{N['effmethod']}", Var("pt")); touch["form"] = "method"
    p.fn("main", [], UNIT, Block([
        Let("pt", Struct(St, [(N["field"], Int(4)), (N["field2"], Int(5))]), ty=St),
        Let(N["closure"], Lam([("d", INT32)], Bin("+", Var("d"), Field(Var("pt"), N["field"])))),
        println(show_int(Call(N["fn"], Int(7)))),
        println(show_int(inh)),
        println(TCall(N["trait"], N["method"], Var("pt"))),
        println(Call("describe", Int(9), targs=[INT32])),
        println(Call("describe", Var("pt"), targs=[St])),
        println(show_int(Call("area", Ctor(En, N["variant"], Int(3))))),
        println(show_int(Call("area", Ctor(En, N["variant2"], Int(3), Int(4))))),
        println(show_int(CallV(Var(N["closure"]), Int(10)))),
        println(show_int(Call(N["generic"], Int(11), targs=[INT32]))),
        println(Call(N["generic"], Str("s"), targs=[STRING])),
        # the trait method through a dyn value; discarded calls of the effectful function and method
        Let("dd", ToDyn(N["trait"], Var("pt")), ty=TDyn(N["trait"])),
        println(TCall(N["trait"], N["method"], Var("dd"))),
        Do(Call(N["effectfn"], Int(1))),
        Stmt(Call(N["effectfn"], Int(2))),
        Do(touch),
    ], Unit))
    return p


KINDS = ["fn", "param", "local", "local2", "struct", "field", "enum", "variant", "trait", "method", "inherent", "closure", "generic", "effectfn", "effmethod"]


def programs(tier):
    out = [{"prog": base_program("c19_base", dict(BASE)), "family": "c19", "ident": "c19:base", "expect": "accept"}]
    hostile = HOSTILE if tier == "thorough" else HOSTILE[::2] + TYPEISH + HELPERISH + ["len", "new", "main", "init"]
    for kind in KINDS:
        for h in hostile:
            if h in GOML_KEYWORDS:
                continue
            N = dict(BASE)
            N[kind] = h
            # goml itself may refuse the identifier (type names are keywords); only accepted programs are compared
            out.append({"prog": base_program(f"c19_{kind}_{h}", N), "family": "c19", "ident": f"c19:rename:{kind}={h}"})
    # two closures bound to the same name in different functions, and in a generic function instantiated twice
    p = Program("c19_same_closure_name")
    p.fn("scale", [("k", INT32)], INT32, Block([Let("f", Lam([("x", INT32)], Bin("*", Var("x"), Var("k"))))], CallV(Var("f"), Int(4))))
    p.fn("shift", [("d", INT32)], INT32, Block([Let("f", Lam([("x", INT32)], Bin("+", Var("x"), Var("d"))))], CallV(Var("f"), Int(4))))
    p.fn("twice", [("v", TParam("T")), ("n", INT32)], INT32, Block([Let("f", Lam([("x", INT32)], Bin("+", Var("x"), Var("n"))))], CallV(Var("f"), CallV(Var("f"), Int(1)))), gens=["T"])
    p.fn("main", [], UNIT, Block([println(show_int(Call("scale", Int(10)))), println(show_int(Call("shift", Int(3)))),
                                  println(show_int(Call("twice", Int(0), Int(2), targs=[INT32]))), println(show_int(Call("twice", Str("a"), Int(5), targs=[STRING])))], Unit))
    out.append({"prog": p, "family": "c19", "ident": "c19:same-closure-name-in-two-functions", "expect": "accept"})
    # distinct types whose helper names could coincide
    p = Program("c19_tuple_helpers")
    A, B = TTuple(INT32, TTuple(BOOL, BOOL)), TTuple(TTuple(INT32, BOOL), BOOL)
    p.struct("Tuple2_int32_bool", [("q", INT32)])
    p.fn("fa", [("t", A)], INT32, Proj(Var("t"), 0))
    p.fn("fb", [("t", B)], BOOL, Proj(Var("t"), 1))
    p.fn("fc", [("t", TTuple(INT32, BOOL))], INT32, Proj(Var("t"), 0))
    p.fn("main", [], UNIT, Block([Let("a", Tuple(Int(1), Tuple(Bool(True), Bool(False))), ty=A), Let("b", Tuple(Tuple(Int(2), Bool(True)), Bool(False)), ty=B),
                                  Let("c", Tuple(Int(3), Bool(True)), ty=TTuple(INT32, BOOL)), Let("s", Struct(TAdt("Tuple2_int32_bool"), [("q", Int(9))])),
                                  println(show_int(Call("fa", Var("a")))), println(Call("bool_to_string", Call("fb", Var("b")))), println(show_int(Call("fc", Var("c")))),
                                  println(show_int(Field(Var("s"), "q")))], Unit))
    out.append({"prog": p, "family": "c19", "ident": "c19:user-struct-named-like-tuple-helper", "expect": "accept"})
    # ---- two distinct types in one program that differ in ONE aspect only: each gets its own helper type / name in the Go text
    A2, A3 = TArray(2, INT32), TArray(3, INT32)
    arr2, arr3 = Array(Int(1), Int(2)), Array(Int(1), Int(2), Int(3))
    pairs = {
        "array-length-inside-tuple": (TTuple(INT32, A2), Tuple(Int(5), arr2), lambda t: Bin("+", Proj(t, 0), Call("array_get", Proj(t, 1), Int(1))),
                                      TTuple(INT32, A3), Tuple(Int(6), arr3), lambda t: Bin("+", Proj(t, 0), Call("array_get", Proj(t, 1), Int(2)))),
        "array-length-inside-ref": (TRef(A2), Call("ref", arr2), lambda t: Call("array_get", Call("ref_get", t), Int(1)),
                                    TRef(A3), Call("ref", arr3), lambda t: Call("array_get", Call("ref_get", t), Int(2))),
        "array-length-inside-nested-tuple": (TTuple(TTuple(BOOL, A2), INT32), Tuple(Tuple(Bool(True), arr2), Int(7)), lambda t: Block([Let("inner", Proj(t, 0), ty=TTuple(BOOL, A2))], Bin("+", Proj(t, 1), Call("array_get", Proj(Var("inner"), 1), Int(0)))),
                                             TTuple(TTuple(BOOL, A3), INT32), Tuple(Tuple(Bool(True), arr3), Int(8)), lambda t: Block([Let("inner", Proj(t, 0), ty=TTuple(BOOL, A3))], Bin("+", Proj(t, 1), Call("array_get", Proj(Var("inner"), 1), Int(2))))),
        "array-nesting-order": (TArray(2, A3), Array(arr3, arr3), lambda t: Call("array_get", Call("array_get", t, Int(1)), Int(2)),
                                TArray(3, A2), Array(arr2, arr2, arr2), lambda t: Call("array_get", Call("array_get", t, Int(2)), Int(1))),
        "tuple-element-order": (TTuple(INT32, BOOL), Tuple(Int(9), Bool(True)), lambda t: Proj(t, 0),
                                TTuple(BOOL, INT32), Tuple(Bool(False), Int(10)), lambda t: Proj(t, 1)),
        "ref-of-tuple-vs-tuple-of-ref": (TRef(TTuple(INT32, INT32)), Call("ref", Tuple(Int(11), Int(12))), lambda t: Block([Let("g", Call("ref_get", t), ty=TTuple(INT32, INT32))], Proj(Var("g"), 1)),
                                         TTuple(TRef(INT32), INT32), Tuple(Call("ref", Int(13)), Int(14)), lambda t: Bin("+", Call("ref_get", Proj(t, 0)), Proj(t, 1))),
    }
    # the same four leaves grouped differently: ((a, b), c, d) and ((a, b, c), d) flatten alike - under Ref / Vec / array, whose helper
    # names are built from the element type
    G1, G2 = TTuple(TTuple(INT32, INT32), INT32, INT32), TTuple(TTuple(INT32, INT32, INT32), INT32)
    g1, g2 = Tuple(Tuple(Int(1), Int(2)), Int(3), Int(4)), Tuple(Tuple(Int(5), Int(6), Int(7)), Int(8))
    pairs["tuple-grouping-inside-ref"] = (TRef(G1), Call("ref", g1), lambda t: Block([Let("g", Call("ref_get", t), ty=G1)], Proj(Var("g"), 2)),
                                          TRef(G2), Call("ref", g2), lambda t: Block([Let("g", Call("ref_get", t), ty=G2)], Proj(Var("g"), 1)))
    pairs["tuple-grouping-inside-array"] = (TArray(2, G1), Array(g1, g1), lambda t: Block([Let("g", Call("array_get", t, Int(1)), ty=G1)], Proj(Var("g"), 1)),
                                            TArray(2, G2), Array(g2, g2), lambda t: Block([Let("g", Call("array_get", t, Int(0)), ty=G2)], Proj(Var("g"), 1)))
    pairs["tuple-grouping-inside-ref-of-ref"] = (TRef(TRef(G1)), Call("ref", Call("ref", g1)), lambda t: Block([Let("g", Call("ref_get", Call("ref_get", t)), ty=G1)], Proj(Var("g"), 2)),
                                                 TRef(TRef(G2)), Call("ref", Call("ref", g2)), lambda t: Block([Let("g", Call("ref_get", Call("ref_get", t)), ty=G2)], Proj(Var("g"), 1)))
    for aspect, (TA, va, ua, TB, vb, ub) in pairs.items():
        p = Program("c19_differ_" + aspect.replace("-", "_"))
        p.fn("fa", [("t", TA)], INT32, ua(Var("t")))
        p.fn("fb", [("t", TB)], INT32, ub(Var("t")))
        p.fn("ma", [], TA, va)
        p.fn("mb", [], TB, vb)
        p.fn("main", [], UNIT, Block([println(show_int(Call("fa", Call("ma")))), println(show_int(Call("fb", Call("mb"))))], Unit))
        out.append({"prog": p, "family": "c19", "ident": f"c19:types-differ-only-in:{aspect}", "expect": "accept"})
    # ---- instances at two types that agree on their outer d levels and differ only below: every instance gets its own name however
    # deep the difference sits (wrappers: a generic struct, Vec, Ref, one-element tuples are not writable - pairs)
    from gast import TextProgram as _TP
    def nest(w, inner, d):
        t = inner
        for _ in range(d):
            t = {"box": f"Box[{t}]", "vec": f"Vec[{t}]", "ref": f"Ref[{t}]", "pair": f"({t}, bool)"}[w]
        return t
    def wrapv(w, inner, d):
        e = inner
        for _ in range(d):
            e = {"box": f"Box {{ v: {e} }}", "vec": f"vec_push(vec_new(), {e})", "ref": f"ref({e})", "pair": f"({e}, true)"}[w]
        return e
    def unwrap(w, x, d, ty_of):
        # let-chain with annotations (projections / builtin results on unannotated values are an inference limitation, not the subject)
        L, cur = [], x
        for k in range(d, 0, -1):
            nxt = f"u{k}"
            rhs = {"box": f"{cur}.v", "vec": f"vec_get({cur}, 0)", "ref": f"ref_get({cur})", "pair": f"{cur}.0"}[w]
            L.append(f"    let {nxt}: {ty_of(k - 1)} = {rhs};")
            cur = nxt
        return L, cur
    for w in ("box", "vec", "ref", "pair"):
        for d in ((2, 9, 11) if tier == "quick" else (1, 2, 4, 7, 8, 9, 10, 11, 13)):
            ti, ts = nest(w, "int32", d), nest(w, "string", d)
            li, xi = unwrap(w, "x", d, lambda k: nest(w, "int32", k))
            ls, xs = unwrap(w, "x", d, lambda k: nest(w, "string", k))
            text = ("struct Box[T] { v: T }\nfn idg[T](x: T) -> T { x }\nfn count[T](x: T, n: int32) -> int32 { n + 1 }\n"
                    f"fn mi() -> {ti} {{ {wrapv(w, '41', d)} }}\nfn ms() -> {ts} {{ {wrapv(w, chr(34) + 'deep' + chr(34), d)} }}\n"
                    f"fn ui(x: {ti}) -> int32 {{\n" + "\n".join(li) + f"\n    {xi}\n}}\nfn us(x: {ts}) -> string {{\n" + "\n".join(ls) + f"\n    {xs}\n}}\n"
                    "fn main() -> unit {\n    let a = idg(mi());\n    let b = idg(ms());\n"
                    "    let _ = string_println(int32_to_string(ui(a)) + us(b) + int32_to_string(count(mi(), 1)) + int32_to_string(count(ms(), 5)));\n    ()\n}\n")
            out.append({"prog": _TP(f"c19_deep_{w}_{d}", text, ["41deep26"]), "family": "c19", "ident": f"c19:instances-differ-only-below-depth:{w}:{d}", "expect": "accept"})
    # ---- the same name declared in TWO packages (each kind of entity): both must stay distinct in the one Go file they end up in
    lib = ("package Lib\n\nenum Color { Red, Green(int32) }\nstruct Item { v: int32 }\ntrait Show { fn show(Self) -> string; }\n"
           "impl Show for Item { fn show(self: Item) -> string { \"lib-item \" + int32_to_string(self.v) } }\nimpl Show for int32 { fn show(self: int32) -> string { \"lib-int\" } }\n"
           "fn pick(n: int32) -> Color { if n > 0 { Green(n) } else { Red } }\nfn name(c: Color) -> string { match c { Red => \"lib-red\", Green(n) => \"lib-green \" + int32_to_string(n) } }\n"
           "fn helper(x: int32) -> int32 { x + 100 }\nfn mk(v: int32) -> Item { Item { v: v } }\nfn wrap[T](x: T) -> Opt[T] { Opt::Som(x) }\nenum Opt[T] { Non, Som(T) }\n"
           "fn lshow(i: Item) -> string { Show::show(i) }\n")
    head = "package Main\nimport Lib\n\n"
    cross = {
        "variant": ("enum Light { Red, Off }\nfn show(l: Light) -> string { match l { Red => \"main-red\", Off => \"off\" } }\n",
                    "    let _ = string_println(show(Red) + show(Off) + Lib::name(Lib::pick(0)) + Lib::name(Lib::Color::Green(2)));\n", ["main-redofflib-redlib-green 2"]),
        "variant-with-payload": ("enum Light { Green(string), Off }\nfn show(l: Light) -> string { match l { Green(s) => \"main-green \" + s, Off => \"off\" } }\n",
                                 "    let _ = string_println(show(Green(\"g\")) + Lib::name(Lib::pick(3)));\n", ["main-green glib-green 3"]),
        "enum-type": ("enum Color { Blue, Red }\nfn show(c: Color) -> string { match c { Blue => \"main-blue\", Red => \"main-red\" } }\n",
                      "    let _ = string_println(show(Blue) + show(Red) + Lib::name(Lib::pick(0)));\n", ["main-bluemain-redlib-red"]),
        "struct-type": ("struct Item { v: string }\nfn show(i: Item) -> string { \"main-item \" + i.v }\n",
                        "    let _ = string_println(show(Item { v: \"s\" }) + Lib::lshow(Lib::mk(4)));\n", ["main-item slib-item 4"]),
        "function": ("fn helper(x: int32) -> int32 { x + 1 }\nfn name(x: int32) -> string { \"main-name\" }\n",
                     "    let _ = string_println(int32_to_string(helper(1)) + int32_to_string(Lib::helper(1)) + name(0) + Lib::name(Lib::pick(0)));\n", ["2101main-namelib-red"]),
        "trait-and-method": ("trait Show { fn show(Self) -> string; }\nimpl Show for int32 { fn show(self: int32) -> string { \"main-int\" } }\nimpl Show for bool { fn show(self: bool) -> string { \"main-bool\" } }\n",
                             "    let _ = string_println(Show::show(1) + Show::show(true) + Lib::Show::show(1) + Lib::lshow(Lib::mk(5)));\n", ["main-intmain-boollib-intlib-item 5"]),
        "generic-enum-at-both-packages-types": ("struct Item { v: string }\nfn unwrap_i(o: Lib::Opt[Item]) -> string { match o { Lib::Opt::Som(i) => i.v, Lib::Opt::Non => \"none\" } }\n"
                                                "fn unwrap_l(o: Lib::Opt[Lib::Item]) -> int32 { match o { Lib::Opt::Som(i) => i.v, Lib::Opt::Non => 0 } }\n",
                                                "    let _ = string_println(unwrap_i(Lib::wrap(Item { v: \"m\" })) + int32_to_string(unwrap_l(Lib::wrap(Lib::mk(6)))) + unwrap_i(Lib::Opt::Non));\n", ["m6none"]),
    }
    from gast import TextProgram
    for kind, (decls_, stmt, lines) in cross.items():
        text = head + decls_ + "fn main() -> unit {\n" + stmt + "    ()\n}\n"
        out.append({"prog": TextProgram("c19_cross_" + kind.replace("-", "_"), text, lines), "family": "c19", "ident": f"c19:same-name-in-two-packages:{kind}", "expect": "accept",
                    "extra_files": {"Lib/lib.gom": lib}})
    # ---- two user names that differ only in characters a sanitiser could drop, merge or fold (trailing / doubled underscore, an
    # underscore before a digit, letter case), used side by side as every kind of entity: both keep their own Go identity
    near = [("total", "total_"), ("a_b", "a__b"), ("x1", "x_1"), ("ab", "aB")]
    ctxs = {
        "captured-by-one-closure": ("", "    let {A} = 1;\n    let {B} = 20;\n    let f = |z: int32| z + {A} * 100 + {B};\n    let r = f(3);\n", "123"),
        "captured-by-nested-closures": ("", "    let {A} = 1;\n    let f = |z: int32| {{ let {B} = 20; let g = |y: int32| y + {A} * 100 + {B}; g(z) }};\n    let r = f(3);\n", "123"),
        "fields": ("struct P {{ {A}: int32, {B}: int32 }}\n", "    let p = P {{ {A}: 1, {B}: 20 }};\n    let r = p.{A} * 100 + p.{B};\n", "120"),
        "locals": ("", "    let {A} = 1;\n    let {B} = 20;\n    let r = {A} * 100 + {B};\n", "120"),
        "functions": ("fn {A}() -> int32 {{ 1 }}\nfn {B}() -> int32 {{ 20 }}\n", "    let r = {A}() * 100 + {B}();\n", "120"),
        "parameters": ("fn g({A}: int32, {B}: int32) -> int32 {{ {A} * 100 + {B} }}\n", "    let r = g(1, 20);\n", "120"),
        "methods": ("struct P {{ v: int32 }}\nimpl P {{\n    fn {A}(self: P) -> int32 {{ self.v }}\n    fn {B}(self: P) -> int32 {{ self.v * 20 }}\n}}\n", "    let p = P {{ v: 1 }};\n    let r = p.{A}() * 100 + p.{B}();\n", "120"),
    }
    for a, b in near:
        for cname, (decl_, body, val) in ctxs.items():
            text = decl_.format(A=a, B=b) + "fn main() -> unit {\n" + body.format(A=a, B=b) + "    let _ = string_println(int32_to_string(r));\n    ()\n}\n"
            out.append({"prog": TextProgram(f"c19_near_{a}_{b}_{cname}".replace("-", "_"), text, [val]), "family": "c19", "ident": f"c19:near-names:{a}+{b}:{cname}", "expect": "accept"})
    # ---- user names that contain the character the compiler's internal separator `#` is mapped to: `inherent#A#A_A_b` and
    # `inherent#A_A#b`, `trait_impl#A#B_C#m` and `trait_impl#A_B#C#m` must stay two Go functions (OPEN finding: go_ident maps `#` and `_` alike)
    seps = {
        "inherent-methods": ("struct A { v: int32 }\nstruct A_A { w: int32 }\nimpl A { fn A_A_b(self: A) -> int32 { self.v } }\nimpl A_A { fn b(self: A_A) -> int32 { self.w } }\n",
                             "A { v: 1 }.A_A_b() + A_A { w: 2 }.b()", "3"),
        "trait-impls": ("trait A { fn m(Self) -> int32; }\ntrait A_B { fn m(Self) -> int32; }\nstruct B_C { v: int32 }\nstruct C { w: int32 }\n"
                        "impl A for B_C { fn m(self: B_C) -> int32 { self.v } }\nimpl A_B for C { fn m(self: C) -> int32 { self.w } }\n",
                        "A::m(B_C { v: 1 }) + A_B::m(C { w: 2 })", "3"),
    }
    for name, (decl_, expr, val) in seps.items():
        text = decl_ + f"fn main() -> unit {{\n    let r: int32 = {expr};\n    let _ = string_println(int32_to_string(r));\n    ()\n}}\n"
        out.append({"prog": TextProgram("c19_separator_" + name.replace("-", "_"), text, [val]), "family": "c19", "ident": f"c19:separator-in-user-names:{name}", "expect": "accept"})
    # ---- a function called `main` in an imported package is an ordinary function (only the root package's `main` is the entry)
    out.append({"prog": TextProgram("c19_library_function_main", "package Main\nimport Lib\n\nfn main() -> unit {\n    let _ = string_println(int32_to_string(Lib::main() + Lib::twice()));\n    ()\n}\n", ["123"]),
                "family": "c19", "ident": "c19:library-function-named-main", "expect": "accept",
                "extra_files": {"Lib/lib.gom": "package Lib\n\nfn main() -> int32 { 41 }\nfn twice() -> int32 { main() + main() }\n"}})
    # ---- a variant spelled like its own enum, like another enum, like a struct: the variant's Go struct and the type are two things
    # (a struct named like a variant cannot be built - `Green { .. }` is read as the constructor and refused - but it can be declared and
    # named in signatures, which is enough for both Go types to be emitted)
    vt = {"its-own-enum": ("enum Foo { Foo, Bar(int32) }\nfn sh(f: Foo) -> int32 { match f { Foo::Foo => 1, Foo::Bar(n) => n } }\n", "sh(Foo::Foo) + sh(Foo::Bar(5))", "6"),
          "another-enum": ("enum Color { Red, Shade(int32) }\nenum Shade { Dark, Light }\nfn sh(c: Color) -> int32 { match c { Color::Red => 1, Color::Shade(n) => n } }\nfn sd(s: Shade) -> int32 { match s { Shade::Dark => 10, Shade::Light => 20 } }\n",
                           "sh(Color::Shade(5)) + sd(Shade::Light) + sh(Color::Red)", "26"),
          "a-struct": ("enum Color { Red, Green }\nstruct Green { x: int32 }\nfn gx(g: Green) -> int32 { g.x }\nfn sh(c: Color) -> int32 { match c { Color::Red => 1, Color::Green => 2 } }\n",
                       "sh(Color::Green) + sh(Color::Red) + 40", "43"),
          "a-struct-with-payload": ("enum Shape { Dot, Box(int32) }\nstruct Box { w: int32 }\nfn bw(b: Box) -> int32 { b.w }\nfn sh(s: Shape) -> int32 { match s { Shape::Dot => 1, Shape::Box(n) => n } }\n",
                                    "sh(Shape::Box(2)) + sh(Shape::Dot) + 40", "43")}
    for name, (decls_, expr, val) in vt.items():
        text = decls_ + f"fn main() -> unit {{\n    let _ = string_println(int32_to_string({expr}));\n    ()\n}}\n"
        out.append({"prog": TextProgram("c19_variant_named_like_" + name.replace("-", "_"), text, [val]), "family": "c19", "ident": f"c19:variant-named-like:{name}", "expect": "accept"})
    # ---- the same names declared in two IMPORTED packages (neither is the root package): variants, enum / struct types, functions,
    # traits with their methods and impls for one builtin type, a generic enum instantiated at each package's struct
    def libtext(pk, tag):
        return lib.replace("package Lib", "package " + pk).replace("lib-", tag + "-")
    text = ("package Main\nimport LibA\nimport LibB\n\n"
            "fn ua(o: LibA::Opt[LibA::Item]) -> int32 { match o { LibA::Opt::Som(i) => i.v, LibA::Opt::Non => 0 } }\n"
            "fn ub(o: LibB::Opt[LibB::Item]) -> int32 { match o { LibB::Opt::Som(i) => i.v + 1000, LibB::Opt::Non => 0 } }\n"
            "fn main() -> unit {\n"
            "    let _ = string_println(LibA::name(LibA::pick(0)) + LibB::name(LibB::pick(0)) + LibA::name(LibA::Color::Green(2)) + LibB::name(LibB::pick(3)));\n"
            "    let _ = string_println(int32_to_string(LibA::helper(1)) + int32_to_string(LibB::helper(2)) + LibA::lshow(LibA::mk(4)) + LibB::lshow(LibB::mk(5)));\n"
            "    let _ = string_println(LibA::Show::show(1) + LibB::Show::show(1) + LibA::Show::show(LibA::mk(6)) + LibB::Show::show(LibB::mk(7)));\n"
            "    let _ = string_println(int32_to_string(ua(LibA::wrap(LibA::mk(8)))) + int32_to_string(ub(LibB::wrap(LibB::mk(9)))));\n"
            "    ()\n}\n")
    lines = ["a-redb-reda-green 2b-green 3", "101102a-item 4b-item 5", "a-intb-inta-item 6b-item 7", "81009"]
    out.append({"prog": TextProgram("c19_cross_two_imported", text, lines), "family": "c19", "ident": "c19:same-names-in-two-imported-packages", "expect": "accept",
                "extra_files": {"LibA/lib.gom": libtext("LibA", "a"), "LibB/lib.gom": libtext("LibB", "b")}})
    return out
