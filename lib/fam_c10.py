"""C10 family: literals, widths, wrap-around, comparison, printing."""
from gast import *

BITS = {"int8": (8, True), "int16": (16, True), "int32": (32, True), "int64": (64, True),
        "uint8": (8, False), "uint16": (16, False), "uint32": (32, False), "uint64": (64, False)}


def rng_of(ty):
    b, s = BITS[ty]
    return (-(1 << (b - 1)), (1 << (b - 1)) - 1) if s else (0, (1 << b) - 1)


def boundary(ty):
    lo, hi = rng_of(ty)
    vals = {0, 1, 2, 3, 7, hi, hi - 1, hi // 2, hi // 2 + 1, lo + 1 if lo < 0 else 5}
    if lo < 0:
        vals |= {-1, -2, -7, lo + 1, lo // 2}
    return sorted(v for v in vals if lo <= v <= hi)


def lit(v, ty):
    """a value of type ty that is never a Go constant expression problem: suffixed literal (negative ones via 0 - |v| helper call)"""
    return Int(v, ty, suffix=True)


def programs(tier):
    out = []

    def add(ident, prog, expect=None):
        out.append({"prog": prog, "family": "c10", "ident": "c10:" + ident, "expect": expect})

    # ---- literal acceptance and denotation
    for ty in BITS:
        lo, hi = rng_of(ty)
        cands = [("max", hi), ("max+1", hi + 1), ("zero", 0), ("one", 1)]
        if lo < 0:
            cands += [("min", lo), ("min-1", lo - 1), ("minus1", -1), ("min+1", lo + 1)]
        else:
            cands += [("minus1", -1)]
        for name, v in cands:
            inr = lo <= v <= hi
            for form in ("suffixed", "annotated", "inferred"):
                p = Program(f"c10_lit_{ty}_{name.replace('+', 'p').replace('-', 'm')}_{form}")
                if form == "suffixed":
                    e = Int(v, ty, suffix=True)
                    body = [Let("x", e)]
                elif form == "annotated":
                    body = [Let("x", Int(v, ty), ty=T(ty))]
                else:
                    body = [Let("x", Int(v, ty))]       # type inferred from the use below
                body.append(println(Call(ty + "_to_string", Var("x"))))
                p.fn("main", [], UNIT, Block(body, Unit))
                # unsuffixed literals are int32 in goml, so only the suffixed form (and every form at int32) must be accepted when in
                # range; `-N` is a negation applied to the literal N, so the minimum of a signed type cannot be written directly
                must = inr and (form == "suffixed" or ty == "int32") and name != "min" and not (v < 0 and not BITS[ty][1])
                add(f"literal:{name}:{ty}:{form}", p, expect="accept" if must else ("reject" if not inr and form == "suffixed" and v >= 0 else None))
        # leading zeros denote the decimal value
        p = Program(f"c10_lit_{ty}_leading0")
        z = Int(7, ty); z["ds"] = [0, 0, 7]
        p.fn("main", [], UNIT, Block([Let("x", z, ty=T(ty)), println(Call(ty + "_to_string", Var("x")))], Unit))
        add(f"literal:leading-zeros:{ty}", p, expect="accept" if ty == "int32" else None)
    # ---- arithmetic / comparison on boundary operands through functions (no constant folding)
    for ty in BITS:
        vals = boundary(ty)
        if tier == "quick":
            vals = vals[:3] + vals[-4:]
        p = Program(f"c10_arith_{ty}")
        TY = T(ty)
        for name, op in (("add", "+"), ("sub", "-"), ("mul", "*"), ("div", "/")):
            p.fn(name, [("a", TY), ("b", TY)], TY, Bin(op, Var("a"), Var("b")))
        for name, op in (("lt", "<"), ("le", "<="), ("gt", ">"), ("ge", ">="), ("eq", "=="), ("ne", "!=")):
            p.fn(name, [("a", TY), ("b", TY)], BOOL, Bin(op, Var("a"), Var("b")))
        if BITS[ty][1]:
            p.fn("neg", [("a", TY)], TY, Un("-", Var("a")))
        stmts = []
        for a in vals:
            if BITS[ty][1]:
                stmts.append(println(Call(ty + "_to_string", Call("neg", lit(a, ty)))))
            for b in vals:
                for name in ("add", "sub", "mul"):
                    stmts.append(println(Call(ty + "_to_string", Call(name, lit(a, ty), lit(b, ty)))))
                if b != 0:
                    stmts.append(println(Call(ty + "_to_string", Call("div", lit(a, ty), lit(b, ty)))))
                if (a + b) % 3 == 0:
                    for name in ("lt", "le", "gt", "ge", "eq", "ne"):
                        stmts.append(println(Call("bool_to_string", Call(name, lit(a, ty), lit(b, ty)))))
        p.fn("main", [], UNIT, Block(stmts, Unit))
        add(f"arith:{ty}", p, expect="accept")
        # division by zero fails at run time, after the effects before it
        p = Program(f"c10_div0_{ty}")
        p.fn("div", [("a", TY), ("b", TY)], TY, Bin("/", Var("a"), Var("b")))
        p.fn("main", [], UNIT, Block([println(Str("before")), println(Call(ty + "_to_string", Call("div", lit(7, ty), lit(0, ty)))), println(Str("after"))], Unit))
        add(f"div-by-zero:{ty}", p, expect="accept")
        # the same operators written directly on literals (the compiler emits them as Go constant expressions)
        lo, hi = rng_of(ty)
        for name, e in (("add-overflow", Bin("+", lit(hi, ty), lit(1, ty))), ("mul-overflow", Bin("*", lit(hi, ty), lit(2, ty))),
                        ("sub-underflow", Bin("-", lit(lo + 1 if lo < 0 else 0, ty), lit(2, ty))), ("add-inrange", Bin("+", lit(1, ty), lit(2, ty)))):
            p = Program(f"c10_fold_{ty}_{name.replace('-', '_')}")
            p.fn("main", [], UNIT, Block([println(Call(ty + "_to_string", e))], Unit))
            add(f"constfold:{name}:{ty}", p, expect="accept")
    # ---- literal patterns: suffixed literals in patterns denote their value; out-of-range ones are rejected, also when the
    # scrutinee's type is only known through inference (a call result)
    for ty in BITS:
        lo, hi = rng_of(ty)
        TY = T(ty)
        for name, v in (("max", hi), ("max+1", hi + 1), ("one", 1)):
            for scrut in ("param", "call"):
                p = Program(f"c10_pat_{ty}_{name.replace('+', 'p')}_{scrut}")
                p.fn("ident", [("x", TY)], TY, Var("x"))
                pat = PInt(v, ty); pat["suffix"] = True
                sc = Var("x") if scrut == "param" else Call("ident", Var("x"))
                p.fn("cls", [("x", TY)], STRING, Match(sc, [(pat, Str("hit")), (PInt(0, ty) if False else PWild, Str("other"))]))
                p.fn("main", [], UNIT, Block([println(Call("cls", lit(min(v, hi), ty))), println(Call("cls", lit(0, ty))), println(Call("cls", lit(hi, ty)))], Unit))
                add(f"pattern-literal:{name}:{ty}:{scrut}", p, expect="accept" if v <= hi else "reject")
    # ---- UNSUFFIXED literal patterns take the scrutinee's type: the type's largest value, the value of its top bit alone (2^63 for
    # uint64: beyond every signed type) and zero are three different patterns; one past the largest value is rejected
    for ty in BITS:
        lo, hi = rng_of(ty)
        TY = T(ty)
        top = (hi + 1) // 2
        for name, third in (("in-range", 0), ("max+1", hi + 1)):
            p = Program(f"c10_upat_{ty}_{name.replace('+', 'p').replace('-', '_')}")
            arms = [(PInt(hi, ty), Str("max")), (PInt(top, ty), Str("top")), (PInt(third, ty), Str("zero")), (PWild, Str("other"))]
            p.fn("cls", [("x", TY)], STRING, Match(Var("x"), arms))
            p.fn("main", [], UNIT, Block([println(Call("cls", lit(hi, ty))), println(Call("cls", lit(top, ty))), println(Call("cls", lit(0, ty))), println(Call("cls", lit(1, ty)))], Unit))
            add(f"unsuffixed-pattern-literal:{name}:{ty}", p, expect="accept" if third <= hi else "reject")
    # literal zero divisor with a variable dividend
    p = Program("c10_div_literal_zero")
    p.fn("main", [], UNIT, Block([Let("x", Int(5)), println(Str("before")), println(show_int(Bin("/", Var("x"), Int(0)))), println(Str("after"))], Unit))
    add("div-literal-zero", p, expect="accept")
    # a literal zero as the *other* operand: 0 / x still divides (and fails when x is zero at run time); 0 * x, x * 0, x + 0,
    # x - 0, 0 - x keep evaluating x and keep the width's arithmetic
    for ty in BITS:
        TY = T(ty)
        z = lambda: lit(0, ty)
        p = Program(f"c10_zero_operand_{ty}")
        p.fn("num", [("x", TY)], TY, Block([println(Str("num"))], Var("x")))
        p.fn("quot", [("x", TY)], TY, Bin("/", z(), Var("x")))
        p.fn("prodl", [("x", TY)], TY, Bin("*", z(), Call("num", Var("x"))))
        p.fn("prodr", [("x", TY)], TY, Bin("*", Call("num", Var("x")), z()))
        p.fn("negz", [("x", TY)], TY, Bin("-", z(), Var("x")))
        show = lambda e: println(Call(ty + "_to_string", e))
        p.fn("main", [], UNIT, Block([
            show(Call("quot", lit(3, ty))), show(Call("prodl", lit(3, ty))), show(Call("prodr", lit(5, ty))), show(Call("negz", lit(1, ty))),
            Let("zero", Bin("-", lit(5, ty), lit(5, ty)) if False else Call("num", lit(0, ty))),
            println(Str("before")), show(Call("quot", Var("zero"))), println(Str("after")),
        ], Unit))
        add(f"zero-literal-operand:{ty}", p, expect="accept")
    # mixed-width program: values keep their own widths
    p = Program("c10_mixed_widths")
    p.fn("main", [], UNIT, Block([
        Let("a", Int(200, "uint8", suffix=True)), Let("b", Int(100, "uint8", suffix=True)),
        Let("c", Int(100, "int8", suffix=True)), Let("d", Int(100, "int8", suffix=True)),
        println(Call("uint8_to_string", Bin("+", Var("a"), Var("b")))), println(Call("int8_to_string", Bin("+", Var("c"), Var("d")))),
        println(Call("bool_to_string", Bin(">", Var("a"), Var("b")))), println(Call("int8_to_string", Un("-", Var("c")))),
        Let("e", Int(4294967295, "uint32", suffix=True)), println(Call("uint32_to_string", Bin("+", Var("e"), Int(1, "uint32", suffix=True)))),
        Let("f", Int(9223372036854775807, "int64", suffix=True)), println(Call("int64_to_string", Bin("+", Var("f"), Int(1, "int64", suffix=True)))),
        Let("g", Int(18446744073709551615, "uint64", suffix=True)), println(Call("uint64_to_string", Bin("*", Var("g"), Var("g")))),
    ], Unit))
    add("mixed-widths", p, expect="accept")
    # ---- floats on the exactly representable (dyadic) fragment
    for ty in ("float32", "float64"):
        TY = T(ty)
        p = Program(f"c10_float_{ty}")
        p.fn("fadd", [("a", TY), ("b", TY)], TY, Bin("+", Var("a"), Var("b")))
        p.fn("fmul", [("a", TY), ("b", TY)], TY, Bin("*", Var("a"), Var("b")))
        p.fn("fdiv", [("a", TY), ("b", TY)], TY, Bin("/", Var("a"), Var("b")))
        p.fn("flt", [("a", TY), ("b", TY)], BOOL, Bin("<", Var("a"), Var("b")))
        F = lambda n, d: dict(Float(n, d, ty), suffix=True)
        p.fn("main", [], UNIT, Block([
            println(Call("bool_to_string", Call("flt", F(1, 2), F(3, 4)))),
            println(Call("bool_to_string", Bin("==", Call("fadd", F(1, 2), F(1, 4)), F(3, 4)))),
            println(Call("bool_to_string", Bin("==", Call("fmul", F(3, 2), F(5, 2)), F(15, 4)))),
            println(Call("bool_to_string", Bin("==", Call("fdiv", F(7, 1), F(2, 1)), F(7, 2)))),
            println(Call("bool_to_string", Bin(">=", Un("-", F(1, 2)), Un("-", F(3, 4))))),
        ], Unit))
        add(f"float-arith:{ty}", p, expect="accept")
        p = Program(f"c10_float_str_{ty}")
        p.fn("main", [], UNIT, Block([println(Call(ty + "_to_string", F(7, 2))), println(Call(ty + "_to_string", F(2, 1)))], Unit))
        add(f"float-to-string:{ty}", p, expect="accept")
    # ---- numeric literals that flow directly into `dyn Trait`.  The payload of a trait object is the only `any`-typed position of
    # the emitted Go; a Go constant stored there takes the constant's *default* type (`int` for 3, also for a float literal with an
    # integral value, which the Go printer writes without a decimal point) unless it is converted, and the wrapper's type
    # assertion then fails or the wrong implementation runs.  Dimensions: every numeric type x value class (floats: integral /
    # fractional values) x spelling (suffixed; unsuffixed at the two default types) x every position where goml coerces a
    # literal to `dyn` (annotated let, argument, tuple element, both branches of an if, match arms, constructor argument).
    NUM = list(BITS) + ["float32", "float64"]

    def dyn_program(name, ty, vals):
        p = Program(name)
        # the trait is written first (header), before the enum that mentions `dyn Shown`: goml resolves the trait of a `dyn` type
        # in declaration order and rejects `enum Held { Keep(dyn Shown) }` placed above `trait Shown` ("Unknown trait"; reported)
        p.header = "trait Shown {\n    fn show(Self) -> string;\n}\n"
        for t in NUM:
            p.impl("Shown", T(t), [("show", [("self", T(t))], STRING, Bin("+", Str(t + ":"), Call(t + "_to_string", Var("self"))))])
        D = TDyn("Shown")
        p.enum("Held", [("Keep", [D]), ("Nothing", [])])
        p.fn("via", [("d", D)], STRING, TCall("Shown", "show", Var("d")))
        p.fn("pick", [("c", BOOL)], STRING, Block([Let("d", If(Var("c"), ToDyn("Shown", vals[0]), ToDyn("Shown", vals[-1])), ty=D)], Call("via", Var("d"))))
        p.fn("arm", [("n", INT32)], STRING, Block([Let("d", Match(Var("n"), [(PInt(0), ToDyn("Shown", vals[0])), (PWild, ToDyn("Shown", vals[-1]))]), ty=D)],
                                                  Call("via", Var("d"))))
        body = []
        for i, v in enumerate(vals):
            body += [Let(f"d{i}", ToDyn("Shown", v), ty=D), println(TCall("Shown", "show", Var(f"d{i}"))),       # annotated let
                     println(Call("via", ToDyn("Shown", v))),                                                   # argument
                     Let(f"t{i}", Tuple(ToDyn("Shown", v), Int(i)), ty=TTuple(D, INT32)), println(Call("via", Proj(Var(f"t{i}"), 0))),
                     Let(f"k{i}", Ctor(TAdt("Held"), "Keep", ToDyn("Shown", v))),
                     println(Match(Var(f"k{i}"), [(PCtor("Keep", PVar("d")), Call("via", Var("d"))), (PCtor("Nothing"), Str("nothing"))]))]
        body += [println(Call("pick", Bool(True))), println(Call("pick", Bool(False))), println(Call("arm", Int(0))), println(Call("arm", Int(1)))]
        p.fn("main", [], UNIT, Block(body, Unit))
        return p

    for ty in NUM:
        if ty in BITS:
            lo, hi = rng_of(ty)
            classes = {"values": [0, 1, hi // 2 + 1, hi]}
            mk = lambda v, suf: Int(v, ty, suffix=suf)
        else:
            classes = {"integral": [(0, 1), (3, 1), (100, 1), (65536, 1)], "fractional": [(5, 2), (1, 2), (401, 4)]}
            mk = lambda v, suf: dict(Float(v[0], v[1], ty), suffix=suf)
        for cn, vs in classes.items():
            for sp in ("suffixed", "unsuffixed"):
                if sp == "unsuffixed" and ty not in ("int32", "float64"):
                    continue        # an unsuffixed literal has the default type (int32 / float64)
                p = dyn_program(f"c10_dynlit_{ty}_{cn}_{sp}", ty, [mk(v, sp == "suffixed") for v in vs])
                add(f"literal-to-dyn:{ty}:{cn}:{sp}", p, expect="accept")
    return out
