"""C08 family: capture sets x nesting x flows of function values x Ref mutation / shadowing after creation."""
import itertools
from gast import *

FN1 = TFn([INT32], INT32)
F = TAdt("F")
K = TAdt("K")


def prelude(p):
    p.struct("F", [("f", FN1)])
    p.enum("K", [("K1", [INT32]), ("K0", [])])
    p.fn("apply", [("f", FN1), ("x", INT32)], INT32, CallV(Var("f"), Var("x")))
    p.fn("top", [("x", INT32)], INT32, Bin("+", Var("x"), Int(500)))
    p.fn("top0", [], INT32, Int(77))
    p.enum("H", [("Hold", [FN1]), ("Empty", [])])
    p.fn("wrap_pair", [("q", TTuple(FN1, INT32))], TTuple(TTuple(FN1, INT32), INT32), Tuple(Var("q"), Int(2)))


def body_expr(caps):
    """a + weighted sum of the captured variables (distinct weights reveal which binder was captured)"""
    e = Var("a")
    w = {"p": 10, "l": 100, "m": 1000, "o": 10000}
    for c in caps:
        if c == "r":
            e = Bin("+", e, Bin("*", Call("ref_get", Var("r")), Int(100000)))
        else:
            e = Bin("+", e, Bin("*", Var(c), Int(w[c])))
    return e


def creation(caps, depth):
    """statements creating closure `c` (captures `caps`), nested `depth` closures deep; returns (stmts, closure var)"""
    inner = Lam([("a", INT32)], body_expr(caps))
    if "o" in caps or depth >= 2:
        # created inside an outer closure with parameter o, returned from it
        mk = Lam([("o", INT32)], Block([Let("c0", inner)], Var("c0")))
        if depth >= 3:
            mk2 = Lam([("z", INT32)], Block([Let("mk1", mk), Let("c1", CallV(Var("mk1"), Bin("+", Var("z"), Int(4))))], Var("c1")))
            stmts = [Let("mk2", mk2), Let("c", CallV(Var("mk2"), Int(1)))]
        else:
            stmts = [Let("mk", mk), Let("c", CallV(Var("mk"), Int(5)))]
    else:
        stmts = [Let("c", inner)]
    return stmts


def flow_stmts(flow):
    """use closure variable c; define int `res`"""
    if flow == "let":
        return [Let("res", CallV(Var("c"), Int(1)))]
    if flow == "tuple":
        return [Let("t", Tuple(Var("c"), Int(0))), Let(PTuple(PVar("g"), PWild), Var("t")), Let("res", CallV(Var("g"), Int(1)))]
    if flow == "struct":
        return [Let("s", Struct(F, [("f", Var("c"))])), Let("g", Field(Var("s"), "f")), Let("res", CallV(Var("g"), Int(1)))]
    if flow == "array":
        return [Let("arr", Array(Var("c"), FnRef("top"))), Let("g", Call("array_get", Var("arr"), Int(0)), ty=FN1), Let("h", Call("array_get", Var("arr"), Int(1)), ty=FN1),
                Let("res", Bin("+", CallV(Var("g"), Int(1)), CallV(Var("h"), Int(0))))]
    if flow == "arg":
        return [Let("res", Call("apply", Var("c"), Int(1)))]
    if flow == "branch":
        return [Let("g", If(Bin("<", Var("p"), Int(100)), Var("c"), FnRef("top")), ty=FN1), Let("res", CallV(Var("g"), Int(1)))]
    if flow == "match-result":
        return [Let("g", Match(Ctor(K, "K1", Int(0)), [(PCtor("K1", PWild), Var("c")), (PCtor("K0"), FnRef("top"))]), ty=FN1), Let("res", CallV(Var("g"), Int(1)))]
    if flow == "closure-in-closure":
        return [Let("d", Lam([("b", INT32)], Bin("+", CallV(Var("c"), Var("b")), Int(1)))), Let("res", CallV(Var("d"), Int(1)))]
    if flow == "nested-tuple":
        return [Let("t", Tuple(Tuple(Var("c"), Int(1)), Int(2))), Let(PTuple(PVar("inner"), PWild), Var("t")), Let(PTuple(PVar("g"), PVar("one")), Var("inner")),
                Let("res", CallV(Var("g"), Var("one")))]
    if flow == "nested-tuple-3":
        return [Let("t", Tuple(Int(0), Tuple(Int(1), Tuple(Var("c"), Int(2))))), Let(PTuple(PWild, PTuple(PWild, PTuple(PVar("g"), PVar("two")))), Var("t")),
                Let("res", CallV(Var("g"), Bin("-", Var("two"), Int(1))))]
    if flow == "tuple-from-function":
        return [Let("t", Call("wrap_pair", Tuple(Var("c"), Int(1)))), Let(PTuple(PVar("inner"), PWild), Var("t")), Let(PTuple(PVar("g"), PVar("one")), Var("inner")),
                Let("res", CallV(Var("g"), Var("one")))]
    if flow == "vec":
        return [Let("vs", Call("vec_push", Call("vec_new"), Var("c")), ty=TVec(FN1)), Let("g", Call("vec_get", Var("vs"), Int(0)), ty=FN1), Let("res", CallV(Var("g"), Int(1)))]
    if flow == "ref-cell":
        return [Let("cell", Call("ref", Var("c"))), Let("g", Call("ref_get", Var("cell"))), Let("res", CallV(Var("g"), Int(1)))]
    if flow == "enum-payload":
        return [Let("h", Ctor(TAdt("H"), "Hold", Var("c"))), Let("res", Match(Var("h"), [(PCtor("Hold", PVar("g")), CallV(Var("g"), Int(1))), (PCtor("Empty"), Int(0))]))]
    if flow == "mutate-then-call":
        return [Do(Call("ref_set", Var("r"), Int(7))), Let("res", CallV(Var("c"), Int(1)))]
    if flow == "shadow-then-call":
        return [Let("l", Int(9)), Let("p", Int(8)), Let("res", CallV(Var("c"), Int(1)))]
    if flow == "called-twice":
        return [Let("x1", CallV(Var("c"), Int(1))), Do(Call("ref_set", Var("r"), Int(4))), Let("res", Bin("+", Var("x1"), CallV(Var("c"), Int(2))))]
    raise ValueError(flow)


FLOWS = ["nested-tuple", "nested-tuple-3", "tuple-from-function", "vec", "ref-cell", "enum-payload", "let", "tuple", "struct", "array", "arg", "branch", "match-result", "closure-in-closure", "mutate-then-call", "shadow-then-call", "called-twice"]


def program(caps, depth, flow, idx):
    p = Program(f"c08_{idx}")
    prelude(p)
    stmts = [Let("l", Int(2)), Let("r", Call("ref", Int(3)))]
    cre = creation(caps, depth)
    use = flow_stmts(flow)
    if "m" in caps:
        # the closure is created inside a match arm and captures the pattern variable m
        inner = Block(cre + use, Var("res"))
        stmts.append(Let("out", Match(Ctor(K, "K1", Int(6)), [(PCtor("K1", PVar("m")), inner), (PCtor("K0"), Int(-1))]), ty=INT32))
        stmts.append(Var("out"))
        body = Block(stmts[:-1], Var("out"))
    else:
        body = Block(stmts + cre + use, Var("res"))
    p.fn("run", [("p", INT32)], INT32, body)
    p.fn("main", [], UNIT, Block([println(show_int(Call("run", Int(1)))), println(show_int(Call("run", Int(2))))], Unit))
    return p


def programs(tier):
    out = []
    kinds = ["p", "l", "m", "o", "r"]
    subsets = [c for n in (1, 2, 3, 5) for c in itertools.combinations(kinds, n)]
    idx = 0
    for caps in subsets:
        for flow in FLOWS:
            if flow in ("mutate-then-call", "called-twice") and "r" not in caps:
                continue
            if flow == "shadow-then-call" and not ({"l", "p"} & set(caps)):
                continue
            depths = [1] if "o" not in caps else [2]
            if len(caps) <= 2:
                depths = depths + [3]
            for depth in depths:
                if tier == "quick" and (idx % 3) and flow not in ("arg",):
                    idx += 1
                    continue
                idx += 1
                ident = f"c08:flow={flow}:caps={''.join(caps)}:depth={depth}"
                out.append({"prog": program(list(caps), depth, flow, idx), "family": "c08", "ident": ident})
    # ---- where inside the closure body the captured variable is used (capture analysis must visit every construct)
    def site_body(site, v):
        """expression of type int32 using captured variable v (int32) only at `site`"""
        if site == "match-default-arm":
            return Match(Var("a"), [(PInt(0), Int(1)), (PInt(1), Int(2)), (PWild, Bin("+", Var(v), Int(1000)))])
        if site == "match-literal-arm":
            return Match(Var("a"), [(PInt(5), Bin("+", Var(v), Int(2000))), (PWild, Int(3))])
        if site == "match-scrutinee":
            return Match(Bin("+", Var(v), Var("a")), [(PInt(0), Int(1)), (PWild, Int(4))])
        if site == "string-match-default":
            return Match(Call("int32_to_string", Var("a")), [(PStr("0"), Int(1)), (PWild, Bin("+", Var(v), Int(3000)))])
        if site == "enum-match-arm":
            return Match(Ctor(K, "K1", Var("a")), [(PCtor("K1", PVar("q")), Bin("+", Var(v), Var("q"))), (PCtor("K0"), Int(0))])
        if site == "if-else-branch":
            return If(Bin("<", Var("a"), Int(0)), Int(1), Bin("+", Var(v), Int(4000)))
        if site == "if-condition":
            return If(Bin("<", Var(v), Int(100)), Int(7), Int(8))
        if site == "while-condition":
            return Block([Let("i", Call("ref", Int(0))), Do(While(Bin("<", Call("ref_get", Var("i")), Var(v)), Block([Do(Call("ref_set", Var("i"), Bin("+", Call("ref_get", Var("i")), Int(1))))], Unit)))], Call("ref_get", Var("i")))
        if site == "nested-let":
            return Block([Let("u", Block([Let("w", Bin("*", Var(v), Int(2)))], Var("w")))], Bin("+", Var("u"), Var("a")))
        if site == "call-argument":
            return Call("top", Var(v))
        if site == "tuple-element":
            return Block([Let(PTuple(PVar("t0"), PWild), Tuple(Var(v), Var("a")))], Var("t0"))
        if site == "struct-field":
            return Field(Struct(TAdt("P2"), [("m", Var("a")), ("n", Var(v))]), "n")
        if site == "array-element":
            return Call("array_get", Array(Var("a"), Var(v)), Int(1))
        if site == "unary":
            return Un("-", Var(v))
        if site == "inner-closure":
            return Block([Let("inner", Lam([("z", INT32)], Bin("+", Var("z"), Var(v))))], CallV(Var("inner"), Var("a")))
        if site == "inner-closure-default-arm":
            return Block([Let("inner", Lam([("z", INT32)], Match(Var("z"), [(PInt(0), Int(1)), (PWild, Bin("+", Var(v), Int(5000)))])))], CallV(Var("inner"), Var("a")))
        raise ValueError(site)
    SITES = ["match-default-arm", "match-literal-arm", "match-scrutinee", "string-match-default", "enum-match-arm", "if-else-branch", "if-condition",
             "while-condition", "nested-let", "call-argument", "tuple-element", "struct-field", "array-element", "unary", "inner-closure",
             "inner-closure-default-arm"]
    for site in SITES:
        for capkind in ("let", "param"):
            p = Program(f"c08_site_{site.replace('-', '_')}_{capkind}")
            prelude(p)
            p.struct("P2", [("m", INT32), ("n", INT32)])
            v = "l" if capkind == "let" else "p"
            p.fn("run", [("p", INT32)], INT32, Block([Let("l", Int(2)), Let("c", Lam([("a", INT32)], site_body(site, v))), Let("r1", CallV(Var("c"), Int(1))), Let("r2", CallV(Var("c"), Int(5)))],
                                                   Bin("+", Bin("*", Var("r1"), Int(3)), Var("r2"))))
            p.fn("main", [], UNIT, Block([println(show_int(Call("run", Int(3))))], Unit))
            out.append({"prog": p, "family": "c08", "ident": f"c08:use-site={site}:captured={capkind}"})
    # captured *function-typed* variables used only as callee / only as argument / both, also inside nested closures
    for fkind in ("let-fnref", "param-fn"):
        for use in ("callee", "callee-twice", "argument", "callee-in-inner-closure", "callee-in-default-arm"):
            p = Program(f"c08_fncap_{fkind.replace('-', '_')}_{use.replace('-', '_')}")
            prelude(p)
            g = "op" if fkind == "let-fnref" else "f"
            if use == "callee":
                body = CallV(Var(g), Var("a"))
            elif use == "callee-twice":
                body = CallV(Var(g), CallV(Var(g), Var("a")))
            elif use == "argument":
                body = Call("apply", Var(g), Var("a"))
            elif use == "callee-in-inner-closure":
                body = Block([Let("inner", Lam([("z", INT32)], CallV(Var(g), Var("z"))))], CallV(Var("inner"), Var("a")))
            else:
                body = Match(Var("a"), [(PInt(0), Int(1)), (PWild, CallV(Var(g), Var("a")))])
            stmts = ([Let("op", FnRef("top"))] if fkind == "let-fnref" else []) + [Let("c", Lam([("a", INT32)], body)), Let("r", CallV(Var("c"), Int(4)))]
            p.fn("run", [("f", FN1)], INT32, Block(stmts, Var("r")))
            p.fn("main", [], UNIT, Block([println(show_int(Call("run", FnRef("top"))))], Unit))
            out.append({"prog": p, "family": "c08", "ident": f"c08:fn-typed-capture={fkind}:use={use}"})
    # top-level functions as values in every flow; zero-argument function value; returned closure
    for flow in ["let", "tuple", "struct", "array", "arg", "branch", "closure-in-closure"]:
        p = Program(f"c08_top_{flow.replace('-', '_')}")
        prelude(p)
        p.fn("run", [("p", INT32)], INT32, Block([Let("c", FnRef("top"), ty=FN1)] + flow_stmts(flow), Var("res")))
        p.fn("main", [], UNIT, Block([println(show_int(Call("run", Int(1))))], Unit))
        out.append({"prog": p, "family": "c08", "ident": f"c08:flow={flow}:toplevel-fn"})
    p = Program("c08_zero_arity")
    prelude(p)
    p.fn("main", [], UNIT, Block([Let("z", FnRef("top0"), ty=TFn([], INT32)), println(show_int(CallV(Var("z")))),
                                  Let("k", Int(3)), Let("y", Lam([], Bin("+", Var("k"), Int(1)))), println(show_int(CallV(Var("y"))))], Unit))
    out.append({"prog": p, "family": "c08", "ident": "c08:zero-arity"})
    p = Program("c08_returned")
    prelude(p)
    p.fn("make", [("p", INT32)], FN1, Block([Let("l", Int(2)), Let("r", Call("ref", Var("p")))],
                                             Lam([("a", INT32)], Block([Do(Call("ref_set", Var("r"), Bin("+", Call("ref_get", Var("r")), Int(1))))], Bin("+", Bin("+", Var("a"), Bin("*", Var("l"), Int(100))), Call("ref_get", Var("r")))))))
    p.fn("main", [], UNIT, Block([Let("c1", Call("make", Int(10))), Let("c2", Call("make", Int(20))),
                                  println(show_int(CallV(Var("c1"), Int(1)))), println(show_int(CallV(Var("c1"), Int(1)))), println(show_int(CallV(Var("c2"), Int(1)))), println(show_int(CallV(Var("c1"), Int(1))))], Unit))
    out.append({"prog": p, "family": "c08", "ident": "c08:returned-counter"})
    return out
